/-
  Cello/LifecycleMem.lean — the collector's *own* memory and the set-up / teardown paths (property C06, extension round).

  The ledger model (Cello/Lifecycle.lean) speaks about the managed objects.  "All memory returned by teardown" also
  covers what the collector allocates for itself: the entry table (`gc->entries`, replaced by every `GC_Rehash`) and the
  pending list (`gc->freelist`, `realloc`ed at the start of every `GC_Sweep`, released at its end, released once more by
  `GC_Del`).  The translator (translate/g_life.py) turns `GC_Rehash`, `GC_Sweep`, `GC_Del` into lists of statements
  (`CelloGen.Life.rehashProg/sweepProg/gcDelProg`) and `Thread_Init_Run`, `Cello_Exit`, the `main` macro into lists of
  steps (`threadRunProg/exitProg/mainProg`); this file gives every statement its effect on the three pointers involved
  and runs the *extracted* lists.  Theorems (Props/C06.lean) are about those runs.

  Pointer states: `null`, `live` (points to a block that is allocated), `dangling` (points to a block that was freed).
  `old` is `GC_Rehash`'s local `old_entries`; `alias` says that `old` and `entries` point to the same block (between
  `old_entries = gc->entries` and the `calloc`).  `leaked` = a live block lost its last pointer; `bad` = `free` of a
  dangling pointer (double free).  `allocs`/`frees` count table blocks.
-/
import CelloGen.Life

namespace Cello.Life.Mem
open CelloGen.Life

inductive PS where
  | null | live | dangling
deriving Repr, DecidableEq, Inhabited

structure MSt where
  entries : PS
  freelist : PS
  old : PS
  alias : Bool
  leaked : Bool
  bad : Bool
  /-- the thread-local slot `GC_TLS_KEY` refers to this collector -/
  tls : Bool
deriving Repr, DecidableEq, Inhabited

/-- a collector right after `GC_New` (zeroed block: `entries = NULL`; `freelist = NULL`; TLS slot set) -/
def MSt.init : MSt := ⟨.null, .null, .null, false, false, false, true⟩

/-- `free(p)` for a pointer in state `p`: new state of the pointer, and whether the call was a double free -/
def freePtr : PS → PS × Bool
  | .null => (.null, false)
  | .live => (.dangling, false)
  | .dangling => (.dangling, true)

/-- effect of one statement on the collector's own memory.  `releaseLoop`, `resizeLess`, `sweep` are calls: they are
    run by `runProg` below (they take parameters), not here. -/
def stmt (s : MSt) : MemStmt → MSt
  | .saveOld => { s with old := s.entries, alias := true, leaked := s.leaked || (s.old == .live && !s.alias) }
  | .callocEntries =>
    -- the pointer that is overwritten: its block is lost unless `old_entries` still points to it
    { s with entries := .live, alias := false, leaked := s.leaked || (s.entries == .live && !s.alias) }
  | .freeOld =>
    let r := freePtr s.old
    { s with old := r.1, entries := if s.alias then r.1 else s.entries, bad := s.bad || r.2 }
  | .reallocFreelist =>
    -- realloc(NULL, n) allocates; realloc(live, n) keeps one live block; realloc(dangling, n) is a use after free
    match s.freelist with
    | .dangling => { s with bad := true }
    | _ => { s with freelist := .live }
  | .freeFreelist => let r := freePtr s.freelist; { s with freelist := r.1, bad := s.bad || r.2 }
  | .nullFreelist => { s with freelist := .null, leaked := s.leaked || s.freelist == .live }
  | .freeEntries =>
    let r := freePtr s.entries
    { s with entries := r.1, old := if s.alias then r.1 else s.old, bad := s.bad || r.2 }
  | .remTls => { s with tls := false }
  | _ => s

def runPlain (s : MSt) (p : List MemStmt) : MSt := p.foldl stmt s

/-- `GC_Rehash` returns: its local `old_entries` goes out of scope — a block only it pointed to is lost -/
def scopeEnd (s : MSt) : MSt :=
  { s with old := .null, alias := false, leaked := s.leaked || (s.old == .live && !s.alias) }

/-- the three functions that own the tables, as statement lists -/
structure Progs where
  rehash : List MemStmt
  sweep : List MemStmt
  del : List MemStmt
deriving Repr, DecidableEq, Inhabited

/-- what the translator read from src/GC.c -/
def Progs.source : Progs := ⟨rehashProg, sweepProg, gcDelProg⟩

/-- `GC_Resize_More` / `GC_Resize_Less`: `GC_Rehash` when the ideal size differs in the respective direction (`go`) -/
def resize (P : Progs) (s : MSt) (go : Bool) : MSt := if go then scopeEnd (runPlain s P.rehash) else s

/-- the statements of `GC_Sweep` before its release loop / after it -/
def Progs.sweepPrologue (P : Progs) : List MemStmt := P.sweep.takeWhile (· != .releaseLoop)
def Progs.sweepEpilogue (P : Progs) : List MemStmt := (P.sweep.dropWhile (· != .releaseLoop)).drop 1

/-- the statements of `GC_Del` up to its `GC_Sweep` / after it -/
def Progs.delPrologue (P : Progs) : List MemStmt := P.del.takeWhile (· != .sweep)
def Progs.delEpilogue (P : Progs) : List MemStmt := (P.del.dropWhile (· != .sweep)).drop 1

/-- one statement of the straight-line part of `GC_Sweep`; `shrink` = `GC_Resize_Less` rehashes -/
def sweepStmt (P : Progs) (shrink : Bool) (s : MSt) : MemStmt → MSt
  | .resizeLess => resize P s shrink
  | st => stmt s st

/-- what happens to the collector's memory, event by event.  Destructors run by the release loop of a sweep may call
    `GC_Set` (`new` in a destructor), `GC_Rem` (`del` in a destructor) and so start nested sweeps: a history is any sequence
    of these events — bracketing is not required, the theorems hold for every sequence. -/
inductive Ev where
  /-- `GC_Set`: `GC_Resize_More` (rehashing iff `grow`), `GC_Set_Ptr` -/
  | set (grow : Bool)
  /-- `GC_Rem`: `GC_Rem_Ptr`, `GC_Resize_Less` (rehashing iff `shrink`) -/
  | rem (shrink : Bool)
  /-- `GC_Sweep` up to the start of its release loop -/
  | sweepBegin (shrink : Bool)
  /-- `GC_Sweep` after its release loop -/
  | sweepEnd
  /-- `GC_Del` up to the start of the release loop of its sweep -/
  | delBegin (shrink : Bool)
  /-- `GC_Del` from the end of that release loop on -/
  | delEnd
deriving Repr, DecidableEq, Inhabited

/-- the events of the collector's working life (everything but `GC_Del`) -/
def Ev.working : Ev → Bool
  | .delBegin _ | .delEnd => false
  | _ => true

def step (P : Progs) (s : MSt) : Ev → MSt
  | .set grow => resize P s grow
  | .rem shrink => resize P s shrink
  | .sweepBegin shrink => P.sweepPrologue.foldl (sweepStmt P shrink) s
  | .sweepEnd => runPlain s P.sweepEpilogue
  | .delBegin shrink => P.sweepPrologue.foldl (sweepStmt P shrink) (runPlain s P.delPrologue)
  | .delEnd => runPlain (runPlain s P.sweepEpilogue) P.delEpilogue

def run (P : Progs) (s : MSt) (evs : List Ev) : MSt := evs.foldl (step P) s

/-- number of table blocks that are allocated: what the harness counts through `--wrap=calloc/realloc/free` -/
def MSt.liveEntries (s : MSt) : Nat :=
  (if s.entries == .live then 1 else 0) + (if s.old == .live && !s.alias then 1 else 0) + (if s.leaked then 1 else 0)
def MSt.liveFreelist (s : MSt) : Nat := if s.freelist == .live then 1 else 0

/-- between operations: no double free, nothing lost, no dangling pointer, `GC_Rehash`'s local gone -/
def MSt.good (s : MSt) : Bool :=
  !s.bad && !s.leaked && s.entries != .dangling && s.freelist != .dangling && s.old == .null && !s.alias

/-- after `GC_Del`: no table block is left, none was freed twice, and the thread no longer refers to the collector -/
def MSt.released (s : MSt) : Bool :=
  !s.bad && !s.leaked && s.entries != .live && s.freelist != .live && s.old != .live && !s.tls

/-! ### set-up / teardown paths: `Thread_Init_Run`, `Cello_Exit`, the `main` macro -/

/-- what exists while a thread runs: its collector, its exception record, the argument tuple of a worker thread;
    `ok` = every step so far found what it needs -/
structure TSt where
  gc : Bool
  exc : Bool
  args : Bool
  /-- `atexit(Cello_Exit)` is registered -/
  hooked : Bool
  /-- the thread's function has run -/
  called : Bool
  ok : Bool
deriving Repr, DecidableEq, Inhabited

/-- a worker thread starts with its argument tuple (`Thread_Call`) and nothing else; the main thread's exception record
    is static (`main = true`) -/
def TSt.start (main : Bool) : TSt := ⟨false, main, !main, false, false, true⟩

def lifeStmt (s : TSt) : LifeStmt → TSt
  | .newGC => { s with gc := true, ok := s.ok && !s.gc }
  | .newExc => { s with exc := true, ok := s.ok && !s.exc }
  -- the thread's function allocates (needs the collector) and may throw/catch (needs the exception record)
  | .call => { s with called := true, ok := s.ok && s.gc && s.exc && !s.called }
  | .delArgs => { s with args := false, ok := s.ok && s.args && s.called }
  -- `GC_Del` runs the destructors of everything that is left: user code that may throw and catch
  | .delGC => { s with gc := false, ok := s.ok && s.gc && s.exc && s.called }
  | .delExc => { s with exc := false, ok := s.ok && s.exc && !s.gc }
  | .atExit => { s with hooked := true, ok := s.ok && s.gc }
  | _ => s

def runLife (s : TSt) (p : List LifeStmt) : TSt := p.foldl lifeStmt s

/-- a worker thread from start to end -/
def threadLife : TSt := runLife (TSt.start false) threadRunProg
/-- the main thread: the `main` macro, then — at exit, if the hook was registered — `Cello_Exit` -/
def mainLife : TSt :=
  let s := runLife (TSt.start true) mainProg
  if s.hooked then runLife s exitProg else s

end Cello.Life.Mem
