/-
  Cello/File.lean — executable model of Cello's `File` type (src/File.c, File_* only) over an abstract stdio, the
  `with` construct (include/Cello.h `with_in`, src/Start.c `start_in`/`stop_in`) and a small reference implementation
  of the part of stdio that File uses (byte file + position + end-of-file flag).

  Mirrors (after fix b3448e7):

    File_New    : if (len(args) > 0) File_Open(self, args[0], args[1])     (one argument: args[1] raises IndexOutOfBoundsError)
    File_Del    : if (f->file isnt NULL) File_Close(self)
    File_Open   : if (f->file isnt NULL) File_Close(self);  f->file = fopen(name, access);  NULL → throw IOError
    File_Close  : f->file is NULL → throw IOError;  err = fclose(f->file);  f->file = NULL;  err != 0 → throw IOError
    File_Seek / File_Tell / File_Flush / File_EOF / File_Read / File_Write / File_Format_To / File_Format_From :
                  f->file is NULL → throw IOError;  one stdio call;  error translation
    Instance(Start, NULL, File_Close, NULL) : stop = File_Close;  with(f in S) = the for loop of `with_in`, clause by clause
  (section "The `with` construct": `execStmt`, source expressions with side effects, break / continue / exception)

  `Process` (src/File.c, Process_*: the second Stream class of the same file) is the same code over `popen` / `pclose`:
  the translator checks that every Process_<X> except Process_New IS File_<X> under the renaming Process_→File_,
  p->proc→f->file, popen→fopen, pclose→fclose (CelloGen.File.procSameAsFile), so the wrappers below serve both kinds — for a
  Process the fields `fopen` / `fclose` of the abstract stdio stand for popen / pclose (`pclose` answers "failed" for every
  non-zero wait status) and `Cfg` holds the two facts fix 51c301c established about Process_Close.  What differs:
    Process_New : p->proc = NULL;  Process_Open(self, args[0], args[1])     (always opens; fewer than two arguments raise
                  IndexOutOfBoundsError before popen is reached)                                               → `procNew`
  and the reference library for pipes (`pipeIO`: a command is `true`, `false`, or `cat` of an input / into a sink).

  The File object is `Option Handle` (`none` = the FILE* is NULL).  Every wrapper returns the new library state, the
  new object, the outcome and **the list of stdio calls it made**; the properties of C20 are statements about
  these call lists.  Core Lean only (the driver links this file).
-/
namespace Cello.File

abbrev Byte := UInt8
abbrev Handle := Nat

inductive Exc where
  | IOError | FormatError | ValueError | IndexOutOfBoundsError
deriving DecidableEq, Repr, Inhabited

/-- outcome of a library call: a value, a Cello exception, or undefined behaviour in C (only the un-repaired code
    reaches `ub`) -/
inductive Out (α : Type) where
  | ok (v : α)
  | raised (e : Exc)
  | ub
deriving DecidableEq, Repr, Inhabited

inductive Mode where
  | r | w | a | rp | wp | bad
deriving DecidableEq, Repr, Inhabited

def Mode.canRead : Mode → Bool
  | .r | .rp | .wp => true
  | _ => false

def Mode.canWrite : Mode → Bool
  | .w | .a | .rp | .wp => true
  | _ => false

inductive Whence where
  | set | cur | end_ | bad
deriving DecidableEq, Repr, Inhabited

/-- the stdio functions src/File.c calls -/
inductive Fn where
  | fopen | fclose | fseek | ftell | fflush | feof | fread | fwrite | vfprintf | vfscanf
deriving DecidableEq, Repr, Inhabited

/-- one stdio call made by the library -/
inductive Call where
  | fopen (file : Nat) (mode : Mode) (res : Option Handle)
  | on (fn : Fn) (h : Handle)
  | onNull (fn : Fn)            -- a stdio function called with NULL: only the un-repaired File_Close does this
deriving DecidableEq, Repr, Inhabited

/-- **Abstract stdio**: the C library as File.c sees it.  `σ` is the state of the library and of the file system.
    `fread`/`fwrite` transfer ONE item of `size` bytes (File_Read/File_Write pass `(size, 1)`) and return the item count.
    `vfprintf` receives the already formatted text (the conversions are C14's subject); `vfscanfInt` is
    `vfscanf(f, "%li%n", …)` (`none` = fewer than one conversion), `vfscanfWs` is `vfscanf(f, " ")`. -/
structure Stdio (σ : Type) where
  fopen : σ → Nat → Mode → σ × Option Handle
  fclose : σ → Handle → σ × Bool
  fseek : σ → Handle → Int → Whence → σ × Bool
  ftell : σ → Handle → σ × Option Nat
  fflush : σ → Handle → σ × Bool
  feof : σ → Handle → σ × Bool
  fread : σ → Handle → Nat → σ × Nat × List Byte
  fwrite : σ → Handle → List Byte → σ × Nat
  vfprintf : σ → Handle → List Byte → σ × Int
  vfscanfInt : σ → Handle → σ × Option Int
  vfscanfWs : σ → Handle → σ

/-- the two facts about File_Close that fix b3448e7 established; read from the source by the translator
    (CelloGen.File.closeGuarded / closeDropsAlways) -/
structure Cfg where
  closeGuard : Bool     -- `if (f->file is NULL) throw(IOError …)` precedes fclose
  closeDrops : Bool     -- `f->file = NULL` is executed before the result of fclose is tested
deriving DecidableEq, Repr, Inhabited

def Cfg.fixed : Cfg := ⟨true, true⟩
def Cfg.preFix : Cfg := ⟨false, false⟩

/-- result of a wrapper: library state, the File object afterwards, outcome, stdio calls made (in order) -/
structure R (σ α : Type) where
  lib : σ
  f : Option Handle
  out : Out α
  calls : List Call

section Wrappers
variable {σ : Type} (io : Stdio σ)

/-- every wrapper starts with this when the File is not open -/
def refused {α : Type} (l : σ) : R σ α := ⟨l, none, .raised .IOError, []⟩

/-- File_Close -/
def fileClose (cfg : Cfg) (l : σ) (f : Option Handle) : R σ Unit :=
  match f with
  | none =>
    if cfg.closeGuard then refused l
    else ⟨l, none, .ub, [.onNull .fclose]⟩                      -- fclose(NULL)
  | some h =>
    let (l1, ok) := io.fclose l h
    if ok then ⟨l1, none, .ok (), [.on .fclose h]⟩
    else ⟨l1, if cfg.closeDrops then none else some h, .raised .IOError, [.on .fclose h]⟩

/-- File_Open (sopen): closes first when a handle is held -/
def fileOpen (cfg : Cfg) (l : σ) (f : Option Handle) (file : Nat) (m : Mode) : R σ Unit :=
  let c : R σ Unit := match f with
    | some _ => fileClose io cfg l f
    | none => ⟨l, none, .ok (), []⟩
  match c.out with
  | .ok _ =>
    let (l2, r) := io.fopen c.lib file m
    match r with
    | some h => ⟨l2, some h, .ok (), c.calls ++ [.fopen file m (some h)]⟩
    | none => ⟨l2, none, .raised .IOError, c.calls ++ [.fopen file m none]⟩
  | .raised e => ⟨c.lib, c.f, .raised e, c.calls⟩
  | .ub => ⟨c.lib, c.f, .ub, c.calls⟩

/-- File_Del (destruct): closes only when a handle is held -/
def fileDel (cfg : Cfg) (l : σ) (f : Option Handle) : R σ Unit :=
  match f with
  | some _ => fileClose io cfg l f
  | none => ⟨l, none, .ok (), []⟩

/-- File_New: `new(File)` or `new(File, name, access)` on zeroed memory -/
def fileNew (cfg : Cfg) (l : σ) (args : Option (Nat × Mode)) : R σ Unit :=
  match args with
  | none => ⟨l, none, .ok (), []⟩
  | some (file, m) => fileOpen io cfg l none file m

/-- Process_New: `p->proc = NULL; Process_Open(self, get(args, $I(0)), get(args, $I(1)))` — no test of `len(args)`: it
    always opens.  `none` = fewer than two constructor arguments: `get` on the argument tuple raises
    IndexOutOfBoundsError before Process_Open is entered (no popen, nothing held).  Process_Open is File_Open over
    popen / pclose (`io.fopen` / `io.fclose`). -/
def procNew (cfg : Cfg) (l : σ) (args : Option (Nat × Mode)) : R σ Unit :=
  match args with
  | none => ⟨l, none, .raised .IndexOutOfBoundsError, []⟩
  | some (cmd, m) => fileOpen io cfg l none cmd m

/-- File_Seek -/
def fileSeek (l : σ) (f : Option Handle) (off : Int) (wh : Whence) : R σ Unit :=
  match f with
  | none => refused l
  | some h =>
    let (l1, ok) := io.fseek l h off wh
    ⟨l1, some h, if ok then .ok () else .raised .IOError, [.on .fseek h]⟩

/-- File_Tell -/
def fileTell (l : σ) (f : Option Handle) : R σ Nat :=
  match f with
  | none => refused l
  | some h =>
    let (l1, r) := io.ftell l h
    ⟨l1, some h, match r with | some p => .ok p | none => .raised .IOError, [.on .ftell h]⟩

/-- File_Flush -/
def fileFlush (l : σ) (f : Option Handle) : R σ Unit :=
  match f with
  | none => refused l
  | some h =>
    let (l1, ok) := io.fflush l h
    ⟨l1, some h, if ok then .ok () else .raised .IOError, [.on .fflush h]⟩

/-- File_EOF -/
def fileEof (l : σ) (f : Option Handle) : R σ Bool :=
  match f with
  | none => refused l
  | some h =>
    let (l1, e) := io.feof l h
    ⟨l1, some h, .ok e, [.on .feof h]⟩

/-- File_Read: `num = fread(out, size, 1, f); if (num isnt 1 and size isnt 0 and not feof(f)) throw IOError`.
    The value is the item count and the bytes stored in the caller's buffer. -/
def fileRead (l : σ) (f : Option Handle) (size : Nat) : R σ (Nat × List Byte) :=
  match f with
  | none => refused l
  | some h =>
    let (l1, num, data) := io.fread l h size
    if num ≠ 1 ∧ size ≠ 0 then
      let (l2, e) := io.feof l1 h
      ⟨l2, some h, if e then .ok (num, data) else .raised .IOError, [.on .fread h, .on .feof h]⟩
    else ⟨l1, some h, .ok (num, data), [.on .fread h]⟩

/-- File_Write: `num = fwrite(in, size, 1, f); if (num isnt 1 and size isnt 0) throw IOError` -/
def fileWrite (l : σ) (f : Option Handle) (data : List Byte) : R σ Nat :=
  match f with
  | none => refused l
  | some h =>
    let (l1, num) := io.fwrite l h data
    ⟨l1, some h, if num ≠ 1 ∧ data.length ≠ 0 then .raised .IOError else .ok num, [.on .fwrite h]⟩

/-- `print_to(f, 0, fmt, …)` whose format scanner (C14) produced the text fragments `frags`: one
    `format_to` = File_Format_To = `vfprintf` per fragment; a negative result → FormatError.  Value: characters written. -/
def filePrintFrom (l : σ) (h : Handle) (pos : Int) (calls : List Call) : List (List Byte) → R σ Int
  | [] => ⟨l, some h, .ok pos, calls⟩
  | t :: ts =>
    let (l1, n) := io.vfprintf l h t
    if n < 0 then ⟨l1, some h, .raised .FormatError, calls ++ [.on .vfprintf h]⟩
    else filePrintFrom l1 h (pos + n) (calls ++ [.on .vfprintf h]) ts

def filePrint (l : σ) (f : Option Handle) (frags : List (List Byte)) : R σ Int :=
  match frags with
  | [] => ⟨l, f, .ok 0, []⟩                -- an empty format never reaches File_Format_To
  | t :: ts =>
    match f with
    | none => refused l
    | some h => filePrintFrom io l h 0 [] (t :: ts)

/-- `scan_from(f, 0, "%$ ", intObject)`: Int_Look → `vfscanf("%li%n")`, fewer than one conversion → FormatError;
    then the literal `" "` → `vfscanf(" ")` whose result is ignored. -/
def fileScanInt (l : σ) (f : Option Handle) : R σ Int :=
  match f with
  | none => refused l
  | some h =>
    let (l1, r) := io.vfscanfInt l h
    match r with
    | none => ⟨l1, some h, .raised .FormatError, [.on .vfscanf h]⟩
    | some v => ⟨io.vfscanfWs l1 h, some h, .ok v, [.on .vfscanf h, .on .vfscanf h]⟩

/-- what an operation hands back -/
inductive Val where
  | unit
  | nat (n : Nat)
  | int (i : Int)
  | bool (b : Bool)
  | data (num : Nat) (bytes : List Byte)
deriving DecidableEq, Repr, Inhabited

def Out.map {α β : Type} (g : α → β) : Out α → Out β
  | .ok v => .ok (g v)
  | .raised e => .raised e
  | .ub => .ub

def R.val {α : Type} (r : R σ α) (g : α → Val) : R σ Val := ⟨r.lib, r.f, r.out.map g, r.calls⟩

/-- operations on one File object (a history is a list of these) -/
inductive Op where
  | open (file : Nat) (mode : Mode)      -- sopen
  | close                                -- sclose
  | stop                                 -- stop(f): Start instance, = File_Close
  | withEnter                            -- start_in: File has no `start`, nothing happens
  | withExit                             -- stop_in at the normal end of a with block: File_Close
  | destruct                             -- File_Del, the first half of `del`
  | seek (off : Int) (wh : Whence)
  | tell | flush | eof
  | read (size : Nat)
  | write (data : List Byte)
  | print (frags : List (List Byte))
  | scanInt
deriving DecidableEq, Repr, Inhabited

/-- does the operation need an open File (every one except open / start_in / destruct / an empty print)?
    (print_to / scan_from check their ARGUMENTS before the File is looked at — src/Show.c print_to_with: too few arguments
    for the format raise FormatError whether or not the File is open; that is C14's subject.  `.print frags` stands for a
    call whose arguments were accepted and whose format produced `frags`.) -/
def Op.needsOpen : Op → Bool
  | .open _ _ | .withEnter | .destruct => false
  | .print [] => false
  | _ => true

def step (cfg : Cfg) (l : σ) (f : Option Handle) : Op → R σ Val
  | .open file m => (fileOpen io cfg l f file m).val (fun _ => .unit)
  | .close => (fileClose io cfg l f).val (fun _ => .unit)
  | .stop => (fileClose io cfg l f).val (fun _ => .unit)
  | .withEnter => ⟨l, f, .ok .unit, []⟩
  | .withExit => (fileClose io cfg l f).val (fun _ => .unit)
  | .destruct => (fileDel io cfg l f).val (fun _ => .unit)
  | .seek off wh => (fileSeek io l f off wh).val (fun _ => .unit)
  | .tell => (fileTell io l f).val .nat
  | .flush => (fileFlush io l f).val (fun _ => .unit)
  | .eof => (fileEof io l f).val .bool
  | .read n => (fileRead io l f n).val (fun p => .data p.1 p.2)
  | .write d => (fileWrite io l f d).val .nat
  | .print frags => (filePrint io l f frags).val .int
  | .scanInt => (fileScanInt io l f).val .int

/-- a history on one object: library state, object, and the log of all stdio calls so far -/
structure Hist (σ : Type) where
  lib : σ
  f : Option Handle
  log : List Call

def runOps (cfg : Cfg) : Hist σ → List Op → Hist σ
  | s, [] => s
  | s, op :: ops =>
    let r := step io cfg s.lib s.f op
    runOps cfg ⟨r.lib, r.f, s.log ++ r.calls⟩ ops

end Wrappers

/-! ### several File objects over one C library -/

/-- the File objects that exist (by name), the shared library state, and every stdio call made so far tagged with the
    object that made it -/
structure Multi (σ : Type) where
  lib : σ
  objs : List (Nat × Option Handle)
  log : List (Nat × Call)

inductive MOp where
  | new (args : Option (Nat × Mode))     -- `new(File)` / `new(File, name, access)` under a name that is free
  | new1 (file : Nat)                    -- `new(File, name)`: File_New's `get(args, $I(1))` on a one-element tuple raises
                                         -- IndexOutOfBoundsError before File_Open is entered
  | pnew (args : Option (Nat × Mode))    -- `new(Process, cmd, access)` under a name that is free (`none`: fewer than two
                                         -- arguments): Process_New always opens
  | del                                  -- `del`: File_Del, then the object is gone
  | op (op : Op)                         -- any operation on an existing object
  | copy (src : Nat)                     -- `copy(src)` bound to a name that is free: File has no Copy instance, so
                                         -- copy = assign(alloc(File), src) (src/Alloc.c copy)
  | assign (src : Nat)                   -- `assign(o, src)`: File has no Assign instance, so assign =
                                         -- memcpy(self, obj, size(File)) (src/Assign.c assign): the FILE* word is duplicated
deriving DecidableEq, Repr, Inhabited

section MultiOps
variable {σ : Type} (io : Stdio σ)

/-- assoc-list helpers (also used by the reference stdio below) -/
def lookup {α : Type} (k : Nat) : List (Nat × α) → Option α
  | [] => none
  | (k', v) :: rest => if k' = k then some v else lookup k rest

def erase {α : Type} (k : Nat) (l : List (Nat × α)) : List (Nat × α) := l.filter (fun p => p.1 ≠ k)

def insert {α : Type} (k : Nat) (v : α) (l : List (Nat × α)) : List (Nat × α) := (k, v) :: erase k l

/-- the handle object `o` holds (`none` also when there is no such object) -/
def Multi.held (s : Multi σ) (o : Nat) : Option Handle :=
  match lookup o s.objs with
  | some f => f
  | none => none

/-- what one operation on object `o` does: the wrapper result and whether the object exists afterwards;
    `none` = not applicable (the name is taken / there is no such object) -/
def Multi.stepR (cfg : Cfg) (s : Multi σ) (o : Nat) : MOp → Option (R σ Val × Bool)
  | .new args =>
    match lookup o s.objs with
    | some _ => none
    | none =>
      let r : R σ Val := (fileNew io cfg s.lib args).val (fun _ => .unit)
      some (r, match r.out with | .ok _ => true | _ => false)     -- a constructor that throws never returns the object
  | .new1 _ =>
    match lookup o s.objs with
    | some _ => none
    | none => some (⟨s.lib, none, .raised .IndexOutOfBoundsError, []⟩, false)   -- no stdio call, no object
  | .pnew args =>
    match lookup o s.objs with
    | some _ => none
    | none =>
      let r : R σ Val := (procNew io cfg s.lib args).val (fun _ => .unit)
      some (r, match r.out with | .ok _ => true | _ => false)
  | .del =>
    match lookup o s.objs with
    | none => none
    | some f => some (step io cfg s.lib f .destruct, false)
  | .op op =>
    match lookup o s.objs with
    | none => none
    | some f => some (step io cfg s.lib f op, true)
  | .copy src =>                         -- alloc gives zeroed memory, then the memcpy: no File_* function runs, no stdio call
    match lookup o s.objs, lookup src s.objs with
    | none, some f => some (⟨s.lib, f, .ok .unit, []⟩, true)
    | _, _ => none
  | .assign src =>                       -- memcpy over the target: the handle the target held is overwritten, not closed
    match lookup o s.objs, lookup src s.objs with
    | some _, some f => some (⟨s.lib, f, .ok .unit, []⟩, true)
    | _, _ => none

/-- **the region of known finding KF-C20-copy-aliases-handle**: does this step copy or assign a File while one of the
    two objects involved is open?  (`copy(src)` with src open: two objects then hold one FILE*; `assign(o, src)` with src
    open: the same; with `o` open: the handle `o` held is overwritten without fclose.) -/
def Multi.copiesOpen (s : Multi σ) (o : Nat) : MOp → Bool
  | .copy src => (s.held src).isSome
  | .assign src => (s.held src).isSome || (s.held o).isSome
  | _ => false

def Multi.apply (s : Multi σ) (o : Nat) (r : R σ Val) (keep : Bool) : Multi σ :=
  ⟨r.lib, if keep then insert o r.f s.objs else erase o s.objs, s.log ++ r.calls.map (fun c => (o, c))⟩

def Multi.step (cfg : Cfg) (s : Multi σ) (o : Nat) (m : MOp) : Multi σ :=
  match s.stepR io cfg o m with
  | none => s
  | some (r, keep) => s.apply o r keep

def Multi.run (cfg : Cfg) : Multi σ → List (Nat × MOp) → Multi σ
  | s, [] => s
  | s, (o, m) :: rest => Multi.run cfg (s.step io cfg o m) rest

/-- the hypothesis "no File object is copied / assigned while open", along a history -/
def Multi.cleanRun (cfg : Cfg) : Multi σ → List (Nat × MOp) → Bool
  | _, [] => true
  | s, (o, m) :: rest => !(s.copiesOpen o m) && Multi.cleanRun cfg (s.step io cfg o m) rest

/-- the calls of object `o` in a tagged log -/
def proj (o : Nat) (log : List (Nat × Call)) : List Call := (log.filter (fun p => p.1 = o)).map (fun p => p.2)

end MultiOps

/-! ### What a well-behaved call log looks like (the specification of "closes exactly once, never a stale handle")

  `track cur log` follows the log with the handle the object should be holding: a successful fopen is only allowed when
  nothing is held (so a handle is never dropped without fclose), every other call must be on exactly the handle
  produced by the latest successful fopen that has not been fclosed yet (never a stale handle, never NULL), and fclose
  ends that handle's life (so it cannot be closed twice). -/
def trackCall : Option Handle → Call → Option (Option Handle)
  | none, .fopen _ _ r => some r
  | some _, .fopen _ _ _ => none
  | some h, .on fn h' => if h' = h then (if fn = .fclose then some none else some (some h)) else none
  | none, .on _ _ => none
  | _, .onNull _ => none

def track : Option Handle → List Call → Option (Option Handle)
  | c, [] => some c
  | c, x :: xs => match trackCall c x with
    | some c' => track c' xs
    | none => none

def isOpenOk : Call → Bool
  | .fopen _ _ (some _) => true
  | _ => false

def isClose : Call → Bool
  | .on .fclose _ => true
  | _ => false

/-! ### The same specification over HANDLES instead of objects (what the C library sees)

  `track` follows the calls made on behalf of ONE object; it cannot see a handle that two objects hold.  `gtrack live log`
  follows the whole log of the process with the set of handles that are open (successfully fopened, not fclosed yet):
  every call other than fopen must be on a handle that is open — never NULL, never a handle that was fclosed — and
  fclose ends the handle's life, so that one fopen cannot face two fcloses.  `freshCalls` is the one thing the library
  is entitled to expect of stdio: fopen never hands out a handle that is still open. -/
def gstep : List Handle → Call → List Handle
  | live, .fopen _ _ (some h) => h :: live
  | live, .on .fclose h => live.erase h
  | live, _ => live

def gok : List Handle → Call → Bool
  | _, .fopen _ _ _ => true
  | live, .on _ h => live.contains h
  | _, .onNull _ => false

def gfresh : List Handle → Call → Bool
  | live, .fopen _ _ (some h) => !live.contains h
  | _, _ => true

def gtrack : List Handle → List Call → Option (List Handle)
  | live, [] => some live
  | live, c :: cs => if gok live c then gtrack (gstep live c) cs else none

def freshCalls : List Handle → List Call → Bool
  | _, [] => true
  | live, c :: cs => gfresh live c && freshCalls (gstep live c) cs

/-- the untagged log -/
def untag (log : List (Nat × Call)) : List Call := log.map (fun p => p.2)

/-! ### The `with` construct

  include/Cello.h:   #define with_in(X, S) for(var X = start_in(S); X isnt NULL; X = stop_in(X))
  src/Start.c:       start_in(self): call the type's `start` if it has one (File has none);  return self
                     stop_in(self):  call the type's `stop`  if it has one (File: File_Close); return NULL

  `with (f in S) { body }` is therefore a C `for` loop of three clauses, modelled clause by clause:
    init       var X = start_in(S)   the source expression S is evaluated HERE, once, and its value bound to X
    condition  X isnt NULL           true after the init clause, false after the step clause: the body runs once
    step       X = stop_in(X)        stops the object the loop variable holds; never looks at S again
  A body that falls off its end or executes `continue` reaches the step clause; `break`, `return` and an exception
  leave the loop without it (the stream stays open: that is what the macro does — known finding KF-C20-with-early-exit).  S is an expression and may have side effects:
  `with (f in new(File, $S(path), $S("w")))` (the idiom of the documentation of File and Show) constructs a File every
  time it is evaluated.  `WithCfg` records which expression the step clause hands to stop_in, as the translator reads
  it from the header; `WithCfg.reeval` is the variant `X = stop_in(S)`. -/

/-- the argument of stop_in in the step clause -/
inductive WArg where
  | bound        -- the loop variable X
  | source       -- the macro argument S: the source expression is evaluated a second time
deriving DecidableEq, Repr, Inhabited

structure WithCfg where
  stepArg : WArg
deriving DecidableEq, Repr, Inhabited

def WithCfg.fixed : WithCfg := ⟨.bound⟩
def WithCfg.reeval : WithCfg := ⟨.source⟩

/-- source expressions of `with` -/
inductive Src where
  | var (o : Nat)                                       -- a variable that holds an existing object: no side effect
  | newFile (name : Nat) (args : Option (Nat × Mode))   -- `new(File)` / `new(File, $S(path), $S(mode))` written in the
                                                        -- header, or a function that does this: EVERY evaluation
                                                        -- constructs a File (and opens the file when given arguments)
deriving DecidableEq, Repr, Inhabited

/-- how control leaves the body -/
inductive Leave where
  | fall | cont | brk | throw
  | ret                                   -- `return` (or `goto` to a label outside) from inside the body
deriving DecidableEq, Repr, Inhabited

/-- does the step clause run? -/
def Leave.runsStep : Leave → Bool
  | .fall | .cont => true
  | .brk | .throw | .ret => false

/-- statements: an operation on an object, or a with block (bodies nest) -/
inductive Stmt where
  | op (o : Nat) (m : MOp)
  | withIn (src : Src) (body : List Stmt) (leave : Leave)
deriving Repr, Inhabited

/-- what the loops did, in order -/
inductive WEv where
  | eval (src : Src) (res : Option Nat)   -- a source expression was evaluated; `none`: the constructor threw
  | start (x : Nat)                       -- start_in(x); the body is entered with X = x
  | stop (x : Nat)                        -- stop_in(x)
  | left (how : Leave)                    -- the loop was left by break / return / an exception: no step clause
deriving DecidableEq, Repr, Inhabited

/-- largest object name in use -/
def maxKey {α : Type} : List (Nat × α) → Nat
  | [] => 0
  | (k, _) :: rest => max k (maxKey rest)

/-- the name a newly constructed object gets: the one the program asks for when it is free, else an unused one
    (names stand for addresses: `new` never returns the address of an object that exists) -/
def freshName {α : Type} (objs : List (Nat × α)) (want : Nat) : Nat :=
  match lookup want objs with
  | none => want
  | some _ => maxKey objs + 1

/-- result of one clause: the system afterwards, the clause's value (`none` = NULL, or the clause was left by an
    exception), the outcome, the stdio calls and the loop events it produced -/
structure ClauseR (σ : Type) where
  m : Multi σ
  x : Option Nat
  out : Out Val
  calls : List Call
  evs : List WEv

section With
variable {σ : Type} (io : Stdio σ)

/-- one operation, also handing back what the wrapper returned (`none`: not applicable) -/
def Multi.stepO (cfg : Cfg) (s : Multi σ) (o : Nat) (m : MOp) : Multi σ × Option (R σ Val) :=
  match s.stepR io cfg o m with
  | none => (s, none)
  | some (r, keep) => (s.apply o r keep, some r)

/-- evaluate a source expression -/
def evalSrc (cfg : Cfg) (s : Multi σ) : Src → ClauseR σ
  | .var o =>
    match lookup o s.objs with
    | some _ => ⟨s, some o, .ok .unit, [], [.eval (.var o) (some o)]⟩
    | none => ⟨s, none, .ub, [], [.eval (.var o) none]⟩                -- a variable that holds no object
  | .newFile name args =>
    let n := freshName s.objs name
    match Multi.stepO io cfg s n (.new args) with
    | (s', some r) =>
      let res := match r.out with | .ok _ => some n | _ => none          -- a constructor that throws returns nothing
      ⟨s', res, r.out, r.calls, [.eval (.newFile name args) res]⟩
    | (s', none) => ⟨s', none, .ub, [], [.eval (.newFile name args) none]⟩

/-- init clause `var X = start_in(S)`: evaluate S; start_in calls the type's `start` (File has none: `Op.withEnter`
    makes no stdio call) and returns its argument -/
def initClause (cfg : Cfg) (s : Multi σ) (src : Src) : ClauseR σ :=
  let e := evalSrc io cfg s src
  match e.x with
  | none => e
  | some x => ⟨e.m.step io cfg x (.op .withEnter), some x, e.out, e.calls, e.evs ++ [.start x]⟩

/-- `stop_in(y)`: the type's `stop` (File_Close), then `return NULL` -/
def stopIn (cfg : Cfg) (s : Multi σ) (y : Nat) (calls0 : List Call) (evs0 : List WEv) : ClauseR σ :=
  match Multi.stepO io cfg s y (.op .withExit) with
  | (s', some r) => ⟨s', none, r.out, calls0 ++ r.calls, evs0 ++ [.stop y]⟩
  | (s', none) => ⟨s', none, .ub, calls0, evs0 ++ [.stop y]⟩

/-- step clause `X = stop_in(<stepArg>)` with X = `x` -/
def stepClause (cfg : Cfg) (w : WithCfg) (s : Multi σ) (src : Src) (x : Nat) : ClauseR σ :=
  match w.stepArg with
  | .bound => stopIn io cfg s x [] []
  | .source =>
    let e := evalSrc io cfg s src                        -- S again
    match e.x with
    | none => e                                          -- its constructor threw: the exception leaves the loop
    | some y => stopIn io cfg e.m y e.calls e.evs

/-- the system while a program runs: the objects and the library, and the events of the loops so far -/
structure WSys (σ : Type) where
  m : Multi σ
  ev : List WEv

mutual
/-- one statement.  A with block is the `for` loop: init clause; condition; body; then, unless the body was left by
    break / an exception, the step clause; the condition again (X is NULL now) ends the loop. -/
def execStmt (cfg : Cfg) (w : WithCfg) : Stmt → WSys σ → WSys σ
  | .op o m, s => ⟨s.m.step io cfg o m, s.ev⟩
  | .withIn src body leave, s =>
    let i := initClause io cfg s.m src
    match i.x with
    | none => ⟨i.m, s.ev ++ i.evs⟩                       -- the init clause threw: the loop is never entered
    | some x =>
      let b := execList cfg w body ⟨i.m, s.ev ++ i.evs⟩
      if leave.runsStep then
        let c := stepClause io cfg w b.m src x
        ⟨c.m, b.ev ++ c.evs⟩
      else ⟨b.m, b.ev ++ [.left leave]⟩
def execList (cfg : Cfg) (w : WithCfg) : List Stmt → WSys σ → WSys σ
  | [], s => s
  | st :: rest, s => execList cfg w rest (execStmt cfg w st s)
end

mutual
/-- the hypothesis "no File object is copied / assigned while open", along a program (the clauses of `with` never copy) -/
def cleanStmt (cfg : Cfg) (w : WithCfg) : Stmt → WSys σ → Bool
  | .op o m, s => !(s.m.copiesOpen o m)
  | .withIn src body _, s =>
    let i := initClause io cfg s.m src
    match i.x with
    | none => true
    | some _ => cleanList cfg w body ⟨i.m, s.ev ++ i.evs⟩
def cleanList (cfg : Cfg) (w : WithCfg) : List Stmt → WSys σ → Bool
  | [], _ => true
  | st :: rest, s => cleanStmt cfg w st s && cleanList cfg w rest (execStmt io cfg w st s)
end

end With

/-- **What a well-formed run of with blocks looks like.**  State: the loop variables of the blocks being executed
    (innermost first) and the value an init clause has just evaluated.  Every evaluation that yields an object is
    followed at once by start_in of exactly that object (so an evaluation in a step clause is rejected: the source
    expression is evaluated once per block), every stop_in is on the loop variable of the innermost block and ends it,
    break / exception end it without stop_in. -/
def wtrackEv : List Nat × Option Nat → WEv → Option (List Nat × Option Nat)
  | (st, none), .eval _ none => some (st, none)
  | (st, none), .eval _ (some x) => some (st, some x)
  | (st, some x), .start y => if y = x then some (x :: st, none) else none
  | (x :: st, none), .stop y => if y = x then some (st, none) else none
  | (_ :: st, none), .left _ => some (st, none)
  | _, _ => none

def wtrack : List Nat × Option Nat → List WEv → Option (List Nat × Option Nat)
  | c, [] => some c
  | c, e :: es => match wtrackEv c e with
    | some c' => wtrack c' es
    | none => none

def isEval : WEv → Bool
  | .eval _ _ => true
  | _ => false

def isStart : WEv → Bool
  | .start _ => true
  | _ => false

def isEvalFail : WEv → Bool
  | .eval _ none => true
  | _ => false

/-- a block was left: by its step clause, or by break / an exception -/
def isExit : WEv → Bool
  | .stop _ => true
  | .left _ => true
  | _ => false

/-! ### Reference stdio: byte files, positions, end-of-file flags -/

inductive Dir where
  | none | rd | wr
deriving DecidableEq, Repr, Inhabited

structure Stream where
  file : Nat
  mode : Mode
  pos : Nat          -- for the device /dev/full: number of bytes waiting in the buffer
  eof : Bool
  last : Dir         -- direction of the last transfer (C11 7.21.5.3p7: a switch needs a positioning call in between)
deriving DecidableEq, Repr, Inhabited

/-- file names: 90 = a path inside a directory that does not exist, 91 = /dev/full, everything else a regular file -/
def fileNoDir : Nat := 90
def fileFull : Nat := 91

structure Ref where
  files : List (Nat × List Byte)       -- the regular files that exist
  streams : List (Handle × Stream)     -- the open streams
  next : Handle                        -- id given to the next successful fopen
deriving DecidableEq, Repr, Inhabited

def Ref.init : Ref := ⟨[], [], 1⟩

def Ref.content (l : Ref) (k : Nat) : List Byte := (lookup k l.files).getD []

/-- write `d` at offset `p`, padding a gap with zero bytes -/
def overwrite (c : List Byte) (p : Nat) (d : List Byte) : List Byte :=
  (c ++ List.replicate (p - c.length) 0).take p ++ d ++ c.drop (p + d.length)

def isSpace (b : Byte) : Bool := b = 32 || (9 ≤ b && b ≤ 13)
def isDigit (b : Byte) : Bool := 48 ≤ b && b ≤ 57

def digitsVal (ds : List Byte) : Nat := ds.foldl (fun acc d => acc * 10 + (d.toNat - 48)) 0

def Ref.setStream (l : Ref) (h : Handle) (s : Stream) : Ref := { l with streams := insert h s l.streams }

namespace Ref

def fopen (l : Ref) (k : Nat) (m : Mode) : Ref × Option Handle :=
  let mk (files : List (Nat × List Byte)) (pos : Nat) : Ref × Option Handle :=
    (⟨files, insert l.next ⟨k, m, pos, false, .none⟩ l.streams, l.next + 1⟩, some l.next)
  if m = .bad then (l, none)
  else if k = fileNoDir then (l, none)
  else if k = fileFull then mk l.files 0
  else match m, lookup k l.files with
    | .r, some _ => mk l.files 0
    | .rp, some _ => mk l.files 0
    | .r, none => (l, none)
    | .rp, none => (l, none)
    | .w, _ => mk (insert k [] l.files) 0
    | .wp, _ => mk (insert k [] l.files) 0
    | .a, some c => mk l.files c.length
    | .a, none => mk (insert k [] l.files) 0
    | .bad, _ => (l, none)

def fclose (l : Ref) (h : Handle) : Ref × Bool :=
  match lookup h l.streams with
  | none => (l, false)
  | some s => ({ l with streams := erase h l.streams }, !(s.file = fileFull && s.pos > 0))

def fseek (l : Ref) (h : Handle) (off : Int) (wh : Whence) : Ref × Bool :=
  match lookup h l.streams with
  | none => (l, false)
  | some s =>
    if s.file = fileFull then (l, false) else
    let len : Int := (l.content s.file).length
    let target : Int := match wh with
      | .set => off
      | .cur => (s.pos : Int) + off
      | .end_ => len + off
      | .bad => -1
    if target < 0 then (l, false)
    else (l.setStream h { s with pos := target.toNat, eof := false, last := .none }, true)

def ftell (l : Ref) (h : Handle) : Ref × Option Nat :=
  match lookup h l.streams with
  | none => (l, none)
  | some s => (l, some s.pos)

def fflush (l : Ref) (h : Handle) : Ref × Bool :=
  match lookup h l.streams with
  | none => (l, false)
  | some s =>
    let last := if s.last = .wr then Dir.none else s.last
    if s.file = fileFull then (l.setStream h { s with pos := 0, last := last }, s.pos = 0)   -- a failed flush drops the buffer
    else (l.setStream h { s with last := last }, true)

def feof (l : Ref) (h : Handle) : Ref × Bool :=
  match lookup h l.streams with
  | none => (l, true)
  | some s => (l, s.eof)

/-- `fread(buf, size, 1, f)` -/
def fread (l : Ref) (h : Handle) (size : Nat) : Ref × Nat × List Byte :=
  match lookup h l.streams with
  | none => (l, 0, [])
  | some s =>
    if size = 0 || !s.mode.canRead || s.file = fileFull then (l, 0, [])
    else
      let rest := (l.content s.file).drop s.pos
      if size ≤ rest.length then
        (l.setStream h { s with pos := s.pos + size, last := .rd }, 1, rest.take size)
      else
        (l.setStream h { s with pos := s.pos + rest.length, eof := true, last := .rd }, 0, rest)

/-- `fwrite(buf, size, 1, f)` -/
def fwrite (l : Ref) (h : Handle) (d : List Byte) : Ref × Nat :=
  match lookup h l.streams with
  | none => (l, 0)
  | some s =>
    if d.length = 0 || !s.mode.canWrite then (l, 0)
    else if s.file = fileFull then (l.setStream h { s with pos := s.pos + d.length, last := .wr }, 1)
    else
      let c := l.content s.file
      let p := if s.mode = .a then c.length else s.pos
      ({ l with files := insert s.file (overwrite c p d) l.files,
                streams := insert h { s with pos := p + d.length, last := .wr } l.streams }, 1)

def vfprintf (l : Ref) (h : Handle) (t : List Byte) : Ref × Int :=
  match lookup h l.streams with
  | none => (l, -1)
  | some s =>
    if !s.mode.canWrite then (l, -1)
    else if t.length = 0 then (l, 0)
    else ((fwrite l h t).1, t.length)

/-- result of matching `%li` restricted to plain decimal text, on the bytes after the stream position:
    (bytes consumed, hit the end of the file, value) -/
def scanDec (rest : List Byte) : Nat × Bool × Option Int :=
  let ws := rest.takeWhile isSpace
  let after := rest.drop ws.length
  match after with
  | [] => (ws.length, true, none)
  | c :: tl =>
    let signed := c = 43 || c = 45
    let body := if signed then tl else after
    let ds := body.takeWhile isDigit
    let sl := if signed then 1 else 0
    if ds.length = 0 then (ws.length + sl, body.length = 0, none)
    else
      let v : Int := digitsVal ds
      (ws.length + sl + ds.length, (body.drop ds.length).length = 0, some (if c = 45 then -v else v))

def vfscanfInt (l : Ref) (h : Handle) : Ref × Option Int :=
  match lookup h l.streams with
  | none => (l, none)
  | some s =>
    if !s.mode.canRead || s.file = fileFull then (l, none)
    else
      let (n, hitEnd, v) := scanDec ((l.content s.file).drop s.pos)
      (l.setStream h { s with pos := s.pos + n, eof := s.eof || hitEnd, last := .rd }, v)

def vfscanfWs (l : Ref) (h : Handle) : Ref :=
  match lookup h l.streams with
  | none => l
  | some s =>
    if !s.mode.canRead || s.file = fileFull then l
    else
      let rest := (l.content s.file).drop s.pos
      let ws := rest.takeWhile isSpace
      l.setStream h { s with pos := s.pos + ws.length, eof := s.eof || (rest.drop ws.length).length = 0, last := .rd }

end Ref

/-- the reference stdio as an instance of the abstract one -/
def refIO : Stdio Ref where
  fopen := Ref.fopen
  fclose := Ref.fclose
  fseek := Ref.fseek
  ftell := Ref.ftell
  fflush := Ref.fflush
  feof := Ref.feof
  fread := Ref.fread
  fwrite := Ref.fwrite
  vfprintf := Ref.vfprintf
  vfscanfInt := Ref.vfscanfInt
  vfscanfWs := Ref.vfscanfWs

/-! ### Reference library for pipes: what `popen` / `pclose` and stdio on a pipe do for the commands the harness runs

  Commands (the `file` argument of `fopen`, which for a Process is popen's command): 0 = `true`, 1 = `false`,
  10+k = `cat` — reading mode: `cat <input k>` (the bytes of input k come through the pipe), writing mode: `cat > <sink k>`.
  popen accepts the modes "r" and "w" only (anything else: NULL, EINVAL).  pclose answers the command's wait status: only
  `false` ends with a non-zero one.  A pipe cannot seek: fseek fails, ftell answers -1.  Transfers in the direction the pipe
  was not opened for fail.  (The harness reads an input pipe to its end before the real pclose, so that `cat` is never
  killed by SIGPIPE; writes go only to `cat` sinks.) -/

def cmdTrue : Nat := 0
def cmdFalse : Nat := 1
def cmdCat : Nat := 10
def nPipeIn : Nat := 4

structure PStream where
  cmd : Nat
  mode : Mode
  data : List Byte      -- reading mode: what the command prints; writing mode: what it has been sent so far
  pos : Nat             -- reading mode: bytes delivered
  eof : Bool
deriving DecidableEq, Repr, Inhabited

structure PRef where
  inputs : List (Nat × List Byte)       -- the input files of `cat`
  streams : List (Handle × PStream)
  next : Handle
deriving DecidableEq, Repr, Inhabited

def PRef.init : PRef := ⟨[], [], 1⟩

def cmdKnown (c : Nat) : Bool := c = cmdTrue || c = cmdFalse || (cmdCat ≤ c && c < cmdCat + nPipeIn)

def PRef.setStream (l : PRef) (h : Handle) (s : PStream) : PRef := { l with streams := insert h s l.streams }

namespace PRef

/-- popen -/
def popen (l : PRef) (c : Nat) (m : Mode) : PRef × Option Handle :=
  if !(m = .r || m = .w) || !cmdKnown c then (l, none)
  else
    let out : List Byte := if m = .r && cmdCat ≤ c then (lookup (c - cmdCat) l.inputs).getD [] else []
    (⟨l.inputs, insert l.next ⟨c, m, out, 0, false⟩ l.streams, l.next + 1⟩, some l.next)

/-- pclose: `true` = wait status 0 -/
def pclose (l : PRef) (h : Handle) : PRef × Bool :=
  match lookup h l.streams with
  | none => (l, false)
  | some s => ({ l with streams := erase h l.streams }, s.cmd ≠ cmdFalse)

def fseek (l : PRef) (_ : Handle) (_ : Int) (_ : Whence) : PRef × Bool := (l, false)      -- ESPIPE
def ftell (l : PRef) (_ : Handle) : PRef × Option Nat := (l, none)                        -- ESPIPE
def fflush (l : PRef) (h : Handle) : PRef × Bool := (l, (lookup h l.streams).isSome)

def feof (l : PRef) (h : Handle) : PRef × Bool :=
  match lookup h l.streams with
  | none => (l, true)
  | some s => (l, s.eof)

def fread (l : PRef) (h : Handle) (size : Nat) : PRef × Nat × List Byte :=
  match lookup h l.streams with
  | none => (l, 0, [])
  | some s =>
    if size = 0 || s.mode ≠ .r then (l, 0, [])
    else
      let rest := s.data.drop s.pos
      if size ≤ rest.length then (l.setStream h { s with pos := s.pos + size }, 1, rest.take size)
      else (l.setStream h { s with pos := s.pos + rest.length, eof := true }, 0, rest)

def fwrite (l : PRef) (h : Handle) (d : List Byte) : PRef × Nat :=
  match lookup h l.streams with
  | none => (l, 0)
  | some s =>
    if d.length = 0 || s.mode ≠ .w then (l, 0)
    else (l.setStream h { s with data := s.data ++ d }, 1)

def vfprintf (l : PRef) (h : Handle) (t : List Byte) : PRef × Int :=
  match lookup h l.streams with
  | none => (l, -1)
  | some s =>
    if s.mode ≠ .w then (l, -1)
    else if t.length = 0 then (l, 0)
    else ((fwrite l h t).1, t.length)

end PRef

/-- the reference pipe library as an instance of the abstract stdio: `fopen` is popen, `fclose` is pclose (scan_from on an
    open pipe is not modelled: neither side executes it) -/
def pipeIO : Stdio PRef where
  fopen := PRef.popen
  fclose := PRef.pclose
  fseek := PRef.fseek
  ftell := PRef.ftell
  fflush := PRef.fflush
  feof := PRef.feof
  fread := PRef.fread
  fwrite := PRef.fwrite
  vfprintf := PRef.vfprintf
  vfscanfInt := fun l _ => (l, none)
  vfscanfWs := fun l _ => l

/-! ### sequences of writes and reads (the chunkings of C20) -/

section Chunks
variable {σ : Type} (io : Stdio σ)

/-- swrite each chunk in turn; collects the outcomes -/
def writeAll (l : σ) (f : Option Handle) : List (List Byte) → σ × List (Out Nat)
  | [] => (l, [])
  | c :: cs =>
    let r := fileWrite io l f c
    let (l', outs) := writeAll r.lib f cs
    (l', r.out :: outs)

/-- sread with each size in turn; collects the outcomes -/
def readAll (l : σ) (f : Option Handle) : List Nat → σ × List (Out (Nat × List Byte))
  | [] => (l, [])
  | n :: ns =>
    let r := fileRead io l f n
    let (l', outs) := readAll r.lib f ns
    (l', r.out :: outs)

/-- the bytes delivered by a list of read outcomes -/
def delivered : List (Out (Nat × List Byte)) → List Byte
  | [] => []
  | .ok (_, d) :: rest => d ++ delivered rest
  | _ :: rest => delivered rest

end Chunks

/-! ### protocol helpers shared with harness/h_file.c -/

def genByte (seed i : UInt64) : Byte :=
  let z : UInt64 := seed * 0x9E3779B97F4A7C15 + i * 0xBF58476D1CE4E5B9 + 0x94D049BB133111EB
  let z := z ^^^ (z >>> 29)
  let z := z * 0xBF58476D1CE4E5B9
  let z := z ^^^ (z >>> 32)
  if (z >>> 8) &&& 3 = 0 then 0 else z.toUInt8

def genBytes (len : Nat) (seed : UInt64) : List Byte := (List.range len).map (fun i => genByte seed i.toUInt64)

def fnv (bs : List Byte) : UInt64 :=
  bs.foldl (fun h b => (h ^^^ b.toUInt64) * 1099511628211) 14695981039346656037

def decimal (n : Int) : List Byte := (toString n).toUTF8.toList

/-- the fragments `print_to(f, 0, "%$ ", $I(n))` sends to File_Format_To -/
def printIntFrags (n : Int) : List (List Byte) := [decimal n, [32]]

/-- the part of `%li` the reference models: optional sign, decimal digits without a leading zero (no octal / hex),
    at most 18 digits (no overflow clamping) -/
def scanSupported (rest : List Byte) : Bool :=
  let ws := rest.takeWhile isSpace
  let after := rest.drop ws.length
  match after with
  | [] => true
  | c :: tl =>
    let body := if c = 43 || c = 45 then tl else after
    let ds := body.takeWhile isDigit
    let nxt := body.drop ds.length
    if ds.length = 0 then true
    else if ds.length > 18 then false
    else match ds, nxt with
      | 48 :: _ :: _, _ => false
      | [48], x :: _ => !(x = 120 || x = 88)
      | _, _ => true

def parseMode (s : String) : Option Mode :=
  if s = "r" || s = "rb" then some .r
  else if s = "w" || s = "wb" then some .w
  else if s = "a" || s = "ab" then some .a
  else if s = "r+" || s = "r+b" || s = "rb+" then some .rp
  else if s = "w+" || s = "w+b" || s = "wb+" then some .wp
  else if s = "x" then some .bad
  else none

def parseWhence (s : String) : Option Whence :=
  if s = "set" then some .set else if s = "cur" then some .cur else if s = "end" then some .end_
  else if s = "bad" then some .bad else none

def Exc.name : Exc → String
  | .IOError => "IOError"
  | .FormatError => "FormatError"
  | .ValueError => "ValueError"
  | .IndexOutOfBoundsError => "IndexOutOfBoundsError"

def Fn.name : Fn → String
  | .fopen => "fopen" | .fclose => "fclose" | .fseek => "fseek" | .ftell => "ftell" | .fflush => "fflush"
  | .feof => "feof" | .fread => "fread" | .fwrite => "fwrite" | .vfprintf => "vfprintf" | .vfscanf => "vfscanf"

def Call.show : Call → String
  | .fopen _ _ (some h) => s!"fopen:{h}"
  | .fopen _ _ none => "fopen:fail"
  | .on fn h => s!"{fn.name}:{h}"
  | .onNull fn => s!"{fn.name}:NULL"

def showCalls (cs : List Call) : String := if cs.isEmpty then "-" else ",".intercalate (cs.map Call.show)

/-- the same for a Process: `fopen` / `fclose` are popen / pclose, pipe handles are written `p<id>` -/
def Fn.pname : Fn → String
  | .fopen => "popen" | .fclose => "pclose" | fn => fn.name

def Call.showP : Call → String
  | .fopen _ _ (some h) => s!"popen:p{h}"
  | .fopen _ _ none => "popen:fail"
  | .on fn h => s!"{fn.pname}:p{h}"
  | .onNull fn => s!"{fn.pname}:NULL"

def showCallsP (cs : List Call) : String := if cs.isEmpty then "-" else ",".intercalate (cs.map Call.showP)

/-- which stdio function each `File_*` wrapper of src/File.c calls first (compared with the table the translator
    extracts from the source, in the translator's (alphabetical) order: C20_guard_table) -/
def modelledWrappers : List (String × List String) :=
  [("File_Close", ["fclose"]), ("File_EOF", ["feof"]), ("File_Flush", ["fflush"]), ("File_Format_From", ["vfscanf"]),
   ("File_Format_To", ["vfprintf"]), ("File_Read", ["fread", "feof"]), ("File_Seek", ["fseek"]), ("File_Tell", ["ftell"]),
   ("File_Write", ["fwrite"])]

/-- the same table for the `Process_*` wrappers (C20_process_guard_table) -/
def modelledProcWrappers : List (String × List String) :=
  [("Process_Close", ["pclose"]), ("Process_EOF", ["feof"]), ("Process_Flush", ["fflush"]), ("Process_Format_From", ["vfscanf"]),
   ("Process_Format_To", ["vfprintf"]), ("Process_Read", ["fread", "feof"]), ("Process_Seek", ["fseek"]), ("Process_Tell", ["ftell"]),
   ("Process_Write", ["fwrite"])]

/-- the functions that are the same text in both classes (all but the constructor) -/
def sharedWrappers : List String :=
  ["Process_Close", "Process_Del", "Process_EOF", "Process_Flush", "Process_Format_From", "Process_Format_To", "Process_Open",
   "Process_Read", "Process_Seek", "Process_Tell", "Process_Write"]

end Cello.File
