/-
  Cello/ExnSignal.lean — extension round of engine `exn` (C07): the parts of src/Exception.c around the machine of
  Cello/Exn.lean that its users meet through the public API.

  1. Signals as exceptions.  `exception_signals()` registers `Exception_Signal` for six signals with `signal()`;
     `Exception_Signal(sig)` is `switch(sig) { case SIGx: throw(<Exc>, "<message>"); … }`.  For the machine a delivered
     signal is a `throw` of the object the table names (`sigObj`: addresses 15 … 20, Type objects with names of their own in
     `harnessWorld`).  What the machine of Cello/Exn.lean does not know is the thread's SIGNAL MASK: `signal()` (BSD
     semantics in glibc) blocks the signal while its handler runs and restores the mask when the handler RETURNS —
     `Exception_Signal` never returns, it leaves through `longjmp` (`setjmp`/`longjmp` do not save or restore the mask), so
     the signal stays blocked in that thread: a second `raise` of it is left pending and its `raise()` returns as if nothing
     had happened (finding KF-C07-signal-once).  `SigSt` = the record + the mask; `stepS` = one construct
     `try { raise(sig); s1 } catch (e in filter) { handler }`; `runS` = a history of them in one thread.
     `unblocks` = the translator's `CelloGen.Exn.signalHandlerUnblocks` (false now; true once the handler re-opens the mask).

  2. The uncaught-exception report.  `Exception_Error` is a list of `print_to($(File, stderr), 0, fmt[, e->obj | e->msg])`
     calls, `Exception_Backtrace()`, `exit(EXIT_FAILURE)`; the translator turns it into a statement list with the formats
     cut into segments (`CelloGen.Exn.errorStmts`).  `reportParts` interprets that list: the pieces written to stderr, in
     order; `reportStatus` the exit status; `reportTraceLast` = the backtrace comes after every line of the report.
-/
import Cello.Exn

namespace Cello.Exn

/-! ### 1. signals -/

def nSignals : Nat := 6

/-- the signals by index, and the exception objects the model expects them to become -/
def sigNames : List String := ["SIGABRT", "SIGFPE", "SIGILL", "SIGINT", "SIGSEGV", "SIGTERM"]
def sigExcNames : List String :=
  ["ProgramAbortedError", "DivisionByZeroError", "IllegalInstructionError", "ProgramInterruptedError",
   "SegmentationError", "ProgramTerminationError"]
def sigMessages : List String :=
  ["Program Aborted", "Division by Zero", "Illegal Instruction", "Program Interrupted", "Segmentation fault",
   "Program Terminated"]

/-- the table the model was written against (what `CelloGen.Exn.signalTable` must be) -/
def sigTableModelled : List (String × String × String) :=
  sigNames.zip (sigExcNames.zip sigMessages)

def sigIdx (n : Nat) : Nat := n % nSignals

/-- address of the exception object of signal `n` (harness index 14 + n % 6) -/
def sigObj (n : Nat) : Nat := 15 + sigIdx n

/-- `Exception_Signal(sig)` read off a table: the exception it throws and the message -/
def sigLookup (table : List (String × String × String)) (sig : String) : Option (String × String) :=
  match table with
  | [] => none
  | (s, e, m) :: rest => if s = sig then some (e, m) else sigLookup rest sig

/-- the thread: its exception record and its signal mask (indices of blocked signals) -/
structure SigSt where
  st : St
  blocked : List Nat
deriving Repr, DecidableEq, Inhabited

/-- one construct `try { raise(sig); s1 } catch (e in filter) { handler }` -/
structure SOp where
  sig : Nat
  filter : List Nat
  handler : Prog
deriving Repr, Inhabited

/-- the construct when the signal is delivered: `Exception_Signal` throws the table's object from inside `raise` -/
def SOp.delivered (o : SOp) : Prog := .tryCatch (.seq (.throw (sigObj o.sig)) (.stmt 1)) o.filter o.handler
/-- the construct when the signal is blocked: it stays pending, `raise` returns 0, the body goes on -/
def SOp.skipped (o : SOp) : Prog := .tryCatch (.stmt 1) o.filter o.handler

/-- `raise(sig)` inside a try body, on the machine `M`: a blocked signal is not delivered; a delivered one enters
    `Exception_Signal` with the signal blocked (`signal()`), which leaves through `exception_throw` → `longjmp`: the mask
    keeps the signal unless the source re-opens it (`unblocks`). -/
def stepS (unblocks : Bool) (M : Prog → Nat → St → St × List Ev × Sig) (x : Nat) (s : SigSt) (o : SOp) :
    SigSt × List Ev × Sig :=
  if sigIdx o.sig ∈ s.blocked then
    match M o.skipped x s.st with
    | (s', t, g) => (⟨s', s.blocked⟩, t, g)
  else
    match M o.delivered x s.st with
    | (s', t, g) => (⟨s', if unblocks then s.blocked else sigIdx o.sig :: s.blocked⟩, t, g)

/-- a history of such constructs in one thread (as `runSeq`: the first one that does not complete ends it) -/
def runS (unblocks : Bool) (M : Prog → Nat → St → St × List Ev × Sig) : List SOp → Nat → SigSt → SigSt × List Ev × Sig
  | [], _, s => (s, [], .normal)
  | o :: os, x, s =>
    match stepS unblocks M x s o with
    | (s1, t1, .normal) =>
      match runS unblocks M os x s1 with
      | (s2, t2, g) => (s2, t1 ++ t2, g)
    | r => r

/-- reference: every raised signal is an exception thrown at the point of the `raise` -/
def evalS : List SOp → Nat → List Ev × Option Nat
  | [], _ => ([], none)
  | o :: os, x =>
    match eval o.delivered x with
    | (t1, none) => let (t2, r) := evalS os x; (t1 ++ t2, r)
    | r => r

/-- no program leaf raises one signal twice (`(k N)` leaves of the op-file syntax, as a list of signal numbers) -/
def sigsOnce (sigs : List Nat) : Bool := decide ((sigs.map sigIdx).Nodup)

/-! ### 2. the uncaught-exception report -/

/-- one format segment: literal text, `%$` = the argument as `show` prints it, `%s` = its C string -/
def renderSeg (shown str : String) : Nat × String → String
  | (0, s) => s
  | (1, _) => shown
  | (2, _) => str
  | _ => ""

/-- the argument of a `print_to` of `Exception_Error`: 1 = `e->obj` (shown form `objShown`, C string `objStr`),
    2 = `e->msg` (a String: shown in quotes, C string = the text) -/
def argShown (objShown msg : String) : Nat → String
  | 1 => objShown
  | 2 => "\"" ++ msg ++ "\""
  | _ => ""
def argStr (objStr msg : String) : Nat → String
  | 1 => objStr
  | 2 => msg
  | _ => ""

/-- the pieces `Exception_Error` writes to stderr, in order, up to its `exit` (a statement after `exit` is never run) -/
def reportParts (objShown objStr msg : String) : List (Nat × Nat × List (Nat × String)) → List String
  | [] => []
  | (0, a, segs) :: rest =>
    segs.map (renderSeg (argShown objShown msg a) (argStr objStr msg a)) ++ reportParts objShown objStr msg rest
  | (2, _, _) :: _ => []
  | _ :: rest => reportParts objShown objStr msg rest

/-- the exit status of the process (`none`: `Exception_Error` returns — the caller goes on to `return NULL`) -/
def reportStatus : List (Nat × Nat × List (Nat × String)) → Option Nat
  | [] => none
  | (2, st, _) :: _ => some st
  | _ :: rest => reportStatus rest

/-- nothing of the report is printed after the backtrace has started -/
def reportTraceLast : List (Nat × Nat × List (Nat × String)) → Bool
  | [] => true
  | (1, _, _) :: rest => rest.all (fun s => s.1 != 0)
  | _ :: rest => reportTraceLast rest

def reportText (objShown objStr msg : String) (stmts : List (Nat × Nat × List (Nat × String))) : String :=
  String.join (reportParts objShown objStr msg stmts)

end Cello.Exn
