/-
  Cello/RBTree.lean — executable model of src/Tree.c (the red-black tree behind Cello's `Tree`), core Lean only.

  The C code keeps parent pointers (colour in the low bit) and repairs the tree *in place* walking those pointers.
  The model is a functional red-black tree `T` plus a **zipper** `Path` that stands for the chain of parent links
  from the node being looked at up to the root.  Every function below mirrors one C function, with the same order of
  tests, rotations and recolourings, so that the resulting *shape and colouring* are the ones the C code produces
  (checked after every operation by harness/h_tree.c ⇄ Driver/Tree.lean).

      Tree_Set          ↦ insAt / Tree.set          Tree_Set_Fix   ↦ setFix
      Tree_Rem          ↦ remAt, remHere (predecessor memcpy ↦ relocate), spliceOut / Tree.rem
      Tree_Alloc / Tree_Key / Tree_Val (node layout) ↦ Lay, entryWords, keyAt, valAt
      Tree_Rem_Fix      ↦ remFix (one round = remCase2, remFixBody, remCase5, remCase6)
      Tree_Get/Tree_Mem ↦ find / Tree.get / mem     Tree_Maximum   ↦ maxLoc
      Tree_Len          ↦ Tree.len                  Tree_Clear / Tree_Resize ↦ Tree.clear / Tree.resize
      Tree_Assign, copy ↦ Tree.assign / Tree.copy   Tree_New (with initial pairs) ↦ Tree.new
      Tree_Iter_Init/Next/Last/Prev ↦ iterInit / iterNext / iterLast / iterPrev   (zipper successor / predecessor)

  Order convention of Tree.c: `c = cmp(nodeKey, key)`; `c < 0` → LEFT.  Larger keys are to the left, so the in-order
  sequence left→right (`toList`, what forward iteration yields) is strictly *descending*.

  Read from the source on every run (CelloGen/Tree.lean, written by translate/g_tree.py) and USED here, so that the driver
  follows the source and the theorems of CelloProofs/Props/C03.lean about these data break when the source changes them:
  the offsets and widths of the node payload (`Lay.keyOff` … `Lay.moveLen`, `hdrWords`), the argument order and the sign
  tests of the four descent loops (`orient` with `setDescent` / `getDescent` / `memDescent` / `remDescent`), and the
  `self is obj` guard of `Tree_Assign` (`step`).

  Node payload.  After the three link words a node is `header | key bytes | header | value bytes`, with the widths
  `sizeof(struct Header)`, `m->ksize`, `m->vsize` (`Tree_Alloc`, `Tree_Key`, `Tree_Val`).  Keys and values are arbitrary
  types `α`, `β` whose bytes are given by `Packed` (8-byte words).  The only place where Tree.c moves raw bytes is the
  predecessor relocation of `Tree_Rem` (one `memcpy` of header+key+header+value from `pred` into `node`): it is modelled
  as that block move on the word lists (`relocate`), with the widths taken from the Tree object (`Tree.lay`), so the key
  and value that `node` holds afterwards are whatever the moved block decodes to at the `Tree_Key` / `Tree_Val` offsets.
  Sizes are modelled in whole 8-byte words (`ksize / 8`): key and value types whose size is not a multiple of 8 are
  outside the model (known finding KF-C19-tree-misaligned-header).

  `Option` results: `none` = the C code would dereference NULL (undefined behaviour).  CelloProofs shows this never
  happens from a valid tree.  Documented failures (KeyError, FormatError) are `Outcome.raised`, and the state is
  returned also then.
-/
import CelloGen.Tree
namespace Cello.RB
open CelloGen.Tree (SizeTerm Side Descent)

inductive Color where
  | R | B
deriving DecidableEq, Repr, Inhabited

/-- a subtree; `nil` = NULL -/
inductive T (α β : Type) where
  | nil : T α β
  | node (c : Color) (l : T α β) (k : α) (v : β) (r : T α β) : T α β
deriving Repr, Inhabited, DecidableEq

inductive Dir where
  | L | Rt
deriving DecidableEq, Repr, Inhabited

/-- one parent link: the focus hangs on side `dir` of a node `(c, k, v)` whose other subtree is `sib` -/
structure Frame (α β : Type) where
  dir : Dir
  c : Color
  k : α
  v : β
  sib : T α β

/-- the chain of parents of the focus, nearest first -/
abbrev Path (α β : Type) := List (Frame α β)

variable {α β : Type}

/-- rebuild the parent described by `f` around the subtree `t` -/
def mk (f : Frame α β) (t : T α β) : T α β :=
  match f.dir with
  | .L => .node f.c t f.k f.v f.sib
  | .Rt => .node f.c f.sib f.k f.v t

/-- the whole tree: focus `t` in context `p` -/
def plug (t : T α β) : Path α β → T α β
  | [] => t
  | f :: p => plug (mk f t) p

/-- `Tree_Get_Color`: NULL is black -/
def color : T α β → Color
  | .nil => .B
  | .node c .. => c

def setColor (c : Color) : T α β → T α β
  | .nil => .nil
  | .node _ l k v r => .node c l k v r

def isNil : T α β → Bool
  | .nil => true
  | .node .. => false

/-- in-order sequence left → right (what forward iteration visits) -/
def toList : T α β → List (α × β)
  | .nil => []
  | .node _ l k v r => toList l ++ (k, v) :: toList r

def size : T α β → Nat
  | .nil => 0
  | .node _ l _ _ r => size l + 1 + size r

/-- number of nodes on the longest root-to-leaf path -/
def height : T α β → Nat
  | .nil => 0
  | .node _ l _ _ r => max (height l) (height r) + 1

/-! ## Tree_Set_Fix -/

/-- `Tree_Set_Fix(m, node)`: `t` is the subtree rooted at `node`, `p` its parents. Returns the whole tree. -/
def setFix : T α β → Path α β → Option (T α β)
  | t, [] => some (setColor .B t)                            -- no parent: paint the root black
  | t, [f] =>
    if f.c = .B then some (plug t [f])                       -- parent black: done
    else none                                                -- red parent without grandparent: NULL dereference
  | t, f :: g :: up =>
    if f.c = .B then some (plug t (f :: g :: up))            -- parent black: done
    else if color g.sib = .R then                            -- red uncle: recolour, continue at the grandparent
      setFix (mk { g with c := .R, sib := setColor .B g.sib } (mk { f with c := .B } t)) up
    else                                                     -- uncle black or NULL: one or two rotations
      match g.dir, f.dir, t with
      | .L, .L, n =>                                         -- outer: rotate right at the grandparent
        some (plug (.node .B n f.k f.v (.node .R f.sib g.k g.v g.sib)) up)
      | .L, .Rt, .node _ a nk nv b =>                        -- inner: rotate left at parent, right at grandparent
        some (plug (.node .B (.node f.c f.sib f.k f.v a) nk nv (.node .R b g.k g.v g.sib)) up)
      | .Rt, .Rt, n =>
        some (plug (.node .B (.node .R g.sib g.k g.v f.sib) f.k f.v n) up)
      | .Rt, .L, .node _ a nk nv b =>
        some (plug (.node .B (.node .R g.sib g.k g.v a) nk nv (.node f.c b f.k f.v f.sib)) up)
      | _, _, .nil => none

/-! ## Tree_Set -/

/-- descent of `Tree_Set` from subtree `t` with parents `p`; the `Bool` says whether a node was allocated -/
def insAt (cmp : α → α → Ordering) : T α β → Path α β → α → β → Option (T α β × Bool)
  | .nil, p, k, v => (setFix (.node .R .nil k v .nil) p).map (·, true)
  | .node c l nk nv r, p, k, v =>
    match cmp nk k with
    | .eq => some (plug (.node c l k v r) p, false)          -- assign key and value in place
    | .lt => insAt cmp l ({ dir := .L, c := c, k := nk, v := nv, sib := r } :: p) k v
    | .gt => insAt cmp r ({ dir := .Rt, c := c, k := nk, v := nv, sib := l } :: p) k v

/-! ## Tree_Get / Tree_Mem -/

def find (cmp : α → α → Ordering) : T α β → α → Option β
  | .nil, _ => none
  | .node _ l nk nv r, k =>
    match cmp nk k with
    | .eq => some nv
    | .lt => find cmp l k
    | .gt => find cmp r k

/-! ## the sign tests of the descent loops, as the source has them -/

/-- A descent loop of Tree.c computes `c = cmp(Tree_Key(m, node), key)` (or with the arguments the other way round) and goes
    to one child when `c < 0` and to one child when `c > 0` (`CelloGen.Tree.Descent`, read from the source). `insAt`,
    `find` and `remAt` above are written for "`.lt` → left, `.gt` → right"; `orient d cmp` is the comparison that makes them
    take the turns the source's loop `d` takes. For `d = ⟨true, .left, .right⟩` it is `cmp` itself. -/
def orient (d : Descent) (cmp : α → α → Ordering) (nk k : α) : Ordering :=
  match (if d.nodeFirst then cmp nk k else cmp k nk) with
  | .eq => .eq
  | .lt => if d.neg = .left then .lt else .gt
  | .gt => if d.pos = .left then .lt else .gt

/-! ## Tree_Rem_Fix -/

/-- the "sibling is red" step of `Tree_Rem_Fix`: parent red, sibling black, rotate at the parent towards the node.
    Returns the node's new parent frame and the frames above it. -/
def remCase2 (f : Frame α β) (rest : Path α β) : Frame α β × Path α β :=
  match f.sib, f.dir with
  | .node _ sl sk sv sr, .L =>
    ({ f with c := .R, sib := sl }, { dir := .L, c := .B, k := sk, v := sv, sib := sr } :: rest)
  | .node _ sl sk sv sr, .Rt =>
    ({ f with c := .R, sib := sr }, { dir := .Rt, c := .B, k := sk, v := sv, sib := sl } :: rest)
  | .nil, _ => (f, rest)

/-- the "near nephew red, far nephew black" step of `Tree_Rem_Fix` (only looked at when the sibling is black):
    rotate at the sibling so that the far nephew becomes red. `d` = side of the node; returns the new sibling subtree. -/
def remCase5 (d : Dir) (sc : Color) (sl : T α β) (sk : α) (sv : β) (sr : T α β) : Option (T α β) :=
  if sc = .B then
    if d = .L ∧ color sl = .R ∧ color sr = .B then
      match sl with
      | .node _ a k2 v2 b => some (.node .B a k2 v2 (.node .R b sk sv sr))   -- rotate right at the sibling
      | .nil => none
    else if d = .Rt ∧ color sr = .R ∧ color sl = .B then
      match sr with
      | .node _ a k2 v2 b => some (.node .B (.node .R sl sk sv a) k2 v2 b)   -- rotate left at the sibling
      | .nil => none
    else some (.node sc sl sk sv sr)
  else some (.node sc sl sk sv sr)

/-- the last step of `Tree_Rem_Fix`: the sibling `s` takes the parent's colour, the parent and the far nephew become
    black, rotate at the parent towards the node -/
def remCase6 (f : Frame α β) (rest : Path α β) : T α β → Option (Path α β)
  | .nil => none
  | .node _ sl sk sv sr =>
    match f.dir with
    | .L =>
      if isNil sr then none                                  -- Tree_Set_Black(NULL)
      else some ({ f with c := .B, sib := sl } ::
                 { dir := .L, c := f.c, k := sk, v := sv, sib := setColor .B sr } :: rest)
    | .Rt =>
      if isNil sl then none
      else some ({ f with c := .B, sib := sr } ::
                 { dir := .Rt, c := f.c, k := sk, v := sv, sib := setColor .B sl } :: rest)

/-- the rest of one round of `Tree_Rem_Fix` for a node whose parent frame is `f`; `up` is the result of the next round
    (`node = parent; continue`) which only the all-black case uses -/
def remFixBody (f : Frame α β) (rest : Path α β) (up : Option (Path α β)) : Option (Path α β) :=
  match f.sib with
  | .nil => none                                             -- children of a NULL sibling are read
  | .node sc sl sk sv sr =>
    if f.c = .B ∧ sc = .B ∧ color sl = .B ∧ color sr = .B then
      up.map (fun rest' => { f with sib := .node .R sl sk sv sr } :: rest')
    else if f.c = .R ∧ sc = .B ∧ color sl = .B ∧ color sr = .B then
      some ({ f with c := .B, sib := .node .R sl sk sv sr } :: rest)
    else
      match remCase5 f.dir sc sl sk sv sr with
      | none => none
      | some s => remCase6 f rest s

/-- `Tree_Rem_Fix(m, node)` on the parents of `node`; returns the parents of the same node afterwards.
    After the red-sibling rotation the parent is red, so the all-black case (the only one that loops) cannot be taken in
    that round: it gets `none` as continuation (`remFixBody_red_irrelevant` in CelloProofs shows it is not used). -/
def remFix : Path α β → Option (Path α β)
  | [] => some []
  | f :: rest =>
    if color f.sib = .R then
      let fr := remCase2 f rest
      remFixBody fr.1 fr.2 none
    else remFixBody f rest (remFix rest)

/-! ## node payload: header | key | header | value, in 8-byte words -/

/-- one 8-byte word of a node's payload -/
inductive Word where
  | int (n : Int)          -- eight bytes of plain data (an `int64_t` field)
  | ptr (s : String)       -- a pointer to a heap C string (`struct String { char* val; }`), modelled by the pointee
  | hdr (ofKey : Bool)     -- a word of the `struct Header` in front of the key / of the value
deriving DecidableEq, Repr, Inhabited

/-- the bytes of a C object of this type, as 8-byte words, and the way back -/
class Packed (γ : Type) where
  words : γ → List Word
  ofWords : List Word → Option γ

/-- reading back the bytes of an object gives the object -/
class LawfulPacked (γ : Type) [Packed γ] : Prop where
  ofWords_words : ∀ x : γ, Packed.ofWords (Packed.words x) = some x

/-- the sizes the node layout depends on, in 8-byte words: `sizeof(struct Header)`, `m->ksize`, `m->vsize` -/
structure Lay where
  hdr : Nat
  ks : Nat
  vs : Nat
deriving DecidableEq, Repr

/-- a size / offset expression of Tree.c (a sum of `sizeof(struct Header)`, `m->ksize`, `m->vsize`), in words -/
def Lay.eval (y : Lay) : List SizeTerm → Nat
  | [] => 0
  | .hdr :: ts => y.hdr + y.eval ts
  | .ksize :: ts => y.ks + y.eval ts
  | .vsize :: ts => y.vs + y.eval ts

/-! The offsets below are counted from the start of the payload (`node + 3 * sizeof(var)`), and are the expressions the
    source has at these places NOW (CelloGen.Tree); `C03_layout_current_source` says what they evaluate to. -/

/-- where `Tree_Alloc` puts the header of the key object: `header_init(node + 3*sizeof(var) …)` -/
def Lay.keyHdrOff (y : Lay) : Nat := y.eval CelloGen.Tree.keyHeaderOff
/-- offset of the key object: `Tree_Key` = node + 3*sizeof(var) + sizeof(struct Header) -/
def Lay.keyOff (y : Lay) : Nat := y.eval CelloGen.Tree.keyOff
/-- where `Tree_Alloc` puts the header of the value object: `header_init(node + 3*sizeof(var) + sizeof(struct Header) + ksize …)` -/
def Lay.valHdrOff (y : Lay) : Nat := y.eval CelloGen.Tree.valHeaderOff
/-- offset of the value object: `Tree_Val` = … + sizeof(struct Header) + ksize + sizeof(struct Header) -/
def Lay.valOff (y : Lay) : Nat := y.eval CelloGen.Tree.valOff
/-- what `Tree_Alloc` reserves after the link words: sizeof(struct Header) + ksize + sizeof(struct Header) + vsize -/
def Lay.entryLen (y : Lay) : Nat := y.eval CelloGen.Tree.allocSize
/-- what the memcpy of `Tree_Rem` moves: sizeof(struct Header) + ksize + sizeof(struct Header) + vsize -/
def Lay.moveLen (y : Lay) : Nat := y.eval CelloGen.Tree.remMoveSize

/-- a store of the words `ws` at word `off` of a buffer (beyond its end: a heap overflow in C; here the buffer grows) -/
def writeAt (off : Nat) (ws buf : List Word) : List Word :=
  (buf ++ List.replicate (off + ws.length - buf.length) (Word.int 0)).take off ++ ws ++
    (buf ++ List.replicate (off + ws.length - buf.length) (Word.int 0)).drop (off + ws.length)

/-- the payload of a node holding `e`: zeroed by `calloc`, both headers as `header_init` wrote them in `Tree_Alloc`, then
    the key stored at `Tree_Key` and the value at `Tree_Val` (`assign(Tree_Key(m, node), key)`, `assign(Tree_Val(m, node), val)`) -/
def entryWords [Packed α] [Packed β] (y : Lay) (e : α × β) : List Word :=
  writeAt y.valOff (Packed.words e.2)
    (writeAt y.keyOff (Packed.words e.1)
      (writeAt y.valHdrOff (List.replicate y.hdr (Word.hdr false))
        (writeAt y.keyHdrOff (List.replicate y.hdr (Word.hdr true))
          (List.replicate y.entryLen (Word.int 0)))))

/-- `memcpy(dst, src, n)` on word lists of the same allocation size -/
def memcpyW (n : Nat) (dst src : List Word) : List Word := src.take n ++ dst.drop n

/-- the words `Tree_Key(m, node)` / `Tree_Val(m, node)` point at, for the widths of the key / value type -/
def keyAt (y : Lay) (b : List Word) : List Word := (b.drop y.keyOff).take y.ks
def valAt (y : Lay) (b : List Word) : List Word := (b.drop y.valOff).take y.vs

/-- the predecessor relocation of `Tree_Rem`:
    `memcpy(node + 3*sizeof(var), pred + 3*sizeof(var), sizeof(Header) + ksize + sizeof(Header) + vsize)`,
    then the key and value read back from `node`. `none` = the bytes there are not a key / value of the types. -/
def relocate [Packed α] [Packed β] (y : Lay) (dst src : α × β) : Option (α × β) :=
  let b := memcpyW y.moveLen (entryWords y dst) (entryWords y src)
  match (Packed.ofWords (keyAt y b) : Option α), (Packed.ofWords (valAt y b) : Option β) with
  | some k, some v => some (k, v)
  | _, _ => none

/-! ## Tree_Rem -/

/-- a node in its context (never NULL) -/
structure Loc (α β : Type) where
  c : Color
  l : T α β
  k : α
  v : β
  r : T α β
  path : Path α β

def Loc.tree (x : Loc α β) : T α β := .node x.c x.l x.k x.v x.r

/-- `Tree_Maximum`: follow right links -/
def maxLoc : T α β → Path α β → Option (Loc α β)
  | .nil, _ => none
  | .node c l k v r, p =>
    match r with
    | .nil => some ⟨c, l, k, v, .nil, p⟩
    | .node .. => maxLoc r ({ dir := .Rt, c := c, k := k, v := v, sib := l } :: p)

/-- `chld = right is NULL ? left : right` -/
def Loc.child (x : Loc α β) : T α β :=
  match x.r with
  | .nil => x.l
  | .node .. => x.r

/-- the tail of `Tree_Rem` once `node` has at most one child: repair if black, splice the child in -/
def spliceOut (x : Loc α β) : Option (T α β) :=
  let p' : Option (Path α β) := if x.c = .B then remFix x.path else some x.path
  match p' with
  | none => none
  | some [] => some (setColor .B x.child)                    -- node was the root: the child becomes a black root
  | some p' => some (plug x.child p')

/-- `Tree_Rem` once the node `(c, l, nk, nv, r)` with parents `p` has been found; `y` = the layout of this Tree's nodes -/
def remHere [Packed α] [Packed β] (y : Lay) (c : Color) (l : T α β) (nk : α) (nv : β) (r : T α β) (p : Path α β) :
    Option (T α β) :=
  match l, r with
  | .node .., .node .. =>
    -- two children: the predecessor's payload is moved here (one memcpy; the colour word is not part of the block),
    -- the predecessor is unlinked instead
    match maxLoc l [] with
    | none => none
    | some pr =>
      match relocate y (nk, nv) (pr.k, pr.v) with
      | none => none
      | some kv => spliceOut { pr with path := pr.path ++ { dir := .L, c := c, k := kv.1, v := kv.2, sib := r } :: p }
  | _, _ => spliceOut ⟨c, l, nk, nv, r, p⟩

/-- `Tree_Rem` from subtree `t` with parents `p`: `none` = UB, `some none` = key absent (KeyError) -/
def remAt [Packed α] [Packed β] (cmp : α → α → Ordering) (y : Lay) : T α β → Path α β → α → Option (Option (T α β))
  | .nil, _, _ => some none
  | .node c l nk nv r, p, k =>
    match cmp nk k with
    | .eq => (remHere y c l nk nv r p).map some
    | .lt => remAt cmp y l ({ dir := .L, c := c, k := nk, v := nv, sib := r } :: p) k
    | .gt => remAt cmp y r ({ dir := .Rt, c := c, k := nk, v := nv, sib := l } :: p) k

/-! ## the Tree object: root, nitems, and the sizes of the key and value types -/

/-- `struct Tree`: `ksize = size(ktype)`, `vsize = size(vtype)` in bytes (the types themselves are not modelled:
    histories only `set` keys / values of the tree's types, `cast` would raise otherwise) -/
structure Tree (α β : Type) where
  root : T α β
  nitems : Nat
  ksize : Nat
  vsize : Nat
deriving DecidableEq

/-- `sizeof(struct Header) / 8` in the default build (type, alloc, magic: counted in include/Cello.h by the translator);
    no theorem depends on its value (`relocate_fits` holds for every header width) -/
def hdrWords : Nat := CelloGen.Tree.headerWords

/-- the layout of this Tree's nodes -/
def Tree.lay (m : Tree α β) : Lay := ⟨hdrWords, m.ksize / 8, m.vsize / 8⟩

/-- `(ksize, vsize)` -/
def Tree.sizes (m : Tree α β) : Nat × Nat := (m.ksize, m.vsize)

inductive Exc where
  | KeyError | FormatError
deriving DecidableEq, Repr, Inhabited

inductive Outcome (γ : Type) where
  | ok (x : γ)
  | raised (e : Exc)
deriving Repr

/-- a zeroed `struct Tree` (what `alloc(Tree)` hands to `Tree_Assign` in `copy`) -/
def Tree.empty : Tree α β := ⟨.nil, 0, 0, 0⟩

/-- `Tree_New` before the initial pairs: empty, sizes from the two type arguments -/
def Tree.mk0 (ks vs : Nat) : Tree α β := ⟨.nil, 0, ks, vs⟩

/-- `Tree_Set` -/
def Tree.set (cmp : α → α → Ordering) (m : Tree α β) (k : α) (v : β) : Option (Tree α β) :=
  match insAt (orient CelloGen.Tree.setDescent cmp) m.root [] k v with
  | none => none
  | some (t, fresh) => some { m with root := t, nitems := if fresh then m.nitems + 1 else m.nitems }

/-- `Tree_Get` -/
def Tree.get (cmp : α → α → Ordering) (m : Tree α β) (k : α) : Outcome β :=
  match find (orient CelloGen.Tree.getDescent cmp) m.root k with
  | some v => .ok v
  | none => .raised .KeyError

/-- `Tree_Mem` -/
def Tree.mem (cmp : α → α → Ordering) (m : Tree α β) (k : α) : Bool :=
  (find (orient CelloGen.Tree.memDescent cmp) m.root k).isSome

/-- `Tree_Len` -/
def Tree.len (m : Tree α β) : Nat := m.nitems

/-- `Tree_Rem`: KeyError leaves the tree as it was -/
def Tree.rem [Packed α] [Packed β] (cmp : α → α → Ordering) (m : Tree α β) (k : α) :
    Option (Tree α β × Outcome Unit) :=
  match remAt (orient CelloGen.Tree.remDescent cmp) m.lay m.root [] k with
  | none => none
  | some none => some (m, .raised .KeyError)
  | some (some t) => some ({ m with root := t, nitems := m.nitems - 1 }, .ok ())

/-- `Tree_Clear`: the types stay -/
def Tree.clear (m : Tree α β) : Tree α β := { m with root := .nil, nitems := 0 }

/-- `Tree_Resize`: only `resize(t, 0)` is accepted -/
def Tree.resize (m : Tree α β) (n : Nat) : Tree α β × Outcome Unit :=
  if n = 0 then (m.clear, .ok ()) else (m, .raised .FormatError)

/-- `Tree_New` with key type of size `ks`, value type of size `vs` and initial key/value pairs: `Tree_Set` for each, in order -/
def Tree.new (cmp : α → α → Ordering) (ks vs : Nat) : List (α × β) → Option (Tree α β)
  | kvs => kvs.foldlM (fun m kv => m.set cmp kv.1 kv.2) (Tree.mk0 ks vs)

/-! ## iteration: Tree_Iter_Init / Next / Last / Prev as zipper walks -/

/-- `while (left != NULL) node = left` -/
def minLoc : T α β → Path α β → Option (Loc α β)
  | .nil, _ => none
  | .node c l k v r, p =>
    match l with
    | .nil => some ⟨c, .nil, k, v, r, p⟩
    | .node .. => minLoc l ({ dir := .L, c := c, k := k, v := v, sib := r } :: p)

/-- a cursor: `none` = Terminal -/
abbrev Cursor (α β : Type) := Option (Loc α β)

/-- `Tree_Iter_Init`; outer `none` = `nitems ≠ 0` with a NULL root (NULL dereference) -/
def Tree.iterInit (m : Tree α β) : Option (Cursor α β) :=
  if m.nitems = 0 then some none
  else match minLoc m.root [] with
    | none => none
    | some x => some (some x)

/-- `Tree_Iter_Last` -/
def Tree.iterLast (m : Tree α β) : Option (Cursor α β) :=
  if m.nitems = 0 then some none
  else match maxLoc m.root [] with
    | none => none
    | some x => some (some x)

/-- the climbing loop of `Tree_Iter_Next`: up while we are a right child; the first parent reached from the left is next -/
def climbNext : T α β → Path α β → Cursor α β
  | _, [] => none
  | t, f :: p =>
    match f.dir with
    | .L => some ⟨f.c, t, f.k, f.v, f.sib, p⟩
    | .Rt => climbNext (.node f.c f.sib f.k f.v t) p

def climbPrev : T α β → Path α β → Cursor α β
  | _, [] => none
  | t, f :: p =>
    match f.dir with
    | .Rt => some ⟨f.c, f.sib, f.k, f.v, t, p⟩
    | .L => climbPrev (.node f.c t f.k f.v f.sib) p

/-- `Tree_Iter_Next` -/
def iterNext (x : Loc α β) : Cursor α β :=
  match x.r with
  | .node .. => minLoc x.r ({ dir := .Rt, c := x.c, k := x.k, v := x.v, sib := x.l } :: x.path)
  | .nil => climbNext x.tree x.path

/-- `Tree_Iter_Prev` -/
def iterPrev (x : Loc α β) : Cursor α β :=
  match x.l with
  | .node .. => maxLoc x.l ({ dir := .L, c := x.c, k := x.k, v := x.v, sib := x.r } :: x.path)
  | .nil => climbPrev x.tree x.path

/-- `foreach`: at most `fuel` steps of `next` from `cur`; returns the keys seen and whether Terminal was reached -/
def walk (next : Loc α β → Cursor α β) : Nat → Cursor α β → List (α × β) × Bool
  | _, none => ([], true)
  | 0, some _ => ([], false)
  | n + 1, some x =>
    let r := walk next n (next x)
    ((x.k, x.v) :: r.1, r.2)

/-- forward iteration of the whole tree (`foreach (k in t)`): keys with the values stored beside them.
    `none` = NULL dereference in `Tree_Iter_Init`; the flag is false iff Terminal was not reached within `size+1` steps. -/
def Tree.iterFwd (m : Tree α β) : Option (List (α × β) × Bool) :=
  (m.iterInit).map (walk iterNext (size m.root + 1))

/-- backward iteration (`foreach (k in reverse(t))` = `iter_last` / `iter_prev`) -/
def Tree.iterBwd (m : Tree α β) : Option (List (α × β) × Bool) :=
  (m.iterLast).map (walk iterPrev (size m.root + 1))

/-! ## Tree_Assign / copy -/

/-- the loop of `Tree_Assign`: for each key of the source in iteration order, `Tree_Set(self, key, get(obj, key))`.
    A KeyError from `get` leaves through the loop with what has been set so far. -/
def assignLoop (cmp : α → α → Ordering) (src : Tree α β) : List (α × β) → Tree α β → Option (Tree α β × Outcome Unit)
  | [], m => some (m, .ok ())
  | (k, _) :: ks, m =>
    match src.get cmp k with
    | .raised e => some (m, .raised e)
    | .ok v =>
      match m.set cmp k v with
      | none => none
      | some m' => assignLoop cmp src ks m'

/-- `Tree_Assign(self, obj)` for a Tree `obj` that is a different object (after the `self is obj` test): clear, take over the key and value types
    (and their sizes) of `obj`, then set every binding of `obj` in forward iteration order -/
def Tree.assign (cmp : α → α → Ordering) (dst src : Tree α β) : Option (Tree α β × Outcome Unit) :=
  match src.iterFwd with
  | none => none
  | some (_, false) => none                                  -- iteration did not reach Terminal (excluded by C03_iteration)
  | some (ks, true) => assignLoop cmp src ks { dst.clear with ksize := src.ksize, vsize := src.vsize }

/-- `assign(t, t)`: `if (self is obj) { return; }` — nothing happens (`step` takes this branch iff the source has the guard:
    `CelloGen.Tree.assignGuardsSelf`) -/
def Tree.assignSelf (_cmp : α → α → Ordering) (m : Tree α β) : Option (Tree α β × Outcome Unit) :=
  some (m, .ok ())

/-- `assign(t, t)` BEFORE the fix a3140e4 (no `self is obj` test): the object is cleared first, so the loop runs over an
    empty tree. Taken by `step` only when the source has no `self is obj` guard; `C03_self_assign_old_refuted`. -/
def Tree.assignSelfOld (cmp : α → α → Ordering) (m : Tree α β) : Option (Tree α β × Outcome Unit) :=
  Tree.assign cmp m m.clear

/-- `copy(obj)` = `assign(alloc(Tree), obj)`: a zeroed Tree struct assigned from `obj` -/
def Tree.copy (cmp : α → α → Ordering) (src : Tree α β) : Option (Tree α β × Outcome Unit) :=
  Tree.assign cmp Tree.empty src

/-! ## executable invariant checks (used by the driver on every state; the theorems are about their Prop versions) -/

/-- black height if it is the same on every path -/
def bhOf : T α β → Option Nat
  | .nil => some 0
  | .node c l _ _ r =>
    match bhOf l, bhOf r with
    | some a, some b => if a = b then some (if c = .B then a + 1 else a) else none
    | _, _ => none

/-- no red node has a red child -/
def noRedRed : T α β → Bool
  | .nil => true
  | .node c l _ _ r => (c = .B || (color l = .B && color r = .B)) && noRedRed l && noRedRed r

/-- strictly descending key sequence -/
def descending (cmp : α → α → Ordering) : List (α × β) → Bool
  | [] => true
  | [_] => true
  | a :: b :: l => cmp a.1 b.1 = .gt && descending cmp (b :: l)

/-- every key has the size of the key type and every value the size of the value type -/
def sizedB [Packed α] [Packed β] (sz : Nat × Nat) (l : List (α × β)) : Bool :=
  l.all (fun e => 8 * (Packed.words e.1).length = sz.1 && 8 * (Packed.words e.2).length = sz.2)

def Tree.validB [Packed α] [Packed β] (cmp : α → α → Ordering) (m : Tree α β) : Bool :=
  color m.root = .B && noRedRed m.root && (bhOf m.root).isSome && descending cmp (toList m.root)
    && size m.root = m.nitems && sizedB m.sizes (toList m.root)

/-! ## the specification: a strictly sorted (descending) association list -/

namespace Spec

/-- insert or replace -/
def set (cmp : α → α → Ordering) (k : α) (v : β) : List (α × β) → List (α × β)
  | [] => [(k, v)]
  | (k', v') :: l =>
    match cmp k' k with
    | .eq => (k, v) :: l
    | .lt => (k, v) :: (k', v') :: l
    | .gt => (k', v') :: set cmp k v l

def get (cmp : α → α → Ordering) (k : α) : List (α × β) → Option β
  | [] => none
  | (k', v') :: l => if cmp k' k = .eq then some v' else get cmp k l

def rem (cmp : α → α → Ordering) (k : α) : List (α × β) → List (α × β)
  | [] => []
  | (k', v') :: l => if cmp k' k = .eq then l else (k', v') :: rem cmp k l

end Spec

/-! ## histories over several trees (the op files of the correspondence check are exactly these) -/

/-- operations; trees are named by numbers -/
inductive Op (α β : Type) where
  | new (t : Nat) (ks vs : Nat) (init : List (α × β))   -- `t = new(Tree, K, V, k1, v1, …)`, `size(K) = ks`, `size(V) = vs` (replaces `t`)
  | set (t : Nat) (k : α) (v : β)
  | rem (t : Nat) (k : α)
  | get (t : Nat) (k : α)
  | mem (t : Nat) (k : α)
  | len (t : Nat)
  | resize (t : Nat) (n : Nat)
  | assign (t s : Nat)                    -- `assign(t, s)`
  | copy (t s : Nat)                      -- `t = copy(s)` (replaces `t`)
  | iter (t : Nat)                        -- forward iteration
  | riter (t : Nat)                       -- backward iteration
  | del (t : Nat)

/-- what an operation lets the program see -/
inductive Obs (α β : Type) where
  | done
  | val (v : β)
  | bool (b : Bool)
  | nat (n : Nat)
  | items (l : List (α × β)) (terminated : Bool)
  | err (e : Exc)
  | noobj                                 -- the op names a tree that does not exist (ill-formed op file)
deriving DecidableEq

/-- objects by name -/
abbrev Store (γ : Type) := List (Nat × γ)

def Store.get? {γ : Type} (st : Store γ) (t : Nat) : Option γ := (st.find? (·.1 = t)).map (·.2)
def Store.erase {γ : Type} (st : Store γ) (t : Nat) : Store γ := st.filter (·.1 ≠ t)
def Store.put {γ : Type} (st : Store γ) (t : Nat) (x : γ) : Store γ := (t, x) :: st.erase t

def obsOf : Outcome Unit → Obs α β
  | .ok _ => .done
  | .raised e => .err e

/-- one operation on the model; `none` = undefined behaviour in C -/
def step [Packed α] [Packed β] (cmp : α → α → Ordering) (st : Store (Tree α β)) :
    Op α β → Option (Store (Tree α β) × Obs α β)
  | .new t ks vs init => (Tree.new cmp ks vs init).map (fun m => (st.put t m, .done))
  | .set t k v =>
    match st.get? t with
    | none => some (st, .noobj)
    | some m => (m.set cmp k v).map (fun m' => (st.put t m', .done))
  | .rem t k =>
    match st.get? t with
    | none => some (st, .noobj)
    | some m => (m.rem cmp k).map (fun r => (st.put t r.1, obsOf r.2))
  | .get t k =>
    match st.get? t with
    | none => some (st, .noobj)
    | some m => some (st, match m.get cmp k with | .ok v => .val v | .raised e => .err e)
  | .mem t k =>
    match st.get? t with
    | none => some (st, .noobj)
    | some m => some (st, .bool (m.mem cmp k))
  | .len t =>
    match st.get? t with
    | none => some (st, .noobj)
    | some m => some (st, .nat m.len)
  | .resize t n =>
    match st.get? t with
    | none => some (st, .noobj)
    | some m => let r := m.resize n; some (st.put t r.1, obsOf r.2)
  | .assign t s =>
    match st.get? t, st.get? s with
    | some m, some src =>
      (if t = s then (if CelloGen.Tree.assignGuardsSelf then Tree.assignSelf cmp m else Tree.assignSelfOld cmp m)
       else Tree.assign cmp m src).map (fun r => (st.put t r.1, obsOf r.2))
    | _, _ => some (st, .noobj)
  | .copy t s =>
    match st.get? s with
    | none => some (st, .noobj)
    | some src => (Tree.copy cmp src).map (fun r => (st.put t r.1, obsOf r.2))
  | .iter t =>
    match st.get? t with
    | none => some (st, .noobj)
    | some m => (m.iterFwd).map (fun r => (st, .items r.1 r.2))
  | .riter t =>
    match st.get? t with
    | none => some (st, .noobj)
    | some m => (m.iterBwd).map (fun r => (st, .items r.1 r.2))
  | .del t =>
    match st.get? t with
    | none => some (st, .noobj)
    | some _ => some (st.erase t, .done)

/-- a history -/
def run [Packed α] [Packed β] (cmp : α → α → Ordering) :
    Store (Tree α β) → List (Op α β) → Option (Store (Tree α β) × List (Obs α β))
  | st, [] => some (st, [])
  | st, op :: ops =>
    match step cmp st op with
    | none => none
    | some (st', o) =>
      match run cmp st' ops with
      | none => none
      | some (st'', os) => some (st'', o :: os)

namespace Spec

/-- one operation on the specification: a store of strictly sorted association lists -/
def step (cmp : α → α → Ordering) (st : Store (List (α × β))) : Op α β → Store (List (α × β)) × Obs α β
  | .new t _ _ init => (st.put t (init.foldl (fun l kv => set cmp kv.1 kv.2 l) []), .done)
  | .set t k v =>
    match st.get? t with
    | none => (st, .noobj)
    | some l => (st.put t (set cmp k v l), .done)
  | .rem t k =>
    match st.get? t with
    | none => (st, .noobj)
    | some l =>
      match get cmp k l with
      | none => (st.put t l, .err .KeyError)
      | some _ => (st.put t (rem cmp k l), .done)
  | .get t k =>
    match st.get? t with
    | none => (st, .noobj)
    | some l => (st, match get cmp k l with | some v => .val v | none => .err .KeyError)
  | .mem t k =>
    match st.get? t with
    | none => (st, .noobj)
    | some l => (st, .bool (get cmp k l).isSome)
  | .len t =>
    match st.get? t with
    | none => (st, .noobj)
    | some l => (st, .nat l.length)
  | .resize t n =>
    match st.get? t with
    | none => (st, .noobj)
    | some l => if n = 0 then (st.put t [], .done) else (st.put t l, .err .FormatError)
  | .assign t s =>
    match st.get? t, st.get? s with
    | some _, some src => (st.put t src, .done)
    | _, _ => (st, .noobj)
  | .copy t s =>
    match st.get? s with
    | none => (st, .noobj)
    | some src => (st.put t src, .done)
  | .iter t =>
    match st.get? t with
    | none => (st, .noobj)
    | some l => (st, .items l true)
  | .riter t =>
    match st.get? t with
    | none => (st, .noobj)
    | some l => (st, .items l.reverse true)
  | .del t =>
    match st.get? t with
    | none => (st, .noobj)
    | some _ => (st.erase t, .done)

def run (cmp : α → α → Ordering) : Store (List (α × β)) → List (Op α β) → Store (List (α × β)) × List (Obs α β)
  | st, [] => (st, [])
  | st, op :: ops =>
    let r := step cmp st op
    let r' := run cmp r.1 ops
    (r'.1, r.2 :: r'.2)

end Spec

/-! ## arguments that are the tree's own objects; assignment from a map that is not a Tree; the odd-count constructor

    `foreach (k in t)` hands out `Tree_Key(m, node)` — a pointer INTO a node — and `get(t, k)` returns `Tree_Val(m, node)`.
    A program that updates a map while walking it passes these objects back: `set(t, k, v)` with `k` from the iteration,
    `set(t, k, get(t, k))`.  `Tree_Set` on a present key runs `assign(Tree_Key(m, node), key); assign(Tree_Val(m, node), val);`
    so the stored object is then assigned FROM ITSELF.  For `Int` and plain structs that copies the bytes onto themselves.
    For a type whose `Assign` reallocates what it owns — `String_Assign`: `s->val = realloc(s->val, strlen(val) + 1);
    strcpy(s->val, val);` with `val = c_str(obj)` — it is defined only because `String_Assign` returns first when
    `val is s->val` (fix 744a45f; read from src/String.c on every run: `CelloGen.Tree.stringAssignGuardsSelf`).  Without
    that test the `strcpy` reads the block `realloc` has just released (`none` below). -/

/-- the object has a word that owns heap memory (a String: `char* val`), which its `Assign` reallocates -/
def ownsHeap (ws : List Word) : Bool := ws.any (fun w => match w with | .ptr _ => true | _ => false)

/-- `assign(x, x)` — the same object on both sides — is defined: always for objects without owned memory (`Int_Assign`,
    `memcpy(self, obj, size)` onto itself); for a String iff `String_Assign` tests `val is s->val` before the `realloc` (`g`) -/
def selfAssignDefined [Packed γ] (g : Bool) (x : γ) : Bool := g || !ownsHeap (Packed.words x)

/-- a key argument: a key object of the caller, or the key object stored in the tree itself for a key (`Tree_Key(m, node)`,
    what `foreach (k in t)` hands out) -/
inductive KArg (α : Type) where
  | val (k : α)
  | own (k : α)

/-- a value argument: a value object of the caller, or the value object `get(t, k)` returns (`Tree_Val(m, node)`) -/
inductive VArg (α β : Type) where
  | val (v : β)
  | own (k : α)

/-- the entry of the node a descent ends at: the stored key and the stored value -/
def findKV (cmp : α → α → Ordering) : T α β → α → Option (α × β)
  | .nil, _ => none
  | .node _ l nk nv r, k =>
    match cmp nk k with
    | .eq => some (nk, nv)
    | .lt => findKV cmp l k
    | .gt => findKV cmp r k

/-- the tree's own objects for a key: the node `Tree_Get` stops at -/
def Tree.entry (cmp : α → α → Ordering) (m : Tree α β) (k : α) : Option (α × β) :=
  findKV (orient CelloGen.Tree.getDescent cmp) m.root k

/-- the object a key argument denotes, and the key of the node it lives in when it is the tree's own -/
def Tree.keyArg (cmp : α → α → Ordering) (m : Tree α β) : KArg α → Option (α × Option α)
  | .val k => some (k, none)
  | .own k => (m.entry cmp k).map (fun e => (e.1, some e.1))

/-- the object a value argument denotes (`none`: `get(t, k)` raises KeyError), and the key of the node it lives in -/
def Tree.valArg (cmp : α → α → Ordering) (m : Tree α β) : VArg α β → Option (β × Option α)
  | .val v => some (v, none)
  | .own k => (m.entry cmp k).map (fun e => (e.2, some e.1))

/-- `set(t, K, V)` where `K` / `V` may be the tree's own objects.
    `none` = undefined behaviour (a String assigned from itself without the `val is s->val` test);
    `.noobj` = the op names an own key object that does not exist (ill-formed op file);
    `get(t, k)` for the value raises KeyError before `Tree_Set` is entered.
    The node an argument lives in and the node `Tree_Set` stops at are the same node iff their keys compare equal (the keys of
    a tree are pairwise different: `Valid`). -/
def Tree.setArgs [Packed α] [Packed β] (g : Bool) (cmp : α → α → Ordering) (m : Tree α β) (ka : KArg α) (va : VArg α β) :
    Option (Tree α β × Obs α β) :=
  match m.keyArg cmp ka with
  | none => some (m, .noobj)
  | some (key, kHome) =>
    match m.valArg cmp va with
    | none => some (m, .err .KeyError)
    | some (val, vHome) =>
      -- the node the descent of `Tree_Set` stops at with this key, if any
      let target := (findKV (orient CelloGen.Tree.setDescent cmp) m.root key).map (·.1)
      let sameNode : Option α → Bool := fun home =>
        match home, target with
        | some a, some b => cmp b a = .eq
        | _, _ => false
      if (sameNode kHome && !selfAssignDefined g key) || (sameNode vHome && !selfAssignDefined g val) then none
      else (m.set cmp key val).map (fun m' => (m', .done))

/-- operations of the second layer: those of `Op`, and -/
inductive AOp (α β : Type) where
  | base (op : Op α β)
  | setA (t : Nat) (ka : KArg α) (va : VArg α β)        -- `set(t, K, V)` with own objects
  | getK (t : Nat) (k : α)                              -- `get(t, K)`, `K` = the tree's own key object for `k`
  | memK (t : Nat) (k : α)
  | remK (t : Nat) (k : α)                              -- `rem(t, K)`: the key argument lives in the node that is removed
  | assignMap (t : Nat) (ks vs : Nat) (kvs : List (α × β))
      -- `assign(t, obj)` for a map `obj` that is not a Tree (key type of size `ks`, value type of size `vs`, iterating the
      -- keys of `kvs` in this order, `get(obj, key)` = the value beside it): `Tree_Clear`, the types and sizes taken over,
      -- `Tree_Set(self, key, get(obj, key))` per key — what `Tree_New` does with the same pairs
  | newOdd (t : Nat)
      -- `new(Tree, K, V, k1, v1, …, kn)`: an odd number of arguments; `Tree_New` raises FormatError (after it has set the
      -- types, before the first `Tree_Set`), no tree comes into being and `t` keeps what it named

/-- one operation of the second layer; `g` = `String_Assign` tests `val is s->val` (`CelloGen.Tree.stringAssignGuardsSelf`).
    Wherever the operation went as far as looking at the tree `t`, the store entry is written back (`put`). -/
def stepA [Packed α] [Packed β] (g : Bool) (cmp : α → α → Ordering) (st : Store (Tree α β)) :
    AOp α β → Option (Store (Tree α β) × Obs α β)
  | .base op => step cmp st op
  | .setA t ka va =>
    match st.get? t with
    | none => some (st, .noobj)
    | some m =>
      (m.setArgs g cmp ka va).map (fun r => (st.put t r.1, r.2))
  | .getK t k =>
    match st.get? t with
    | none => some (st, .noobj)
    | some m =>
      match m.entry cmp k with
      | none => some (st, .noobj)
      | some e => step cmp st (.get t e.1)
  | .memK t k =>
    match st.get? t with
    | none => some (st, .noobj)
    | some m =>
      match m.entry cmp k with
      | none => some (st, .noobj)
      | some e => step cmp st (.mem t e.1)
  | .remK t k =>
    match st.get? t with
    | none => some (st, .noobj)
    | some m =>
      match m.entry cmp k with
      | none => some (st.put t m, .noobj)
      | some e => step cmp st (.rem t e.1)
  | .assignMap t ks vs kvs =>
    match st.get? t with
    | none => some (st, .noobj)
    | some _ => step cmp st (.new t ks vs kvs)
  | .newOdd _ => some (st, .err .FormatError)

def runA [Packed α] [Packed β] (g : Bool) (cmp : α → α → Ordering) :
    Store (Tree α β) → List (AOp α β) → Option (Store (Tree α β) × List (Obs α β))
  | st, [] => some (st, [])
  | st, op :: ops =>
    match stepA g cmp st op with
    | none => none
    | some (st', o) =>
      match runA g cmp st' ops with
      | none => none
      | some (st'', os) => some (st'', o :: os)

namespace Spec

/-- the binding of the map whose key compares equal -/
def getKV (cmp : α → α → Ordering) (k : α) : List (α × β) → Option (α × β)
  | [] => none
  | (k', v') :: l => if cmp k' k = .eq then some (k', v') else getKV cmp k l

/-- an own key / value object is the key / value the map holds -/
def keyArg (cmp : α → α → Ordering) (l : List (α × β)) : KArg α → Option α
  | .val k => some k
  | .own k => (getKV cmp k l).map Prod.fst

def valArg (cmp : α → α → Ordering) (l : List (α × β)) : VArg α β → Option β
  | .val v => some v
  | .own k => (getKV cmp k l).map Prod.snd

/-- `set(t, K, V)` on the map -/
def setArgs (cmp : α → α → Ordering) (ka : KArg α) (va : VArg α β) (l : List (α × β)) : List (α × β) × Obs α β :=
  match keyArg cmp l ka with
  | none => (l, .noobj)
  | some key =>
    match valArg cmp l va with
    | none => (l, .err .KeyError)
    | some val => (set cmp key val l, .done)

/-- the second layer on the specification -/
def stepA (cmp : α → α → Ordering) (st : Store (List (α × β))) : AOp α β → Store (List (α × β)) × Obs α β
  | .base op => step cmp st op
  | .setA t ka va =>
    match st.get? t with
    | none => (st, .noobj)
    | some l => let r := setArgs cmp ka va l; (st.put t r.1, r.2)
  | .getK t k =>
    match st.get? t with
    | none => (st, .noobj)
    | some l =>
      match getKV cmp k l with
      | none => (st, .noobj)
      | some e => step cmp st (.get t e.1)
  | .memK t k =>
    match st.get? t with
    | none => (st, .noobj)
    | some l =>
      match getKV cmp k l with
      | none => (st, .noobj)
      | some e => step cmp st (.mem t e.1)
  | .remK t k =>
    match st.get? t with
    | none => (st, .noobj)
    | some l =>
      match getKV cmp k l with
      | none => (st.put t l, .noobj)
      | some e => step cmp st (.rem t e.1)
  | .assignMap t ks vs kvs =>
    match st.get? t with
    | none => (st, .noobj)
    | some _ => step cmp st (.new t ks vs kvs)
  | .newOdd _ => (st, .err .FormatError)

def runA (cmp : α → α → Ordering) : Store (List (α × β)) → List (AOp α β) → Store (List (α × β)) × List (Obs α β)
  | st, [] => (st, [])
  | st, op :: ops =>
    let r := stepA cmp st op
    let r' := runA cmp r.1 ops
    (r'.1, r.2 :: r'.2)

end Spec

/-! ## keys and values of the op files -/

/-- keys: `Int` (8 bytes), `String` (8 bytes: a pointer) or a plain struct of three or more `int64_t` fields with a
    lexicographic `Cmp` instance (probe type `K3` of the harness: 24 bytes); a tree holds one kind -/
inductive Key where
  | i (n : Int)
  | s (x : String)
  | w (a b : Int) (rest : List Int)
deriving DecidableEq, Repr, Inhabited

/-- `Int_Cmp` on Ints, `strcmp` on Strings (ASCII: byte order = code point order), field by field on the structs;
    Ints before Strings before structs (never mixed) -/
def Key.cmp : Key → Key → Ordering
  | .i a, .i b => compare a b
  | .s a, .s b => compare a b
  | .w a b r, .w a' b' r' => compare (a :: b :: r) (a' :: b' :: r')
  | .i _, _ => .lt
  | _, .i _ => .gt
  | .s _, _ => .lt
  | _, .s _ => .gt

/-- the fields of a plain struct, if the words are all plain data -/
def intsOf : List Word → Option (List Int)
  | [] => some []
  | .int n :: ws => (intsOf ws).map (n :: ·)
  | _ :: _ => none

instance : Packed Key where
  words
    | .i n => [.int n]
    | .s x => [.ptr x]
    | .w a b r => .int a :: .int b :: r.map .int
  ofWords
    | [.int n] => some (.i n)
    | [.ptr x] => some (.s x)
    | .int a :: .int b :: ws => (intsOf ws).map (Key.w a b)
    | _ => none

/-- values: `Int` (one word), `String` (one word: a pointer, owned) or a plain struct of `int64_t` fields (probe types `V3`,
    `V5` of the harness: 24 / 40 bytes) — the same byte representations as the key kinds, so the type is shared:
    `.i n`, `.s x`, `.w a b [c]` (24 bytes), `.w a b [c, d, e]` (40 bytes) -/
abbrev Val := Key

/-- a plain-data value from its words -/
def Val.ofInts : List Int → Val
  | [n] => .i n
  | a :: b :: r => .w a b r
  | [] => .i 0

end Cello.RB
