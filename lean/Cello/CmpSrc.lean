/-
  Engine `cmp` (property C09), second layer: the three comparison functions that hand their operands to libc, as PROGRAMS
  translated from the source on every run (CelloGen/Cmp.lean: `stringCmp`, `typeCmp` over an abstract `strcmp`; `cmpDispatch`
  = `cmp` of src/Cmp.c over abstract object-system operations and `memcmp`), what ISO C fixes about `strcmp` / `memcmp`
  (`StrcmpSpec`, `MemcmpSpec`: the SIGN of the first differing pair of bytes read as unsigned char — nothing about the
  magnitude), instances of those (a libc that answers -1/0/1, one that answers the byte difference, and one that reads
  `char` as signed — which violates the spec), and the interpretation of `cmpDispatch` on the value universe.
  Core Lean only (the driver links this).
-/
import Cello.Cmp

namespace Cello.Cmp
open CelloGen.Cmp (StrOps DispOps Outcome)

/-- ISO C 7.24.4 for `strcmp` on two NUL-terminated strings without embedded NUL: the sign of the result is the sign of the
    difference of the first pair of bytes that differ, both read as `unsigned char`; a proper prefix is smaller (its NUL
    is the smaller byte) — i.e. the sign of `bytesCmp`.  The magnitude is unspecified. -/
structure StrcmpSpec (ops : StrOps (List UInt8)) : Prop where
  sign : ∀ a b, NulFree a → NulFree b → sgn (ops.strcmp a b).toInt = bytesCmp a b

/-- a libc whose `strcmp` answers -1 / 0 / 1 -/
def signStrOps : StrOps (List UInt8) := ⟨fun a b => BitVec.ofInt 32 (bytesCmp a b)⟩

/-- the difference of the first differing pair of unsigned bytes (the end of a string reads as 0) -/
def bytesDiff : List UInt8 → List UInt8 → Int
  | [], [] => 0
  | [], y :: _ => -(y.toNat : Int)
  | x :: _, [] => (x.toNat : Int)
  | x :: xs, y :: ys => if x = y then bytesDiff xs ys else byteCmp x y

/-- a libc whose `strcmp` answers that difference (glibc's generic C version) -/
def diffStrOps : StrOps (List UInt8) := ⟨fun a b => BitVec.ofInt 32 (bytesDiff a b)⟩

/-- a byte read as `signed char` -/
def scharOf (x : UInt8) : Int := if x.toNat < 128 then x.toNat else (x.toNat : Int) - 256

def scharDiff : List UInt8 → List UInt8 → Int
  | [], [] => 0
  | [], y :: _ => -(scharOf y)
  | x :: _, [] => scharOf x
  | x :: xs, y :: ys => if x = y then scharDiff xs ys else scharOf x - scharOf y

/-- a `strcmp` written with plain `char` on a platform where `char` is signed: NOT what the standard specifies -/
def signedCharStrOps : StrOps (List UInt8) := ⟨fun a b => BitVec.ofInt 32 (scharDiff a b)⟩

/-- `cmp` on two Strings / two Types through the translated String_Cmp / Type_Cmp, over a given libc -/
def strSrcCmp (ops : StrOps (List UInt8)) (a b : List UInt8) : Int := (CelloGen.Cmp.stringCmp ops a b).toInt
def typeSrcCmp (ops : StrOps (List UInt8)) (a b : List UInt8) : Int := (CelloGen.Cmp.typeCmp ops a b).toInt

/-- ISO C 7.24.4 for `memcmp(a, b, n)` on two blocks of at least `n` bytes: the sign of the first differing pair among the
    first `n` bytes, read as `unsigned char`; 0 when there is none -/
structure MemcmpSpec (mc : List UInt8 → List UInt8 → Nat → BitVec 32) : Prop where
  sign : ∀ a b n, n ≤ a.length → n ≤ b.length → sgn (mc a b n).toInt = bytesCmp (a.take n) (b.take n)

def signMemcmp (a b : List UInt8) (n : Nat) : BitVec 32 := BitVec.ofInt 32 (bytesCmp (a.take n) (b.take n))

/-- the object system as `cmp` of src/Cmp.c sees the value universe: the plain struct types (0…3) have no Cmp instance, everything
    else has one (`inst` = what the call through it returns); the type of an object is `Val.etype` (100 + tid for plain
    structs), `size` of a plain struct type is `plainSize`; `memcmp` sees the bytes of the two structs -/
def valDispOps (mc : List UInt8 → List UInt8 → Nat → BitVec 32) (inst : Val → Val → BitVec 32) : DispOps Val where
  hasInstance v := v.ctype != 4
  hasCmp v := v.ctype != 4
  callCmp _ a b := inst a b
  typeOf v := (v.etype : Int)
  sizeOf t := if 100 ≤ t then BitVec.ofNat 64 (plainSize (t - 100).toNat) else 8
  memcmp a b n := mc a.bytesOf b.bytesOf n.toNat

/-- an outcome of the translated `cmp` as a result of the model (sign only: that is all `cmp`'s callers may use) -/
def outcomeRes : Outcome → Res
  | .ret v => .ok (sgn v.toInt)
  | .throw e => .exc e

/-- `cmp(self, obj)` through the translated dispatch -/
def srcCmpTop (mc : List UInt8 → List UInt8 → Nat → BitVec 32) (inst : Val → Val → BitVec 32) (a b : Val) : Res :=
  outcomeRes (CelloGen.Cmp.cmpDispatch (valDispOps mc inst) a b)

/-- which arm of `cmp` a call takes (branch statistics of the driver): 0 = the type's instance, 1 = memcmp, 2 = TypeError -/
def dispatchArm (a b : Val) : Nat :=
  let ops := valDispOps signMemcmp (fun _ _ => 0)
  if ops.hasInstance a && ops.hasCmp a then 0
  else if ops.typeOf a == ops.typeOf b && ops.sizeOf (ops.typeOf a) != 0 then 1 else 2

/-- the driver's second opinion on a top-level comparison of two Strings, two Types, or with a plain struct as `self`: the
    translated source programs over the -1/0/1 libc (`none`: not one of these pairs) -/
def srcSecondOpinion (a b : Val) : Option Res :=
  match a, b with
  | .str x, .str y => some (.ok (sgn (strSrcCmp signStrOps x y)))
  | .typ x, .typ y => some (.ok (sgn (typeSrcCmp signStrOps x y)))
  | .plain _ _, _ => some (srcCmpTop signMemcmp (fun _ _ => 0) a b)
  | _, _ => none

end Cello.Cmp
