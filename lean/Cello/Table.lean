/-
  Cello/Table.lean — executable model of src/Table.c as it is in /repo now (after the `fix:` commits for F02, F03, the
  self-assignment guard a3140e4 and the checked address test of `Table_Get` bc940bb),
  and the association-list specification it is proved against (CelloProofs/Props/C02.lean).  Core Lean only.

  A table is `nslots` (`n`), the slot array (`RH.Slots`: per slot `none` = stored hash 0, or the entry with its stored
  home = `hash key % nslots`; the C code stores `home+1`), and `nitems`.  The two swap spaces of `Table_Set_Move` are
  the carried entry `c` of `setLoop` (sspace0) and the `let r` of the swap branch (sspace1).  `move` vs `assign`
  insertion differ only in how the bytes get into sspace0 (memcpy vs `assign`), not in the slot contents, so the model
  has one `setMove`.

  What can differ between source versions is a parameter (`Cfg`): the displacement test (`j > p` / `j >= p`), whether
  `Table_Set` grows an `nslots = 0` table first, `Table_Ideal_Size`, whether `Table_Assign` guards `self is obj`, whether the address short cut of `Table_Get` checks that it
  was given the key object of an occupied record; the check instantiates them from
  CelloGen/Table.lean, which the translator regenerates from src/Table.c on every run.

  Outcomes: a Cello exception is an `Obs.raised` next to the (unchanged or changed) state; undefined behaviour
  (`hash % 0`) and a loop that never ends are `Fail.ub` / `Fail.diverge` (no state).
-/
import Cello.RH
namespace Cello.Table
open RH

inductive Exc where
  | KeyError
  | FormatError
  | ValueError      -- `cast(key, t->ktype)` of an object that is not of the key type
deriving DecidableEq, Repr, Inhabited

def Exc.name : Exc → String
  | .KeyError => "KeyError"
  | .FormatError => "FormatError"
  | .ValueError => "ValueError"

inductive Fail where
  | ub        -- `hash(key) % 0`: integer division by zero
  | diverge   -- a `while (true)` probing loop that does not terminate
deriving DecidableEq, Repr, Inhabited

def Fail.name : Fail → String
  | .ub => "ub"
  | .diverge => "diverge"

/-- the source-dependent parameters of the model -/
structure Cfg where
  /-- displacement test of `Table_Set_Move`: `true` = `j >= p` (defect F02), `false` = `j > p` -/
  ge : Bool
  /-- `Table_Set` first rehashes a table with `nslots = 0` to `Table_Ideal_Size(0)` (fix of F03) -/
  growEmpty : Bool
  /-- `Table_Ideal_Size` -/
  ideal : Nat → Nat
  /-- `Table_Assign` starts with `if (self is obj) { return; }` (fix a3140e4 of the self-assignment defect) -/
  selfGuard : Bool := true
  /-- the address test at the top of `Table_Get` takes its short cut only for the key object of an occupied record
      (`true`: the source since fix bc940bb); `false`: the text before that fix — any address inside the slot array was
      answered with the value of its record (was finding KF-C02-get-alias) -/
  getChecksKey : Bool := true

/-- `Table_Ideal_Size` over a prime table and a load factor `num/den`:
    `size = (size_t)((double)(size+1) / lf)`, first prime `>= size`, else the first multiple of the last prime `>= size`.
    (`last = 0` would loop for ever in C; here it yields 0, which `idealSize_gt` excludes.) -/
def idealSize (primes : List Nat) (num den : Nat) (size : Nat) : Nat :=
  let s := (size + 1) * den / num
  match primes.find? (fun p => decide (s ≤ p)) with
  | some p => p
  | none =>
    let last := primes.getLast?.getD 0
    if last = 0 then 0 else ((s + last - 1) / last) * last

structure Tab (κ ν : Type) where
  n : Nat
  slots : Slots κ ν n
  nitems : Nat

variable {κ ν : Type} [DecidableEq κ]

/-- `calloc`ed slot array of `n` slots, `nitems = 0` -/
def Tab.empty (n : Nat) : Tab κ ν := ⟨n, Vector.replicate n none, 0⟩

/-- the `while (true)` loop of `Table_Set_Move`; `c` is the record in sspace0.  Result: new slots and whether `nitems++`
    happened (empty slot taken) or not (equal key replaced). -/
def setLoop {n : Nat} (ge : Bool) : (fuel : Nat) → Slots κ ν n → Entry κ ν → (i j : Nat) → (hi : i < n) →
    Option (Slots κ ν n × Bool)
  | 0, _, _, _, _, _ => none
  | fuel+1, s, c, i, j, hi =>
    match s[i] with
    | none => some (s.set i (some c), true)
    | some r =>
      if r.key = c.key then some (s.set i (some c), false)
      else
        let p := dist n i r.home
        if (if ge then j ≥ p else j > p) then setLoop ge fuel (s.set i (some c)) r (next n i) (p+1) (next_lt hi)
        else setLoop ge fuel s c (next n i) (j+1) (next_lt hi)

/-- `Table_Set_Move(t, key, val, _)` -/
def setMove (cfg : Cfg) (hash : κ → Nat) (t : Tab κ ν) (k : κ) (v : ν) : Except Fail (Tab κ ν) :=
  if hn : t.n = 0 then .error .ub
  else
    match setLoop cfg.ge t.n t.slots ⟨k, hash k % t.n, v⟩ (hash k % t.n) 0 (Nat.mod_lt _ (Nat.pos_of_ne_zero hn)) with
    | none => .error .diverge
    | some (s, added) => .ok ⟨t.n, s, if added then t.nitems + 1 else t.nitems⟩

/-- one iteration of the `for` loop of `Table_Rehash` / of the `foreach` of `Table_Assign` -/
def reinsert (cfg : Cfg) (hash : κ → Nat) (t : Tab κ ν) (e : Option (Entry κ ν)) : Except Fail (Tab κ ν) :=
  match e with
  | none => .ok t
  | some e => setMove cfg hash t e.key e.val

/-- `Table_Rehash(t, new_size)`: fresh zeroed array, `nitems = 0`, every occupied old slot re-inserted in slot order -/
def rehash (cfg : Cfg) (hash : κ → Nat) (t : Tab κ ν) (newSize : Nat) : Except Fail (Tab κ ν) :=
  t.slots.toList.foldlM (reinsert cfg hash) (Tab.empty newSize)

def resizeMore (cfg : Cfg) (hash : κ → Nat) (t : Tab κ ν) : Except Fail (Tab κ ν) :=
  if cfg.ideal t.nitems > t.n then rehash cfg hash t (cfg.ideal t.nitems) else .ok t

def resizeLess (cfg : Cfg) (hash : κ → Nat) (t : Tab κ ν) : Except Fail (Tab κ ν) :=
  if cfg.ideal t.nitems < t.n then rehash cfg hash t (cfg.ideal t.nitems) else .ok t

/-- `Table_Set` -/
def set (cfg : Cfg) (hash : κ → Nat) (t : Tab κ ν) (k : κ) (v : ν) : Except Fail (Tab κ ν) := do
  let t1 ← if t.n = 0 ∧ cfg.growEmpty then rehash cfg hash t (cfg.ideal 0) else .ok t
  let t2 ← setMove cfg hash t1 k v
  resizeMore cfg hash t2

/-- the probing loop shared by `Table_Get`, `Table_Mem`, `Table_Rem` (after their `nslots is 0` guard) -/
def find (hash : κ → Nat) (t : Tab κ ν) (k : κ) : Except Fail (Option (Fin t.n)) :=
  if hn : t.n = 0 then .ok none
  else
    match findLoop t.slots k t.n (hash k % t.n) 0 (Nat.mod_lt _ (Nat.pos_of_ne_zero hn)) with
    | none => .error .diverge
    | some r => .ok r

/-- the inner `while (true)` of `Table_Rem`: pull the following entries one slot back while they are away from home -/
def shiftBack {n : Nat} : (fuel : Nat) → Slots κ ν n → (i : Nat) → (hi : i < n) → Option (Slots κ ν n)
  | 0, _, _, _ => none
  | fuel+1, s, i, hi =>
    match s[next n i]'(next_lt hi) with
    | none => some s
    | some e =>
      if dist n (next n i) e.home > 0 then
        shiftBack fuel ((s.set i (some e)).set (next n i) none (next_lt hi)) (next n i) (next_lt hi)
      else some s

/-- observations -/
inductive Obs (κ ν : Type) where
  | done
  | raised (e : Exc)
  | val (v : ν)
  | bool (b : Bool)
  | nat (n : Nat)
  | items (l : List (κ × ν))
  | badOp
  /-- a pointer to an all-zero record (no header, no value): what `Table_Get` hands out for an address inside an *empty* slot -/
  | zeroed
deriving Repr

/-- `Table_Get` from `key = cast(key, t->ktype)` on, i.e. for a `key` object that is not the stored key object of an occupied
    record of this table (`getArg` below is the whole function, with the address test in front) -/
def get (hash : κ → Nat) (t : Tab κ ν) (k : κ) : Except Fail (Obs κ ν) :=
  match find hash t k with
  | .error f => .error f
  | .ok none => .ok (.raised .KeyError)
  | .ok (some i) =>
    match t.slots[i] with
    | some e => .ok (.val e.val)
    | none => .ok (.raised .KeyError)      -- unreachable: `findLoop` only returns occupied slots

/-! ### the `key` argument of `Table_Get` as the C code sees it: an address.

    `Table_Get` first tests whether `key` lies in `[data, data + nslots*step)`.  Since fix bc940bb it then takes the short
    cut `return Table_Val(t, i)` (`i = (key - data) / step`) only when `key is Table_Key(t, i)` and the record is occupied —
    that is how `foreach (k in t) get(t, k)` avoids re-hashing — and otherwise falls through to the cast and the probing loop
    (`getInSlotChecked`).  Before the fix it returned `Table_Val(t, i)` at once for ANY address in the range — no look at
    which part of the record the pointer names nor at whether the slot is occupied — which is what `get(t, get(t, k))` ran
    into (`getInSlot`, kept as the explicit OLD variant `getChecksKey := false`).  `Table_Mem` / `Table_Rem` / `Table_Set`
    have no such test. -/

/-- which object of a slot record a pointer names -/
inductive Part where
  | key    -- `Table_Key(t, i)`: what `Table_Iter_Init/Next/Last/Prev` hand out
  | val    -- `Table_Val(t, i)`: what `Table_Get` returns
deriving DecidableEq, Repr

inductive KeyArg (κ : Type) where
  /-- an object outside the table's slot array (a `$I(..)` on the stack, a heap object, a record of another table) with key value `k` -/
  | obj (k : κ)
  /-- a pointer into record `i` of this table's own slot array -/
  | inSlot (i : Nat) (part : Part)
deriving Repr

/-- the key object does not live in the table it is looked up in (the side condition the lookup theorem needed before fix
    bc940bb; `C02_get_mem_agree` no longer has it) -/
def KeyArg.outside : KeyArg κ → Bool
  | .obj _ => true
  | .inSlot _ _ => false

/-- the address test as it was BEFORE fix bc940bb, for an address inside record `i` (OLD variant) -/
def getInSlot (t : Tab κ ν) (i : Fin t.n) : Obs κ ν :=
  match t.slots[i] with
  | some e => .val e.val
  | none => .zeroed

/-- the address test as it is now (`key is Table_Key(t, i) and Table_Key_Hash(t, i) isnt 0`, else fall through to
    `cast(key, t->ktype)` and the probing loop): the object in the record is then an ordinary key argument, read as a key by
    `asKey` (a value object of another type, or the zeroed object of an empty record: the cast raises ValueError) -/
def getInSlotChecked (hash : κ → Nat) (asKey : ν → Option κ) (t : Tab κ ν) (i : Fin t.n) (part : Part) :
    Except Fail (Obs κ ν) :=
  match t.slots[i], part with
  | some e, .key => .ok (.val e.val)
  | some e, .val =>
    match asKey e.val with
    | none => .ok (.raised .ValueError)
    | some k' => get hash t k'
  | none, _ => .ok (.raised .ValueError)

/-- **`Table_Get`, whole function.**  (`inSlot i` with `i ≥ nslots` is not an address inside the array: `badOp`.) -/
def getArg (cfg : Cfg) (hash : κ → Nat) (asKey : ν → Option κ) (t : Tab κ ν) : KeyArg κ → Except Fail (Obs κ ν)
  | .inSlot i part =>
    if h : i < t.n then
      if cfg.getChecksKey then getInSlotChecked hash asKey t ⟨i, h⟩ part else .ok (getInSlot t ⟨i, h⟩)
    else .ok .badOp
  | .obj k => get hash t k

/-- the key VALUE a key argument stands for, as `Table_Get` reads it after its address test: `none` = not an address
    inside the array (no such object); `some (.error e)` = `cast(key, t->ktype)` raises `e` (a value object of another type, or
    the zeroed memory of an empty record: no header, no type); `some (.ok k)` = an object of the key type with value `k` -/
def KeyArg.denote (asKey : ν → Option κ) (t : Tab κ ν) : KeyArg κ → Option (Except Exc κ)
  | .obj k => some (.ok k)
  | .inSlot i part =>
    if h : i < t.n then
      match t.slots[i], part with
      | some e, .key => some (.ok e.key)
      | some e, .val =>
        match asKey e.val with
        | none => some (.error .ValueError)
        | some k' => some (.ok k')
      | none, _ => some (.error .ValueError)
    else none

/-- `p = key object the table stores for k` (located through `v = get(t, k)`: the record of `v`), then `get(t, p)`:
    the path of `foreach (p in t) get(t, p)` for one key -/
def getViaKey (cfg : Cfg) (hash : κ → Nat) (asKey : ν → Option κ) (t : Tab κ ν) (k : κ) : Except Fail (Obs κ ν) :=
  match find hash t k with
  | .error f => .error f
  | .ok none => .ok (.raised .KeyError)
  | .ok (some i) => getArg cfg hash asKey t (.inSlot i.val .key)

/-- `get(t, get(t, k))`: the first call probes for the outside object `k` and returns `v = Table_Val(t, i)`; the second
    call is given `v`, which lies inside record `i` -/
def getViaVal (cfg : Cfg) (hash : κ → Nat) (asKey : ν → Option κ) (t : Tab κ ν) (k : κ) : Except Fail (Obs κ ν) :=
  match find hash t k with
  | .error f => .error f
  | .ok none => .ok (.raised .KeyError)
  | .ok (some i) => getArg cfg hash asKey t (.inSlot i.val .val)

/-- `Table_Mem` -/
def mem (hash : κ → Nat) (t : Tab κ ν) (k : κ) : Except Fail (Obs κ ν) :=
  match find hash t k with
  | .error f => .error f
  | .ok none => .ok (.bool false)
  | .ok (some _) => .ok (.bool true)

/-- `Table_Rem` -/
def rem (cfg : Cfg) (hash : κ → Nat) (t : Tab κ ν) (k : κ) : Except Fail (Tab κ ν × Obs κ ν) :=
  match find hash t k with
  | .error f => .error f
  | .ok none => .ok (t, .raised .KeyError)
  | .ok (some i) =>
    match shiftBack t.n (t.slots.set i none) i i.isLt with
    | none => .error .diverge
    | some s =>
      match resizeLess cfg hash ⟨t.n, s, t.nitems - 1⟩ with
      | .error f => .error f
      | .ok t' => .ok (t', .done)


/-! ### compiled code: in-place updates.  The definitions above read `t.slots` while `t` (resp. the list of tables) is still
    referenced, which makes the compiled code copy the slot array on every write.  The variants below take the record apart
    first; `@[csimp]` replaces the originals in compiled code only after Lean has checked the equality proofs. -/

def setMoveFast (cfg : Cfg) (hash : κ → Nat) (t : Tab κ ν) (k : κ) (v : ν) : Except Fail (Tab κ ν) :=
  match t with
  | ⟨n, slots, nitems⟩ =>
    if hn : n = 0 then .error .ub
    else
      match setLoop cfg.ge n slots ⟨k, hash k % n, v⟩ (hash k % n) 0 (Nat.mod_lt _ (Nat.pos_of_ne_zero hn)) with
      | none => .error .diverge
      | some (s, added) => .ok ⟨n, s, if added then nitems + 1 else nitems⟩

@[csimp] theorem setMove_eq_fast : @setMove = @setMoveFast := by
  funext κ ν inst cfg hash t k v
  cases t
  simp only [setMove, setMoveFast]
  split
  · rfl
  · split <;> rename_i h <;> simp only [h]

def remFast (cfg : Cfg) (hash : κ → Nat) (t : Tab κ ν) (k : κ) : Except Fail (Tab κ ν × Obs κ ν) :=
  match find hash t k with
  | .error f => .error f
  | .ok none => .ok (t, .raised .KeyError)
  | .ok (some i) =>
    match t, i with
    | ⟨n, slots, nitems⟩, i =>
      match shiftBack n (slots.set i none) i i.isLt with
      | none => .error .diverge
      | some s =>
        match resizeLess cfg hash ⟨n, s, nitems - 1⟩ with
        | .error f => .error f
        | .ok t' => .ok (t', .done)

@[csimp] theorem rem_eq_fast : @rem = @remFast := by
  funext κ ν inst cfg hash t k
  cases t
  simp only [rem, remFast]
  split
  · rfl
  · rfl
  · split
    · rename_i h2; simp only [h2]
    · rename_i h2; simp only [h2]

/-- `Table_Clear` -/
def clear (_t : Tab κ ν) : Tab κ ν := ⟨0, #v[], 0⟩

/-- `Table_Resize` (with `CELLO_BOUND_CHECK`) -/
def resize (cfg : Cfg) (hash : κ → Nat) (t : Tab κ ν) (m : Nat) : Except Fail (Tab κ ν × Obs κ ν) :=
  if m = 0 then .ok (clear t, .done)
  else if m < t.nitems then .ok (t, .raised .FormatError)
  else
    match rehash cfg hash t (cfg.ideal m) with
    | .error f => .error f
    | .ok t' => .ok (t', .done)

/-! ### iteration: `Table_Iter_Init/Next/Last/Prev` scan the slot array -/

/-- first occupied slot with index `≥ i` -/
def scanUp {n : Nat} (s : Slots κ ν n) : (fuel i : Nat) → Option (Fin n)
  | 0, _ => none
  | fuel+1, i =>
    if h : i < n then
      match s[i] with
      | some _ => some ⟨i, h⟩
      | none => scanUp s fuel (i+1)
    else none

/-- last occupied slot with index `≤ i` -/
def scanDown {n : Nat} (s : Slots κ ν n) : (fuel i : Nat) → Option (Fin n)
  | 0, _ => none
  | fuel+1, i =>
    if h : i < n then
      match s[i] with
      | some _ => some ⟨i, h⟩
      | none => if i = 0 then none else scanDown s fuel (i-1)
    else none

def iterInit (t : Tab κ ν) : Option (Fin t.n) := if t.nitems = 0 then none else scanUp t.slots t.n 0
def iterNext (t : Tab κ ν) (i : Fin t.n) : Option (Fin t.n) := scanUp t.slots t.n (i.val + 1)
def iterLast (t : Tab κ ν) : Option (Fin t.n) := if t.nitems = 0 then none else scanDown t.slots t.n (t.n - 1)
def iterPrev (t : Tab κ ν) (i : Fin t.n) : Option (Fin t.n) := if i.val = 0 then none else scanDown t.slots t.n (i.val - 1)

/-- `foreach (key in t)`, collecting `(key, get(t, key))` — `Table_Get` on a key inside the table's storage returns the
    value of that very slot -/
def walk (t : Tab κ ν) (nxt : Fin t.n → Option (Fin t.n)) : (fuel : Nat) → Option (Fin t.n) → List (κ × ν)
  | 0, _ => []
  | _+1, none => []
  | fuel+1, some i =>
    match t.slots[i] with
    | some e => (e.key, e.val) :: walk t nxt fuel (nxt i)
    | none => walk t nxt fuel (nxt i)

def foreach (t : Tab κ ν) : List (κ × ν) := walk t (iterNext t) (t.n + 1) (iterInit t)
def foreachRev (t : Tab κ ν) : List (κ × ν) := walk t (iterPrev t) (t.n + 1) (iterLast t)

/-- the source's occupied slots in slot order, as `foreach (key in obj)` of `Table_Assign` sees them
    (`Table_Iter_Init` answers `Terminal` when `nitems` is 0) -/
def sourceEntries (src : Tab κ ν) : List (Option (Entry κ ν)) := if src.nitems = 0 then [] else src.slots.toList

/-- `Table_Assign(self, obj)` for a Table `obj` that is not `self`: clear, size for `len(obj)`, insert in obj's order -/
def assignFrom (cfg : Cfg) (hash : κ → Nat) (src : Tab κ ν) : Except Fail (Tab κ ν) :=
  if cfg.ideal src.nitems = 0 then .ok (Tab.empty 0)
  else (sourceEntries src).foldlM (reinsert cfg hash) (Tab.empty (cfg.ideal src.nitems))

/-- `Table_Assign(self, self)` as it was BEFORE fix a3140e4 (no `self is obj` guard): `Table_Clear(self)` runs first, then
    `len(obj)` is 0 and nothing is iterated -/
def assignSelfOld (cfg : Cfg) : Tab κ ν := Tab.empty (cfg.ideal 0)

/-- `Table_Assign(self, self)`: returns at once when the guard is there -/
def assignSelf (cfg : Cfg) (t : Tab κ ν) : Tab κ ν := if cfg.selfGuard then t else assignSelfOld cfg

/-- `new(Table, K, V)` -/
def new (cfg : Cfg) : Tab κ ν := Tab.empty (cfg.ideal 0)

/-- the insertion loop of `Table_New` (initial pairs) and of `Table_Assign` from an arbitrary map: one `Table_Set_Move`
    per pair in the order given — NO `Table_Resize_More` in between, the array was sized beforehand -/
def insertAll (cfg : Cfg) (hash : κ → Nat) (t : Tab κ ν) (kvs : List (κ × ν)) : Except Fail (Tab κ ν) :=
  kvs.foldlM (fun t p => setMove cfg hash t p.1 p.2) t

/-- `new(Table, K, V, k1, v1, …, kn, vn)` (Table.c:153-181) and `Table_Assign(self, obj)` after its `Table_Clear` for a
    map `obj` that is not a Table (Table.c:233-260; `len(obj) = n`, `foreach`/`get` yield the pairs in this order):
    `nslots = Table_Ideal_Size(n)`; `nslots is 0` returns before the loop; else a zeroed array and the insertion loop.
    A pair list may repeat a key (constructor arguments): the later pair replaces the earlier one. -/
def fill (cfg : Cfg) (hash : κ → Nat) (kvs : List (κ × ν)) : Except Fail (Tab κ ν) :=
  if cfg.ideal kvs.length = 0 then .ok (Tab.empty 0)
  else insertAll cfg hash (Tab.empty (cfg.ideal kvs.length)) kvs

/-! ### histories over several tables -/

inductive Op (κ ν : Type) where
  | new (t : Nat)
  | set (t : Nat) (k : κ) (v : ν)
  | rem (t : Nat) (k : κ)
  | get (t : Nat) (k : κ)
  | mem (t : Nat) (k : κ)
  | len (t : Nat)
  | iter (t : Nat)
  | riter (t : Nat)
  | resize (t : Nat) (m : Nat)
  | assign (dst src : Nat)
  | copy (dst src : Nat)
  /-- `tables[t] = new(Table, K, V, k1, v1, …)`; `odd`: one more argument after the pairs (FormatError, `tables[t]` keeps its value) -/
  | newWith (t : Nat) (kvs : List (κ × ν)) (odd : Bool)
  /-- `assign(tables[dst], obj)` for a map `obj` that is not a Table (a Tree): `len(obj) = kvs.length`, iteration yields `kvs` -/
  | assignMap (dst : Nat) (kvs : List (κ × ν))
deriving Repr

/-- one operation on the tables `ts` (objects named by index); an index that names no table is a `badOp` -/
def step (cfg : Cfg) (hash : κ → Nat) (ts : List (Tab κ ν)) : Op κ ν → Except Fail (List (Tab κ ν) × Obs κ ν)
  | .new t => if t < ts.length then .ok (ts.set t (new cfg), .done) else .ok (ts, .badOp)
  | .set t k v =>
    match ts[t]? with
    | none => .ok (ts, .badOp)
    | some tb => match set cfg hash tb k v with
      | .error f => .error f
      | .ok tb' => .ok (ts.set t tb', .done)
  | .rem t k =>
    match ts[t]? with
    | none => .ok (ts, .badOp)
    | some tb => match rem cfg hash tb k with
      | .error f => .error f
      | .ok (tb', o) => .ok (ts.set t tb', o)
  | .get t k =>      -- the key object is outside every table's storage: `getArg cfg hash _ tb (.obj k)`
    match ts[t]? with
    | none => .ok (ts, .badOp)
    | some tb => match get hash tb k with
      | .error f => .error f
      | .ok o => .ok (ts, o)
  | .mem t k =>
    match ts[t]? with
    | none => .ok (ts, .badOp)
    | some tb => match mem hash tb k with
      | .error f => .error f
      | .ok o => .ok (ts, o)
  | .len t =>
    match ts[t]? with
    | none => .ok (ts, .badOp)
    | some tb => .ok (ts, .nat tb.nitems)
  | .iter t =>
    match ts[t]? with
    | none => .ok (ts, .badOp)
    | some tb => .ok (ts, .items (foreach tb))
  | .riter t =>
    match ts[t]? with
    | none => .ok (ts, .badOp)
    | some tb => .ok (ts, .items (foreachRev tb))
  | .resize t m =>
    match ts[t]? with
    | none => .ok (ts, .badOp)
    | some tb => match resize cfg hash tb m with
      | .error f => .error f
      | .ok (tb', o) => .ok (ts.set t tb', o)
  | .assign dst src =>
    match ts[dst]?, ts[src]? with
    | some db, some sb =>
      if dst = src then .ok (ts.set dst (assignSelf cfg db), .done)
      else match assignFrom cfg hash sb with
        | .error f => .error f
        | .ok tb' => .ok (ts.set dst tb', .done)
    | _, _ => .ok (ts, .badOp)
  | .copy dst src =>
    -- tables[dst] = copy(tables[src]) : `assign(alloc(Table), src)`; the previous tables[dst] is deleted afterwards
    match ts[dst]?, ts[src]? with
    | some _, some sb =>
      match assignFrom cfg hash sb with
      | .error f => .error f
      | .ok tb' => .ok (ts.set dst tb', .done)
    | _, _ => .ok (ts, .badOp)
  | .newWith t kvs odd =>
    if t < ts.length then
      if odd then .ok (ts, .raised .FormatError)
      else match fill cfg hash kvs with
        | .error f => .error f
        | .ok tb' => .ok (ts.set t tb', .done)
    else .ok (ts, .badOp)
  | .assignMap dst kvs =>
    if dst < ts.length then
      match fill cfg hash kvs with
      | .error f => .error f
      | .ok tb' => .ok (ts.set dst tb', .done)
    else .ok (ts, .badOp)


/-- take element `i` out of a list, leaving `d` in its place (one traversal; the element is moved, not shared) -/
def takeOut {α : Type} (d : α) : List α → Nat → Option (α × List α)
  | [], _ => none
  | a :: as, 0 => some (a, d :: as)
  | a :: as, i+1 =>
    match takeOut d as i with
    | none => none
    | some (x, r) => some (x, a :: r)

theorem takeOut_eq {α : Type} (d : α) : ∀ (l : List α) (i : Nat), takeOut d l i = (l[i]?).map (fun x => (x, l.set i d))
  | [], _ => rfl
  | a :: as, 0 => rfl
  | a :: as, i+1 => by
    simp only [takeOut, takeOut_eq d as i, List.getElem?_cons_succ, List.set_cons_succ]
    cases as[i]? <;> rfl

/-- compiled form of `step`: for `set` and `rem` the table is first taken out of the list (a dummy is left in its place),
    so that the operation owns it and updates its slot array in place -/
def stepFast (cfg : Cfg) (hash : κ → Nat) (ts : List (Tab κ ν)) : Op κ ν → Except Fail (List (Tab κ ν) × Obs κ ν)
  | .set t k v =>
    match takeOut (Tab.empty 0) ts t with
    | none => .ok (ts, .badOp)
    | some (tb, ts0) =>
      match set cfg hash tb k v with
      | .error f => .error f
      | .ok tb' => .ok (ts0.set t tb', .done)
  | .rem t k =>
    match takeOut (Tab.empty 0) ts t with
    | none => .ok (ts, .badOp)
    | some (tb, ts0) =>
      match rem cfg hash tb k with
      | .error f => .error f
      | .ok (tb', o) => .ok (ts0.set t tb', o)
  | .new t => if t < ts.length then .ok (ts.set t (new cfg), .done) else .ok (ts, .badOp)
  | .get t k =>
    match ts[t]? with
    | none => .ok (ts, .badOp)
    | some tb => match get hash tb k with
      | .error f => .error f
      | .ok o => .ok (ts, o)
  | .mem t k =>
    match ts[t]? with
    | none => .ok (ts, .badOp)
    | some tb => match mem hash tb k with
      | .error f => .error f
      | .ok o => .ok (ts, o)
  | .len t =>
    match ts[t]? with
    | none => .ok (ts, .badOp)
    | some tb => .ok (ts, .nat tb.nitems)
  | .iter t =>
    match ts[t]? with
    | none => .ok (ts, .badOp)
    | some tb => .ok (ts, .items (foreach tb))
  | .riter t =>
    match ts[t]? with
    | none => .ok (ts, .badOp)
    | some tb => .ok (ts, .items (foreachRev tb))
  | .resize t m =>
    match ts[t]? with
    | none => .ok (ts, .badOp)
    | some tb => match resize cfg hash tb m with
      | .error f => .error f
      | .ok (tb', o) => .ok (ts.set t tb', o)
  | .assign dst src =>
    match ts[dst]?, ts[src]? with
    | some db, some sb =>
      if dst = src then .ok (ts.set dst (assignSelf cfg db), .done)
      else match assignFrom cfg hash sb with
        | .error f => .error f
        | .ok tb' => .ok (ts.set dst tb', .done)
    | _, _ => .ok (ts, .badOp)
  | .copy dst src =>
    -- tables[dst] = copy(tables[src]) : `assign(alloc(Table), src)`; the previous tables[dst] is deleted afterwards
    match ts[dst]?, ts[src]? with
    | some _, some sb =>
      match assignFrom cfg hash sb with
      | .error f => .error f
      | .ok tb' => .ok (ts.set dst tb', .done)
    | _, _ => .ok (ts, .badOp)
  | .newWith t kvs odd =>
    if t < ts.length then
      if odd then .ok (ts, .raised .FormatError)
      else match fill cfg hash kvs with
        | .error f => .error f
        | .ok tb' => .ok (ts.set t tb', .done)
    else .ok (ts, .badOp)
  | .assignMap dst kvs =>
    if dst < ts.length then
      match fill cfg hash kvs with
      | .error f => .error f
      | .ok tb' => .ok (ts.set dst tb', .done)
    else .ok (ts, .badOp)

@[csimp] theorem step_eq_fast : @step = @stepFast := by
  funext κ ν inst cfg hash ts op
  cases op with
  | set t k v => simp only [step, stepFast, takeOut_eq]; cases ts[t]? <;> simp only [Option.map_none, Option.map_some, List.set_set]
  | rem t k => simp only [step, stepFast, takeOut_eq]; cases ts[t]? <;> simp only [Option.map_none, Option.map_some, List.set_set]
  | _ => simp only [step, stepFast]

/-- a history: the observations in order, and the final tables -/
def run (cfg : Cfg) (hash : κ → Nat) : List (Tab κ ν) → List (Op κ ν) → Except Fail (List (Tab κ ν) × List (Obs κ ν))
  | ts, [] => .ok (ts, [])
  | ts, op :: ops =>
    match step cfg hash ts op with
    | .error f => .error f
    | .ok (ts', o) =>
      match run cfg hash ts' ops with
      | .error f => .error f
      | .ok (ts'', os) => .ok (ts'', o :: os)

/-! ### specification: association lists with unique keys -/

abbrev Spec (κ ν : Type) := List (κ × ν)

def Spec.get (m : Spec κ ν) (k : κ) : Option ν := (m.find? (fun p => decide (p.1 = k))).map (·.2)
def Spec.rem (m : Spec κ ν) (k : κ) : Spec κ ν := m.filter (fun p => !decide (p.1 = k))
def Spec.set (m : Spec κ ν) (k : κ) (v : ν) : Spec κ ν := (k, v) :: Spec.rem m k

/-- the map a list of pairs denotes: a later pair for the same key wins -/
def Spec.ofPairs (kvs : List (κ × ν)) : Spec κ ν := kvs.foldl (fun m p => Spec.set m p.1 p.2) []

/-- what the map answers to `get(t, x)` when `x` is the *value* object bound to `k`, read as a key by `asKey`
    (`cast(x, t->ktype)`: `none` when the value is not of the key type) -/
def Spec.getOfVal (asKey : ν → Option κ) (m : Spec κ ν) (k : κ) : Obs κ ν :=
  match Spec.get m k with
  | none => .raised .KeyError
  | some v =>
    match asKey v with
    | none => .raised .ValueError
    | some k' => match Spec.get m k' with
      | none => .raised .KeyError
      | some w => .val w

def specStep (ms : List (Spec κ ν)) : Op κ ν → List (Spec κ ν) × Obs κ ν
  | .new t => if t < ms.length then (ms.set t [], .done) else (ms, .badOp)
  | .set t k v =>
    match ms[t]? with
    | none => (ms, .badOp)
    | some m => (ms.set t (m.set k v), .done)
  | .rem t k =>
    match ms[t]? with
    | none => (ms, .badOp)
    | some m => match m.get k with
      | none => (ms, .raised .KeyError)
      | some _ => (ms.set t (m.rem k), .done)
  | .get t k =>
    match ms[t]? with
    | none => (ms, .badOp)
    | some m => match m.get k with
      | none => (ms, .raised .KeyError)
      | some v => (ms, .val v)
  | .mem t k =>
    match ms[t]? with
    | none => (ms, .badOp)
    | some m => (ms, .bool (m.get k).isSome)
  | .len t =>
    match ms[t]? with
    | none => (ms, .badOp)
    | some m => (ms, .nat m.length)
  | .iter t =>
    match ms[t]? with
    | none => (ms, .badOp)
    | some m => (ms, .items m)
  | .riter t =>
    match ms[t]? with
    | none => (ms, .badOp)
    | some m => (ms, .items m)
  | .resize t n =>
    match ms[t]? with
    | none => (ms, .badOp)
    | some m =>
      if n = 0 then (ms.set t [], .done)
      else if n < m.length then (ms, .raised .FormatError)
      else (ms, .done)
  | .assign dst src =>
    match ms[dst]?, ms[src]? with
    | some _, some m => (ms.set dst m, .done)
    | _, _ => (ms, .badOp)
  | .copy dst src =>
    match ms[dst]?, ms[src]? with
    | some _, some m => (ms.set dst m, .done)
    | _, _ => (ms, .badOp)
  | .newWith t kvs odd =>
    if t < ms.length then
      if odd then (ms, .raised .FormatError) else (ms.set t (Spec.ofPairs kvs), .done)
    else (ms, .badOp)
  | .assignMap dst kvs =>
    if dst < ms.length then (ms.set dst (Spec.ofPairs kvs), .done) else (ms, .badOp)

def specRun : List (Spec κ ν) → List (Op κ ν) → List (Spec κ ν) × List (Obs κ ν)
  | ms, [] => (ms, [])
  | ms, op :: ops =>
    let (ms', o) := specStep ms op
    let (ms'', os) := specRun ms' ops
    (ms'', o :: os)

/-! ### argument objects that live in the table itself (`set` / `rem` / `mem` / `get`)

    What a user writes when updating or pruning while walking: `foreach (k in t) { set(t, k, get(t, k2)); }`,
    `rem(t, k)` / `mem(t, k)` with the key object iteration handed out, `set(t, newkey, get(t, k))` (growth with a value
    object of the old array as the source).  The argument objects then lie in the slot array the call is about to change.

    The C code reads an argument object only BEFORE its first write to the slot array:
      * `Table_Set_Move` (Table.c:327-397): `cast(key)`, `cast(val)`, `hash(key)`, then `assign` of both into sspace0
        (l.364-366); the `while (true)` loop reads and writes `data`, sspace0, sspace1 only, and `Table_Resize_More` /
        `Table_Rehash` afterwards move records, never the arguments.  (`Table_Set` on an `nslots = 0` table rehashes first —
        a table without slots holds no object, so an argument object inside it does not exist.)
      * `Table_Rem` (l.470-519): `cast(key)`, `hash(key)`, `eq(Table_Key(t, i), key)` while probing — no write yet —, and
        after the match (`destruct`, `memset`, back shift, `Table_Resize_Less`) `key` is not read again; the KeyError
        message reads it when nothing was written.
      * `Table_Mem` writes nothing; `Table_Get` has its address test (`getArg` above).
    Hence an operation given such objects IS the operation on the values they hold when the call starts: `readKey` /
    `readVal` below take the values out of the record (through the cast: a value object read as a key must be of the key
    type and vice versa), and the value-level `set` / `rem` / `mem` run on them.  That copy-first order is what the model
    states here; harness ops `seta / rema / mema / geta` hand the real Table exactly these objects (under ASan: a read of
    an argument after `destruct` or after the old array is freed would be a use-after-free). -/

/-- an argument object, named by what it is rather than where it lies -/
inductive Ref (κ α : Type) where
  /-- an object outside the table's slot array holding `a` -/
  | obj (a : α)
  /-- the key object the table stores for `k` (what `foreach (p in t)` hands out) -/
  | keyOf (k : κ)
  /-- the value object of the record of `k` (what `get(t, k)` returns) -/
  | valOf (k : κ)
deriving Repr

/-- where the object lies (`none`: the table stores nothing for `k` — there is no such object) -/
def Ref.locate {α : Type} (hash : κ → Nat) (t : Tab κ ν) : Ref κ α → Except Fail (Option (KeyArg α))
  | .obj a => .ok (some (.obj a))
  | .keyOf k =>
    match find hash t k with
    | .error f => .error f
    | .ok none => .ok none
    | .ok (some i) => .ok (some (.inSlot i.val .key))
  | .valOf k =>
    match find hash t k with
    | .error f => .error f
    | .ok none => .ok none
    | .ok (some i) => .ok (some (.inSlot i.val .val))

/-- the VALUE a value argument stands for, as `Table_Set_Move` reads it (`cast(val, t->vtype)`; `asVal`: a key object read
    as a value): the counterpart of `KeyArg.denote` -/
def KeyArg.denoteVal (asVal : κ → Option ν) (t : Tab κ ν) : KeyArg ν → Option (Except Exc ν)
  | .obj v => some (.ok v)
  | .inSlot i part =>
    if h : i < t.n then
      match t.slots[i], part with
      | some e, .val => some (.ok e.val)
      | some e, .key =>
        match asVal e.key with
        | none => some (.error .ValueError)
        | some v => some (.ok v)
      | none, _ => some (.error .ValueError)
    else none

/-- what a key argument holds when the call starts: `none` = no such object, `some (.error e)` = the cast raises `e` -/
def Ref.readKey (hash : κ → Nat) (asKey : ν → Option κ) (t : Tab κ ν) (r : Ref κ κ) : Except Fail (Option (Except Exc κ)) :=
  match r.locate hash t with
  | .error f => .error f
  | .ok none => .ok none
  | .ok (some a) => .ok (a.denote asKey t)

def Ref.readVal (hash : κ → Nat) (asVal : κ → Option ν) (t : Tab κ ν) (r : Ref κ ν) : Except Fail (Option (Except Exc ν)) :=
  match r.locate hash t with
  | .error f => .error f
  | .ok none => .ok none
  | .ok (some a) => .ok (a.denoteVal asVal t)

/-- the two casts at the top of `Table_Set_Move`, key first: the pair of values, or what is observed instead
    (`badOp`: an argument names no object — nothing is called) -/
def setArgs (rk : Option (Except Exc κ)) (rv : Option (Except Exc ν)) : Except (Obs κ ν) (κ × ν) :=
  match rk, rv with
  | none, _ => .error .badOp
  | some _, none => .error .badOp
  | some (.error e), some _ => .error (.raised e)
  | some (.ok _), some (.error e) => .error (.raised e)
  | some (.ok k), some (.ok v) => .ok (k, v)

/-- the cast at the top of `Table_Rem` / `Table_Mem` / (after its address test) `Table_Get` -/
def keyArg1 (rk : Option (Except Exc κ)) : Except (Obs κ ν) κ :=
  match rk with
  | none => .error .badOp
  | some (.error e) => .error (.raised e)
  | some (.ok k) => .ok k

/-- operations whose argument objects may live in the table they are applied to -/
inductive AOp (κ ν : Type) where
  | plain (op : Op κ ν)
  | setA (t : Nat) (k : Ref κ κ) (v : Ref κ ν)
  | remA (t : Nat) (k : Ref κ κ)
  | memA (t : Nat) (k : Ref κ κ)
  | getA (t : Nat) (k : Ref κ κ)
deriving Repr

def stepA (cfg : Cfg) (hash : κ → Nat) (asKey : ν → Option κ) (asVal : κ → Option ν) (ts : List (Tab κ ν)) :
    AOp κ ν → Except Fail (List (Tab κ ν) × Obs κ ν)
  | .plain op => step cfg hash ts op
  | .setA t kr vr =>
    match ts[t]? with
    | none => .ok (ts, .badOp)
    | some tb =>
      match kr.readKey hash asKey tb with
      | .error f => .error f
      | .ok rk =>
        match vr.readVal hash asVal tb with
        | .error f => .error f
        | .ok rv =>
          match setArgs rk rv with
          | .error o => .ok (ts, o)
          | .ok (k, v) => step cfg hash ts (.set t k v)
  | .remA t kr =>
    match ts[t]? with
    | none => .ok (ts, .badOp)
    | some tb =>
      match kr.readKey hash asKey tb with
      | .error f => .error f
      | .ok rk =>
        match keyArg1 rk with
        | .error o => .ok (ts, o)
        | .ok k => step cfg hash ts (.rem t k)
  | .memA t kr =>
    match ts[t]? with
    | none => .ok (ts, .badOp)
    | some tb =>
      match kr.readKey hash asKey tb with
      | .error f => .error f
      | .ok rk =>
        match keyArg1 rk with
        | .error o => .ok (ts, o)
        | .ok k => step cfg hash ts (.mem t k)
  | .getA t kr =>      -- `Table_Get` looks at the address first: the whole function `getArg`
    match ts[t]? with
    | none => .ok (ts, .badOp)
    | some tb =>
      match kr.locate hash tb with
      | .error f => .error f
      | .ok none => .ok (ts, .badOp)
      | .ok (some a) =>
        match getArg cfg hash asKey tb a with
        | .error f => .error f
        | .ok o => .ok (ts, o)

def runA (cfg : Cfg) (hash : κ → Nat) (asKey : ν → Option κ) (asVal : κ → Option ν) :
    List (Tab κ ν) → List (AOp κ ν) → Except Fail (List (Tab κ ν) × List (Obs κ ν))
  | ts, [] => .ok (ts, [])
  | ts, op :: ops =>
    match stepA cfg hash asKey asVal ts op with
    | .error f => .error f
    | .ok (ts', o) =>
      match runA cfg hash asKey asVal ts' ops with
      | .error f => .error f
      | .ok (ts'', os) => .ok (ts'', o :: os)

/-- what the MAP says such an argument holds: the key object stored for a bound `k` holds `k`, the value object of its
    record holds what the map binds to `k`; nothing is stored for an unbound key -/
def Ref.specKey (asKey : ν → Option κ) (m : Spec κ ν) : Ref κ κ → Option (Except Exc κ)
  | .obj k => some (.ok k)
  | .keyOf k =>
    match Spec.get m k with
    | none => none
    | some _ => some (.ok k)
  | .valOf k =>
    match Spec.get m k with
    | none => none
    | some v =>
      match asKey v with
      | none => some (.error .ValueError)
      | some k' => some (.ok k')

def Ref.specVal (asVal : κ → Option ν) (m : Spec κ ν) : Ref κ ν → Option (Except Exc ν)
  | .obj v => some (.ok v)
  | .keyOf k =>
    match Spec.get m k with
    | none => none
    | some _ =>
      match asVal k with
      | none => some (.error .ValueError)
      | some v => some (.ok v)
  | .valOf k =>
    match Spec.get m k with
    | none => none
    | some v => some (.ok v)

def specStepA (asKey : ν → Option κ) (asVal : κ → Option ν) (ms : List (Spec κ ν)) : AOp κ ν → List (Spec κ ν) × Obs κ ν
  | .plain op => specStep ms op
  | .setA t kr vr =>
    match ms[t]? with
    | none => (ms, .badOp)
    | some m =>
      match setArgs (kr.specKey asKey m) (vr.specVal asVal m) with
      | .error o => (ms, o)
      | .ok (k, v) => specStep ms (.set t k v)
  | .remA t kr =>
    match ms[t]? with
    | none => (ms, .badOp)
    | some m =>
      match keyArg1 (kr.specKey asKey m) with
      | .error o => (ms, o)
      | .ok k => specStep ms (.rem t k)
  | .memA t kr =>
    match ms[t]? with
    | none => (ms, .badOp)
    | some m =>
      match keyArg1 (kr.specKey asKey m) with
      | .error o => (ms, o)
      | .ok k => specStep ms (.mem t k)
  | .getA t kr =>
    match ms[t]? with
    | none => (ms, .badOp)
    | some m =>
      match keyArg1 (kr.specKey asKey m) with
      | .error o => (ms, o)
      | .ok k => specStep ms (.get t k)

def specRunA (asKey : ν → Option κ) (asVal : κ → Option ν) : List (Spec κ ν) → List (AOp κ ν) → List (Spec κ ν) × List (Obs κ ν)
  | ms, [] => (ms, [])
  | ms, op :: ops =>
    let (ms', o) := specStepA asKey asVal ms op
    let (ms'', os) := specRunA asKey asVal ms' ops
    (ms'', o :: os)

end Cello.Table
