/-
  Cello/HeapMid.lean — container operations as sequences of INTERMEDIATE container states (engine `gcmark`, C01).

  A collection does not only run between two container operations: `Array_Pop_At`, `List_Pop_At`, `Table_Rem`, `Tree_Rem`, `X_Set`, `X_Push`,
  `X_Clear`, `X_Resize`, `X_Assign`, `Array_Concat` call `destruct` / `assign` on an embedded element, and the element type's destructor or
  Assign instance is user code that may allocate — `alloc` → `GC_Set` → `GC_Mark; GC_Sweep` when the threshold is crossed.  At that moment the
  container is in an intermediate state (length field already changed or not, cell already unlinked or not, slot already zeroed or not) and its
  Mark instance presents THAT state to the collector.

  `Mach` is the part of a container's state its Mark instance reads: the cells of its storage in the order the Mark instance walks them
  (`some x` = a constructed element / entry, `none` = memory that holds no element: not constructed yet, or freed), the length field, a cell that
  was unlinked (`out`), a cell under construction outside the structure (`pend`: `List_Alloc`, `Tree_Alloc`, the swap space of a Table).
  `Mach.step` gives every statement kind of `CelloGen.GcMid.Ev` its effect on that state; a statement that runs element code (`destruct`,
  `assign`) records a `View`: what the Mark instance would present if a collection ran inside that call.  The ORDER of the statements is not
  written here: the programs below are built from the lists of `CelloGen/GcMid.lean`, which translate/g_gcmark.py re-extracts from
  src/Array.c, List.c, Table.c, Tree.c on every run.  The loops (which the translator recognises by their headers) are `Instr.each`,
  `Instr.whileLen`, `Instr.fill`.

  Core Lean only (the driver links it).  Theorems: CelloProofs/Lemmas/MarkMid.lean, CelloProofs/Props/C01.lean (`C01_*_mark_safe`).
-/
import CelloGen.GcMid

namespace Cello.Heap.Mid
open CelloGen.GcMid

abbrev Cell (α : Type) := Option α

/-- which element code runs: the destructor / the Assign instance of the key type, of the element (value) type -/
inductive Tag where
  | dtorKey | dtor | asgKey | asg
deriving DecidableEq, Repr

/-- what the container's Mark instance presents if a collection runs inside this call -/
structure View (α : Type) where
  tag : Tag
  cells : List (Cell α)

/-- which Mark instance -/
structure Shape where
  /-- `Array_Mark`: `for (i = 0; i < a->nitems; i++)` — the first `nitems` slots of the block, whatever they hold.
      (`List_Mark` follows the links, `Table_Mark` visits the slots whose hash word is not 0, `Tree_Mark` the linked nodes: `false`) -/
  bounded : Bool
  /-- `Tree_Mark` starts with `Tree_Iter_Init`, which answers Terminal when `nitems is 0` -/
  emptyAt0 : Bool
deriving DecidableEq, Repr

def Shape.array : Shape := ⟨true, false⟩
def Shape.list : Shape := ⟨false, false⟩
def Shape.table : Shape := ⟨false, false⟩
def Shape.tree : Shape := ⟨false, treeMarkEmptyWhenLen0⟩

structure Mach (α : Type) where
  cells : List (Cell α)
  n : Nat
  out : Option (Cell α) := none
  pend : Option (Cell α) := none
  views : List (View α) := []      -- newest first
  /-- a statement that has no meaning in this state (assign to memory that holds no element, a slot outside the block) -/
  stuck : Bool := false

structure Env (α : Type) where
  shape : Shape
  i : Nat := 0            -- the operand position (index found by List_At / the probe loop / the descent); ≥ length: a new cell
  j : Nat := 0            -- the loop variable
  src : List α := []      -- the operand: the new element (one) or the elements of the source (Assign, Concat)
  zero : α                -- an element whose bytes are all zero behind a valid header (Array_Alloc, List_Alloc, Tree_Alloc, header_init)
  m : Nat := 0            -- resize(self, m)

/-- the first `n` slots of a block of `cells.length` slots; beyond the block: memory that holds no element -/
def takePad {α : Type} (n : Nat) (cells : List (Cell α)) : List (Cell α) :=
  cells.take n ++ List.replicate (n - cells.length) none

/-- **what the Mark instance presents** -/
def presented {α : Type} (sh : Shape) (cells : List (Cell α)) (n : Nat) : List (Cell α) :=
  if sh.emptyAt0 && n == 0 then [] else if sh.bounded then takePad n cells else cells

def Mach.presented {α : Type} (env : Env α) (st : Mach α) : List (Cell α) := Mid.presented env.shape st.cells st.n

def Mach.pos {α : Type} (env : Env α) (st : Mach α) : Sel → Nat
  | .idx => env.i
  | .last => if env.shape.bounded then st.n - 1 else st.cells.length - 1
  | .var => env.j
  | .tail => st.n - env.src.length + env.j
  | .atLen => st.n         -- `a->nitems`: the slot right behind those `Array_Mark` walks

/-- where `List_Link` puts a new cell: `List_Link(l, item, l->tail, NULL)` behind the last cell, `List_Link(l, item, prev(curr), curr)` in
    front of cell i (a Tree node, a Table slot: anywhere — the Mark instance presents the same set) -/
def Mach.linkPos {α : Type} (env : Env α) (st : Mach α) (s : Sel) : Nat :=
  match s with
  | .last => st.cells.length
  | _ => min (st.pos env s) st.cells.length

def Env.val {α : Type} (env : Env α) : α := env.src.getD env.j env.zero

def Mach.view {α : Type} (env : Env α) (st : Mach α) (t : Tag) : Mach α :=
  { st with views := ⟨t, st.presented env⟩ :: st.views }

/-- `memmove(data + dst, data + src, cnt)` for `dst = i, src = i+1` -/
def moveDown {α : Type} (cells : List α) (i cnt : Nat) : List α :=
  cells.take i ++ (cells.drop (i + 1)).take cnt ++ cells.drop (i + cnt)

/-- `memmove(data + dst, data + src, cnt)` for `dst = i+1, src = i` -/
def moveUp {α : Type} (cells : List α) (i cnt : Nat) : List α :=
  cells.take (i + 1) ++ (cells.drop i).take cnt ++ cells.drop (i + 1 + cnt)

/-- the count `nitems - i + c` of a memmove, as a natural number -/
def moveCount (n i : Nat) (c : Int) : Nat := ((n : Int) - (i : Int) + c).toNat

/-- **one statement** -/
def Mach.step {α : Type} (env : Env α) (st : Mach α) : Ev → Mach α
  | .destructKey _ => st.view env .dtorKey
  | .destruct _ => st.view env .dtor
  | .assignKey _ => st.view env .asgKey
  | .assign s =>
    let p := st.pos env s
    match st.cells[p]? with
    | some (some _) => ({ st with cells := st.cells.set p (some env.val) }).view env .asg
    | _ => { st with stuck := true }
  | .alloc s =>
    let p := st.pos env s
    if p < st.cells.length then { st with cells := st.cells.set p (some env.zero) } else { st with stuck := true }
  | .inc => { st with n := st.n + 1 }
  | .dec => { st with n := st.n - 1 }
  | .addLen => { st with n := st.n + env.src.length }
  | .len0 => { st with n := 0 }
  | .lenSrc => { st with n := env.src.length }
  | .reserveMore =>
    if st.n > st.cells.length then { st with cells := st.cells ++ List.replicate (st.n + st.n / 2 - st.cells.length) none } else st
  | .reserveFor c =>
    -- `Array_Reserve_More(a, a->nitems + c)`: the growth rule of `.reserveMore` for a size that `nitems` does not count yet
    if st.n + c > st.cells.length then { st with cells := st.cells ++ List.replicate (st.n + c + (st.n + c) / 2 - st.cells.length) none } else st
  | .reserveLess => if st.cells.length > st.n + st.n / 2 then { st with cells := st.cells.take st.n } else st
  | .capLen => st
  | .capN => st
  | .capZero => { st with cells := [] }
  | .mallocCap => { st with cells := List.replicate st.n none }
  | .reallocCap => { st with cells := takePad env.m st.cells }
  | .freeData => { st with cells := st.cells.map fun _ => none }
  | .dataNull => { st with cells := [] }
  | .moveDown c => { st with cells := moveDown st.cells env.i (moveCount st.n env.i c) }
  | .moveUp c => { st with cells := moveUp st.cells env.i (moveCount st.n env.i c) }
  | .unlink s =>
    let p := st.pos env s
    { st with out := st.cells[p]?, cells := st.cells.eraseIdx p }
  | .destructOut => st.view env .dtor
  | .freeOut => { st with out := none }
  | .free s => { st with cells := st.cells.set (st.pos env s) none }
  | .allocPend => { st with pend := some (some env.zero) }
  | .assignPendKey => st.view env .asgKey
  | .assignPend => ({ st with pend := some (some env.val) }).view env .asg
  | .linkPend s =>
    -- `List_Link(l, item, l->tail, NULL)`: behind the last cell; `List_Link(l, item, prev(curr), curr)`: in front of cell i
    match st.pend with
    | some c => { st with cells := st.cells.insertIdx (st.linkPos env s) c, pend := none }
    | none => { st with stuck := true }
  | .storePend s =>
    match st.pend with
    | some c =>
      let p := st.pos env s
      { st with cells := if p < st.cells.length then st.cells.set p c else st.cells ++ [c], pend := none }
    | none => { st with stuck := true }
  | .dropAll => { st with cells := [] }
  | .clear => { st with stuck := true }      -- expanded by `expand` before a program runs

def Mach.run {α : Type} (env : Env α) (evs : List Ev) (st : Mach α) : Mach α := evs.foldl (Mach.step env) st

/-- the loops of the operations (recognised by translate/g_gcmark.py by their headers) -/
inductive Instr where
  | seq (evs : List Ev)
  /-- `for (i = 0; i < a->nitems; i++)` / `while (item)` / `for (i < t->nslots) if (hash isnt 0)` / the post-order walk: once per cell -/
  | each (body : List Ev)
  /-- `while (n < x->nitems)` -/
  | whileLen (body : List Ev)
  /-- `for (i < len(obj))` / `foreach (item in obj)`: once per element of the source, which is the operand of that round -/
  | fill (body : List Ev)

def Mach.eachLoop {α : Type} (env : Env α) (body : List Ev) : List Nat → Mach α → Mach α
  | [], st => st
  | j :: js, st => Mach.eachLoop env body js (st.run { env with j := j } body)

def Mach.whileLoop {α : Type} (env : Env α) (body : List Ev) : Nat → Mach α → Mach α
  | 0, st => st
  | fuel + 1, st => if env.m < st.n then Mach.whileLoop env body fuel (st.run env body) else st

def Mach.instr {α : Type} (env : Env α) (st : Mach α) : Instr → Mach α
  | .seq evs => st.run env evs
  | .each body => Mach.eachLoop env body (List.range (if env.shape.bounded then st.n else st.cells.length)) st
  | .whileLen body => Mach.whileLoop env body (st.n + 1) st
  | .fill body => Mach.eachLoop env body (List.range env.src.length) st

def Mach.exec {α : Type} (env : Env α) (prog : List Instr) (st : Mach α) : Mach α := prog.foldl (Mach.instr env) st

/-- a statement list in which `X_Clear(self)` stands for the program `clr` -/
def expand (clr : List Instr) : List Ev → List Instr
  | [] => []
  | .clear :: rest => clr ++ expand clr rest
  | e :: rest =>
    match expand clr rest with
    | .seq evs :: more => .seq (e :: evs) :: more
    | more => .seq [e] :: more

/-! ### the operations, assembled from the statement lists of the current source -/

inductive Kind where
  | array | list | table | tree
deriving DecidableEq, Repr

def Kind.shape : Kind → Shape
  | .array => Shape.array | .list => Shape.list | .table => Shape.table | .tree => Shape.tree

inductive Op where
  | popAt        -- pop_at(self, i)            Array_Pop_At / List_Pop_At
  | pop          -- pop(self)                  Array_Pop / List_Pop
  | remVal       -- rem(self, value)           Array_Rem → Array_Pop_At / List_Rem
  | push         -- push(self, x)              Array_Push / List_Push
  | pushAt       -- push_at(self, x, i)        Array_Push_At / List_Push_At
  | set          -- set(self, i, x)            Array_Set / List_Set; for maps: the key exists (Table_Set_Move equal branch / Tree_Set c is 0)
  | setNew       -- set(self, k, x), new key   Table_Set_Move empty slot / Tree_Set new node
  | remKey       -- rem(self, k)               Table_Rem / Tree_Rem
  | clear        -- resize(self, 0)            X_Clear
  | resize       -- resize(self, m), 0 < m     Array_Resize / List_Resize (shrinking)
  | assign       -- assign(self, obj)          X_Assign: X_Clear, then the fill
  | concat       -- concat(self, obj)          Array_Concat / List_Concat
deriving DecidableEq, Repr

def clearProg : Kind → List Instr
  | .array => [.seq arrayClearPre, .each arrayClearLoop, .seq arrayClearTail]
  | .list => [.seq listClearPre, .each listClearLoop, .seq listClearTail]
  | .table => [.each tableClearLoop, .seq tableClearTail]
  | .tree => expand [.each treeClearEntry] treeClear

/-- `empty`: the Tree has no root (`Tree_Set`'s first branch) -/
def prog (k : Kind) (empty : Bool := false) : Op → List Instr
  | .popAt => (match k with | .array => [.seq arrayPopAt] | .list => [.seq listPopAt] | _ => [])
  | .pop => (match k with | .array => [.seq arrayPop] | .list => [.seq listPop] | _ => [])
  | .remVal => (match k with | .array => [.seq arrayPopAt] | .list => [.seq listRem] | _ => [])
  | .push => (match k with | .array => [.seq arrayPush] | .list => [.seq listPush] | _ => [])
  | .pushAt => (match k with | .array => [.seq arrayPushAt] | .list => [.seq listPushAt] | _ => [])
  | .set =>
    (match k with
     | .array => [.seq arraySet] | .list => [.seq listSet]
     | .table => [.seq (tableSetNew ++ tableSetEqual)] | .tree => [.seq treeSetEqual])
  | .setNew =>
    (match k with
     | .table => [.seq (tableSetNew ++ tableSetEmpty)]
     | .tree => [.seq (if empty then treeSetRoot else treeSetLeft)]
     | _ => [])
  | .remKey => (match k with | .table => [.seq tableRem] | .tree => [.seq treeRem] | _ => [])
  | .clear => clearProg k
  | .resize =>
    (match k with
     | .array => [.seq arrayResizePre, .whileLen arrayResizeLoop, .seq arrayResizeTail]
     | .list => [.whileLen listResizeLoop]
     | _ => [])
  | .assign =>
    (match k with
     | .array => expand (clearProg .array) arrayAssignHead ++ [.fill arrayAssignLoop, .seq arrayAssignTail]
     | .list => clearProg .list ++ [.fill listPush]
     | .table => clearProg .table ++ [.fill (tableSetNew ++ tableSetEmpty)]
     -- the keys of the source arrive in ascending order (a Tree source): the first goes to the root, every later one to a new left-most … node
     | .tree => clearProg .tree ++ [.fill treeSetLeft])
  | .concat =>
    (match k with
     | .array => [.seq arrayConcatHead, .fill arrayConcatLoop, .seq arrayConcatTail]
     | .list => [.fill listPush]
     | _ => [])

/-- the container before the operation: `n` constructed elements; for an Array, in a block that may be larger (`spare`: the slots behind
    them, holding whatever earlier operations left there) -/
def Mach.initCap {α : Type} (elems : List α) (spare : List (Cell α)) : Mach α := { cells := elems.map some ++ spare, n := elems.length }

def Mach.init {α : Type} (elems : List α) : Mach α := Mach.initCap elems []

/-- **an operation as the sequence of states its element calls see**, oldest first, and the state when it completes -/
def runOp {α : Type} (k : Kind) (op : Op) (env : Env α) (elems : List α) : Mach α :=
  let st := (Mach.init elems).exec env (prog k (elems.isEmpty) op)
  { st with views := st.views.reverse }

/-- a view reads only constructed elements -/
def View.ok {α : Type} (v : View α) : Bool := v.cells.all Option.isSome

/-- the elements a view presents (a cell that holds no element contributes nothing — and makes the collection undefined: `View.ok`) -/
def View.elems {α : Type} (v : View α) : List α := v.cells.filterMap id

/-- the elements the container holds when the operation completes -/
def Mach.final {α : Type} (env : Env α) (st : Mach α) : List α := (st.presented env).filterMap id

/-! ### element types whose Assign instance ALLOCATES (a record of several managed fields, deep-copied)

  `assign(Array_Item(a, i), obj)` on an element type like
  `struct Record { var name; var tags; }` with `Record_Assign(self, obj) { r->name = copy(o->name); r->tags = new(List, Ref); … }`
  allocates once per field, and every allocation may run a threshold collection (`alloc` → `GC_Set` → `GC_Mark; GC_Sweep`).  At allocation
  point `k` the fields `0 … k-1` of the new value are already stored in the target element: the objects they point to are reachable ONLY
  through that element (the operand holds the originals, not the copies).  Whether the container's Mark instance presents the element at that
  moment is the **publication order** of the operation: `nitems++` before `assign` (Array_Push as it is: the zeroed slot is walked by
  `Array_Mark`, the stored fields are scanned) or after it (the element is invisible until it is complete: the collection frees what the
  stored fields point to); the cell linked into the List / Tree before `assign` or after it; the entry of a Table built in the swap space.

  `DMach` runs the same statement lists as `Mach` (its `m` component IS the `Mach` run: `DMach.step_m`) and records, for every `assign`
  statement, one `AView` per allocation point: what the Mark instance presents, with the target element in its partly assigned state. -/

/-- the element type's Assign instance as the container sees it: `parts old new` are the values the target element passes through, one per
    allocation point (point k: the first k fields of `new` are stored, the others still hold what `old` held) -/
structure Deep (α : Type) where
  parts : α → α → List α

/-- what a collection at one allocation point of an element's Assign instance finds -/
structure AView (α : Type) where
  /-- the round of the fill loop: which element of the operand is being assigned -/
  j : Nat
  /-- the allocation point: `k` fields of the new value are stored in the target -/
  k : Nat
  /-- the target element at that moment -/
  part : α
  /-- what the container's Mark instance presents at that moment -/
  cells : List (Cell α)
deriving DecidableEq

structure DMach (α : Type) where
  m : Mach α
  aviews : List (AView α) := []      -- oldest first

def DMach.avs {α : Type} (D : Deep α) (env : Env α) (old : α) (cellsOf : α → List (Cell α)) : List (AView α) :=
  (D.parts old env.val).zipIdx.map fun qk => ⟨env.j, qk.2, qk.1, cellsOf qk.1⟩

/-- **one statement**: `Mach.step`, and for an `assign` of an element (value) the allocation points of the Assign instance -/
def DMach.step {α : Type} (D : Deep α) (env : Env α) (st : DMach α) (e : Ev) : DMach α :=
  let more : List (AView α) :=
    match e with
    | .assign s =>
      -- in place: the cell is a cell of the container; whether the Mark instance presents it is decided by `presented`
      let p := st.m.pos env s
      (match st.m.cells[p]? with
       | some (some old) => DMach.avs D env old fun q => Mid.presented env.shape (st.m.cells.set p (some q)) st.m.n
       | _ => [])
    | .assignPend =>
      -- a cell outside the structure (`List_Alloc`, `Tree_Alloc`, the swap space of a Table): no Mark instance presents it
      (match st.m.pend with
       | some (some old) => DMach.avs D env old fun _ => st.m.presented env
       | _ => [])
    | _ => []
  { m := st.m.step env e, aviews := st.aviews ++ more }

def DMach.run {α : Type} (D : Deep α) (env : Env α) (evs : List Ev) (st : DMach α) : DMach α := evs.foldl (DMach.step D env) st

def DMach.eachLoop {α : Type} (D : Deep α) (env : Env α) (body : List Ev) : List Nat → DMach α → DMach α
  | [], st => st
  | j :: js, st => DMach.eachLoop D env body js (st.run D { env with j := j } body)

def DMach.whileLoop {α : Type} (D : Deep α) (env : Env α) (body : List Ev) : Nat → DMach α → DMach α
  | 0, st => st
  | fuel + 1, st => if env.m < st.m.n then DMach.whileLoop D env body fuel (st.run D env body) else st

def DMach.instr {α : Type} (D : Deep α) (env : Env α) (st : DMach α) : Instr → DMach α
  | .seq evs => st.run D env evs
  | .each body => DMach.eachLoop D env body (List.range (if env.shape.bounded then st.m.n else st.m.cells.length)) st
  | .whileLen body => DMach.whileLoop D env body (st.m.n + 1) st
  | .fill body => DMach.eachLoop D env body (List.range env.src.length) st

def DMach.exec {α : Type} (D : Deep α) (env : Env α) (prog : List Instr) (st : DMach α) : DMach α := prog.foldl (DMach.instr D env) st

def DMach.initCap {α : Type} (elems : List α) (spare : List (Cell α)) : DMach α := { m := Mach.initCap elems spare }

/-- **an operation on a container of deep-copied elements**: the states its allocation points see, and the state when it completes -/
def runOpD {α : Type} (D : Deep α) (k : Kind) (op : Op) (env : Env α) (elems : List α) (spare : List (Cell α) := []) : DMach α :=
  (DMach.initCap elems spare).exec D env (prog k (elems.isEmpty) op)

def AView.ok {α : Type} (v : AView α) : Bool := v.cells.all Option.isSome

def AView.elems {α : Type} (v : AView α) : List α := v.cells.filterMap id

/-- the record of `nf` pointer fields: at allocation point `k` (0 … nf: the last one lies behind the last store) the first `k` words are the
    new value's, the others the old one's -/
def Deep.words (nf : Nat) : Deep (List Nat) where
  parts old new := (List.range (nf + 1)).map fun k => new.take k ++ old.drop k

end Cello.Heap.Mid
