/-
  Cello/Config.lean — executable model of what the three build switches of include/Cello.h change (property C18).

    cfg.checks = ¬CELLO_NDEBUG   the six CELLO_*_CHECK families are compiled in, `struct Header` has `alloc` and `magic`
    cfg.cache  = CELLO_CACHE==1  `Type_Instance` goes through the 18 memo slots at the start of every Type object
    cfg.gc     = ¬CELLO_NGC      `alloc_by` registers with the collector, `del_by` goes through `GC_Rem`, sweeps run

  One API step, in the order the C code performs it (`method(self, Class, m, …)` of Cello.h, src/Type.c, src/Alloc.c):
    type_of(self)            CELLO_NULL_CHECK / CELLO_MAGIC_CHECK              (raise ValueError — only when cfg.checks)
    Type_Instance(type, cls) cache slot read / Type_Scan / slot fill           (memo — only when cfg.cache)
    Type_Method_At_Offset    CELLO_METHOD_CHECK                                (raise ClassError — only when cfg.checks)
    the method itself        CELLO_BOUND_CHECK …  `guard`                      (raise — only when cfg.checks)
                             unconditional error paths `hard`                  (raise in every configuration)
                             the mutation / the value read `apply`
    alloc_by / del_by        header_init (2 more words when cfg.checks), `set(current(GC), …)`, `rem(current(GC), …)`,
                             mark + sweep when the registry outgrows its threshold (only when cfg.gc)
  What is violated *only under a compiled-out check* is `ub` (undefined behaviour), never a made-up result.

  Guards over the allocation class (`CELLO_ALLOC_CHECK`: String_* and Tuple_* functions that realloc/free the buffer, `dealloc`) are not
  hand-written: `CelloGen.Cfg.guards` holds every `if (cond) throw(…)` of the sources as a term over `header(self)->alloc`, `stamps` the
  class every `header_init` site writes.  A call lists the guarded functions it runs and the object each runs on (`Call.sites`: the
  object behind the handle — class read from its header — or an element embedded in it — class stamped by the container); `sitesFire`
  evaluates the generated terms there.  In-place edits (`Op.ed`) reach objects of every class the functions are defined on: made by
  new / new_raw / new_root / copy, elements of Array and List (by `get`, by iteration), values and keys of Table and Tree.

  The object universe is the one of the C18 workload (harness/h_cfg.c): Int and String values, Array/List of them,
  Table/Tree from them to them.  Source-derived tables come from CelloGen/Cfg.lean (translate/g_cfg.py).

  Second half (namespace `Keep`, end of the file): heap-graph programs whose containers are the SOLE path to collector-managed
  objects — there the collector step is explicit (`kcollect` = GC_Mark; GC_Sweep of Cello/Heap.lean on what each type's Mark
  instance presents, Table slot arrays from Cello/Table.lean).  `wrun` interleaves the two halves as the workload does.
-/
import CelloGen.Cfg
import CelloGen.Table
import Cello.Table
import Cello.Heap

namespace Cello.Config

/-! ### configurations, outcomes -/

structure Cfg where
  checks : Bool
  cache : Bool
  gc : Bool
deriving DecidableEq, Repr, Inhabited

/-- the default build: all checks, cache, collector -/
def Cfg.default : Cfg := ⟨true, true, true⟩

def Cfg.all : List Cfg :=
  [⟨true, true, true⟩, ⟨false, true, true⟩, ⟨true, false, true⟩, ⟨true, true, false⟩,
   ⟨false, false, true⟩, ⟨false, true, false⟩, ⟨true, false, false⟩, ⟨false, false, false⟩]

def Cfg.name (c : Cfg) : String :=
  let parts := (if c.checks then [] else ["ndebug"]) ++ (if c.cache then [] else ["nocache"]) ++ (if c.gc then [] else ["ngc"])
  if parts.isEmpty then "default" else "-".intercalate parts

inductive Exc where
  | IndexOutOfBoundsError | KeyError | ValueError | TypeError | ClassError | ResourceError | OutOfMemoryError | FormatError
deriving DecidableEq, Repr, Inhabited

def Exc.ofName : String → Option Exc
  | "IndexOutOfBoundsError" => some .IndexOutOfBoundsError | "KeyError" => some .KeyError | "ValueError" => some .ValueError
  | "TypeError" => some .TypeError | "ClassError" => some .ClassError | "ResourceError" => some .ResourceError
  | "OutOfMemoryError" => some .OutOfMemoryError | "FormatError" => some .FormatError | _ => none

inductive Outcome (α : Type) where
  | ok (a : α)
  | raised (e : Exc)
  | ub
deriving DecidableEq, Repr

instance {α : Type} : Inhabited (Outcome α) := ⟨.ub⟩

/-- a test that exists only inside `#if CELLO_*_CHECK == 1`: raises when compiled in; otherwise the code runs on -/
def refuse {α : Type} (cfg : Cfg) (e : Exc) : Outcome α := if cfg.checks then .raised e else .ub

/-! ### is a check macro on? (from the generated `#ifdef CELLO_NDEBUG` table) -/

/-- value of a switch macro under `cfg`: check macros from the NDEBUG table, `CELLO_CACHE` from cfg.cache -/
def macroOn (cfg : Cfg) (m : String) : Bool :=
  if m = "CELLO_CACHE" then cfg.cache else
  match CelloGen.Cfg.checkMacros.find? (fun e => e.1 == m) with
  | some (_, nd, df) => (if cfg.checks then df else nd) == 1
  | none => false          -- `#if UNDEFINED == 1` is false

def guardOn (cfg : Cfg) : Option String → Bool
  | none => true
  | some m => macroOn cfg m

/-- `sizeof(struct Header) / sizeof(var)` -/
def headerWords (cfg : Cfg) : Nat := (CelloGen.Cfg.headerFields.filter (fun f => guardOn cfg f.2)).length

/-- words the `CelloObject` literal (static objects) puts before the first `struct Type` entry that is not a cache slot -/
def staticWordsBeforeName (cfg : Cfg) : Nat :=
  (CelloGen.Cfg.staticPrefix.map (fun e => if guardOn cfg e.2.1 then e.2.2.1 else e.2.2.2)).sum

def cacheNum (cfg : Cfg) : Nat := if cfg.cache then CelloGen.Cfg.cacheNumOn else CelloGen.Cfg.cacheNumOff

/-! ### raw blocks: header_init, header(), payload (the "smaller object headers" part) -/

inductive AllocClass where
  | static | stack | heap | data
deriving DecidableEq, Repr, Inhabited

def AllocClass.cname : AllocClass → String
  | .static => "AllocStatic" | .stack => "AllocStack" | .heap => "AllocHeap" | .data => "AllocData"

def AllocClass.all : List AllocClass := [.static, .stack, .heap, .data]

def AllocClass.ofName (n : String) : Option AllocClass := AllocClass.all.find? (fun c => c.cname == n)

/-- the word `header_init` stores for a class: the value of the enumerator in Cello.h (generated) -/
def enumVal (n : String) : Option Nat := CelloGen.Cfg.allocEnum.lookup n

/-- the class that the `k`-th `header_init` call of function (or macro) `fn` stamps on the header it initialises
    (generated table `stamps`: alloc_by, Type_Alloc, Array_Alloc, List_Alloc, Table_Set_Move, Tree_Alloc, alloc_stack, CelloObject) -/
def stampOf (fn : String) (k : Nat := 0) : AllocClass :=
  match ((CelloGen.Cfg.stamps.lookup fn).bind (fun cs => cs[k]?)).bind AllocClass.ofName with
  | some c => c
  | none => .static       -- no such site: the generator raises ExtractError before this can be reached

/-- the class of everything `new` / `new_raw` / `new_root` / `copy` hand out (`alloc_by`) -/
def heapClass : AllocClass := stampOf "alloc_by"

/-- value of a guard condition (generated `GExpr`) on an object whose header holds class `a`; conditions that do not speak
    about the object (`other`) are not this function's business -/
def evalG (selfNull : Bool) (a : AllocClass) : CelloGen.Cfg.GExpr → Bool
  | .allocIs n => enumVal n == enumVal a.cname
  | .allocIsnt n => !(enumVal n == enumVal a.cname)
  | .selfNull => selfNull
  | .or x y => evalG selfNull a x || evalG selfNull a y
  | .and x y => evalG selfNull a x && evalG selfNull a y
  | .not x => !(evalG selfNull a x)
  | .other _ => false

/-- does a condition speak about the object's header only -/
def GExpr.headerOnly : CelloGen.Cfg.GExpr → Bool
  | .allocIs _ | .allocIsnt _ | .selfNull => true
  | .or x y | .and x y => GExpr.headerOnly x && GExpr.headerOnly y
  | .not x => GExpr.headerOnly x
  | .other _ => false

/-- does a condition read `header(self)->alloc` -/
def GExpr.readsClass : CelloGen.Cfg.GExpr → Bool
  | .allocIs _ | .allocIsnt _ => true
  | .or x y | .and x y => GExpr.readsClass x || GExpr.readsClass y
  | .not x => GExpr.readsClass x
  | .selfNull | .other _ => false

/-- the `CELLO_ALLOC_CHECK` guards of function `fn`, in source order (generated from src/*.c on every run) -/
def allocGuardsOf (fn : String) : List CelloGen.Cfg.Guard :=
  CelloGen.Cfg.guards.filter (fun g => g.func == fn && g.guardMacro == "CELLO_ALLOC_CHECK")

/-- the first `CELLO_ALLOC_CHECK` guard of `fn` that fires on a (non-NULL) object of class `a`: the exception it throws -/
def allocGuardFires (fn : String) (a : AllocClass) : Option Exc :=
  ((allocGuardsOf fn).find? (fun g => evalG false a g.cond)).map (fun g => (Exc.ofName g.exc).getD .ValueError)

/-- **Where an in-place operation is defined.**  The functions that `realloc`/`free` the buffer an object points to (String_*,
    Tuple_*) need that buffer to be a malloc block: true of objects made by `alloc_by` + constructor and of elements a container
    built in its own storage (`header_init` + assign in Array_Alloc, List_Alloc, Table_Set_Move, Tree_Alloc), false of `$(…)`
    stack objects (they point at the caller's memory) and of static objects.  `dealloc` frees the block of the object itself:
    only what `alloc_by` made. -/
def reallocClasses : List AllocClass :=
  [stampOf "alloc_by", stampOf "Array_Alloc", stampOf "List_Alloc", stampOf "Table_Set_Move" 0, stampOf "Table_Set_Move" 1,
   stampOf "Tree_Alloc" 0, stampOf "Tree_Alloc" 1]

def deallocClasses : List AllocClass := [stampOf "alloc_by"]

def inContractClasses (fn : String) : List AllocClass := if fn = "dealloc" then deallocClasses else reallocClasses

/-- one machine word of an object block -/
inductive Word where
  | type (name : String)
  | alloc (c : AllocClass)
  | magic (n : Nat)
  | data (n : Nat)
deriving DecidableEq, Repr, Inhabited

/-- `header_init(head, type, alloc)`: the header words, in `struct Header` order, that exist under `cfg` -/
def headerInitWords (cfg : Cfg) (ty : String) (c : AllocClass) : List Word :=
  CelloGen.Cfg.headerInitWrites.filterMap (fun w =>
    if guardOn cfg w.2 then
      (if w.1 = "type" then some (.type ty) else if w.1 = "alloc" then some (.alloc c)
       else if w.1 = "magic" then some (.magic CelloGen.Cfg.magicNum) else none)
    else none)

/-- `calloc(1, sizeof(struct Header) + size)` then `header_init`: the block; `self` is the index `headerWords cfg` -/
def allocBlock (cfg : Cfg) (ty : String) (c : AllocClass) (sizeWords : Nat) : List Word :=
  headerInitWords cfg ty c ++ List.replicate sizeWords (.data 0)

/-- the object pointer handed out: `(char*)head + sizeof(struct Header)` -/
def selfOffset (cfg : Cfg) : Nat := headerWords cfg

/-- `header(self)->type`: the word at `self - sizeof(struct Header)` -/
def typeWordOf (cfg : Cfg) (block : List Word) : Option Word := block[selfOffset cfg - headerWords cfg]?

/-- the payload as seen through `self` -/
def payloadOf (cfg : Cfg) (block : List Word) : List Word := block.drop (selfOffset cfg)

/-! ### values and objects of the workload -/

inductive Ty where
  | I | S
deriving DecidableEq, Repr, Inhabited

inductive Val where
  | int (i : Int)
  | str (s : String)
deriving DecidableEq, Repr, Inhabited

def Val.ty : Val → Ty
  | .int _ => .I
  | .str _ => .S

def Val.cmp : Val → Val → Int
  | .int a, .int b => if a < b then -1 else if a = b then 0 else 1
  | .str a, .str b => if a < b then -1 else if a = b then 0 else 1
  | .int _, .str _ => -1
  | .str _, .int _ => 1

inductive SeqKind where
  | array | list
deriving DecidableEq, Repr, Inhabited

inductive MapKind where
  | table | tree
deriving DecidableEq, Repr, Inhabited

/-- what an object contains (the payload, abstractly) -/
inductive Body where
  | val (v : Val)
  | seq (k : SeqKind) (ty : Ty) (xs : List Val)
  | map (k : MapKind) (kt vt : Ty) (kvs : List (Val × Val))
deriving DecidableEq, Repr, Inhabited

def Ty.name : Ty → String
  | .I => "Int"
  | .S => "String"

def Body.typeName : Body → String
  | .val v => v.ty.name
  | .seq .array _ _ => "Array"
  | .seq .list _ _ => "List"
  | .map .table _ _ _ => "Table"
  | .map .tree _ _ _ => "Tree"

/-- the header as `header_init` leaves it; the two optional fields exist iff the corresponding check macro is on -/
structure Hdr where
  type : String
  alloc : Option AllocClass
  magic : Option Nat
deriving DecidableEq, Repr, Inhabited

def headerInit (cfg : Cfg) (ty : String) (c : AllocClass) : Hdr :=
  { type := ty,
    alloc := if macroOn cfg "CELLO_ALLOC_CHECK" then some c else none,
    magic := if macroOn cfg "CELLO_MAGIC_CHECK" then some CelloGen.Cfg.magicNum else none }

structure Obj where
  id : Nat          -- identity ("address"): allocation counter
  hdr : Hdr
  body : Body
deriving DecidableEq, Repr, Inhabited

/-! ### state -/

structure St where
  next : Nat                           -- allocation counter
  heap : List Obj                      -- every block allocated and not yet freed
  live : List (Nat × Nat)              -- program variables (op-file slot ↦ object id): what the stack scan finds
  reg : List Nat                       -- the collector's registry (only maintained when cfg.gc)
  mitems : Nat                         -- collection threshold (`gc->mitems`)
  memo : List ((String × Nat) × String) -- filled method-cache slots: (type, slot index) ↦ instance
  roots : List Nat := []               -- registry entries made by `new_root` (root flag set: never swept)
deriving Repr, Inhabited

def St.init : St := { next := 0, heap := [], live := [], reg := [], mitems := 0, memo := [] }

def findObj (heap : List Obj) (i : Nat) : Option Obj := heap.find? (fun o => o.id == i)

/-- what the program can observe of an object: identity, type, contents (not the header words, not the cache) -/
def Obj.proj (o : Obj) : Nat × String × Body := (o.id, o.hdr.type, o.body)

/-- contents of every live handle -/
def St.view (s : St) : List (Nat × Option Body) :=
  s.live.map (fun p => (p.1, (findObj s.heap p.2).map (·.body)))

def viewBody (v : List (Nat × Option Body)) (h : Nat) : Option Body := (v.lookup h).bind id

def viewLive (v : List (Nat × Option Body)) (h : Nat) : Bool := (v.lookup h).isSome

/-! ### type_of, Type_Instance with the cache -/

/-- `Type_Of`: magic-number check when compiled in -/
def typeOf (cfg : Cfg) (o : Obj) : Outcome String :=
  if macroOn cfg "CELLO_MAGIC_CHECK" then
    (if o.hdr.magic = some CelloGen.Cfg.magicNum then .ok o.hdr.type else .raised .ValueError)
  else .ok o.hdr.type

/-- `Type_Scan`: the instance a type declares for a class (from the generated declaration table) -/
def scan (ty cls : String) : Option String :=
  match CelloGen.Cfg.declared.lookup ty with
  | some cs => if cs.contains cls then some (ty ++ "." ++ cls) else none
  | none => none

/-- cache slot index of a class (`Type_Cache_Entry(i, Class)`): the first entry whose class matches, as the `if` chain does -/
def slotOf (cls : String) : Option Nat := (CelloGen.Cfg.cacheSlots.find? (fun e => e.2 == cls)).map (·.1)

/-- `Type_Instance(self, cls)` -/
def typeInstance (cfg : Cfg) (memo : List ((String × Nat) × String)) (ty cls : String) :
    List ((String × Nat) × String) × Option String :=
  match (if cfg.cache then slotOf cls else none) with
  | some i =>
    match memo.lookup (ty, i) with
    | some inst => (memo, some inst)                       -- slot already filled
    | none =>
      match scan ty cls with
      | some inst => (((ty, i), inst) :: memo, some inst)  -- fill the slot
      | none => (memo, none)                               -- NULL stored: the slot stays empty
  | none => (memo, scan ty cls)

/-- `type_of` + `Type_Instance` (+ `CELLO_METHOD_CHECK` when the caller needs the method: `method(…)`; a plain
    `instance(self, Class)` followed by `if (inst and inst->m)` has `required = false`) for the object behind a handle -/
def dispatchGen (required : Bool) (cfg : Cfg) (s : St) (h : Nat) (cls : String) : St × Outcome Obj :=
  match s.live.lookup h with
  | none => (s, refuse cfg .ValueError)            -- NULL handle: CELLO_NULL_CHECK in type_of
  | some i =>
    match findObj s.heap i with
    | none => (s, refuse cfg .ValueError)          -- freed block: the magic check sees 0xDeadCe110
    | some o =>
      match typeOf cfg o with
      | .ok ty =>
        let r := typeInstance cfg s.memo ty cls
        let s' := { s with memo := r.1 }
        match r.2 with
        | none => if required then (s', refuse cfg .ClassError) else (s', .ok o)
        | some _ => (s', .ok o)
      | .raised e => (s, .raised e)
      | .ub => (s, .ub)

def dispatch (cfg : Cfg) (s : St) (h : Nat) (cls : String) : St × Outcome Obj := dispatchGen true cfg s h cls

/-- the lookups a method performs on its arguments, in order; stops at the first failure -/
def dispatchAll (cfg : Cfg) : St → List (Nat × String) → St × Outcome Unit
  | s, [] => (s, .ok ())
  | s, (h, cls) :: rest =>
    match dispatch cfg s h cls with
    | (s', .ok _) => dispatchAll cfg s' rest
    | (s', .raised e) => (s', .raised e)
    | (s', .ub) => (s', .ub)

/-! ### the collector -/

/-- mark (from the program's variables) and sweep: unmarked registered blocks are freed -/
def collect (s : St) : St :=
  let marked := s.live.map (·.2) ++ s.roots
  let keep := s.reg.filter (fun i => marked.contains i)
  { s with heap := s.heap.filter (fun o => !(s.reg.contains o.id) || marked.contains o.id),
           reg := keep, mitems := keep.length + keep.length / 2 + 1 }

/-- `GC_Set`: register; collect when the registry outgrows its threshold -/
def gcSet (s : St) (i : Nat) : St :=
  let s := { s with reg := i :: s.reg }
  if s.reg.length > s.mitems then collect s else s

/-- free a block (`GC_Rem` → destruct + dealloc, or `dealloc(destruct(self))` directly) -/
def freeObj (cfg : Cfg) (s : St) (i : Nat) : St :=
  { s with heap := s.heap.filter (fun o => !(o.id == i)),
           reg := if cfg.gc then s.reg.filter (fun j => !(j == i)) else s.reg,
           roots := if cfg.gc then s.roots.filter (fun j => !(j == i)) else s.roots }

/-! ### operations -/

inductive Out where
  | unit
  | len (n : Nat)
  | val (v : Val)
  | mem (b : Bool)
  | items (xs : List Val)
  | kvs (xs : List (Val × Val))
  | eq (b : Bool)
  | cmp (c : Int)
  | exc (name : String)
  | nest (site name : String)
  | silent                       -- transcript-only operation: nothing the model computes
deriving DecidableEq, Repr, Inhabited

/-- which object a guarded function runs on -/
inductive Where where
  | self                                  -- the object behind the handle: the class is read from its header
  | elem (fn : String) (k : Nat)          -- an element embedded in it: the class the `k`-th `header_init` of `fn` stamped
deriving DecidableEq, Repr, Inhabited

/-- how `alloc_by` was asked to register the block: `new` / `new_raw` / `new_root` -/
inductive AMode where
  | standard | raw | root
deriving DecidableEq, Repr, Inhabited

/-- one method call on a receiver -/
structure Call where
  self : Nat
  cls : String
  uses : List (Nat × String)
  guard : Body → Option Exc       -- tests inside `#if CELLO_*_CHECK == 1` that do not depend on the header (bounds, element type …)
  /-- lookups `(type, class)` performed on elements embedded in the receiver (`type_of` + `Type_Instance` + method check on
      what `get` / iteration returned): e.g. `concat(get(a, i), x)` looks up `Concat` on the element type -/
  inner : Body → List (String × String) := fun _ => []
  /-- the functions with `CELLO_ALLOC_CHECK` guards that the call runs, each with the object it runs on: the generated
      guards of these functions are evaluated on that object's header class -/
  sites : Body → List (String × Where) := fun _ => []
  hard : Body → Option Exc        -- error paths compiled in every configuration
  undef : Body → Bool             -- outside the contract with no test anywhere (or outside the workload's bounds)
  apply : Body → Body × Out

inductive Plan where
  | call (c : Call)
  | alloc (d : Nat) (ty : String) (b : Body) (uses : List (Nat × String)) (mode : AMode)
  | del (x : Nat)
  | drop (x : Nat)
  | collect
  | pure (o : Out)
  | refuse (e : Exc)
  | undefined

def normIdx (len : Nat) (i : Int) : Int := if i < 0 then (len : Int) + i else i

def insertAt (xs : List Val) (i : Nat) (v : Val) : List Val := xs.take i ++ v :: xs.drop i
def removeAt (xs : List Val) (i : Nat) : List Val := xs.take i ++ xs.drop (i + 1)
def setAt (xs : List Val) (i : Nat) (v : Val) : List Val := xs.take i ++ v :: xs.drop (i + 1)

def removeFirst (v : Val) : List Val → List Val
  | [] => []
  | x :: xs => if x = v then xs else x :: removeFirst v xs

def insertSorted (v : Val) : List Val → List Val
  | [] => [v]
  | x :: xs => if Val.cmp v x < 0 then v :: x :: xs else x :: insertSorted v xs

def sortVals (xs : List Val) : List Val := xs.foldl (fun acc v => insertSorted v acc) []

def insertKV (kv : Val × Val) : List (Val × Val) → List (Val × Val)
  | [] => [kv]
  | x :: xs => if Val.cmp kv.1 x.1 < 0 then kv :: x :: xs else x :: insertKV kv xs

def sortKVs (xs : List (Val × Val)) : List (Val × Val) := xs.foldl (fun acc v => insertKV v acc) []

def kvSet (k v : Val) : List (Val × Val) → List (Val × Val)
  | [] => [(k, v)]
  | x :: xs => if x.1 = k then (k, v) :: xs else x :: kvSet k v xs

def kvGet (k : Val) (xs : List (Val × Val)) : Option Val := (xs.find? (fun p => p.1 = k)).map (·.2)

/-- `Array_Cmp` / `List_Cmp`: lexicographic, a proper prefix is smaller -/
def cmpSeq : List Val → List Val → Int
  | [], [] => 0
  | [], _ :: _ => -1
  | _ :: _, [] => 1
  | x :: xs, y :: ys => let c := Val.cmp x y; if c < 0 then -1 else if c > 0 then 1 else cmpSeq xs ys

def strLen (s : String) : Nat := s.length

def noGuard : Body → Option Exc := fun _ => none
def noUndef : Body → Bool := fun _ => false

/-- is the index acceptable (after normalisation) for an access to an existing element -/
def idxBad (len : Nat) (i : Int) : Bool := let j := normIdx len i; j < 0 || j ≥ (len : Int)

def seqGuard (f : SeqKind → Ty → List Val → Option Exc) : Body → Option Exc
  | .seq k ty xs => f k ty xs
  | _ => some .ClassError

def mapGuard (f : Ty → Ty → List (Val × Val) → Option Exc) : Body → Option Exc
  | .map _ kt vt kvs => f kt vt kvs
  | _ => some .ClassError

def onSeq (f : List Val → List Val × Out) : Body → Body × Out
  | .seq k ty xs => let r := f xs; (.seq k ty r.1, r.2)
  | b => (b, .unit)

def onMap (f : List (Val × Val) → List (Val × Val) × Out) : Body → Body × Out
  | .map k kt vt kvs => let r := f kvs; (.map k kt vt r.1, r.2)
  | b => (b, .unit)

/-- `push_at` index rule: Array normalises against the new length and accepts `len`; List walks to an existing
    element (`List_At`) unless the index is literally 0 -/
def pushAtPos (k : SeqKind) (len : Nat) (i : Int) : Option Nat :=
  match k with
  | .array => let j := if i < 0 then (len : Int) + 1 + i else i
              if j < 0 || j > (len : Int) then none else some j.toNat
  | .list => if i = 0 then some 0 else
             let j := normIdx len i
             if j < 0 || j ≥ (len : Int) then none else some j.toNat

/-- which object an in-place edit is applied to -/
inductive Sel where
  | self                 -- the object behind the handle itself (made by new / new_raw / new_root / copy)
  | at (i : Int)         -- `get(c, $I(i))` of an Array / List: an element embedded in the container
  | it (i : Int)         -- the `i`-th object handed out by iteration over an Array / List (the same embedded element)
  | val (k : Val)        -- `get(m, k)` of a Table / Tree: the embedded value
  | key (k : Val)        -- the embedded key equal to `k`, as iteration over a Table / Tree hands it out
deriving DecidableEq, Repr, Inhabited

/-- an in-place edit of a String (or, for `asg`, Int) object -/
inductive Edit where
  | cat (t : String)             -- concat(x, $S(t))
  | app (t : String)             -- append(x, $S(t))
  | res (n : Int)                -- resize(x, n)
  | asg (v : Val)                -- assign(x, v)
  | fmt (p : Int) (t : String)   -- print_to(x, p, "%s", $S(t))
  | rem (t : String)             -- rem(x, $S(t))
  | look (t : String)            -- look_from(x, $S("\"t\""), 0): String_Look = String_Clear, then one String_Concat per character
deriving DecidableEq, Repr, Inhabited

/-- bound the workload keeps on String values (harness buffers) -/
def strCap : Nat := 30

/-- the class through which the edit is dispatched on its target -/
def Edit.cls : Edit → String
  | .cat _ | .app _ => "Concat"
  | .res _ => "Resize"
  | .asg _ => "Assign"
  | .fmt _ _ => "Format"
  | .rem _ => "Get"
  | .look _ => "Show"

/-- the functions the edit runs on a target of type `ty`, in order (those that carry `CELLO_ALLOC_CHECK` guards matter) -/
def Edit.fns (ty : String) : Edit → List String
  | .cat _ | .app _ => [ty ++ "_Concat"]
  | .res _ => [ty ++ "_Resize"]
  | .asg _ => [ty ++ "_Assign"]
  | .fmt _ _ => [ty ++ "_Format_To"]
  | .rem _ => [ty ++ "_Rem"]
  | .look t => (ty ++ "_Clear") :: (if t.isEmpty then [] else [ty ++ "_Concat"])

def dropPrefix? : List Char → List Char → Option (List Char)
  | s, [] => some s
  | [], _ :: _ => none
  | c :: s, d :: t => if c = d then dropPrefix? s t else none

/-- `String_Rem`: the text without the first occurrence of `t` (`none`: `t` does not occur) -/
def remSub : List Char → List Char → Option (List Char)
  | s, t =>
    match dropPrefix? s t with
    | some r => some r
    | none =>
      match s with
      | [] => none
      | c :: s' => (remSub s' t).map (c :: ·)

/-- is the edit applicable to this value at all (otherwise the method lookup or the argument conversion raises) -/
def Edit.typeOk : Edit → Val → Bool
  | .asg w, v => w.ty == v.ty
  | _, .str _ => true
  | _, .int _ => false

/-- outside the contract without any test: sizes beyond the workload's buffers, a print position beyond the text -/
def Edit.undef : Edit → Val → Bool
  | .cat t, .str s | .app t, .str s => decide (s.length + t.length > strCap)
  | .res n, .str _ => decide (n < 0) || decide (n > (strCap : Int))
  | .fmt p t, .str s => decide (p < 0) || decide (p > (s.length : Int)) || decide (p.toNat + t.length > strCap)
  | .look t, .str _ => decide (t.length > strCap)
  | _, _ => false

/-- error paths compiled in every configuration: `String_Rem` of a text that does not occur -/
def Edit.hard : Edit → Val → Option Exc
  | .rem t, .str s => if (remSub s.toList t.toList).isSome then none else some .ValueError
  | _, _ => none

/-- the value after the edit -/
def Edit.run : Edit → Val → Val
  | .cat t, .str s | .app t, .str s => .str (s ++ t)
  | .res n, .str s => .str (if n.toNat ≤ s.length then String.ofList (s.toList.take n.toNat) else s)    -- growing adds NUL bytes only
  | .asg w, _ => w
  | .fmt p t, .str s => .str (String.ofList (s.toList.take p.toNat) ++ t)
  | .rem t, .str s => .str (String.ofList ((remSub s.toList t.toList).getD s.toList))
  | .look t, .str _ => .str t
  | _, v => v

inductive Op where
  | nv (d : Nat) (v : Val)
  | nseq (k : SeqKind) (d : Nat) (ty : Ty) (vs : List Val)
  | nmap (k : MapKind) (d : Nat) (kt vt : Ty)
  | del (x : Nat)
  | drop (x : Nat)
  | push (c : Nat) (v : Val)
  | pushat (c : Nat) (i : Int) (v : Val)
  | pop (c : Nat)
  | popat (c : Nat) (i : Int)
  | get (c : Nat) (i : Int)
  | set (c : Nat) (i : Int) (v : Val)
  | rem (c : Nat) (v : Val)
  | mem (c : Nat) (v : Val)
  | len (x : Nat)
  | mset (m : Nat) (k v : Val)
  | mget (m : Nat) (k : Val)
  | mrem (m : Nat) (k : Val)
  | mmem (m : Nat) (k : Val)
  | items (c : Nat)
  | ritems (c : Nat)
  | sort (c : Nat)
  | copy (d c : Nat)
  | concat (c c2 : Nat)
  | resize (c : Nat) (n : Int)
  | eq (a b : Nat)
  | cmp (a b : Nat)
  | vset (x : Nat) (v : Val)
  | nvm (mode : AMode) (d : Nat) (v : Val)     -- new_raw / new_root of a value object
  | ed (c : Nat) (sel : Sel) (e : Edit)        -- an in-place edit of the object itself or of an element embedded in it
  | exc (k : Int)
  | nest (k1 k2 : Int)
  -- transcript-only operations: the model decides only whether they are inside the contract
  | hash (x : Nat)
  | show (x : Nat)
  | fmt (p : Int) (x : Nat)
  | flt (a b : Int)
  | range (a b c : Int)
  | slice (c : Nat) (k : Int)
  | rev (c : Nat)
  | enum (c : Nat)
  | zip (a b : Nat)
  | filter (c : Nat) (k : Int)
  | map (c : Nat) (k : Int)
  | gc
  | harnessOnly       -- heap-Tuple operations of the harness: not modelled, no effect on the modelled objects
deriving Repr, Inhabited

def excName (k : Int) : String :=
  match (k % 6 + 6) % 6 with
  | 0 => "TypeError" | 1 => "ValueError" | 2 => "KeyError" | 3 => "IOError" | 4 => "FormatError" | _ => "BusyError"

def isSeqBody : Body → Bool
  | .seq _ _ _ => true
  | _ => false

def seqLen : Body → Nat
  | .seq _ _ xs => xs.length
  | _ => 0

def seqFn : SeqKind → String
  | .array => "Array_Alloc"
  | .list => "List_Alloc"

def mapFn : MapKind → String
  | .table => "Table_Set_Move"
  | .tree => "Tree_Alloc"

/-- the per-element functions a container operation runs on the elements embedded in it (`suffix` = "_Assign" when elements
    are constructed or overwritten, "_Del" when they are destructed), with where those elements live -/
def elemSites (suffix : String) : Body → List (String × Where)
  | .seq k ty _ => [(ty.name ++ suffix, .elem (seqFn k) 0)]
  | .map k kt vt _ => [(kt.name ++ suffix, .elem (mapFn k) 0), (vt.name ++ suffix, .elem (mapFn k) 1)]
  | .val _ => []

/-- an in-place edit, decoded: the element it reaches (`none`: not there), and the body with that element replaced -/
def selTarget (sel : Sel) (b : Body) : Option Val :=
  match sel, b with
  | .self, .val v => some v
  | .at i, .seq _ _ xs => if idxBad xs.length i then none else xs[(normIdx xs.length i).toNat]?
  | .it i, .seq _ _ xs => if i < 0 then none else xs[i.toNat]?
  | .val k, .map _ _ _ kvs => kvGet k kvs
  | .key k, .map _ _ _ kvs => if (kvGet k kvs).isSome then some k else none
  | _, _ => none

def selPut (sel : Sel) (b : Body) (w : Val) : Body :=
  match sel, b with
  | .self, .val _ => .val w
  | .at i, .seq k ty xs => .seq k ty (setAt xs (normIdx xs.length i).toNat w)
  | .it i, .seq k ty xs => .seq k ty (setAt xs i.toNat w)
  | .val k, .map mk kt vt kvs => .map mk kt vt (kvSet k w kvs)
  | .key k, .map mk kt vt kvs => .map mk kt vt (kvs.map (fun p => if p.1 = k then (w, p.2) else p))
  | _, b => b

/-- where the target of an edit lives -/
def selWhere (sel : Sel) (b : Body) : Where :=
  match sel, b with
  | .at _, .seq k _ _ | .it _, .seq k _ _ => .elem (seqFn k) 0
  | .key _, .map k _ _ _ => .elem (mapFn k) 0
  | .val _, .map k _ _ _ => .elem (mapFn k) 1
  | _, _ => .self

/-- Decode an operation against the observable contents of the live handles: which call it is, with which guard,
    error paths and effect.  Does not look at the configuration, the headers, the cache or the registry. -/
def plan (op : Op) (v : List (Nat × Option Body)) : Plan :=
  match op with
  | .nv d x => if viewLive v d then .undefined else .alloc d x.ty.name (.val x) [] .standard
  | .nvm mode d x => if viewLive v d then .undefined else .alloc d x.ty.name (.val x) [] mode
  | .nseq k d ty vs =>
    if viewLive v d then .undefined
    else if vs.all (fun x => x.ty = ty) then .alloc d (Body.seq k ty []).typeName (.seq k ty vs) [] .standard
    else .refuse .ClassError
  | .nmap k d kt vt => if viewLive v d then .undefined else .alloc d (Body.map k kt vt []).typeName (.map k kt vt []) [] .standard
  | .del x => .del x
  | .drop x => if viewLive v x then .drop x else .undefined
  | .push c x => .call {
      self := c, cls := "Push", uses := [],
      guard := seqGuard (fun _ ty _ => if x.ty = ty then none else some .ClassError), hard := noGuard, undef := noUndef,
      sites := elemSites "_Assign",
      apply := onSeq (fun xs => (xs ++ [x], .unit)) }
  | .pushat c i x => .call {
      self := c, cls := "Push", uses := [],
      guard := seqGuard (fun k ty xs => if x.ty ≠ ty then some .ClassError
                                        else if (pushAtPos k xs.length i).isNone then some .IndexOutOfBoundsError else none),
      hard := noGuard, undef := noUndef,
      sites := elemSites "_Assign",
      apply := fun b => match b with
        | .seq k ty xs => (.seq k ty (insertAt xs ((pushAtPos k xs.length i).getD 0) x), .unit)
        | b => (b, .unit) }
  | .pop c => .call {
      self := c, cls := "Push", uses := [],
      guard := seqGuard (fun _ _ xs => if xs.isEmpty then some .IndexOutOfBoundsError else none), hard := noGuard, undef := noUndef,
      sites := elemSites "_Del",
      apply := onSeq (fun xs => (xs.dropLast, .unit)) }
  | .popat c i => .call {
      self := c, cls := "Push", uses := [],
      guard := seqGuard (fun _ _ xs => if idxBad xs.length i then some .IndexOutOfBoundsError else none), hard := noGuard, undef := noUndef,
      sites := elemSites "_Del",
      apply := onSeq (fun xs => (removeAt xs (normIdx xs.length i).toNat, .unit)) }
  | .get c i => .call {
      self := c, cls := "Get", uses := [],
      guard := seqGuard (fun _ _ xs => if idxBad xs.length i then some .IndexOutOfBoundsError else none), hard := noGuard, undef := noUndef,
      apply := onSeq (fun xs => (xs, .val (xs.getD (normIdx xs.length i).toNat (.int 0)))) }
  | .set c i x => .call {
      self := c, cls := "Get", uses := [],
      guard := seqGuard (fun _ ty xs => if x.ty ≠ ty then some .ClassError
                                        else if idxBad xs.length i then some .IndexOutOfBoundsError else none),
      hard := noGuard, undef := noUndef,
      sites := elemSites "_Assign",
      apply := onSeq (fun xs => (setAt xs (normIdx xs.length i).toNat x, .unit)) }
  | .rem c x => .call {
      self := c, cls := "Get", uses := [],
      guard := seqGuard (fun _ ty _ => if x.ty = ty then none else some .ClassError),
      hard := fun b => match b with
        | .seq _ _ xs => if xs.contains x then none else some .ValueError
        | _ => none,
      undef := noUndef,
      sites := elemSites "_Del",
      apply := onSeq (fun xs => (removeFirst x xs, .unit)) }
  | .mem c x => .call {
      self := c, cls := "Get", uses := [],
      guard := seqGuard (fun _ ty _ => if x.ty = ty then none else some .ClassError), hard := noGuard, undef := noUndef,
      apply := onSeq (fun xs => (xs, .mem (xs.contains x))) }
  | .len x => .call {
      self := x, cls := "Len", uses := [], guard := noGuard, hard := noGuard, undef := noUndef,
      apply := fun b => match b with
        | .val (.str s) => (b, .len (strLen s))
        | .val (.int _) => (b, .len 0)
        | .seq _ _ xs => (b, .len xs.length)
        | .map _ _ _ kvs => (b, .len kvs.length) }
  | .mset m k x => .call {
      self := m, cls := "Get", uses := [],
      guard := mapGuard (fun kt vt _ => if k.ty = kt && x.ty = vt then none else some .ClassError), hard := noGuard, undef := noUndef,
      sites := elemSites "_Assign",
      apply := onMap (fun kvs => (kvSet k x kvs, .unit)) }
  | .mget m k => .call {
      self := m, cls := "Get", uses := [],
      guard := mapGuard (fun kt _ _ => if k.ty = kt then none else some .ClassError),
      hard := fun b => match b with
        | .map _ _ _ kvs => if (kvGet k kvs).isSome then none else some .KeyError
        | _ => none,
      undef := noUndef,
      apply := onMap (fun kvs => (kvs, .val ((kvGet k kvs).getD (.int 0)))) }
  | .mrem m k => .call {
      self := m, cls := "Get", uses := [],
      guard := mapGuard (fun kt _ _ => if k.ty = kt then none else some .ClassError),
      hard := fun b => match b with
        | .map _ _ _ kvs => if (kvGet k kvs).isSome then none else some .KeyError
        | _ => none,
      undef := noUndef,
      sites := elemSites "_Del",
      apply := onMap (fun kvs => (kvs.filter (fun p => p.1 ≠ k), .unit)) }
  | .mmem m k => .call {
      self := m, cls := "Get", uses := [],
      guard := mapGuard (fun kt _ _ => if k.ty = kt then none else some .ClassError), hard := noGuard, undef := noUndef,
      apply := onMap (fun kvs => (kvs, .mem (kvGet k kvs).isSome)) }
  | .items c => .call {
      self := c, cls := "Iter", uses := [], guard := noGuard, hard := noGuard, undef := noUndef,
      apply := fun b => match b with
        | .seq _ _ xs => (b, .items xs)
        | .map _ _ _ kvs => (b, .kvs (sortKVs kvs))
        | b => (b, .unit) }
  | .ritems c => .call {
      self := c, cls := "Iter", uses := [], guard := seqGuard (fun _ _ _ => none), hard := noGuard, undef := noUndef,
      apply := onSeq (fun xs => (xs, .items xs.reverse)) }
  | .sort c => .call {
      self := c, cls := "Sort", uses := [], guard := seqGuard (fun _ _ _ => none), hard := noGuard, undef := noUndef,
      apply := onSeq (fun xs => (sortVals xs, .unit)) }
  | .copy d c =>
    if viewLive v d then .undefined else
    match viewBody v c with
    | some b => .alloc d b.typeName b [(c, "Assign")] .standard
    | none => .refuse .ValueError
  | .concat c c2 =>
    if c = c2 then .undefined else
    match viewBody v c2 with
    | none => .refuse .ValueError
    | some (.seq _ ty2 ys) => .call {
        self := c, cls := "Concat", uses := [(c2, "Iter"), (c2, "Len")],
        guard := seqGuard (fun _ ty _ => if ty = ty2 then none else some .ClassError), hard := noGuard, undef := noUndef,
        sites := elemSites "_Assign",
        apply := onSeq (fun xs => (xs ++ ys, .unit)) }
    | some (.val (.str t)) => .call {
        self := c, cls := "Concat", uses := [(c2, "C_Str")],
        guard := fun b => match b with
          | .val (.str _) => none
          | _ => some .ClassError,
        sites := fun _ => [("String_Concat", .self)],
        hard := noGuard,
        undef := fun b => match b with
          | .val (.str s) => decide (strLen s + strLen t > strCap)
          | _ => false,
        apply := fun b => match b with
          | .val (.str s) => (.val (.str (s ++ t)), .unit)
          | b => (b, .unit) }
    | some _ => .refuse .ClassError
  | .resize c n => .call {
      self := c, cls := "Resize", uses := [], guard := seqGuard (fun _ _ _ => none), hard := noGuard,
      undef := fun b => decide (n < 0) || decide (n > (seqLen b : Int)),
      sites := elemSites "_Del",
      apply := onSeq (fun xs => (xs.take n.toNat, .unit)) }
  | .eq a b | .cmp a b =>
    match viewBody v b with
    | none => .refuse .ValueError
    | some bb =>
      let res : Int → Out := fun c => match op with
        | .eq _ _ => .eq (decide (c = 0))
        | _ => .cmp c
      .call {
        self := a, cls := "Cmp", uses := [(b, "Cmp")],
        guard := fun ab => match ab, bb with
          | .val x, .val y => if x.ty = y.ty then none else some .TypeError
          | .seq _ t1 _, .seq _ t2 _ => if t1 = t2 then none else some .TypeError
          | .map _ _ _ _, .map _ _ _ _ => none
          | _, _ => some .TypeError,
        hard := noGuard,
        undef := fun ab => match ab with     -- Table/Tree comparison depends on the slot layout (known finding F06): excluded
          | .map _ _ _ _ => true
          | _ => false,
        apply := fun ab => match ab, bb with
          | .val x, .val y => (ab, res (Val.cmp x y))
          | .seq _ _ xs, .seq _ _ ys => (ab, res (cmpSeq xs ys))
          | _, _ => (ab, .unit) }
  | .vset x w => .call {
      self := x, cls := "Assign", uses := [],
      guard := fun b => match b with
        | .val u => if u.ty = w.ty then none else some .TypeError
        | _ => some .TypeError,
      sites := fun _ => [(w.ty.name ++ "_Assign", .self)],
      hard := noGuard, undef := noUndef,
      apply := fun b => match b with
        | .val _ => (.val w, .unit)
        | b => (b, .unit) }
  | .ed c sel e => .call {
      self := c,
      cls := (match sel with
        | .self => e.cls
        | .at _ | .val _ => "Get"
        | .it _ | .key _ => "Iter"),
      uses := [],
      guard := fun b =>
        let base : Option Exc := match sel, b with
          | .self, .val _ => none
          | .at i, .seq _ _ xs => if idxBad xs.length i then some .IndexOutOfBoundsError else none
          | .it _, .seq _ _ _ => none
          | .val k, .map _ kt _ _ | .key k, .map _ kt _ _ => if k.ty = kt then none else some .ClassError
          | _, _ => some .ClassError
        match base, selTarget sel b with
        | some e', _ => some e'
        | none, some x => if e.typeOk x then none else some .ClassError    -- no such method on the element / argument of the wrong type
        | none, none => none,
      -- the element reached through get / iteration is an object of its own: type_of, Type_Instance and the method check on it
      inner := fun b => match sel, selTarget sel b with
        | .self, _ => []
        | _, some x => [(x.ty.name, e.cls)]
        | _, none => [],
      sites := fun b => match selTarget sel b with
        | some x => (e.fns x.ty.name).map (fun f => (f, selWhere sel b))
        | none => [],
      hard := fun b => match sel, selTarget sel b with
        | .val _, none => some .KeyError               -- Table_Get / Tree_Get of an absent key
        | _, some x => e.hard x
        | _, none => none,
      undef := fun b => match sel, selTarget sel b with
        | .val _, none => false
        | _, none => true                               -- iteration that never reaches the element: nothing to edit
        | _, some x => e.undef x ||
            (match sel with | .key _ => !(e.run x == x) | _ => false),   -- a key may only be rewritten with its own value
      apply := fun b => match selTarget sel b with
        | some x => (selPut sel b (e.run x), .unit)
        | none => (b, .unit) }
  | .exc k => .pure (.exc (excName k))
  | .nest k1 k2 => .pure (.nest (if excName k1 = excName k2 then "inner" else "outer") (excName k1))
  | .hash x => .call {
      self := x, cls := "Hash", uses := [], guard := noGuard, hard := noGuard,
      undef := fun b => match b with
        | .map _ _ _ _ => true
        | _ => false,
      apply := fun b => (b, .silent) }
  | .show x => .call {
      self := x, cls := "Show", uses := [], guard := noGuard, hard := noGuard,
      undef := fun b => match b with
        | .val _ => false
        | _ => true,
      apply := fun b => (b, .silent) }
  | .fmt p x => .call {
      self := x, cls := "Show", uses := [], guard := noGuard, hard := noGuard,
      undef := fun b => match b with
        | .val (.str _) => decide (p < 0)
        | .val (.int i) => decide (p < 0) || (decide (p % 8 = 7) && (decide (i < 33) || decide (i > 126)))
        | _ => true,
      apply := fun b => (b, .silent) }
  | .flt _ b => if b = 0 then .undefined else .pure .silent
  | .range a b c =>
    if c = 0 || a < -1000 || a > 1000 || b < -1000 || b > 1000 || c < -50 || c > 50 then .undefined else .pure .silent
  | .slice c k => .call {
      self := c, cls := "Iter", uses := [], guard := seqGuard (fun _ _ _ => none), hard := noGuard,
      undef := fun b => decide (k < 0) || decide (k ≥ (seqLen b : Int)),      -- Slice ignores `stop` and walks past the end (F11)
      apply := fun b => (b, .silent) }
  | .rev c | .enum c => .call {
      self := c, cls := "Iter", uses := [], guard := seqGuard (fun _ _ _ => none), hard := noGuard,
      undef := fun b => decide (seqLen b = 0),
      apply := fun b => (b, .silent) }
  | .zip a b =>
    match viewBody v b with
    | none => .refuse .ValueError
    | some bb => if isSeqBody bb then
        .call {
                self := a, cls := "Iter", uses := [(b, "Iter")], guard := seqGuard (fun _ _ _ => none), hard := noGuard, undef := noUndef,
                apply := fun x => (x, .silent) }
      else .refuse .ClassError
  | .filter c _ => .call {
      self := c, cls := "Iter", uses := [], guard := seqGuard (fun _ _ _ => none), hard := noGuard, undef := noUndef,
      apply := fun b => (b, .silent) }
  | .map c _ => .call {
      self := c, cls := "Iter", uses := [],
      guard := seqGuard (fun _ ty _ => if ty = .I then none else some .ClassError), hard := noGuard, undef := noUndef,
      apply := fun b => (b, .silent) }
  | .gc => .collect
  | .harnessOnly => .pure .silent

/-- replace the contents of object `i` -/
def setBody (heap : List Obj) (i : Nat) (b : Body) : List Obj :=
  heap.map (fun o => if o.id == i then { o with body := b } else o)

/-- the class found in the header of the object a guarded function runs on.  The field `header(self)->alloc` exists only
    when CELLO_ALLOC_CHECK is on; without it nothing is read and the class is the one `alloc_by` would have stored. -/
def siteClass (o : Obj) : Where → AllocClass
  | .self => o.hdr.alloc.getD heapClass
  | .elem fn k => stampOf fn k

/-- the first generated `CELLO_ALLOC_CHECK` guard that fires along the functions the call runs -/
def sitesFire (o : Obj) : List (String × Where) → Option Exc
  | [] => none
  | (fn, w) :: rest =>
    match allocGuardFires fn (siteClass o w) with
    | some e => some e
    | none => sitesFire o rest

/-- lookups on embedded elements: `type_of` (their header carries the magic number of this build: the container's own
    `header_init` wrote it), `Type_Instance` through the cache, method check.  `true`: a class is missing (ClassError). -/
def innerAll (cfg : Cfg) : St → List (String × String) → St × Bool
  | s, [] => (s, false)
  | s, (ty, cls) :: rest =>
    let r := typeInstance cfg s.memo ty cls
    let s' := { s with memo := r.1 }
    match r.2 with
    | none => (s', true)
    | some _ => innerAll cfg s' rest

/-- a method call: dispatch on the receiver, on the arguments, the guards (bounds, element lookups, allocation class), then
    hard errors / effect -/
def runCall (cfg : Cfg) (c : Call) (s : St) : St × Outcome Out :=
  match dispatch cfg s c.self c.cls with
  | (s1, .ok o) =>
    match dispatchAll cfg s1 c.uses with
    | (s2, .ok ()) =>
      match c.guard o.body with
      | some e => (s2, refuse cfg e)
      | none =>
        match innerAll cfg s2 (c.inner o.body) with
        | (s3, true) => (s3, refuse cfg .ClassError)
        | (s3, false) =>
          match sitesFire o (c.sites o.body) with
          | some e => (s3, refuse cfg e)          -- inside `#if CELLO_ALLOC_CHECK == 1`
          | none =>
            if c.undef o.body then (s3, .ub) else
            match c.hard o.body with
            | some e => (s3, .raised e)
            | none =>
              let r := c.apply o.body
              ({ s3 with heap := setBody s3.heap o.id r.1 }, .ok r.2)
    | (s2, .raised e) => (s2, .raised e)
    | (s2, .ub) => (s2, .ub)
  | (s1, .raised e) => (s1, .raised e)
  | (s1, .ub) => (s1, .ub)

/-- `GC_Set` with the root flag: registered, never swept -/
def gcSetRoot (s : St) (i : Nat) : St := gcSet { s with roots := i :: s.roots } i

/-- the `switch (method)` of `alloc_by`: `set(current(GC), self, $I(0))` / nothing / `set(current(GC), self, $I(1))`, all of it
    `#ifndef CELLO_NGC` -/
def register (cfg : Cfg) (mode : AMode) (s : St) (i : Nat) : St :=
  if cfg.gc then
    (match mode with
     | .standard => gcSet s i
     | .raw => s
     | .root => gcSetRoot s i)
  else s

/-- `new` / `new_raw` / `new_root` / `copy`: `alloc_by` + construct/assign; the new object is bound to handle `d`.  The
    constructor assigns into the new object and into the elements it embeds: the guards of those functions see the class
    `alloc_by` stamps, and the classes the container stamps. -/
def runAlloc (cfg : Cfg) (d : Nat) (ty : String) (b : Body) (uses : List (Nat × String)) (mode : AMode) (s : St) : St × Outcome Out :=
  match dispatchAll cfg s uses with
  | (s1, .ok ()) =>
    let o : Obj := { id := s1.next, hdr := headerInit cfg ty heapClass, body := b }
    match sitesFire o ((ty ++ "_Assign", .self) :: elemSites "_Assign" b) with
    | some e => (s1, refuse cfg e)
    | none =>
      let s2 := { s1 with next := s1.next + 1, heap := o :: s1.heap, live := (d, o.id) :: s1.live }
      (register cfg mode s2 o.id, .ok .unit)
  | (s1, .raised e) => (s1, .raised e)
  | (s1, .ub) => (s1, .ub)

/-- `del(x)` / `del_raw(x)` / `del_root(x)`: `rem(current(GC), x)` or `dealloc(destruct(x))`; the destructor of the object
    and of the elements it embeds run, then `dealloc`: their guards see the header classes.  The handle is cleared. -/
def runDel (cfg : Cfg) (x : Nat) (s : St) : St × Outcome Out :=
  match dispatchGen false cfg s x "New" with       -- `destruct`: `instance(self, New)`, optional
  | (s1, .ok o) =>
    match dispatchGen false cfg s1 x "Alloc" with  -- `dealloc`: `instance(self, Alloc)`, optional
    | (s2, .ok _) =>
      match sitesFire o ((o.hdr.type ++ "_Del", .self) :: elemSites "_Del" o.body ++ [("dealloc", .self)]) with
      | some e => (s2, refuse cfg e)
      | none => ({ freeObj cfg s2 o.id with live := s2.live.filter (fun p => !(p.1 == x)) }, .ok .unit)
    | (s2, .raised e) => (s2, .raised e)
    | (s2, .ub) => (s2, .ub)
  | (s1, .raised e) => (s1, .raised e)
  | (s1, .ub) => (s1, .ub)

def step (cfg : Cfg) (op : Op) (s : St) : St × Outcome Out :=
  match plan op s.view with
  | .call c => runCall cfg c s
  | .alloc d ty b uses mode => runAlloc cfg d ty b uses mode s
  | .del x => runDel cfg x s
  | .drop x => ({ s with live := s.live.filter (fun p => !(p.1 == x)) }, .ok .unit)
  | .collect => (if cfg.gc then collect s else s, .ok .silent)
  | .pure o => (s, .ok o)
  | .refuse e => (s, refuse cfg e)
  | .undefined => (s, .ub)

/-- a program: the outcomes of its steps, in order, and the final state -/
def run (cfg : Cfg) : List Op → St → St × List (Outcome Out)
  | [], s => (s, [])
  | op :: rest, s =>
    let r := step cfg op s
    let r2 := run cfg rest r.1
    (r2.1, r.2 :: r2.2)

/-- everything the program can see of a state: each handle with the identity, type and contents of its object -/
def St.observe (s : St) : List (Nat × Option (Nat × String × Body)) :=
  s.live.map (fun p => (p.1, (findObj s.heap p.2).map Obj.proj))

/-- every step stayed inside the API contract (no check fired, no error path, no undefined behaviour) -/
def InContract (rs : List (Outcome Out)) : Prop := ∀ r ∈ rs, ∃ out, r = .ok out

instance (rs : List (Outcome Out)) : Decidable (InContract rs) :=
  decidable_of_iff (rs.all (fun r => match r with | .ok _ => true | _ => false) = true) (by
    unfold InContract
    simp only [List.all_eq_true]
    constructor
    · intro h r hr
      have := h r hr
      cases r with
      | ok a => exact ⟨a, rfl⟩
      | raised e => simp at this
      | ub => simp at this
    · intro h r hr
      obtain ⟨o, ho⟩ := h r hr
      subst ho; rfl)


/-! ## keep programs: containers as the sole path to collector-managed objects

  The second half of the C18 workload (harness/h_cfg.c, operations `h…`).  A *holder* is a container that is the only thing
  referring to collector-managed `Tracked` objects; the program fills it, allocates (which makes the collector run in the
  builds that have one), and reads every element back.  Here the heap is a graph: managed blocks are addressed by their
  allocation number, containers hold those numbers.

  * what a program step can read is the part of the heap it can reach from its holder by following the pointers the
    containers hold (`Cell.refs`: EVERY entry of a Table, every item of an Array …) — `subOne`;
  * what the collector keeps is what `GC_Mark` marks: `Cello.Heap.collect` (the model of src/GC.c proved complete in C01) run
    on the translation `toObj`, which spells out what each type's Mark instance hands to the collector — Array_Mark the first
    `nitems` items, Table_Mark the slots below the bound read from the source (`CelloGen.Cfg.tableMarkBound`), Tree_Mark every
    node in order, List_Mark every node, Tuple_Mark the items up to Terminal, Thread_Mark the table of the Thread object it
    is given, whichever thread marks (the running thread's object, which `GC_Mark` hands over itself: `threadObj`; and any
    Thread object a variable holds: `Cell.thread`); Ref, Box, KCell and Tracked have no Mark instance and are scanned conservatively, word by word;
  * the two coincide only if every Mark instance covers everything the container holds: that is lemma `refs_fields`
    (CelloProofs/Lemmas/CfgKeep.lean), and it is what a change like "Table_Mark walks `nitems` slots" falsifies;
  * a holder may also be a ROOT: a container made with `new_root` whose variable lives in static storage, outside the collector's
    view (`Slot.rooted`, operation `hnewRoot`).  Its variable is not among the stack words; what keeps it is the root flag of its
    registry entry — `storedRoot`, computed from the regenerated members of `struct GCEntry` and the initialiser of `GC_Set_Ptr`
    (which item feeds which member).  `RootWired` (the root argument arrives in the member `GC_Mark` / `GC_Sweep` test) is the
    hypothesis of the collection lemmas; Props/C18.lean proves it for the source as it is (`C18_root_flag_reaches_collector_tests`). -/
namespace Keep

inductive Side where
  | key | val
deriving DecidableEq, Repr, Inhabited

inductive Kind where
  | array | list | tableV | tableK | treeV | treeK | tuple | chain | tls | thread
deriving DecidableEq, Repr, Inhabited

def Kind.isSeq : Kind → Bool
  | .array | .list | .tuple | .chain => true
  | _ => false

/-- a managed block (`alloc` + `GC_Set`) -/
inductive Cell where
  /-- `struct Tracked { int64_t id; int64_t pay; var link; }`: a plain struct, traced by the conservative scan -/
  | tracked (ident pay : Int) (link : Option Nat)
  /-- heap `Ref` / `Box`: one pointer -/
  | ref (box : Bool) (val : Option Nat)
  /-- heap `Tuple`: the stored pointers up to `Terminal` -/
  | tuple (items : List Nat)
  /-- `Array` of `Ref`: item `i` is an embedded Ref holding a pointer -/
  | array (items : List Nat)
  /-- `List` of `Ref` -/
  | list (items : List Nat)
  /-- `Table`: `side = val`: Int key ↦ embedded Ref; `side = key`: embedded KCell (number, pointer) ↦ Int.  The slot array is
      the one of src/Table.c (robin-hood placement: Cello/Table.lean) -/
  | table (side : Side) (t : Cello.Table.Tab Int Nat)
  /-- `Tree`, the same two element layouts; kept sorted by key (the in-order walk of Tree_Iter_Init/Next) -/
  | tree (side : Side) (kvs : List (Int × Nat))
  /-- a `Thread` object made with `new(Thread, f)` that a variable of the program holds — not started, or started and joined
      — used through its Get instance: `set(t, key, obj)` / `get(t, key)` / `rem(t, key)` work on `t->tls`, its own
      `new_raw(Table, String, Ref)` (unmanaged; freed by Thread_Del), whichever thread calls them.  Key "keep<h>_<k>" ↦ Ref
      to the object, newest first. -/
  | thread (kvs : List (Int × Nat))

instance : Inhabited Cell := ⟨.ref false none⟩

/-- every entry stored in the slot array -/
def tabEntries (t : Cello.Table.Tab Int Nat) : List (Int × Nat) :=
  t.slots.toList.filterMap (fun e => e.map (fun e => (e.key, e.val)))

/-- **what a block refers to**: every pointer the program can obtain from it through the public API -/
def Cell.refs : Cell → List Nat
  | .tracked _ _ l => l.toList
  | .ref _ v => v.toList
  | .tuple xs => xs
  | .array xs => xs
  | .list xs => xs
  | .table _ t => (tabEntries t).map (·.2)
  | .tree _ kvs => kvs.map (·.2)
  | .thread kvs => kvs.map (·.2)

abbrev KHeap := List (Nat × Cell)

/-- a holder slot of the program: a variable in `main`'s frame (the collector finds it on the stack) — or, `rooted`, a variable
    in static storage / plain C memory that the collector does NOT scan, holding a container made with `new_root` (which is what
    roots are for: `static var registry; … registry = new_root(Table, String, Int);`).  A rooted container is kept alive by the
    root flag of its registry entry alone. -/
structure Slot where
  h : Nat
  kind : Kind
  root : Option Nat        -- the container object; `none` for thread-local storage of the running thread
  rooted : Bool := false   -- made with `new_root`, released with `del_root`; the variable is outside the collector's view
deriving Repr

structure KSt where
  next : Nat                          -- allocation counter
  heap : KHeap                        -- managed blocks that have not been freed
  slots : List Slot
  tls : List ((Nat × Int) × Nat)      -- `current(Thread)`'s table: key "keep<h>_<k>" ↦ Ref to the object
  used : List Int                     -- serial numbers the program has given to Tracked objects
  junk : Nat                          -- registered garbage without pointers (the `new(Int)`s of `hchurn`)
  mitems : Nat                        -- `gc->mitems`
  collections : Nat := 0              -- statistics only: collections run so far

def KSt.init : KSt := { next := 0, heap := [], slots := [], tls := [], used := [], junk := 0, mitems := 0 }
instance : Inhabited KSt := ⟨KSt.init⟩

/-! ### the collector on this heap: `GC_Mark; GC_Sweep` of Cello/Heap.lean on what the Mark instances present -/

/-- the address of block `i` (8-aligned, as `calloc` + a header of whole words gives) -/
def addr (i : Nat) : Nat := 8 * (i + 1)
def optAddr : Option Nat → Nat
  | none => 0
  | some i => addr i
/-- an `int64_t` as the machine word the conservative scan reads -/
def wordOfInt (x : Int) : Nat := (x % 18446744073709551616).toNat

/-- key and value object of one Table / Tree entry, as `f(gc, key); f(gc, val);` presents them: embedded, with their own
    header, not registered, so `GC_Mark_And_Recurse` goes to `GC_Recurse` -/
def entryObjs (side : Side) (k : Int) (i : Nat) : List Cello.Heap.Obj :=
  match side with
  | .val => [.raw "Int" [wordOfInt k], .raw "Ref" [addr i]]
  | .key => [.raw "KCell" [wordOfInt k, addr i], .raw "Int" [0]]

/-- `Table_Mark`: `for (i = 0; i < t-><bound>; i++) if (Table_Key_Hash(t, i) isnt 0) { f(gc, key); f(gc, val); }` with the
    bound that is in the source now -/
def tableMarkSlots (t : Cello.Table.Tab Int Nat) : List (Option (RH.Entry Int Nat)) :=
  t.slots.toList.take (if CelloGen.Cfg.tableMarkBound = "nslots" then t.n else t.nitems)

/-- what the collector is handed when it traces a block: `GC_Recurse` on this representation -/
def toObj : Cell → Cello.Heap.Obj
  | .tracked ident pay link => .raw "Tracked" [wordOfInt ident, wordOfInt pay, optAddr link]
  | .ref box v => .raw (if box then "Box" else "Ref") [optAddr v]
  | .tuple xs => .tup "Tuple" (xs.map addr)
  | .array xs => .cont "Array" (xs.map (fun i => .raw "Ref" [addr i]))          -- Array_Mark: i < nitems
  | .list xs => .cont "List" (xs.map (fun i => .raw "Ref" [addr i]))            -- List_Mark: from head while item
  | .table side t => .cont "Table" ((tableMarkSlots t).flatMap (fun e => match e with
      | none => []
      | some e => entryObjs side e.key e.val))
  | .tree side kvs => .cont "Tree" (kvs.flatMap (fun p => entryObjs side p.1 p.2))   -- Tree_Mark: in-order walk
  | .thread kvs => .thr "Thread" (.cont "Table" (kvs.flatMap (fun e => [.raw "String" [], .raw "Ref" [addr e.2]])))
      -- Thread_Mark: `mark(t->tls, gc, f)` for ANY Thread object → Table_Mark of its String ↦ Ref table

theorem lookup_mem_fst {β : Type} (i : Nat) (b : β) : ∀ (l : List (Nat × β)), l.lookup i = some b → (i, b) ∈ l
  | [], h => by simp [List.lookup] at h
  | (j, c) :: l, h => by
    by_cases hk : i = j
    · subst hk
      simp [List.lookup] at h
      simp [h]
    · have hb : (i == j) = false := by simpa using hk
      have h' : l.lookup i = some b := by simpa [List.lookup, hb] using h
      exact List.mem_cons_of_mem _ (lookup_mem_fst i b l h')

theorem addr_div (a : Nat) (h1 : a % 8 = 0) (h2 : 8 ≤ a) : addr (a / 8 - 1) = a := by
  unfold addr; omega

theorem addr_inv (i : Nat) : addr i % 8 = 0 ∧ 8 ≤ addr i ∧ addr i / 8 - 1 = i := by
  unfold addr; omega

/-! #### the root flag of a registry entry, as the source wires it (regenerated: `CelloGen.Cfg.gcEntry…`)

  `alloc_by(type, ALLOC_ROOT)` → `set(current(GC), self, $I(1))` → `GC_Set` → `GC_Set_Ptr(gc, key, (bool)c_int(val))`, which builds
  the entry with a brace initialiser `struct GCEntry entry = { ptr, ihash, root, 0 };`.  Which MEMBER an item of that initialiser
  lands in is decided by the declaration order of `struct GCEntry` (positional items) or by its designator.  `GC_Sweep` spares an
  unmarked entry iff the member `gcSweepSpares` is set; the root loop of `GC_Mark` starts from the entries whose member
  `gcMarkRootTest` is set.  `storedRoot r` is the value these tests find in the entry registered with root argument `r`. -/

/-- the items of the initialiser with which `GC_Set_Ptr` builds a new entry -/
def setPtrInit : List (String × String) :=
  match CelloGen.Cfg.gcEntryInits.find? (fun e => e.1 == "GC_Set_Ptr") with
  | some e => e.2
  | none => []

/-- the expression that initialises member `m` of the entry `GC_Set_Ptr` builds: the item designated `.m = …`; in a purely
    positional initialiser the item at the position `m` has in `struct GCEntry`; a member without an item is zero-initialised -/
def entryInitExpr (m : String) : Option String :=
  let items := setPtrInit
  match items.find? (fun e => e.1 == m) with
  | some e => some e.2
  | none =>
    if items.all (fun e => e.1 == "") then
      match (CelloGen.Cfg.gcEntryMembers.map (·.1)).idxOf? m with
      | some i => (items[i]?).map (·.2)
      | none => none
    else none

/-- the third parameter of `GC_Set_Ptr`: the root argument -/
def rootParam : String := CelloGen.Cfg.gcSetPtrParams.getD 2 "?"

/-- value of a flag expression when the root argument is `r` (an absent item: zero) -/
def evalFlag (r : Bool) : Option String → Bool
  | none => false
  | some e => if e = rootParam then r else e = "1" || e = "true"

/-- what `GC_Sweep`'s test (`not entries[i].<gcSweepSpares>`) finds in an entry registered with root argument `r` -/
def storedRoot (r : Bool) : Bool := evalFlag r (entryInitExpr CelloGen.Cfg.gcSweepSpares)
/-- the mark bit a new entry starts with -/
def storedMarked (r : Bool) : Bool := evalFlag r (entryInitExpr CelloGen.Cfg.gcSweepMarkBit)

/-- **the root argument arrives in the member the collector tests** (decidable over the regenerated tables; proved in
    CelloProofs/Props/C18.lean as part of `C18_root_flag_reaches_collector_tests`) -/
def RootWired : Prop := storedRoot true = true
instance : Decidable RootWired := by unfold RootWired; exact inferInstance

/-- is block `i` a container the program made with `new_root` (and has not yet released with `del_root`) -/
def isRooted (slots : List Slot) (i : Nat) : Bool := slots.any (fun sl => sl.rooted && sl.root == some i)

/-- the collector's registry: every block of the heap; the entry of a rooted container carries the root flag as `w` says the
    source stores it (`w true` for `new_root`, `w false` for `new`) -/
def toHeapW (w : Bool → Bool) (s : KSt) : Cello.Heap.Heap where
  lookup a := if a % 8 = 0 ∧ 8 ≤ a then (s.heap.lookup (a / 8 - 1)).map (fun c => ⟨toObj c, w (isRooted s.slots (a / 8 - 1))⟩) else none
  regs := s.heap.map (fun p => addr p.1)
  minptr := 0
  maxptr := addr s.next
  complete := by
    intro a e he
    split at he
    · rename_i hc
      rcases hl : s.heap.lookup (a / 8 - 1) with _ | c
      · rw [hl] at he; cases he
      · have hm := lookup_mem_fst _ _ _ hl
        refine List.mem_map.mpr ⟨_, hm, ?_⟩
        exact addr_div a hc.1 hc.2
    · cases he

/-- … with the wiring of the source as it is now -/
def toHeap (s : KSt) : Cello.Heap.Heap := toHeapW storedRoot s

/-- the current thread as `GC_Mark` sees it: `mark(current(Thread), …)` → Thread_Mark → Table_Mark of the thread-local table
    (String ↦ Ref).  (Thread objects the program made itself are blocks of the heap: `Cell.thread`.) -/
def threadObj (s : KSt) : Cello.Heap.Obj :=
  .thr "Thread" (.cont "Table" (s.tls.flatMap (fun e => [.raw "String" [], .raw "Ref" [addr e.2]])))

/-- the words of `main`'s frame that are holder variables (a rooted holder's variable lives in static storage: not scanned) -/
def stackWords (s : KSt) : List Nat := ((s.slots.filter (fun sl => !sl.rooted)).filterMap (·.root)).map addr

/-- number of entries in the collector's registry -/
def KSt.regCount (s : KSt) : Nat := s.heap.length + s.junk

/-- **one collection**: `GC_Mark(gc); GC_Sweep(gc);` — unmarked blocks without the root flag are finalised and freed -/
def kcollectW (w : Bool → Bool) (s : KSt) : KSt :=
  let r := Cello.Heap.collect Cello.Heap.listSet Cello.Heap.Cfg.current (toHeapW w s) (threadObj s) (stackWords s)
  let hp := s.heap.filter (fun p => !(r.2.contains (addr p.1)))
  { s with heap := hp, junk := 0, mitems := hp.length + hp.length / 2 + 1, collections := s.collections + 1 }

def kcollect (s : KSt) : KSt := kcollectW storedRoot s

/-! ### specification: what the program can still reach -/

/-- the pointers held by holder variables (on the stack or, rooted, in static storage) and by thread-local storage -/
def KSt.roots (s : KSt) : List Nat := s.slots.filterMap (·.root) ++ s.tls.map (·.2)

/-- **Reachable**: a live block a holder variable or a thread-local entry points to, or a live block that a reachable
    block refers to (`Cell.refs`: everything the container holds, whatever its Mark instance enumerates). -/
inductive KReach (hp : KHeap) (roots : List Nat) : Nat → Prop
  | root {i} : i ∈ roots → (hp.lookup i).isSome = true → KReach hp roots i
  | step {i j c} : KReach hp roots i → hp.lookup i = some c → j ∈ c.refs → (hp.lookup j).isSome = true → KReach hp roots j

/-! ### what one operation can see -/

/-- depth to which an operation follows pointers from its holder (chains are at most 120 links of two blocks each) -/
def depthCap : Nat := 300

/-- the blocks reachable from `i` by following `refs`, to depth `d`, each with its contents (`none`: the block was freed) -/
def subOne : Nat → KHeap → Nat → List (Nat × Option Cell)
  | 0, _, _ => []
  | d+1, hp, i =>
    match hp.lookup i with
    | none => [(i, none)]
    | some c => (i, some c) :: c.refs.flatMap (fun j => subOne d hp j)

structure View where
  next : Nat
  slots : List Slot
  tls : List ((Nat × Int) × Nat)
  used : List Int
  sub : List (Nat × Option Cell)

def rootsOf (slots : List Slot) (tls : List ((Nat × Int) × Nat)) (h : Nat) : List Nat :=
  (slots.filter (fun s => s.h == h)).filterMap (·.root) ++ (tls.filter (fun e => e.1.1 == h)).map (·.2)

def View.get (v : View) (i : Nat) : Option Cell :=
  match v.sub.lookup i with
  | some (some c) => some c
  | _ => none

/-- the blocks the operation has seen (and found alive) -/
def View.ids (v : View) : List Nat := v.sub.filterMap (fun p => p.2.map (fun _ => p.1))

/-! ### operations -/

inductive KOp where
  | hnew (h : Nat) (k : Kind)
  /-- `static var slot; … slot = new_root(<container>);` — the variable is outside the collector's view (op file: the kind letter
      in upper case); released with `hdel` (`del_root`).  Not for thread-local storage / Thread objects. -/
  | hnewRoot (h : Nat) (k : Kind)
  | hput (h : Nat) (k id pay : Int)
  | hget (h : Nat) (k : Int)
  | hrem (h : Nat) (k : Int)
  | hrel (h : Nat) (k : Int)
  | hshrink (h : Nat) (n : Int)
  | hreserve (h : Nat) (n : Int)
  | hread (h : Nat)
  | hchurn (m : Int)
  | hdrop (h : Nat)
  | hdel (h : Nat)
  /-- `call(t, …); join(t);` on a Thread holder: the started thread, whose `current(Thread)` is `t`, reads every entry back
      through `get(current(Thread), key)` and reports how many there are and the sum of their payloads -/
  | hrun (h : Nat)
  | gc
deriving Repr, Inhabited

inductive KOut where
  | unit
  | got (ident pay : Int)
  | read (items : List (Int × Int × Int)) (stat : Option (Nat × Nat))
  | churn (c : Int)
  | ran (n : Nat) (sum : Int)
deriving DecidableEq, Repr, Inhabited

/-- what an operation does to the state: blocks written (`none` = `del`), how many blocks it allocated, the new holder
    variables and thread-local entries -/
structure Upd where
  writes : List (Nat × Option Cell) := []
  fresh : Nat := 0
  slots : List Slot
  tls : List ((Nat × Int) × Nat)
  used : List Int
  junk : Nat := 0
  collect : Bool := false

/-- **No pointer forging.** An operation may write only blocks it has seen or allocated, and may store (in a block, a holder
    variable or thread-local storage) only pointers to such blocks — or leave a variable as it was. -/
def Upd.ok (u : Upd) (v : View) : Bool :=
  let allowed := v.ids ++ (List.range u.fresh).map (fun j => v.next + j)
  let oldRoots := v.slots.filterMap (·.root) ++ v.tls.map (·.2)
  let newRoots := u.slots.filterMap (·.root) ++ u.tls.map (·.2)
  u.writes.all (fun w => allowed.contains w.1 && (match w.2 with
    | none => true
    | some c => c.refs.all (fun j => allowed.contains j))) &&
  newRoots.all (fun i => allowed.contains i || oldRoots.contains i)

def tcfg : Cello.Table.Cfg :=
  { ge := CelloGen.Table.tieGe, growEmpty := CelloGen.Table.setGrowsEmpty,
    ideal := Cello.Table.idealSize CelloGen.Table.primes CelloGen.Table.loadNum CelloGen.Table.loadDen }

/-- `Int_Hash` / `KCell_Hash` of a non-negative number -/
def hashInt (k : Int) : Nat := k.toNat

def insAt {α : Type} (xs : List α) (i : Nat) (x : α) : List α := xs.take i ++ x :: xs.drop i
def remAt {α : Type} (xs : List α) (i : Nat) : List α := xs.take i ++ xs.drop (i + 1)

def indexed (xs : List Nat) : List (Int × Nat) := ((List.range xs.length).zip xs).map (fun p => ((p.1 : Int), p.2))

def treeIns (kv : Int × Nat) : List (Int × Nat) → List (Int × Nat)
  | [] => [kv]
  | x :: xs => if kv.1 < x.1 then kv :: x :: xs else x :: treeIns kv xs

def sortByKey {α : Type} (xs : List (Int × α)) : List (Int × α) :=
  xs.foldl (fun acc kv =>
    let rec ins : List (Int × α) → List (Int × α)
      | [] => [kv]
      | x :: r => if kv.1 < x.1 then kv :: x :: r else x :: ins r
    ins acc) []

/-- a chain `head → link → Tracked → link → Tracked …`: the (link, object) pairs in order -/
def chainWalk (get : Nat → Option Cell) : Nat → Option Nat → Option (List (Nat × Nat))
  | _, none => some []
  | 0, some _ => none
  | f+1, some l =>
    match get l with
    | some (.ref _ (some t)) =>
      match get t with
      | some (.tracked _ _ link) => (chainWalk get f link).map (fun r => (l, t) :: r)
      | _ => none
    | _ => none

/-- the elements of a holder, with their keys (sequences: the index), in container order -/
def elems (v : View) (s : Slot) : Option (List (Int × Nat)) :=
  match s.kind, s.root with
  | .tls, _ => some ((v.tls.filter (fun e => e.1.1 == s.h)).map (fun e => (e.1.2, e.2)))
  | k, some r =>
    match k, v.get r with
    | .array, some (.array xs) => some (indexed xs)
    | .list, some (.list xs) => some (indexed xs)
    | .tuple, some (.tuple xs) => some (indexed xs)
    | .tableV, some (.table _ t) => some (tabEntries t)
    | .tableK, some (.table _ t) => some (tabEntries t)
    | .treeV, some (.tree _ kvs) => some kvs
    | .treeK, some (.tree _ kvs) => some kvs
    | .chain, some (.ref _ v0) => (chainWalk v.get depthCap v0).map (fun ps => indexed (ps.map (·.2)))
    | .thread, some (.thread kvs) => some kvs
    | _, _ => none
  | _, none => none

def readTracked (v : View) (i : Nat) : Option (Int × Int) :=
  match v.get i with
  | some (.tracked ident pay _) => some (ident, pay)
  | _ => none

def emptyCell : Kind → Cell
  | .array => .array []
  | .list => .list []
  | .tableV => .table .val (Cello.Table.new tcfg)
  | .tableK => .table .key (Cello.Table.new tcfg)
  | .treeV => .tree .val []
  | .treeK => .tree .key []
  | .tuple => .tuple []
  | .chain => .ref false none
  | .tls => .ref false none
  | .thread => .thread []

def maxH : Nat := 8
def maxElems : Nat := 120
def maxSerial : Int := 4096

/-- `churn_round(m)`: the sum of the `m` short-lived Ints -/
def churnSum (m : Nat) : Int := (List.range m).foldl (fun a j => a + ((j % 7 : Nat) : Int)) 0

/-- position of key `k` among the elements -/
def posOf (isSeq : Bool) (es : List (Int × Nat)) (k : Int) : Option Nat :=
  if isSeq then (if 0 ≤ k ∧ k < (es.length : Int) then some k.toNat else none)
  else es.findIdx? (fun e => e.1 == k)

def setLink (v : View) (t : Nat) (l : Option Nat) : Option (Nat × Option Cell) :=
  match v.get t with
  | some (.tracked i p _) => some (t, some (.tracked i p l))
  | _ => none

def allSome {α : Type} : List (Option α) → Option (List α)
  | [] => some []
  | none :: _ => none
  | some x :: r => (allSome r).map (x :: ·)

/-- Decode an operation against what it can see: `none` = outside the contract (refused by the workload before the call).
    Does not look at the configuration, the registry or anything the operation cannot reach. -/
def plan (op : KOp) (v : View) : Option (Upd × KOut) :=
  let same : Upd := { slots := v.slots, tls := v.tls, used := v.used }
  match op with
  | .gc => some ({ same with collect := true }, .unit)
  | .hchurn m => if m < 0 || m > 400 then none else some ({ same with junk := m.toNat }, .churn (churnSum m.toNat))
  | .hnew h kind =>
    if h ≥ maxH || v.slots.any (fun s => s.h == h) then none else
    match kind with
    | .tls => some ({ same with slots := ⟨h, kind, none, false⟩ :: v.slots }, .unit)
    | _ => some ({ same with writes := [(v.next, some (emptyCell kind))], fresh := 1,
                               slots := ⟨h, kind, some v.next, false⟩ :: v.slots }, .unit)
  | .hnewRoot h kind =>
    if h ≥ maxH || v.slots.any (fun s => s.h == h) then none else
    match kind with
    | .tls | .thread => none
    | _ => some ({ same with writes := [(v.next, some (emptyCell kind))], fresh := 1,
                               slots := ⟨h, kind, some v.next, true⟩ :: v.slots }, .unit)
  | .hput h k id pay =>
    if h ≥ maxH then none else
    match v.slots.find? (fun s => s.h == h) with
    | none => none
    | some s =>
    match elems v s with
    | none => none
    | some es =>
    let n := es.length
    if id < 0 || id ≥ maxSerial || v.used.contains id || pay < 0 || pay > 1000000000 || n ≥ maxElems then none else
    if s.kind.isSeq && (k < 0 || k > (n : Int)) then none else
    if !s.kind.isSeq && (k < 0 || k > 1000000 || es.any (fun e => e.1 == k)) then none else
    let t := v.next
    let tw : Nat × Option Cell := (t, some (.tracked id pay none))
    let used := id :: v.used
    match s.kind, s.root with
    | .tls, _ => some ({ same with writes := [tw], fresh := 1, tls := ((h, k), t) :: v.tls, used := used }, .unit)
    | _, none => none
    | _, some r =>
      match v.get r with
      | some (.array xs) => some ({ same with writes := [tw, (r, some (.array (insAt xs k.toNat t)))], fresh := 1, used := used }, .unit)
      | some (.list xs) => some ({ same with writes := [tw, (r, some (.list (insAt xs k.toNat t)))], fresh := 1, used := used }, .unit)
      | some (.tuple xs) => some ({ same with writes := [tw, (r, some (.tuple (insAt xs k.toNat t)))], fresh := 1, used := used }, .unit)
      | some (.table side tb) =>
        match Cello.Table.set tcfg hashInt tb k t with
        | .ok tb' => some ({ same with writes := [tw, (r, some (.table side tb'))], fresh := 1, used := used }, .unit)
        | .error _ => none
      | some (.tree side kvs) => some ({ same with writes := [tw, (r, some (.tree side (treeIns (k, t) kvs)))], fresh := 1, used := used }, .unit)
      | some (.thread kvs) => some ({ same with writes := [tw, (r, some (.thread ((k, t) :: kvs)))], fresh := 1, used := used }, .unit)
      | some (.ref hb v0) =>
        match chainWalk v.get depthCap v0 with
        | none => none
        | some ps =>
          let l := v.next + 1
          let succ : Option Nat := (ps[k.toNat]?).map (·.1)
          let ws : List (Nat × Option Cell) := [(t, some (.tracked id pay succ)), (l, some (.ref (id % 2 == 1) (some t)))]
          if k = 0 then some ({ same with writes := ws ++ [(r, some (.ref hb (some l)))], fresh := 2, used := used }, .unit)
          else match ps[k.toNat - 1]? with
            | none => none
            | some (_, pt) =>
              match setLink v pt (some l) with
              | some w => some ({ same with writes := ws ++ [w], fresh := 2, used := used }, .unit)
              | none => none
      | _ => none
  | .hget h k =>
    if h ≥ maxH then none else
    match v.slots.find? (fun s => s.h == h) with
    | none => none
    | some s =>
    match elems v s with
    | none => none
    | some es =>
    match posOf s.kind.isSeq es k with
    | none => none
    | some pos =>
      match es[pos]? with
      | none => none
      | some e =>
        match readTracked v e.2 with
        | some (i, p) => some (same, .got i p)
        | none => none
  | .hrem h k | .hrel h k =>
    let del : Bool := match op with | .hrem _ _ => true | _ => false
    if h ≥ maxH then none else
    match v.slots.find? (fun s => s.h == h) with
    | none => none
    | some s =>
    match elems v s with
    | none => none
    | some es =>
    match posOf s.kind.isSeq es k with
    | none => none
    | some pos =>
      match es[pos]? with
      | none => none
      | some e =>
        let kill : List (Nat × Option Cell) := if del then [(e.2, none)] else []
        match s.kind, s.root with
        | .tls, _ => some ({ same with writes := kill, tls := v.tls.filter (fun x => !(x.1.1 == h && x.1.2 == k)) }, .unit)
        | _, none => none
        | _, some r =>
          match v.get r with
          | some (.array xs) => some ({ same with writes := (r, some (.array (remAt xs pos))) :: kill }, .unit)
          | some (.list xs) => some ({ same with writes := (r, some (.list (remAt xs pos))) :: kill }, .unit)
          | some (.tuple xs) => some ({ same with writes := (r, some (.tuple (remAt xs pos))) :: kill }, .unit)
          | some (.table side tb) =>
            match Cello.Table.rem tcfg hashInt tb k with
            | .ok (tb', _) => some ({ same with writes := (r, some (.table side tb')) :: kill }, .unit)
            | .error _ => none
          | some (.tree side kvs) => some ({ same with writes := (r, some (.tree side (kvs.filter (fun x => !(x.1 == k))))) :: kill }, .unit)
          | some (.thread kvs) => some ({ same with writes := (r, some (.thread (kvs.filter (fun x => !(x.1 == k))))) :: kill }, .unit)
          | some (.ref hb v0) =>
            match chainWalk v.get depthCap v0 with
            | none => none
            | some ps =>
              match ps[pos]? with
              | none => none
              | some (l, t) =>
                match v.get t with
                | some (.tracked ti tp tlink) =>
                  let me : List (Nat × Option Cell) := if del then [(t, none), (l, none)] else [(t, some (.tracked ti tp none))]
                  if pos = 0 then some ({ same with writes := (r, some (.ref hb tlink)) :: me }, .unit)
                  else match ps[pos - 1]? with
                    | none => none
                    | some (_, pt) =>
                      match setLink v pt tlink with
                      | some w => some ({ same with writes := w :: me }, .unit)
                      | none => none
                | _ => none
          | _ => none
  | .hshrink h n =>
    if h ≥ maxH then none else
    match v.slots.find? (fun s => s.h == h) with
    | none => none
    | some s =>
    match elems v s with
    | none => none
    | some es =>
    if n < 0 || n > (es.length : Int) then none else
    if !s.kind.isSeq && n ≠ 0 then none else
    match s.kind, s.root with
    | .tls, _ => some ({ same with tls := v.tls.filter (fun x => !(x.1.1 == h)) }, .unit)
    | _, none => none
    | _, some r =>
      match v.get r with
      | some (.array xs) => some ({ same with writes := [(r, some (.array (xs.take n.toNat)))] }, .unit)
      | some (.list xs) => some ({ same with writes := [(r, some (.list (xs.take n.toNat)))] }, .unit)
      | some (.tuple xs) => some ({ same with writes := [(r, some (.tuple (xs.take n.toNat)))] }, .unit)
      | some (.table side tb) => some ({ same with writes := [(r, some (.table side (Cello.Table.clear tb)))] }, .unit)
      | some (.tree side _) => some ({ same with writes := [(r, some (.tree side []))] }, .unit)
      | some (.thread _) => some ({ same with writes := [(r, some (.thread []))] }, .unit)
      | some (.ref hb v0) =>
        if n = 0 then some ({ same with writes := [(r, some (.ref hb none))] }, .unit) else
        match chainWalk v.get depthCap v0 with
        | none => none
        | some ps =>
          match ps[n.toNat - 1]? with
          | none => none
          | some (_, pt) =>
            match setLink v pt none with
            | some w => some ({ same with writes := [w] }, .unit)
            | none => none
      | _ => none
  | .hreserve h n =>
    if h ≥ maxH then none else
    match v.slots.find? (fun s => s.h == h) with
    | none => none
    | some s =>
    match elems v s with
    | none => none
    | some es =>
    if !(s.kind == .tableV || s.kind == .tableK) || n < (es.length : Int) || n < 1 || n > 400 then none else
    match s.root with
    | none => none
    | some r =>
      match v.get r with
      | some (.table side tb) =>
        match Cello.Table.resize tcfg hashInt tb n.toNat with
        | .ok (tb', _) => some ({ same with writes := [(r, some (.table side tb'))] }, .unit)
        | .error _ => none
      | _ => none
  | .hread h =>
    if h ≥ maxH then none else
    match v.slots.find? (fun s => s.h == h) with
    | none => none
    | some s =>
    match elems v s with
    | none => none
    | some es =>
      let es := if s.kind.isSeq then es else sortByKey es
      match allSome (es.map (fun e => (readTracked v e.2).map (fun ip => (e.1, ip.1, ip.2)))) with
      | none => none
      | some items =>
        let stat : Option (Nat × Nat) := match s.root.bind v.get with
          | some (.table _ tb) => some (tb.n, ((tb.slots.toList.drop tb.nitems).filter (·.isSome)).length)
          | _ => none
        some (same, .read items stat)
  | .hrun h =>
    if h ≥ maxH then none else
    match v.slots.find? (fun s => s.h == h) with
    | none => none
    | some s =>
    match s.kind, elems v s with
    | .thread, some es =>
      match allSome (es.map (fun e => (readTracked v e.2).map (·.2))) with
      | none => none
      | some pays => some (same, .ran es.length (pays.foldl (· + ·) 0))
    | _, _ => none
  | .hdrop h =>
    if h ≥ maxH then none else
    match v.slots.find? (fun s => s.h == h) with
    | none => none
    | some s =>
      -- forgetting the only pointer to a root leaks it in every build (a root entry is never swept): not a program the workload writes
      if s.rooted then none else
      some ({ same with slots := v.slots.filter (fun x => !(x.h == h)), tls := v.tls.filter (fun x => !(x.1.1 == h)) }, .unit)
  | .hdel h =>
    if h ≥ maxH then none else
    match v.slots.find? (fun s => s.h == h) with
    | none => none
    | some s =>
    match elems v s with
    | none => none
    | some es =>
      let links : List Nat := match s.kind, s.root.bind v.get with
        | .chain, some (.ref _ v0) => ((chainWalk v.get depthCap v0).getD []).map (·.1)
        | _, _ => []
      let ws : List (Nat × Option Cell) := (s.root.toList ++ links ++ es.map (·.2)).map (fun i => (i, none))
      some ({ same with writes := ws, slots := v.slots.filter (fun x => !(x.h == h)), tls := v.tls.filter (fun x => !(x.1.1 == h)) }, .unit)

def opHolder : KOp → Option Nat
  | .hnew h _ | .hnewRoot h _ | .hput h _ _ _ | .hget h _ | .hrem h _ | .hrel h _ | .hshrink h _ | .hreserve h _ | .hread h | .hdrop h | .hdel h
  | .hrun h => some h
  | .hchurn _ | .gc => none

/-- what the operation can see: the holder variables, thread-local storage, and the blocks reachable from its holder -/
def view (op : KOp) (s : KSt) : View :=
  { next := s.next, slots := s.slots, tls := s.tls, used := s.used,
    sub := match opHolder op with
      | none => []
      | some h => (rootsOf s.slots s.tls h).flatMap (fun i => subOne depthCap s.heap i) }

def putCell (hp : KHeap) (i : Nat) (c : Option Cell) : KHeap :=
  match c with
  | none => hp.filter (fun p => !(p.1 == i))
  | some c => (i, c) :: hp.filter (fun p => !(p.1 == i))

def applyWrites (hp : KHeap) (ws : List (Nat × Option Cell)) : KHeap := ws.foldl (fun hp w => putCell hp w.1 w.2) hp

/-- the state after the operation, before the collector gets a chance -/
def applyRaw (u : Upd) (s : KSt) : KSt :=
  { s with next := s.next + u.fresh, heap := applyWrites s.heap u.writes, slots := u.slots, tls := u.tls, used := u.used,
           junk := s.junk + u.junk }

/-- … and then the collector of this configuration: a forced collection, or `GC_Set` finding the registry above its
    threshold (`alloc_by` registers every block only `#ifndef CELLO_NGC`); `GC_Rem` recomputes the threshold -/
def gcTail (cfg : Cfg) (u : Upd) (s1 : KSt) : KSt :=
  if cfg.gc then
    let s2 := if u.writes.any (fun w => w.2.isNone) then { s1 with mitems := s1.regCount + s1.regCount / 2 + 1 } else s1
    if u.collect || (decide (u.fresh + u.junk > 0) && decide (s2.regCount > s2.mitems)) then kcollect s2 else s2
  else s1

def applyUpd (cfg : Cfg) (u : Upd) (s : KSt) : KSt := gcTail cfg u (applyRaw u s)

def kstep (cfg : Cfg) (op : KOp) (s : KSt) : KSt × Outcome KOut :=
  let v := view op s
  match plan op v with
  | none => (s, .ub)
  | some (u, out) => if u.ok v then (applyUpd cfg u s, .ok out) else (s, .ub)

def krun (cfg : Cfg) : List KOp → KSt → KSt × List (Outcome KOut)
  | [], s => (s, [])
  | op :: rest, s =>
    let r := kstep cfg op s
    let r2 := krun cfg rest r.1
    (r2.1, r.2 :: r2.2)

/-! ### process exit: what the `main` wrapper adds to a build WITH the collector (audit, second round, item 2)

  Cello.h, `#ifndef CELLO_NGC` only: `main` is a wrapper — `new_raw(GC, $R(&bottom)); atexit(Cello_Exit); return Cello_Main(…)`.
  `Cello_Exit` → `del_raw(current(GC))` → `GC_Del`: `GC_Unmark; GC_Sweep` with no mark bit set, i.e. the destructor of EVERY block
  still registered runs and the block is freed.  A build with CELLO_NGC has no wrapper, no registry and no `Cello_Exit`: a block
  the program did not delete itself is never finalised.  (Texts regenerated: `CelloGen.Cfg.exitHook`.)  Int, String, Ref and
  the containers have destructors that only release memory; `Tracked` (harness: `Tracked_Del` writes the ledger) stands for a
  type whose destructor has an effect the outside can see. -/

/-- serial numbers of the `Tracked` objects that are still allocated -/
def trackedIn (hp : KHeap) : List Int :=
  hp.filterMap (fun p => match p.2 with
    | .tracked ident _ _ => some ident
    | _ => none)

/-- **process exit**: `GC_Del` sweeps everything that is still registered — only in a build that has the collector.  (A container
    made with `new_root` that the program has not released keeps its registry entry through `GC_Del` — root entries are never swept
    — and is not destructed; everything it refers to is.  Containers have no observable destructor and the ledger lists `Tracked`
    objects only, which are never root-registered (`hput` is the only operation that makes one), so the abstraction `heap := []`
    yields the same ledger.) -/
def kexit (cfg : Cfg) (s : KSt) : KSt :=
  if cfg.gc then { s with heap := [], junk := 0 } else s

/-- the destructor ledger in state `s`: the serial numbers given out so far whose object is no longer allocated — a block
    is freed only after its destructor ran (`GC_Rem`, the sweep and `del_raw` all `destruct` before `dealloc`) -/
def ledger (s : KSt) : List Int := s.used.filter (fun i => !(trackedIn s.heap).contains i)

/-- the ledger when the process has ended (run `prog` from the start, then leave `main`) -/
def endLedger (cfg : Cfg) (prog : List KOp) : List Int := ledger (kexit cfg (krun cfg prog KSt.init).1)

/-- the configuration without the collector (the other two switches do not occur in a keep step) -/
def ngcCfg : Cfg := ⟨true, true, false⟩

/-- **the program releases what it creates**: when it ends in the build WITHOUT a collector, no `Tracked` object is still
    allocated — every object whose destructor can be observed was deleted by the program itself (`hrem`, `hdel`), none was
    left to the collector (`hrel`, `hdrop`, a holder alive at exit).  Decidable: one run of the model. -/
def ReleasesAll (prog : List KOp) : Prop := trackedIn (krun ngcCfg prog KSt.init).1.heap = []

instance (prog : List KOp) : Decidable (ReleasesAll prog) := by unfold ReleasesAll; exact inferInstance

end Keep

/-! ## the whole workload: operations on value objects and keep operations, interleaved (what lean/Driver/Cfg.lean runs) -/

inductive WOp where
  | main (op : Op)
  | keep (k : Keep.KOp)

/-- a forced collection (`gc`) also sweeps the garbage of the keep programs -/
def keepAfter (cfg : Cfg) (op : Op) (k : Keep.KSt) : Keep.KSt :=
  match op with
  | .gc => (Keep.kstep cfg .gc k).1
  | _ => k

def wstep (cfg : Cfg) (w : WOp) (s : St × Keep.KSt) : (St × Keep.KSt) × (Outcome Out ⊕ Outcome Keep.KOut) :=
  match w with
  | .main op => let r := step cfg op s.1; ((r.1, keepAfter cfg op s.2), .inl r.2)
  | .keep ko => let r := Keep.kstep cfg ko s.2; ((s.1, r.1), .inr r.2)

def wrun (cfg : Cfg) : List WOp → St × Keep.KSt → (St × Keep.KSt) × List (Outcome Out ⊕ Outcome Keep.KOut)
  | [], s => (s, [])
  | w :: rest, s =>
    let r := wstep cfg w s
    let r2 := wrun cfg rest r.1
    (r2.1, r.2 :: r2.2)

/-- no step on value objects left the contract (keep operations outside the contract are refused alike in every configuration) -/
def WInContract (rs : List (Outcome Out ⊕ Outcome Keep.KOut)) : Prop :=
  ∀ r ∈ rs, ∀ o, r = .inl o → ∃ out, o = .ok out

end Cello.Config
