/-
  Cello/Fail.lean — executable model of the *argument validation and mutation order* of every fallible
  operation of the container and value types (engine `fail`, property C12).

  Mirrors (the code that exists in /repo now, after the `fix:` commits):
    src/Array.c   Array_Get/Set/Mem/Rem/Push/Push_At/Pop/Pop_At/Resize/Concat/Assign
                  (also with elements that are themselves Array / List / Table objects: `Nest`)
    src/List.c    List_At, List_Get/Set/Mem/Rem/Push/Push_At/Pop/Pop_At/Resize/Concat/Assign
    src/Tuple.c   Tuple_Get/Set/Mem/Rem/Push/Push_At/Pop/Pop_At/Resize/Concat/Assign  (heap and stack tuples)
    src/Cmp.c, src/Tuple.c, src/Array.c   sort = sort_by(self, lt): Tuple_Sort_By/_Part/_Partition, Array_Sort_By/_Part/_Partition
    src/Table.c   Table_Get/Set/Mem/Rem/Resize/Assign, Table_Ideal_Size             (contents + nslots)
    src/Tree.c    Tree_Get/Set/Mem/Rem/Resize/Assign
    src/String.c  String_Mem/Rem/Resize/Concat/Assign/Format_To                      (heap, stack and static strings)
    src/Iter.c    Range_Len/Get (fix 81e7452: bounds test against the length first), Slice_Arg/slice_stack/Slice_Get, Zip_Get
    src/Type.c    cast, Type_Of (NULL, magic number), Type_Method_At_Offset (ClassError)
    src/Alloc.c   dealloc (ResourceError)
    src/Show.c    print_to_with (FormatError; partial output)
    src/Num.c, src/Assign.c, src/Cmp.c   c_int, c_str, assign, cmp/eq on Int / String / a type without instances

  State = abstract contents (element lists, association lists, characters) plus the white-box fields that the
  validation depends on (allocation class, `nslots`).  Every operation returns `(state', result)`, the state also
  on failure: C12 is about what the state is when the exception leaves.  The order of checks and mutations is the
  order of the C statements.  Index arithmetic is written out on `BitVec 64` with the `int64_t`/`size_t`
  conversions of the C expression `i = i < 0 ? nitems + i : i`.  `Range_Len` / `Range_Get` work on `int64_t` throughout:
  every signed operation of theirs is written out with an explicit overflow test (`isI64`, outcome `ub`), so that the
  absence of overflow is something the theorems prove, not something the model assumes.

  The dispatcher in front of every class method is not restated here: `Type_Of` (NULL, freed or foreign magic number) is
  `Cello.Dispatch.typeOfW` (engine C08's model of src/Type.c, imported read-only), and "the type implements the member" is read
  from `CelloGen.Disp.declared`, the declaration matrix regenerated from the `Cello(T, Instance(…), …)` texts on every run.

  Core Lean only (the driver links against this file).
-/
import Cello.Dispatch
import CelloGen.Disp
namespace Cello.Fail

/-- the Cello exception objects an operation can raise -/
inductive Exc where
  | IndexOutOfBoundsError | KeyError | ValueError | TypeError | ClassError | FormatError | ResourceError
deriving DecidableEq, Repr, Inhabited

def Exc.name : Exc → String
  | .IndexOutOfBoundsError => "IndexOutOfBoundsError"
  | .KeyError => "KeyError"
  | .ValueError => "ValueError"
  | .TypeError => "TypeError"
  | .ClassError => "ClassError"
  | .FormatError => "FormatError"
  | .ResourceError => "ResourceError"

/-- outcome of a C function: a value, a raised exception, or undefined behaviour -/
inductive R (α : Type) where
  | ok (a : α)
  | raised (e : Exc)
  | ub
deriving DecidableEq, Repr, Inhabited

def R.exc? {α : Type} : R α → Option Exc
  | .raised e => some e
  | _ => none

def R.isOk {α : Type} : R α → Bool
  | .ok _ => true
  | _ => false

/-- element / key / value types used by the histories: `Int`, `String`, a probe type `Plain` declared with no
    class instances at all, and `Ref` (what a container is re-typed to by a failed `assign`, known finding). -/
inductive Ty where
  | int | str | plain | ref
deriving DecidableEq, Repr, Inhabited

def Ty.name : Ty → String
  | .int => "Int" | .str => "String" | .plain => "Plain" | .ref => "Ref"

/-- `header(self)->alloc` -/
inductive AllocK where
  | heap | stack | static | data
deriving DecidableEq, Repr, Inhabited

def AllocK.name : AllocK → String
  | .heap => "heap" | .stack => "stack" | .static => "static" | .data => "data"

/-- `alloc is AllocStack or alloc is AllocStatic` — the test of every "Cannot reallocate …, not on heap!" -/
def AllocK.nonHeap : AllocK → Bool
  | .stack => true | .static => true | _ => false

/-- argument / element values -/
inductive Val where
  | int (i : Int)          -- an `Int` object
  | str (s : List Char)    -- a `String` object
  | plain (n : Int)        -- an object of the probe type `Plain` (no instances)
  | null                   -- the NULL pointer
  | nullstr                -- a zero-initialised `String` slot (`val == NULL`), only produced by known finding F15
deriving DecidableEq, Repr, Inhabited

def Val.ty? : Val → Option Ty
  | .int _ => some .int
  | .str _ => some .str
  | .plain _ => some .plain
  | .null => none
  | .nullstr => some .str

/-- a zero-initialised slot of the given type (`Array_Alloc` / `List_Alloc`: memset 0 + header) -/
def zeroVal : Ty → Val
  | .int => .int 0
  | .str => .nullstr
  | .plain => .plain 0
  | .ref => .null

/-- what an operation returns -/
inductive Ret where
  | unit
  | val (v : Val)
  | bool (b : Bool)
  | nat (n : Nat)
  | vals (vs : List Val)
  | name (s : String)
deriving DecidableEq, Repr, Inhabited

abbrev Res := R Ret

/-! ### c_int, c_str, assign, eq  (src/Num.c, src/String.c, src/Assign.c, src/Cmp.c, src/Type.c) -/

/-- `c_int(v)`: `type_of(NULL)` raises ValueError; a type without `C_Int` raises ClassError -/
def cInt : Val → R (BitVec 64)
  | .int i => .ok (BitVec.ofInt 64 i)
  | .null => .raised .ValueError
  | _ => .raised .ClassError

/-- `c_str(v)` -/
def cStr : Val → R (List Char)
  | .str s => .ok s
  | .null => .raised .ValueError
  | .nullstr => .ub
  | _ => .raised .ClassError

/-- `assign(slot, v)` where `slot` is an element slot (AllocData) of type `ty`: `Int_Assign` (`c_int`),
    `String_Assign` (`c_str`, the slot is not on the stack), the generic `memcpy`/TypeError for `Plain`. -/
def assignTo : Ty → Val → R Val
  | .int, .int i => .ok (.int i)
  | .int, .null => .raised .ValueError
  | .int, _ => .raised .ClassError
  | .str, .str s => .ok (.str s)
  | .str, .null => .raised .ValueError
  | .str, .nullstr => .ub
  | .str, _ => .raised .ClassError
  | .plain, .plain n => .ok (.plain n)
  | .plain, .null => .raised .ValueError
  | .plain, _ => .raised .TypeError
  | .ref, _ => .ub

/-- `eq(self, obj)` = `cmp(self, obj) is 0`: `Int_Cmp` (`c_int(obj)`), `String_Cmp` (`c_str(obj)`), the generic
    `memcmp`/TypeError for `Plain`; `instance(NULL, Cmp)` raises ValueError. -/
def eqv : Val → Val → R Bool
  | .int a, .int b => .ok (decide (a = b))
  | .int _, .null => .raised .ValueError
  | .int _, _ => .raised .ClassError
  | .str a, .str b => .ok (decide (a = b))
  | .str _, .null => .raised .ValueError
  | .str _, .nullstr => .ub
  | .str _, _ => .raised .ClassError
  | .plain a, .plain b => .ok (decide (a = b))
  | .plain _, .null => .raised .ValueError
  | .plain _, _ => .raised .TypeError
  | .null, _ => .raised .ValueError
  | .nullstr, _ => .ub

/-- `cast(v, ty)`: `instance(NULL, Cast)` raises ValueError; a different type raises ValueError -/
def castTo (ty : Ty) (v : Val) : R Val :=
  match v with
  | .null => .raised .ValueError
  | _ => if v.ty? = some ty then .ok v else .raised .ValueError

/-! ### index arithmetic  (`int64_t i = c_int(key); i = i < 0 ? nitems+i : i; if (i < 0 or i >= (int64_t)nitems) throw`) -/

/-- `i = i < 0 ? nitems + i : i` — `nitems` is `size_t`, the sum is computed modulo 2^64 and converted back -/
def normIdx (n : Nat) (k : BitVec 64) : BitVec 64 :=
  if k.slt 0 then BitVec.ofNat 64 n + k else k

/-- negation of `i < 0 or i >= (int64_t)nitems` -/
def inBounds (n : Nat) (i : BitVec 64) : Bool :=
  !(i.slt 0) && i.slt (BitVec.ofNat 64 n)

/-- `Array_Push_At`: `i = i < 0 ? (nitems+1)+i : i` -/
def normIdxPush (n : Nat) (k : BitVec 64) : BitVec 64 :=
  if k.slt 0 then (BitVec.ofNat 64 n + 1) + k else k

/-- negation of `i < 0 or i > (int64_t)nitems` -/
def inBoundsIncl (n : Nat) (i : BitVec 64) : Bool :=
  !(i.slt 0) && !((BitVec.ofNat 64 n).slt i)

/-- normalise and check an already converted index -/
def resolveB (n : Nat) (kb : BitVec 64) : R Nat :=
  let i := normIdx n kb
  if inBounds n i then .ok i.toNat else .raised .IndexOutOfBoundsError

/-- `c_int(key)`, normalise, check — shared by Array/List/Tuple `get`, `set`, `pop_at` -/
def resolve (n : Nat) (k : Val) : R Nat :=
  match cInt k with
  | .ok kb => resolveB n kb
  | .raised e => .raised e
  | .ub => .ub

/-! ### list helpers -/

def insertAt {α : Type} (xs : List α) (i : Nat) (a : α) : List α := xs.take i ++ a :: xs.drop i
def removeAt {α : Type} (xs : List α) (i : Nat) : List α := xs.take i ++ xs.drop (i + 1)

/-- index of the first element `x` with `eq(x, obj)` (`selfIsElem`) or `eq(obj, x)`; a comparison that raises
    ends the search with that exception (nothing has been modified at that point) -/
def findEq (selfIsElem : Bool) (obj : Val) : List Val → Nat → R (Option Nat)
  | [], _ => .ok none
  | x :: xs, i =>
    match (if selfIsElem then eqv x obj else eqv obj x) with
    | .ok true => .ok (some i)
    | .ok false => findEq selfIsElem obj xs (i + 1)
    | .raised e => .raised e
    | .ub => .ub

/-! ### operations -/

/-- one segment of a `print_to` format string -/
inductive FmtItem where
  | lit (s : List Char)   -- literal text without `%`
  | d                     -- `%li`
  | s                     -- `%s`
  | q                     -- `%$`
deriving DecidableEq, Repr, Inhabited

/-- source of `concat`: the elements of a sequence object, or an object that is not a sequence -/
inductive Src where
  | seq (items : List Val)
  | scalar (v : Val)
deriving DecidableEq, Repr, Inhabited

inductive Op where
  | get (k : Val)
  | set (k v : Val)
  | mem (v : Val)
  | rem (v : Val)
  | push (v : Val)
  | pushAt (v k : Val)
  | pop
  | popAt (k : Val)
  | resize (n : Nat)
  | len
  | concat (src : Src)
  | append (v : Val)
  | assign (v : Val)
  | print (pos : Nat) (fmt : List FmtItem) (args : List Val)
deriving DecidableEq, Repr, Inhabited

/-! ### Array  (src/Array.c) -/

structure Arr where
  ty : Ty
  items : List Val
  nslots : Nat
deriving DecidableEq, Repr, Inhabited

/-- `Array_Reserve_More` after `nitems` became `n` -/
def reserveMore (n nslots : Nat) : Nat := if n > nslots then n + n / 2 else nslots
/-- `Array_Reserve_Less` after `nitems` became `n` -/
def reserveLess (n nslots : Nat) : Nat := if nslots > n + n / 2 then n else nslots

def Arr.get (a : Arr) (k : Val) : Arr × Res :=
  match resolve a.items.length k with
  | .ok i => (a, .ok (.val (a.items.getD i .null)))
  | .raised e => (a, .raised e)
  | .ub => (a, .ub)

def Arr.set (a : Arr) (k v : Val) : Arr × Res :=
  match resolve a.items.length k with
  | .ok i =>
    match assignTo a.ty v with
    | .ok v' => ({ a with items := a.items.set i v' }, .ok .unit)
    | .raised e => (a, .raised e)
    | .ub => (a, .ub)
  | .raised e => (a, .raised e)
  | .ub => (a, .ub)

def Arr.mem (a : Arr) (v : Val) : Arr × Res :=
  match findEq true v a.items 0 with
  | .ok r => (a, .ok (.bool r.isSome))
  | .raised e => (a, .raised e)
  | .ub => (a, .ub)

/-- the mutation of `Array_Pop_At` once the index is known to be valid -/
def Arr.removeIdx (a : Arr) (i : Nat) : Arr :=
  { a with items := removeAt a.items i, nslots := reserveLess (a.items.length - 1) a.nslots }

def Arr.rem (a : Arr) (v : Val) : Arr × Res :=
  match findEq true v a.items 0 with
  | .ok (some i) => (a.removeIdx i, .ok .unit)
  | .ok none => (a, .raised .ValueError)
  | .raised e => (a, .raised e)
  | .ub => (a, .ub)

/-- `Array_Push`: `nitems++`, reserve, zero the new slot, **then** `assign` — a failing `assign` leaves the
    zeroed slot in the array (known finding F15) -/
def Arr.push (a : Arr) (v : Val) : Arr × Res :=
  let cap := reserveMore (a.items.length + 1) a.nslots
  match assignTo a.ty v with
  | .ok v' => ({ a with items := a.items ++ [v'], nslots := cap }, .ok .unit)
  | .raised e => ({ a with items := a.items ++ [zeroVal a.ty], nslots := cap }, .raised e)
  | .ub => ({ a with items := a.items ++ [zeroVal a.ty], nslots := cap }, .ub)

/-- `Array_Push_At`: index check first (fix 1929a3d), then as `Array_Push` (F15) -/
def Arr.pushAt (a : Arr) (v k : Val) : Arr × Res :=
  match cInt k with
  | .ok kb =>
    let i := normIdxPush a.items.length kb
    if inBoundsIncl a.items.length i then
      let cap := reserveMore (a.items.length + 1) a.nslots
      match assignTo a.ty v with
      | .ok v' => ({ a with items := insertAt a.items i.toNat v', nslots := cap }, .ok .unit)
      | .raised e => ({ a with items := insertAt a.items i.toNat (zeroVal a.ty), nslots := cap }, .raised e)
      | .ub => ({ a with items := insertAt a.items i.toNat (zeroVal a.ty), nslots := cap }, .ub)
    else (a, .raised .IndexOutOfBoundsError)
  | .raised e => (a, .raised e)
  | .ub => (a, .ub)

def Arr.pop (a : Arr) : Arr × Res :=
  if a.items.length = 0 then (a, .raised .IndexOutOfBoundsError)
  else ({ a with items := a.items.dropLast, nslots := reserveLess (a.items.length - 1) a.nslots }, .ok .unit)

def Arr.popAt (a : Arr) (k : Val) : Arr × Res :=
  match resolve a.items.length k with
  | .ok i => (a.removeIdx i, .ok .unit)
  | .raised e => (a, .raised e)
  | .ub => (a, .ub)

def Arr.resize (a : Arr) (n : Nat) : Arr × Res :=
  if n = 0 then ({ a with items := [], nslots := 0 }, .ok .unit)
  else ({ a with items := a.items.take n, nslots := n }, .ok .unit)

/-- the element loop of `Array_Concat`: slot `j` is zeroed and assigned; on a failing `assign` the slots after it
    stay uninitialised (represented by zeroed slots; not validated beyond the first one) -/
def Arr.concatLoop (ty : Ty) : List Val → List Val × Option (R Unit)
  | [] => ([], none)
  | v :: vs =>
    match assignTo ty v with
    | .ok v' => let (r, e) := Arr.concatLoop ty vs; (v' :: r, e)
    | .raised e => (zeroVal ty :: vs.map (fun _ => zeroVal ty), some (.raised e))
    | .ub => (zeroVal ty :: vs.map (fun _ => zeroVal ty), some .ub)

/-- `Array_Concat`: `olen = len(obj)`; `nitems += olen`; reserve; then the loop (F15) -/
def Arr.concat (a : Arr) (src : Src) : Arr × Res :=
  match src with
  | .scalar .null => (a, .raised .ValueError)           -- len(NULL)
  | .scalar (.str s) =>                                  -- len(String) succeeds and nitems has grown when `foreach`
    ({ a with items := a.items ++ s.map (fun _ => zeroVal a.ty),      -- reads through the NULL `Iter` instance
              nslots := reserveMore (a.items.length + s.length) a.nslots }, .ub)
  | .scalar _ => (a, .raised .ClassError)                -- no `Len`
  | .seq vs =>
    let cap := reserveMore (a.items.length + vs.length) a.nslots
    match Arr.concatLoop a.ty vs with
    | (r, none) => ({ a with items := a.items ++ r, nslots := cap }, .ok .unit)
    | (r, some (.raised e)) => ({ a with items := a.items ++ r, nslots := cap }, .raised e)
    | (r, some _) => ({ a with items := a.items ++ r, nslots := cap }, .ub)

/-- `Array_Assign` from an object that is not iterable: `Array_Clear` and the re-typing to `Ref` happen before
    the source is looked at (known finding: assign clears) -/
def Arr.assign (a : Arr) (v : Val) : Arr × Res :=
  match v with
  | .null => ({ a with items := [], nslots := 0 }, .raised .ValueError)   -- implements_method(NULL, …) after Array_Clear
  | _ => ({ ty := .ref, items := [], nslots := 0 }, .ub)   -- re-typed, then `foreach` reads through the NULL `Iter` instance

def Arr.step (a : Arr) : Op → Arr × Res
  | .get k => a.get k
  | .set k v => a.set k v
  | .mem v => a.mem v
  | .rem v => a.rem v
  | .push v => a.push v
  | .pushAt v k => a.pushAt v k
  | .pop => a.pop
  | .popAt k => a.popAt k
  | .resize n => a.resize n
  | .len => (a, .ok (.nat a.items.length))
  | .concat src => a.concat src
  | .append v => a.push v
  | .assign v => a.assign v
  | .print _ [] _ => (a, .ok (.nat 0))
  | .print _ (.lit _ :: _) _ => (a, .raised .ClassError)     -- format_to: Array has no `Format`
  | .print _ _ _ => (a, .ub)                                  -- directives into a non-String sink: not modelled

/-! ### List  (src/List.c) -/

structure Lst where
  ty : Ty
  items : List Val
deriving DecidableEq, Repr, Inhabited

def Lst.get (l : Lst) (k : Val) : Lst × Res :=
  match resolve l.items.length k with
  | .ok i => (l, .ok (.val (l.items.getD i .null)))
  | .raised e => (l, .raised e)
  | .ub => (l, .ub)

def Lst.set (l : Lst) (k v : Val) : Lst × Res :=
  match resolve l.items.length k with
  | .ok i =>
    match assignTo l.ty v with
    | .ok v' => ({ l with items := l.items.set i v' }, .ok .unit)
    | .raised e => (l, .raised e)
    | .ub => (l, .ub)
  | .raised e => (l, .raised e)
  | .ub => (l, .ub)

def Lst.mem (l : Lst) (v : Val) : Lst × Res :=
  match findEq true v l.items 0 with
  | .ok r => (l, .ok (.bool r.isSome))
  | .raised e => (l, .raised e)
  | .ub => (l, .ub)

def Lst.rem (l : Lst) (v : Val) : Lst × Res :=
  match findEq true v l.items 0 with
  | .ok (some i) => ({ l with items := removeAt l.items i }, .ok .unit)
  | .ok none => (l, .raised .ValueError)
  | .raised e => (l, .raised e)
  | .ub => (l, .ub)

/-- `List_Push`: the node is allocated and assigned **before** it is linked: a failing `assign` leaves the list
    unchanged (the node leaks) -/
def Lst.push (l : Lst) (v : Val) : Lst × Res :=
  match assignTo l.ty v with
  | .ok v' => ({ l with items := l.items ++ [v'] }, .ok .unit)
  | .raised e => (l, .raised e)
  | .ub => (l, .ub)

/-- `List_Push_At` (fix 4077d96): `c_int(key)`; a non-zero index is validated by `List_At` (which rejects `nitems` itself)
    **before** anything is allocated; then the node is allocated and assigned; index 0 links at the head, otherwise
    before the addressed node -/
def Lst.pushAt (l : Lst) (v k : Val) : Lst × Res :=
  match cInt k with
  | .ok kb =>
    if kb = 0 then
      match assignTo l.ty v with
      | .ok v' => ({ l with items := v' :: l.items }, .ok .unit)
      | .raised e => (l, .raised e)
      | .ub => (l, .ub)
    else
      match resolveB l.items.length kb with
      | .ok i =>
        (match assignTo l.ty v with
         | .ok v' => ({ l with items := insertAt l.items i v' }, .ok .unit)
         | .raised e => (l, .raised e)
         | .ub => (l, .ub))
      | .raised e => (l, .raised e)
      | .ub => (l, .ub)
  | .raised e => (l, .raised e)
  | .ub => (l, .ub)

def Lst.pop (l : Lst) : Lst × Res :=
  if l.items.length = 0 then (l, .raised .IndexOutOfBoundsError)
  else ({ l with items := l.items.dropLast }, .ok .unit)

def Lst.popAt (l : Lst) (k : Val) : Lst × Res :=
  match resolve l.items.length k with
  | .ok i => ({ l with items := removeAt l.items i }, .ok .unit)
  | .raised e => (l, .raised e)
  | .ub => (l, .ub)

def Lst.resize (l : Lst) (n : Nat) : Lst × Res :=
  if n = 0 then ({ l with items := [] }, .ok .unit)
  else ({ l with items := l.items.take n ++ List.replicate (n - l.items.length) (zeroVal l.ty) }, .ok .unit)

/-- `List_Concat` = `foreach (item in obj) List_Push(self, item)`: the items before a failing one stay pushed
    (finding: concat is not atomic) -/
def Lst.concatLoop (l : Lst) : List Val → Lst × Res
  | [] => (l, .ok .unit)
  | v :: vs =>
    match l.push v with
    | (l', .ok _) => Lst.concatLoop l' vs
    | r => r

def Lst.concat (l : Lst) (src : Src) : Lst × Res :=
  match src with
  | .scalar .null => (l, .raised .ValueError)
  | .scalar _ => (l, .ub)                        -- `foreach` reads through the NULL `Iter` instance
  | .seq vs => l.concatLoop vs

/-- `List_Assign`: `List_Clear` first, then the re-typing, then `len(obj)` -/
def Lst.assign (l : Lst) (v : Val) : Lst × Res :=
  match v with
  | .null => ({ l with items := [] }, .raised .ValueError)
  | .str s =>                                                        -- len ok, get(String, 0): `get` is NULL
    if s.length = 0 then ({ ty := .ref, items := [] }, .ok .unit)
    else ({ ty := .ref, items := [] }, .raised .ClassError)
  | _ => ({ ty := .ref, items := [] }, .raised .ClassError)

def Lst.step (l : Lst) : Op → Lst × Res
  | .get k => l.get k
  | .set k v => l.set k v
  | .mem v => l.mem v
  | .rem v => l.rem v
  | .push v => l.push v
  | .pushAt v k => l.pushAt v k
  | .pop => l.pop
  | .popAt k => l.popAt k
  | .resize n => l.resize n
  | .len => (l, .ok (.nat l.items.length))
  | .concat src => l.concat src
  | .append v => l.push v
  | .assign v => l.assign v
  | .print _ [] _ => (l, .ok (.nat 0))
  | .print _ (.lit _ :: _) _ => (l, .raised .ClassError)
  | .print _ _ _ => (l, .ub)

/-! ### Tuple  (src/Tuple.c) — items are object references; a Tuple can live on the stack -/

structure Tup where
  alloc : AllocK
  items : List Val
deriving DecidableEq, Repr, Inhabited

def Tup.get (t : Tup) (k : Val) : Tup × Res :=
  match resolve t.items.length k with
  | .ok i => (t, .ok (.val (t.items.getD i .null)))
  | .raised e => (t, .raised e)
  | .ub => (t, .ub)

/-- `Tuple_Set` stores the pointer: no type check, no reallocation -/
def Tup.set (t : Tup) (k v : Val) : Tup × Res :=
  match resolve t.items.length k with
  | .ok i => ({ t with items := t.items.set i v }, .ok .unit)
  | .raised e => (t, .raised e)
  | .ub => (t, .ub)

def Tup.mem (t : Tup) (v : Val) : Tup × Res :=
  match findEq true v t.items 0 with
  | .ok r => (t, .ok (.bool r.isSome))
  | .raised e => (t, .raised e)
  | .ub => (t, .ub)

/-- `Tuple_Rem`: `eq(item, t->items[i])` (the argument is `self`), then `Tuple_Pop_At`, which refuses a Tuple
    that is not on the heap before it moves anything (fix 616d615); absent → ValueError (fix e74ffe8) -/
def Tup.rem (t : Tup) (v : Val) : Tup × Res :=
  match findEq false v t.items 0 with
  | .ok (some i) =>
    if t.alloc.nonHeap then (t, .raised .ValueError)
    else ({ t with items := removeAt t.items i }, .ok .unit)
  | .ok none => (t, .raised .ValueError)
  | .raised e => (t, .raised e)
  | .ub => (t, .ub)

def Tup.push (t : Tup) (v : Val) : Tup × Res :=
  if t.alloc.nonHeap then (t, .raised .ValueError)
  else ({ t with items := t.items ++ [v] }, .ok .unit)

def Tup.pop (t : Tup) : Tup × Res :=
  if t.items.length = 0 then (t, .raised .IndexOutOfBoundsError)
  else if t.alloc.nonHeap then (t, .raised .ValueError)
  else ({ t with items := t.items.dropLast }, .ok .unit)

/-- `Tuple_Push_At`: the index must address an existing item (`nitems` itself is rejected) -/
def Tup.pushAt (t : Tup) (v k : Val) : Tup × Res :=
  match resolve t.items.length k with
  | .ok i =>
    if t.alloc.nonHeap then (t, .raised .ValueError)
    else ({ t with items := insertAt t.items i v }, .ok .unit)
  | .raised e => (t, .raised e)
  | .ub => (t, .ub)

def Tup.popAt (t : Tup) (k : Val) : Tup × Res :=
  match resolve t.items.length k with
  | .ok i =>
    if t.alloc.nonHeap then (t, .raised .ValueError)
    else ({ t with items := removeAt t.items i }, .ok .unit)
  | .raised e => (t, .raised e)
  | .ub => (t, .ub)

/-- `Tuple_Resize`: only shrinking is supported -/
def Tup.resize (t : Tup) (n : Nat) : Tup × Res :=
  if t.alloc.nonHeap then (t, .raised .ValueError)
  else if n < t.items.length then ({ t with items := t.items.take n }, .ok .unit)
  else (t, .raised .FormatError)

/-- `Tuple_Concat`: `len(obj)` first, then the heap check, then the pointers are copied (no type check) -/
def Tup.concat (t : Tup) (src : Src) : Tup × Res :=
  match src with
  | .scalar .null => (t, .raised .ValueError)
  | .scalar (.str _) =>                                   -- len(String) ok; heap check; `foreach` over a String reads through
    if t.alloc.nonHeap then (t, .raised .ValueError)      -- the NULL `Iter` instance (the old terminator is still in place)
    else (t, .ub)
  | .scalar _ => (t, .raised .ClassError)
  | .seq vs =>
    if t.alloc.nonHeap then (t, .raised .ValueError)
    else ({ t with items := t.items ++ vs }, .ok .unit)

/-- `Tuple_Assign` from an object without `Len`/`Get`: falls into `foreach`, nothing has been touched -/
def Tup.assign (t : Tup) (v : Val) : Tup × Res :=
  match v with
  | .null => (t, .raised .ValueError)
  | _ => (t, .ub)                          -- no `Len`+`get` → `foreach` reads through the NULL `Iter` instance

def Tup.step (t : Tup) : Op → Tup × Res
  | .get k => t.get k
  | .set k v => t.set k v
  | .mem v => t.mem v
  | .rem v => t.rem v
  | .push v => t.push v
  | .pushAt v k => t.pushAt v k
  | .pop => t.pop
  | .popAt k => t.popAt k
  | .resize n => t.resize n
  | .len => (t, .ok (.nat t.items.length))
  | .concat src => t.concat src
  | .append v => t.push v
  | .assign v => t.assign v
  | .print _ [] _ => (t, .ok (.nat 0))
  | .print _ (.lit _ :: _) _ => (t, .raised .ClassError)
  | .print _ _ _ => (t, .ub)

/-! ### `sort` on Array and Tuple  (src/Cmp.c `sort` = `sort_by(self, lt)`; src/Tuple.c Tuple_Sort_By / _Part / _Partition,
      src/Array.c Array_Sort_By / _Part / _Partition — the same quicksort, `Tuple_Swap` on pointers / `swap` on element bytes)

  The comparison `lt(a, b) = cmp(a, b) < 0` is called while the partition loop has already exchanged elements: when it raises
  (items of unlike types in a Tuple) the exception leaves with the exchanges done so far in place — finding KF-C12-sort-partial. -/

/-- `strcmp(a, b) < 0` on the bytes (the strings of the histories are ASCII) -/
def ltChars : List Char → List Char → Bool
  | [], [] => false
  | [], _ :: _ => true
  | _ :: _, [] => false
  | a :: as, b :: bs => if a.toNat < b.toNat then true else if a.toNat > b.toNat then false else ltChars as bs

/-- the bytes `memcmp` sees of a `struct Plain { int64_t n; }` (little endian) -/
def leBytes (n : Int) : List Nat :=
  (List.range 8).map (fun k => ((BitVec.ofInt 64 n).toNat >>> (8 * k)) % 256)

/-- `memcmp(a, b, 8) < 0` -/
def ltBytes : List Nat → List Nat → Bool
  | a :: as, b :: bs => if a < b then true else if a > b then false else ltBytes as bs
  | _, _ => false

/-- `lt(self, obj)` = `cmp(self, obj) < 0`: `Int_Cmp` (`c_int(obj)`), `String_Cmp` (`c_str(obj)`), the generic `memcmp` / TypeError
    for a type without `Cmp`; `instance(NULL, Cmp)` raises ValueError.  Same validation as `eqv`. -/
def ltv : Val → Val → R Bool
  | .int a, .int b => .ok (decide (a < b))
  | .int _, .null => .raised .ValueError
  | .int _, _ => .raised .ClassError
  | .str a, .str b => .ok (ltChars a b)
  | .str _, .null => .raised .ValueError
  | .str _, .nullstr => .ub
  | .str _, _ => .raised .ClassError
  | .plain a, .plain b => .ok (ltBytes (leBytes a) (leBytes b))
  | .plain _, .null => .raised .ValueError
  | .plain _, _ => .raised .TypeError
  | .null, _ => .raised .ValueError
  | .nullstr, _ => .ub

/-- `Tuple_Swap(t, i, j)` / `swap(Array_Item(a, i), Array_Item(a, j))` (both positions exist whenever the sort calls it) -/
def swapAt (xs : List Val) (i j : Nat) : List Val :=
  match xs[i]?, xs[j]? with
  | some a, some b => (xs.set i b).set j a
  | _, _ => xs

/-- the loop of `*_Sort_Partition`: `for (i = l; i < r; i++) { if (f(items[i], items[r])) { swap(i, s); s++; } }` —
    a comparison that raises leaves with the exchanges of the earlier iterations done -/
def partLoop (r : Nat) : Nat → Nat → Nat → List Val → List Val × R Nat
  | 0, _, s, xs => (xs, .ok s)
  | fuel + 1, i, s, xs =>
    if i < r then
      match ltv (xs.getD i .null) (xs.getD r .null) with
      | .ok true => partLoop r fuel (i + 1) (s + 1) (swapAt xs i s)
      | .ok false => partLoop r fuel (i + 1) s xs
      | .raised e => (xs, .raised e)
      | .ub => (xs, .ub)
    else (xs, .ok s)

/-- `*_Sort_Partition(t, l, r, f)`: the pivot `p = l + (r-l)/2` is exchanged with `r` **first**, then the loop, then `swap(s, r)` -/
def sortPartition (xs : List Val) (l r : Nat) : List Val × R Nat :=
  let xs1 := swapAt xs (l + (r - l) / 2) r
  match partLoop r (r - l) l l xs1 with
  | (xs2, .ok s) => (swapAt xs2 s r, .ok s)
  | (xs2, .raised e) => (xs2, .raised e)
  | (xs2, .ub) => (xs2, .ub)

/-- `*_Sort_Part(t, l, r, f)` on `int64_t` bounds (`s-1` may be `-1`); fuel = recursion depth (never exhausted from `length + 1`) -/
def sortPart : Nat → List Val → Int → Int → List Val × R Unit
  | 0, xs, _, _ => (xs, .ub)
  | fuel + 1, xs, l, r =>
    if l < r then
      match sortPartition xs l.toNat r.toNat with
      | (xs1, .ok s) =>
        (match sortPart fuel xs1 l ((s : Int) - 1) with
         | (xs2, .ok _) => sortPart fuel xs2 ((s : Int) + 1) r
         | (xs2, .raised e) => (xs2, .raised e)
         | (xs2, .ub) => (xs2, .ub))
      | (xs1, .raised e) => (xs1, .raised e)
      | (xs1, .ub) => (xs1, .ub)
    else (xs, .ok ())

/-- `*_Sort_By(self, lt)`: `*_Sort_Part(self, 0, len - 1, lt)` -/
def sortItems (xs : List Val) : List Val × R Unit :=
  sortPart (xs.length + 1) xs 0 ((xs.length : Int) - 1)

/-- `sort(tuple)`: no allocation check (nothing is reallocated: a stack Tuple is sorted in place) -/
def Tup.sort (t : Tup) : Tup × Res :=
  match sortItems t.items with
  | (xs, .ok _) => ({ t with items := xs }, .ok .unit)
  | (xs, .raised e) => ({ t with items := xs }, .raised e)
  | (xs, .ub) => ({ t with items := xs }, .ub)

/-- `sort(array)` -/
def Arr.sort (a : Arr) : Arr × Res :=
  match sortItems a.items with
  | (xs, .ok _) => ({ a with items := xs }, .ok .unit)
  | (xs, .raised e) => ({ a with items := xs }, .raised e)
  | (xs, .ub) => ({ a with items := xs }, .ub)

/-! ### Table  (src/Table.c) — contents as an association list, plus `nslots` -/

def tablePrimes : List Nat :=
  [0, 1, 5, 11, 23, 53, 101, 197, 389, 683, 1259, 2417, 4733, 9371, 18617, 37097, 74093, 148073, 296099, 592019,
   1100009, 2200013, 4400021, 8800019]

/-- `Table_Ideal_Size` (the double division by 0.9 equals ⌊(n+1)·10/9⌋ for every n < 10^14) -/
def idealSize (n : Nat) : Nat :=
  let s := (n + 1) * 10 / 9
  match tablePrimes.find? (fun p => decide (p ≥ s)) with
  | some p => p
  | none => ((s + 8800019 - 1) / 8800019) * 8800019

structure Tab where
  kty : Ty
  vty : Ty
  items : List (Val × Val)
  nslots : Nat
deriving DecidableEq, Repr, Inhabited

def assocSet (items : List (Val × Val)) (k v : Val) : List (Val × Val) :=
  if (items.lookup k).isSome then items.map (fun p => if p.1 = k then (k, v) else p) else items ++ [(k, v)]

def assocErase (items : List (Val × Val)) (k : Val) : List (Val × Val) :=
  items.filter (fun p => p.1 ≠ k)

/-- `Table_Get`: `cast` of the key, `KeyError` on a slot-less table, hash + probe, `KeyError` when the probe ends.
    The address shortcut in front of the `cast` (since fix bc940bb: taken only when `key` *is* the key object of an occupied slot,
    `key is Table_Key(t, i) and Table_Key_Hash(t, i) isnt 0`; every other address falls through to the lines modelled here) returns
    the value stored beside that key — what the lookup of that key returns — writes nothing and cannot raise; arguments of the model
    are values, never addresses inside the slot array, so it has no separate branch here (the pointer-level model is C02's:
    Cello/Table.lean).  Its two guards are pinned in `modelledProfile` (Lemmas/FailProfile.lean). -/
def Tab.get (t : Tab) (k : Val) : Tab × Res :=
  match castTo t.kty k with
  | .ok k' =>
    if t.nslots = 0 then (t, .raised .KeyError)
    else match t.items.lookup k' with
      | some v => (t, .ok (.val v))
      | none => (t, .raised .KeyError)
  | .raised e => (t, .raised e)
  | .ub => (t, .ub)

/-- an argument of `Table_Get` that is an *address inside the slot array of the table it is passed to*: the key object / the value
    object of the occupied slot that holds key `k` (`Table_Key(t, i)` / `Table_Val(t, i)`) — what a caller holds after iterating
    over the table, or after an earlier `get` -/
inductive SlotArg where
  | key (k : Val)
  | val (k : Val)
deriving DecidableEq, Repr, Inhabited

/-- the object found at such an address (`none`: no occupied slot holds `k` — not an address of this kind) -/
def Tab.slotObj (t : Tab) : SlotArg → Option Val
  | .key k => (t.items.lookup k).map (fun _ => k)
  | .val k => t.items.lookup k

/-- `Table_Get` on an address inside the slot array, as repaired by fix bc940bb:
    `if (key >= t->data and (char*)key < (char*)t->data + t->nslots * Table_Step(self)) {`
    `  size_t i = …; if (key is Table_Key(t, i) and Table_Key_Hash(t, i) isnt 0) { return Table_Val(self, i); } }`
    — the shortcut is taken for the key object of an occupied slot only (the value beside it, before any check); every other
    address — here: the value object of a slot — falls through to `cast` / hash / probe like any other argument (`Tab.get` on the
    object found there).  (Before the fix every address inside the array returned the value of "its" slot: `Tab.getSlotOld`,
    Lemmas/FailOld.lean.) -/
def Tab.getSlot (t : Tab) (a : SlotArg) : Tab × Res :=
  match a with
  | .key k =>
    match t.items.lookup k with
    | some v => (t, .ok (.val v))
    | none => (t, .ub)
  | .val k =>
    match t.items.lookup k with
    | some v => t.get v
    | none => (t, .ub)

def Tab.mem (t : Tab) (k : Val) : Tab × Res :=
  match castTo t.kty k with
  | .ok k' => (t, .ok (.bool (t.nslots ≠ 0 && (t.items.lookup k').isSome)))
  | .raised e => (t, .raised e)
  | .ub => (t, .ub)

/-- `Table_Set`: a table without slots is given `Table_Ideal_Size(0)` slots **before** `Table_Set_Move` casts the
    key and the value; then insert/update; then `Table_Resize_More` -/
def Tab.set (t : Tab) (k v : Val) : Tab × Res :=
  let ns0 := if t.nslots = 0 then idealSize 0 else t.nslots
  match castTo t.kty k with
  | .ok k' =>
    match castTo t.vty v with
    | .ok v' =>
      let items' := assocSet t.items k' v'
      let want := idealSize items'.length
      ({ t with items := items', nslots := if want > ns0 then want else ns0 }, .ok .unit)
    | .raised e => ({ t with nslots := ns0 }, .raised e)
    | .ub => ({ t with nslots := ns0 }, .ub)
  | .raised e => ({ t with nslots := ns0 }, .raised e)
  | .ub => ({ t with nslots := ns0 }, .ub)

def Tab.rem (t : Tab) (k : Val) : Tab × Res :=
  match castTo t.kty k with
  | .ok k' =>
    if t.nslots = 0 then (t, .raised .KeyError)
    else match t.items.lookup k' with
      | some _ =>
        let items' := assocErase t.items k'
        let want := idealSize items'.length
        ({ t with items := items', nslots := if want < t.nslots then want else t.nslots }, .ok .unit)
      | none => (t, .raised .KeyError)
  | .raised e => (t, .raised e)
  | .ub => (t, .ub)

def Tab.resize (t : Tab) (n : Nat) : Tab × Res :=
  if n = 0 then ({ t with items := [], nslots := 0 }, .ok .unit)
  else if n < t.items.length then (t, .raised .FormatError)
  else ({ t with nslots := idealSize n }, .ok .unit)

/-- `Table_Assign`: `Table_Clear` and the re-typing to `Ref` precede `len(obj)` -/
def Tab.assign (t : Tab) (v : Val) : Tab × Res :=
  match v with
  | .null => ({ t with items := [], nslots := 0 }, .raised .ValueError)
  | .str s => ({ kty := .ref, vty := .ref, items := [], nslots := idealSize s.length }, .ub)   -- len ok, then `foreach`
  | _ => ({ kty := .ref, vty := .ref, items := [], nslots := 0 }, .raised .ClassError)

def Tab.step (t : Tab) : Op → Tab × Res
  | .get k => t.get k
  | .set k v => t.set k v
  | .mem k => t.mem k
  | .rem k => t.rem k
  | .resize n => t.resize n
  | .len => (t, .ok (.nat t.items.length))
  | .assign v => t.assign v
  | .push _ => (t, .raised .ClassError)
  | .pushAt _ _ => (t, .raised .ClassError)
  | .pop => (t, .raised .ClassError)
  | .popAt _ => (t, .raised .ClassError)
  | .concat _ => (t, .raised .ClassError)
  | .append _ => (t, .raised .ClassError)
  | .print _ [] _ => (t, .ok (.nat 0))
  | .print _ (.lit _ :: _) _ => (t, .raised .ClassError)
  | .print _ _ _ => (t, .ub)

/-- **does the operation replace the slot array** (`t->data`)?  `Table_Rehash` allocates a new block, re-inserts every pair into it
    and frees the old one; `Table_Clear` frees it and leaves `NULL`: either way every element reference handed out earlier
    (`get`, iteration) dangles and the iteration order is that of the new block.  Statement by statement:
    `Table_Set` — `if (t->nslots is 0) Table_Rehash(…)` **before** `Table_Set_Move` casts the key and the value (so a slot-less table
    is given its first block even when the call is then refused; it has no element a reference could point to), the casts, the
    insertion, `Table_Resize_More` (rehash iff `Table_Ideal_Size(nitems) > nslots`);
    `Table_Rem` — cast, `KeyError` on a slot-less table or an absent key, the erasure, `Table_Resize_Less` (rehash iff
    `Table_Ideal_Size(nitems) < nslots`);
    `Table_Resize` — `n is 0`: `Table_Clear` (`free`, `NULL`: a change unless the table had no block); `n < nitems`: `FormatError`
    before anything; otherwise `Table_Rehash` unconditionally (also to the same size);
    `Table_Assign` — `Table_Clear` first.
    Every other operation (get, mem, len, the members a Table lacks) writes nothing.  The harness prints `mv=1` when `t->data` after
    the call differs from `t->data` before it; the new block of `Table_Rehash` is allocated while the old one is still live, so the
    two always differ. -/
def Tab.moves (t : Tab) : Op → Bool
  | .set k v =>
    if t.nslots = 0 then true
    else match castTo t.kty k with
      | .ok k' =>
        match castTo t.vty v with
        | .ok v' => decide (idealSize (assocSet t.items k' v').length > t.nslots)
        | _ => false
      | _ => false
  | .rem k =>
    match castTo t.kty k with
    | .ok k' =>
      if t.nslots = 0 then false
      else match t.items.lookup k' with
        | some _ => decide (idealSize (assocErase t.items k').length < t.nslots)
        | none => false
    | _ => false
  | .resize n =>
    if n = 0 then decide (t.nslots ≠ 0)
    else if n < t.items.length then false
    else true
  | .assign (.str _) => true                  -- `Table_Clear`, then a fresh block of `Table_Ideal_Size(len(obj))` slots
  | .assign _ => decide (t.nslots ≠ 0)        -- `Table_Clear`; the source is refused before anything is allocated
  | _ => false

/-! ### Tree  (src/Tree.c) -/

structure Tre where
  kty : Ty
  vty : Ty
  items : List (Val × Val)
deriving DecidableEq, Repr, Inhabited

def Tre.get (t : Tre) (k : Val) : Tre × Res :=
  match castTo t.kty k with
  | .ok k' =>
    match t.items.lookup k' with
    | some v => (t, .ok (.val v))
    | none => (t, .raised .KeyError)
  | .raised e => (t, .raised e)
  | .ub => (t, .ub)

def Tre.mem (t : Tre) (k : Val) : Tre × Res :=
  match castTo t.kty k with
  | .ok k' => (t, .ok (.bool (t.items.lookup k').isSome))
  | .raised e => (t, .raised e)
  | .ub => (t, .ub)

def Tre.set (t : Tre) (k v : Val) : Tre × Res :=
  match castTo t.kty k with
  | .ok k' =>
    match castTo t.vty v with
    | .ok v' => ({ t with items := assocSet t.items k' v' }, .ok .unit)
    | .raised e => (t, .raised e)
    | .ub => (t, .ub)
  | .raised e => (t, .raised e)
  | .ub => (t, .ub)

def Tre.rem (t : Tre) (k : Val) : Tre × Res :=
  match castTo t.kty k with
  | .ok k' =>
    match t.items.lookup k' with
    | some _ => ({ t with items := assocErase t.items k' }, .ok .unit)
    | none => (t, .raised .KeyError)
  | .raised e => (t, .raised e)
  | .ub => (t, .ub)

def Tre.resize (t : Tre) (n : Nat) : Tre × Res :=
  if n = 0 then ({ t with items := [] }, .ok .unit)
  else (t, .raised .FormatError)

/-- `Tree_Assign`: `Tree_Clear` and the re-typing precede the iteration over `obj` -/
def Tre.assign (t : Tre) (v : Val) : Tre × Res :=
  match v with
  | .null => ({ t with items := [] }, .raised .ValueError)
  | _ => ({ kty := .ref, vty := .ref, items := [] }, .ub)   -- `foreach` reads through the NULL `Iter` instance

def Tre.step (t : Tre) : Op → Tre × Res
  | .get k => t.get k
  | .set k v => t.set k v
  | .mem k => t.mem k
  | .rem k => t.rem k
  | .resize n => t.resize n
  | .len => (t, .ok (.nat t.items.length))
  | .assign v => t.assign v
  | .push _ => (t, .raised .ClassError)
  | .pushAt _ _ => (t, .raised .ClassError)
  | .pop => (t, .raised .ClassError)
  | .popAt _ => (t, .raised .ClassError)
  | .concat _ => (t, .raised .ClassError)
  | .append _ => (t, .raised .ClassError)
  | .print _ [] _ => (t, .ok (.nat 0))
  | .print _ (.lit _ :: _) _ => (t, .raised .ClassError)
  | .print _ _ _ => (t, .ub)

/-! ### String  (src/String.c) and `print_to` with a String sink (src/Show.c) -/

structure Str where
  alloc : AllocK
  s : List Char
deriving DecidableEq, Repr, Inhabited

def isInfix (pat : List Char) : List Char → Bool
  | [] => pat.isEmpty
  | c :: cs => pat.isPrefixOf (c :: cs) || isInfix pat cs

/-- `strstr` + `memmove`: remove the first occurrence -/
def removeFirst (pat : List Char) : List Char → Option (List Char)
  | [] => if pat.isEmpty then some [] else none
  | c :: cs =>
    if pat.isPrefixOf (c :: cs) then some ((c :: cs).drop pat.length)
    else (removeFirst pat cs).map (c :: ·)

/-- `String_Mem`: an object without `C_Str` is simply "not contained" -/
def Str.mem (s : Str) (v : Val) : Str × Res :=
  match v with
  | .null => (s, .raised .ValueError)
  | .str t => (s, .ok (.bool (isInfix t s.s)))
  | .nullstr => (s, .ub)
  | _ => (s, .ok (.bool false))

/-- `String_Rem` (fix e60e6ec): `c_str(obj)` first — an argument without `C_Str` raises ClassError through the method lookup,
    NULL raises ValueError — then `strstr`; absent → ValueError (fix 62eac2a); `memmove` in place (no heap check) -/
def Str.rem (s : Str) (v : Val) : Str × Res :=
  match cStr v with
  | .ok t =>
    match removeFirst t s.s with
    | some r => ({ s with s := r }, .ok .unit)
    | none => (s, .raised .ValueError)
  | .raised e => (s, .raised e)
  | .ub => (s, .ub)

def Str.resize (s : Str) (n : Nat) : Str × Res :=
  if s.alloc.nonHeap then (s, .raised .ValueError)
  else ({ s with s := s.s.take n }, .ok .unit)

/-- `String_Concat`: heap check, then `c_str(obj)` (an argument of `realloc`, evaluated before the call) -/
def Str.concat (s : Str) (v : Val) : Str × Res :=
  if s.alloc.nonHeap then (s, .raised .ValueError)
  else match cStr v with
    | .ok t => ({ s with s := s.s ++ t }, .ok .unit)
    | .raised e => (s, .raised e)
    | .ub => (s, .ub)

/-- `String_Assign`: `c_str(obj)` first, then the heap check -/
def Str.assign (s : Str) (v : Val) : Str × Res :=
  match cStr v with
  | .ok t => if s.alloc.nonHeap then (s, .raised .ValueError) else ({ s with s := t }, .ok .unit)
  | .raised e => (s, .raised e)
  | .ub => (s, .ub)

/-- `assign(s, s)` — the operand is the target itself (also reached through `set(tree, k, v)` / `set(array, i, x)` with the
    container's own String objects).  Since fix 744a45f: `char* val = c_str(obj); if (val is s->val) { return; }` — the guard sits
    directly after `c_str` and **before** the allocation check: a no-op that cannot raise, on heap, stack and static Strings alike.
    (The value operand of `Str.assign` is a different object: its characters live at another address and the guard is not taken.) -/
def Str.assignSelf (s : Str) : Str × Res := (s, .ok .unit)

/-- `String_Resize` when `realloc` may fail (CELLO_MEMORY_CHECK region; `checkFirst` = the NULL test sits directly after the
    `realloc`, before the `memset` / terminator write — read from the source by translate/g_fail.py, fix 63509f2).  Allocation
    failure is outside C12's statement (the old buffer is lost either way: `s->val = realloc(…)` has already overwritten the
    pointer); what the order decides is whether the failure is *reported* or the NULL result is written through. -/
inductive ResizeOom where
  | done          -- realloc succeeded
  | outOfMemory   -- `throw(OutOfMemoryError, …)`
  | nullWrite     -- `memset(&s->val[m], …)` / `s->val[n] = '\0'` through the NULL pointer: undefined behaviour
deriving DecidableEq, Repr, Inhabited

def Str.resizeOom (checkFirst reallocFails : Bool) : ResizeOom :=
  if !reallocFails then .done
  else if checkFirst then .outOfMemory
  else .nullWrite

/-- `String_Format_To(self, pos, text)`: heap check, `realloc(pos + size + 1)`, `vsprintf(val + pos, …)` -/
def Str.write (s : Str) (pos : Nat) (t : List Char) : Str × R Nat :=
  if s.alloc.nonHeap then (s, .raised .ValueError)
  else if pos > s.s.length then (s, .ub)     -- the bytes between the terminator and `pos` are indeterminate
  else ({ s with s := s.s.take pos ++ t }, .ok t.length)

def natDigits : Nat → Nat → List Char
  | 0, _ => []
  | fuel + 1, n => if n < 10 then [Char.ofNat (48 + n)] else natDigits fuel (n / 10) ++ [Char.ofNat (48 + n % 10)]

def intText (i : Int) : List Char :=
  if i < 0 then '-' :: natDigits 20 (-i).toNat else natDigits 20 i.toNat

/-- `show_to(v, …)`: text written for `%$` -/
def showText : Val → R (List Char)
  | .int i => .ok (intText i)
  | .str s => .ok ('"' :: s ++ ['"'])       -- strings of the histories contain no characters that need escaping
  | .null => .ok "<NULL>".toList
  | _ => .ub                                 -- prints an address

/-- the segment loop of `print_to_with` on a String sink: each literal / directive is written as soon as it is
    reached; `index >= len(args)` raises FormatError **after** the earlier segments were written (finding F29) -/
def Str.printLoop (s : Str) (pos : Nat) (args : List Val) : List FmtItem → Str × R Nat
  | [] => (s, .ok pos)
  | .lit t :: rest =>
    match s.write pos t with
    | (s', .ok n) => Str.printLoop s' (pos + n) args rest
    | (s', .raised e) => (s', .raised e)
    | (s', .ub) => (s', .ub)
  | item :: rest =>
    match args with
    | [] => (s, .raised .FormatError)
    | a :: args' =>
      let text : R (List Char) :=
        match item with
        | .d => (match cInt a with | .ok b => .ok (intText b.toInt) | .raised e => .raised e | .ub => .ub)
        | .s => cStr a
        | _ => showText a
      match text with
      | .ok t =>
        match s.write pos t with
        | (s', .ok n) => Str.printLoop s' (pos + n) args' rest
        | (s', .raised e) => (s', .raised e)
        | (s', .ub) => (s', .ub)
      | .raised e => (s, .raised e)
      | .ub => (s, .ub)

def Str.print (s : Str) (pos : Nat) (fmt : List FmtItem) (args : List Val) : Str × Res :=
  match Str.printLoop s pos args fmt with
  | (s', .ok p) => (s', .ok (.nat p))
  | (s', .raised e) => (s', .raised e)
  | (s', .ub) => (s', .ub)

def Str.step (s : Str) : Op → Str × Res
  | .get _ => (s, .raised .ClassError)          -- `Get` is implemented but `get` is NULL
  | .set _ _ => (s, .raised .ClassError)
  | .mem v => s.mem v
  | .rem v => s.rem v
  | .resize n => s.resize n
  | .len => (s, .ok (.nat s.s.length))
  | .concat (.scalar v) => s.concat v
  | .concat (.seq _) => (if s.alloc.nonHeap then (s, .raised .ValueError) else (s, .raised .ClassError))  -- c_str(container)
  | .append v => s.concat v
  | .assign v => s.assign v
  | .push _ => (s, .raised .ClassError)
  | .pushAt _ _ => (s, .raised .ClassError)
  | .pop => (s, .raised .ClassError)
  | .popAt _ => (s, .raised .ClassError)
  | .print pos fmt args => s.print pos fmt args

/-! ### Range, Slice, Zip  (src/Iter.c) -/

structure Rng where
  start : Int
  stop : Int
  step : Int
  scratch : Int      -- `r->value->val`, the Int object `get` returns
deriving DecidableEq, Repr, Inhabited

def isI64 (x : Int) : Bool := decide (-(2 ^ 63 : Int) ≤ x) && decide (x < (2 ^ 63 : Int))

/-- `Range_Len` (the value computed when no signed operation overflows, see `Rng.lenOk`) -/
def Rng.len (r : Rng) : Nat :=
  if r.step = 0 then 0
  else if r.stop ≤ r.start then 0
  else if r.step > 0 then (((r.stop - 1) - r.start) / r.step + 1).toNat
  else (((r.stop - 1) - r.start) / (-r.step) + 1).toNat

/-- `Range_Len` evaluates without signed overflow: `r->stop-1`, `(r->stop-1) - r->start`, `-r->step` and the final `+ 1` all stay
    inside `int64_t` (the operands of `/` are then non-negative / positive: C's truncating division is the mathematical one).
    False only for ranges wider than 2^63 - 1 or with step `INT64_MIN`. -/
def Rng.lenOk (r : Rng) : Bool :=
  if r.step = 0 then true
  else if r.stop ≤ r.start then true
  else if r.step > 0 then
    isI64 (r.stop - 1) && isI64 ((r.stop - 1) - r.start) && isI64 (((r.stop - 1) - r.start) / r.step + 1)
  else
    isI64 (r.stop - 1) && isI64 ((r.stop - 1) - r.start) && isI64 (-r.step) && isI64 (((r.stop - 1) - r.start) / (-r.step) + 1)

/-- `Range_Get` (fix 81e7452):
    `int64_t n = Range_Len(r); int64_t i = c_int(key); i = i < 0 ? n+i : i;`
    `if (step > 0 and i >= 0 and i < n) { x->val = start + step*i; return x; }`
    `if (step < 0 and i >= 0 and i < n) { x->val = stop-1 + step*i; return x; }`
    `throw(IndexOutOfBoundsError)`.
    The element is computed only inside the bounds test; every signed operation (`n+i`, `step*i`, `start + …`, `stop-1`,
    `stop-1 + …`) carries its overflow test: an overflow would be undefined behaviour (`ub`). -/
def Rng.get (r : Rng) (k : Val) : Rng × Res :=
  if !r.lenOk then (r, .ub)                                  -- signed overflow inside Range_Len
  else
    let n : Int := r.len
    match cInt k with
    | .ok kb =>
      let k : Int := kb.toInt
      let i : Int := if k < 0 then n + k else k
      if !isI64 i then (r, .ub)                              -- `n + i`
      else if r.step > 0 && decide (i ≥ 0) && decide (i < n) then
        if !isI64 (r.step * i) then (r, .ub)
        else if !isI64 (r.start + r.step * i) then (r, .ub)
        else ({ r with scratch := r.start + r.step * i }, .ok (.val (.int (r.start + r.step * i))))
      else if r.step < 0 && decide (i ≥ 0) && decide (i < n) then
        if !isI64 (r.stop - 1) then (r, .ub)
        else if !isI64 (r.step * i) then (r, .ub)
        else if !isI64 (r.stop - 1 + r.step * i) then (r, .ub)
        else ({ r with scratch := r.stop - 1 + r.step * i }, .ok (.val (.int (r.stop - 1 + r.step * i))))
      else (r, .raised .IndexOutOfBoundsError)
    | .raised e => (r, .raised e)
    | .ub => (r, .ub)

/-- `Range_Mem` (values of the histories are small: no overflow) -/
def Rng.mem (r : Rng) (v : Val) : Rng × Res :=
  match cInt v with
  | .ok kb =>
    let i : Int := (if kb.slt 0 then BitVec.ofNat 64 r.len + kb else kb).toInt
    if r.step = 0 then (r, .ok (.bool false))
    else if r.step > 0 then
      (r, .ok (.bool (decide (i ≥ r.start) && decide (i < r.stop) && decide (Int.tmod (i - r.start) r.step = 0))))
    else
      (r, .ok (.bool (decide (i ≥ r.start) && decide (i < r.stop) && decide (Int.tmod (i - (r.stop - 1)) (-r.step) = 0))))
  | .raised e => (r, .raised e)
  | .ub => (r, .ub)

def Rng.step' (r : Rng) : Op → Rng × Res
  | .get k => r.get k
  | .mem v => r.mem v
  | .len => if r.lenOk then (r, .ok (.nat r.len)) else (r, .ub)
  | .set _ _ => (r, .raised .ClassError)      -- `Get` implemented, `set` NULL
  | .rem _ => (r, .raised .ClassError)
  | .assign .null => (r, .raised .ValueError) -- cast(NULL, Range)
  | .assign _ => (r, .raised .ValueError)     -- cast(obj, Range)
  | .print _ [] _ => (r, .ok (.nat 0))
  | .print _ (.lit _ :: _) _ => (r, .raised .ClassError)
  | .print _ _ _ => (r, .ub)
  | _ => (r, .raised .ClassError)             -- no Push / Resize / Concat

/-- `Slice_Arg` for start/stop (fix a67379b): negative counts from the end, then clamp into `[0, n]` -/
def sliceArg (n : Nat) (a : Int) : Int :=
  let a1 := if a < 0 then (n : Int) + a else a
  let a2 := if a1 > n then (n : Int) else a1
  if a2 < 0 then 0 else a2

structure Slc where
  base : Nat          -- object id of the iterable
  rng : Rng
deriving DecidableEq, Repr, Inhabited

structure Zp where
  a : Nat
  b : Nat
deriving DecidableEq, Repr, Inhabited

/-! ### containers whose elements are containers  (Array / List of Array / List / Table of Int)

  `Array_Set`, `Array_Push`, `List_Push`, … hand the slot to `assign(slot, obj)`, which for a container slot is
  `Array_Assign` / `List_Assign` / `Table_Assign`: the slot is cleared and re-typed *before* the source is looked at
  (`Arr.assign`, `Lst.assign`, `Tab.assign` above — the known findings assign-clears / foreach-noniter).  So a wrong-typed
  `set` on a valid index raises (or crashes) and leaves the *element* emptied. -/

/-- an element that is itself a container (of `Int`s; a Table from `Int` to `Int`) -/
inductive Inner where
  | arr (a : Arr)
  | lst (l : Lst)
  | tab (t : Tab)
deriving DecidableEq, Repr, Inhabited

/-- element type of a nested container -/
inductive IK where
  | arr | lst | tab
deriving DecidableEq, Repr, Inhabited

def IK.name : IK → String
  | .arr => "Array" | .lst => "List" | .tab => "Table"

def Inner.kind : Inner → IK
  | .arr _ => .arr | .lst _ => .lst | .tab _ => .tab

def Inner.len : Inner → Nat
  | .arr a => a.items.length | .lst l => l.items.length | .tab t => t.items.length

/-- a slot as `Array_Alloc` / `List_Alloc` leave it: all bytes zero behind a fresh header (no items, no storage; the type word
    of the zeroed struct is NULL — written `ref` here, it is overwritten by the `assign` that always follows) -/
def Inner.zero : IK → Inner
  | .arr => .arr { ty := .ref, items := [], nslots := 0 }
  | .lst => .lst { ty := .ref, items := [] }
  | .tab => .tab { kty := .ref, vty := .ref, items := [], nslots := 0 }

/-- what is offered to `assign(slot, src)`: a scalar object / NULL, or a container object -/
inductive NSrc where
  | val (v : Val)
  | cont (c : Inner)
deriving DecidableEq, Repr, Inhabited

/-- `assign(slot, src)` for a container slot = `Array_Assign` / `List_Assign` / `Table_Assign`: from a container of the same kind
    the slot is cleared, re-typed and filled with copies (`nslots` as those functions leave it); from anything else the models of
    the failing assigns above apply — the slot is returned **also on failure**, cleared.  Sources of another container kind are
    not modelled (`ub`; the histories do not use them). -/
def Inner.assign (slot : Inner) (src : NSrc) : Inner × Res :=
  match slot, src with
  | .arr a, .val v => let (a', r) := a.assign v; (.arr a', r)
  | .lst l, .val v => let (l', r) := l.assign v; (.lst l', r)
  | .tab t, .val v => let (t', r) := t.assign v; (.tab t', r)
  | .arr _, .cont (.arr b) => (.arr { ty := b.ty, items := b.items, nslots := b.items.length }, .ok .unit)
  | .lst _, .cont (.lst b) => (.lst { ty := b.ty, items := b.items }, .ok .unit)
  | .tab _, .cont (.tab b) =>
    (.tab { kty := b.kty, vty := b.vty, items := b.items, nslots := idealSize b.items.length }, .ok .unit)
  | s, _ => (s, .ub)

/-- outer container kind -/
inductive OKind where
  | arr | lst
deriving DecidableEq, Repr, Inhabited

/-- an Array or List whose declared element type is Array / List / Table -/
structure Nest where
  outer : OKind
  ek : IK
  items : List Inner
  nslots : Nat            -- capacity of an outer Array (0 for a List)
deriving DecidableEq, Repr, Inhabited

/-- operations on a nested container (the source of `set` / `push` may be a container object) -/
inductive NOp where
  | get (k : Val)
  | set (k : Val) (src : NSrc)
  | push (src : NSrc)
  | pushAt (src : NSrc) (k : Val)
  | pop
  | popAt (k : Val)
  | resize (n : Nat)
  | len
deriving DecidableEq, Repr, Inhabited

/-- `Array_Set` / `List_Set`: index first (nothing touched on a bad index), then `assign(slot, val)` — whatever `assign` did to
    the slot stays, also when it raises -/
def Nest.set (n : Nest) (k : Val) (src : NSrc) : Nest × Res :=
  match resolve n.items.length k with
  | .ok i =>
    let (e', r) := (n.items.getD i (Inner.zero n.ek)).assign src
    ({ n with items := n.items.set i e' }, r)
  | .raised e => (n, .raised e)
  | .ub => (n, .ub)

/-- `Array_Push`: `nitems++`, reserve, zeroed slot, **then** `assign` (F15: the slot stays when `assign` fails).
    `List_Push`: the node is allocated and assigned **before** it is linked: a failing `assign` leaves the list unchanged. -/
def Nest.push (n : Nest) (src : NSrc) : Nest × Res :=
  let (e', r) := (Inner.zero n.ek).assign src
  match n.outer with
  | .arr => ({ n with items := n.items ++ [e'], nslots := reserveMore (n.items.length + 1) n.nslots }, r)
  | .lst =>
    match r with
    | .ok _ => ({ n with items := n.items ++ [e'] }, r)
    | _ => (n, r)

/-- `Array_Push_At` (index check, grow, shift, zeroed slot, `assign`) / `List_Push_At` (index 0 or an existing position, node
    allocated and assigned, then linked) -/
def Nest.pushAt (n : Nest) (src : NSrc) (k : Val) : Nest × Res :=
  match cInt k with
  | .ok kb =>
    match n.outer with
    | .arr =>
      let i := normIdxPush n.items.length kb
      if inBoundsIncl n.items.length i then
        let (e', r) := (Inner.zero n.ek).assign src
        ({ n with items := insertAt n.items i.toNat e', nslots := reserveMore (n.items.length + 1) n.nslots }, r)
      else (n, .raised .IndexOutOfBoundsError)
    | .lst =>
      let pos : R Nat := if kb = 0 then .ok 0 else resolveB n.items.length kb
      match pos with
      | .ok i =>
        let (e', r) := (Inner.zero n.ek).assign src
        (match r with
         | .ok _ => ({ n with items := insertAt n.items i e' }, r)
         | _ => (n, r))
      | .raised e => (n, .raised e)
      | .ub => (n, .ub)
  | .raised e => (n, .raised e)
  | .ub => (n, .ub)

def Nest.step (n : Nest) : NOp → Nest × Res
  | .get k =>
    match resolve n.items.length k with
    | .ok i => (n, .ok (.nat (n.items.getD i (Inner.zero n.ek)).len))     -- the element; observed through its length
    | .raised e => (n, .raised e)
    | .ub => (n, .ub)
  | .set k src => n.set k src
  | .push src => n.push src
  | .pushAt src k => n.pushAt src k
  | .pop =>
    if n.items.length = 0 then (n, .raised .IndexOutOfBoundsError)
    else ({ n with items := n.items.dropLast,
                   nslots := match n.outer with | .arr => reserveLess (n.items.length - 1) n.nslots | .lst => n.nslots }, .ok .unit)
  | .popAt k =>
    match resolve n.items.length k with
    | .ok i => ({ n with items := removeAt n.items i,
                         nslots := match n.outer with | .arr => reserveLess (n.items.length - 1) n.nslots | .lst => n.nslots }, .ok .unit)
    | .raised e => (n, .raised e)
    | .ub => (n, .ub)
  | .resize m =>
    match n.outer with
    | .arr => if m = 0 then ({ n with items := [], nslots := 0 }, .ok .unit)
              else ({ n with items := n.items.take m, nslots := m }, .ok .unit)
    | .lst => if m = 0 then ({ n with items := [] }, .ok .unit)
              else if m ≤ n.items.length then ({ n with items := n.items.take m }, .ok .unit)
              else (n, .ub)                        -- growing creates zeroed containers: not modelled
  | .len => (n, .ok (.nat n.items.length))

/-! ### the dispatcher in front of every class method  (src/Type.c: Type_Of, Type_Method_At_Offset) -/

/-- the member of the class an operation is dispatched through: `method(self, Class, member, …)` with the member's position in
    `struct Class` (Get: get set mem rem; Push: push pop push_at pop_at; Concat: concat append; `print_to` writes its first
    segment through `format_to`).  `assign` has a fallback for types without `Assign` and is not a pure dispatch. -/
def Op.member : Op → Option (String × Nat)
  | .get _ => some ("Get", 0)
  | .set _ _ => some ("Get", 1)
  | .mem _ => some ("Get", 2)
  | .rem _ => some ("Get", 3)
  | .push _ => some ("Push", 0)
  | .pop => some ("Push", 1)
  | .pushAt _ _ => some ("Push", 2)
  | .popAt _ => some ("Push", 3)
  | .resize _ => some ("Resize", 0)
  | .len => some ("Len", 0)
  | .concat _ => some ("Concat", 0)
  | .append _ => some ("Concat", 1)
  | .print _ (.lit _ :: _) _ => some ("Format", 0)
  | _ => none

/-- does type `ty` declare a non-NULL member `k` of class `cls`?  Read from the declaration matrix generated from the sources;
    a type that is not in it (the probe type `Plain`, declared with no instances) declares nothing. -/
def declares (ty cls : String) (k : Nat) : Bool :=
  match CelloGen.Disp.declared.lookup ty with
  | some cs => (match cs.lookup cls with | some ms => ms.getD k false | none => false)
  | none => false

/-- `Type_Of(self)` as far as failure goes: NULL, a freed object (dead magic number) and a pointer that does not carry Cello's
    magic number raise ValueError before anything is looked at (`Cello.Dispatch.typeOfW`, whatever the world of types) -/
def headerExc (self : Cello.Dispatch.Self) : Option Exc :=
  match (Cello.Dispatch.typeOfW default self).2 with
  | .raised _ => some .ValueError
  | _ => none

/-- `method_at_offset(self, Class, member)`: `Type_Of(self)`, then `Type_Method_At_Offset` — ClassError when the type does not
    implement the class or leaves the member NULL; `none`: the method is entered -/
def dispatchExc (self : Cello.Dispatch.Self) (ty : String) (m : String × Nat) : Option Exc :=
  match headerExc self with
  | some e => some e
  | none => if declares ty m.1 m.2 then none else some .ClassError

/-! ### objects and the store -/

inductive Obj where
  | arr (a : Arr)
  | lst (l : Lst)
  | tup (t : Tup)
  | tab (t : Tab)
  | tre (t : Tre)
  | str (s : Str)
  | rng (r : Rng)
  | slc (s : Slc)
  | zip (z : Zp)
  | scalar (alloc : AllocK) (v : Val)     -- an `Int` or `Plain` object on its own
  | nest (n : Nest)                       -- an Array / List whose elements are containers
  | junk (m : Cello.Dispatch.Magic)       -- a pointer whose header does not carry a good magic number (`dead`: a freed object)
deriving DecidableEq, Repr, Inhabited

def Obj.typeName : Obj → String
  | .arr _ => "Array" | .lst _ => "List" | .tup _ => "Tuple" | .tab _ => "Table" | .tre _ => "Tree"
  | .str _ => "String" | .rng _ => "Range" | .slc _ => "Slice" | .zip _ => "Zip"
  | .scalar _ v => match v.ty? with | some t => t.name | none => "?"
  | .nest n => match n.outer with | .arr => "Array" | .lst => "List"
  | .junk _ => "?"

/-- what `Type_Of` sees in the object's header -/
def Obj.self : Obj → Cello.Dispatch.Self
  | .junk m => .obj m 0
  | _ => .obj .good 0

/-- `header(self)->alloc` of the object itself -/
def Obj.allocK : Obj → AllocK
  | .tup t => t.alloc
  | .str s => s.alloc
  | .scalar a _ => a
  | _ => .heap

abbrev Store := List (Nat × Obj)

def Store.get? (σ : Store) (id : Nat) : Option Obj := σ.lookup id
/-- replace the (first) entry of `id`, or append a new one -/
def Store.put : Store → Nat → Obj → Store
  | [], id, o => [(id, o)]
  | p :: ps, id, o => if p.1 = id then (id, o) :: ps else p :: Store.put ps id o

/-- operations that need no other object -/
def Obj.stepLocal (o : Obj) (op : Op) : Obj × Res :=
  match o with
  | .arr a => let (a', r) := a.step op; (.arr a', r)
  | .lst l => let (l', r) := l.step op; (.lst l', r)
  | .tup t => let (t', r) := t.step op; (.tup t', r)
  | .tab t => let (t', r) := t.step op; (.tab t', r)
  | .tre t => let (t', r) := t.step op; (.tre t', r)
  | .str s => let (s', r) := s.step op; (.str s', r)
  | .rng r => let (r', x) := r.step' op; (.rng r', x)
  | .scalar a v =>
    match op with
    | .assign w =>
      (match v.ty? with
       | some ty => (match assignTo ty w with
                     | .ok v' => (.scalar a v', .ok .unit)
                     | .raised e => (o, .raised e)
                     | .ub => (o, .ub))
       | none => (o, .ub))
    | .print _ [] _ => (o, .ok (.nat 0))
    | .print _ (.lit _ :: _) _ => (o, .raised .ClassError)
    | .print _ _ _ => (o, .ub)
    | _ => (o, .raised .ClassError)           -- Int / Plain implement none of Get, Push, Resize, Len, Concat
  | .slc _ => (o, .ub)                        -- handled by `step` (needs the store)
  | .zip _ => (o, .ub)
  | .nest n =>
    -- the operations whose source is a scalar object or NULL; container sources come through `stepN`
    (match op with
     | .get k => let (n', r) := n.step (.get k); (.nest n', r)
     | .set k v => let (n', r) := n.step (.set k (.val v)); (.nest n', r)
     | .push v => let (n', r) := n.step (.push (.val v)); (.nest n', r)
     | .append v => let (n', r) := n.step (.push (.val v)); (.nest n', r)
     | .pushAt v k => let (n', r) := n.step (.pushAt (.val v) k); (.nest n', r)
     | .pop => let (n', r) := n.step .pop; (.nest n', r)
     | .popAt k => let (n', r) := n.step (.popAt k); (.nest n', r)
     | .resize m => let (n', r) := n.step (.resize m); (.nest n', r)
     | .len => let (n', r) := n.step .len; (.nest n', r)
     | .print _ [] _ => (o, .ok (.nat 0))
     | .print _ (.lit _ :: _) _ => (o, .raised .ClassError)     -- no `Format`
     | _ => (o, .ub))                          -- mem / rem / concat / assign on nested containers: not modelled
  | .junk m =>
    -- every class method, `assign`, `print_to` starts with `Type_Of(self)`
    (match headerExc (.obj m 0) with
     | some e => (o, .raised e)
     | none => (o, .ub))

/-- `get(base, key)` for the iterables a view may be built over (Array, List, Tuple); other bases are not modelled -/
def baseGet (o : Option Obj) (k : Val) : Res :=
  match o with
  | some (.arr a) => (a.get k).2
  | some (.lst l) => (l.get k).2
  | some (.tup t) => (t.get k).2
  | _ => .ub

def baseLen (o : Option Obj) : Option Nat :=
  match o with
  | some (.arr a) => some a.items.length
  | some (.lst l) => some l.items.length
  | some (.tup t) => some t.items.length
  | _ => none

/-- `slice_stack`: start/stop clamped against `len(iter)` at construction -/
def Slc.make (base : Nat) (n : Nat) (a b c : Int) : Slc :=
  { base := base, rng := { start := sliceArg n a, stop := sliceArg n b, step := c, scratch := 0 } }

/-- the operations of the views `Slice` and `Zip` -/
def viewStep (σ : Store) (o : Obj) (op : Op) : Obj × Res :=
  match o, op with
  | .slc s, .get k =>
    -- Slice_Get: get(s->iter, Range_Get(s->range, key))
    match s.rng.get k with
    | (r', .ok (.val idx)) => (.slc { s with rng := r' }, baseGet (σ.get? s.base) idx)
    | (r', .ok _) => (.slc { s with rng := r' }, .ub)
    | (r', .raised e) => (.slc { s with rng := r' }, .raised e)
    | (r', .ub) => (.slc { s with rng := r' }, .ub)
  | .slc s, .len => if s.rng.lenOk then (o, .ok (.nat s.rng.len)) else (o, .ub)
  | .zip z, .get k =>
    -- Zip_Get: values[i] = get(iters[i], key) in order
    match baseGet (σ.get? z.a) k with
    | .ok (.val v1) =>
      (match baseGet (σ.get? z.b) k with
       | .ok (.val v2) => (o, .ok (.vals [v1, v2]))
       | .ok _ => (o, .ub)
       | .raised e => (o, .raised e)
       | .ub => (o, .ub))
    | .ok _ => (o, .ub)
    | .raised e => (o, .raised e)
    | .ub => (o, .ub)
  | .zip z, .len =>
    match baseLen (σ.get? z.a), baseLen (σ.get? z.b) with
    | some x, some y => (o, .ok (.nat (min x y)))
    | _, _ => (o, .ub)
  | _, .set _ _ => (o, .raised .ClassError)
  | _, .rem _ => (o, .raised .ClassError)
  | _, .mem _ => (o, .ub)                      -- iteration of views: C11's subject, not modelled here
  | _, .assign .null => (o, .raised .ValueError)
  | _, .assign _ => (o, .raised .ValueError)   -- cast(obj, Slice/Zip)
  | _, .print _ [] _ => (o, .ok (.nat 0))
  | _, .print _ (.lit _ :: _) _ => (o, .raised .ClassError)
  | _, .print _ _ _ => (o, .ub)
  | _, _ => (o, .raised .ClassError)

def Obj.isView : Obj → Bool
  | .slc _ => true | .zip _ => true | _ => false

/-- one operation on object `id` of the store -/
def step (σ : Store) (id : Nat) (op : Op) : Store × Res :=
  match σ.get? id with
  | none => (σ, .ub)
  | some o =>
    let (o', r) := if o.isView then viewStep σ o op else o.stepLocal op
    (σ.put id o', r)

/-- one operation on the nested container `id` of the store (sources may be container objects) -/
def stepN (σ : Store) (id : Nat) (op : NOp) : Store × Res :=
  match σ.get? id with
  | some (.nest n) => let (n', r) := n.step op; (σ.put id (.nest n'), r)
  | _ => (σ, .ub)

/-! ### operations that do not go through a class method -/

/-- `cast(obj, T)` for an object of the store -/
def castObj (o : Obj) (typeName : String) : Res :=
  if o.typeName = typeName then .ok .unit else .raised .ValueError

/-- `dealloc(obj)`: refused with ResourceError unless the object is on the heap (then it is freed: not modelled) -/
def deallocObj (a : AllocK) : Res :=
  match a with
  | .static => .raised .ResourceError
  | .stack => .raised .ResourceError
  | .data => .raised .ResourceError
  | .heap => .ub

/-- any method call on NULL: `Type_Of(NULL)` raises ValueError before anything else happens -/
def nullCall : Res :=
  match headerExc .null with
  | some e => .raised e
  | none => .ub

/-- `type_of` / `cast` / `dealloc` on an object: all three start with `Type_Of(self)` (`cast` and `dealloc` through `instance`) -/
def headerCall (o : Obj) (r : Res) : Res :=
  match headerExc o.self with
  | some e => .raised e
  | none => r

/-- `sort(obj)` = `method(obj, Sort, sort_by, lt)`: the dispatcher first (`Type_Of`, then ClassError for a type that declares no
    `Sort`), then `Tuple_Sort_By` / `Array_Sort_By`.  `none`: not modelled (an Array / List whose elements are containers). -/
def Obj.sort (o : Obj) : Option (Obj × Res) :=
  match o with
  | .tup t => let (t', r) := t.sort; some (.tup t', r)
  | .arr a => let (a', r) := a.sort; some (.arr a', r)
  | .nest _ => none
  | _ =>
    match dispatchExc o.self o.typeName ("Sort", 0) with
    | some e => some (o, .raised e)
    | none => none

/-- `assign(x, x)` — the target is its own operand.  String: `Str.assignSelf` (guard of fix 744a45f).  Array / List / Table / Tree:
    `if (self is obj) { return; }` is the first statement of their `*_Assign` (pinned in the source profile).  Int: `Int_Assign`
    stores `c_int(obj)`.  Tuple: no guard — `len` / `get` are implemented, so the heap check comes next (a stack Tuple raises ValueError
    untouched), then `realloc` to the same size and every pointer is stored over itself.  `none`: not modelled. -/
def Obj.assignSelf (o : Obj) : Option (Obj × Res) :=
  match o with
  | .str s => let (s', r) := s.assignSelf; some (.str s', r)
  | .arr _ => some (o, .ok .unit)
  | .lst _ => some (o, .ok .unit)
  | .tab _ => some (o, .ok .unit)
  | .tre _ => some (o, .ok .unit)
  | .tup t => if t.alloc.nonHeap then some (o, .raised .ValueError) else some (o, .ok .unit)
  | .scalar _ (.int _) => some (o, .ok .unit)
  | _ => none

/-! ### observable view (what `len`, `get` and iteration can see): capacities and scratch values erased -/

def Obj.view : Obj → Obj
  | .arr a => .arr { a with nslots := 0 }
  | .tab t => .tab { t with nslots := 0 }
  | .rng r => .rng { r with scratch := 0 }
  | .slc s => .slc { s with rng := { s.rng with scratch := 0 } }
  | .nest n => .nest { n with nslots := 0 }
  | o => o

def Store.view (σ : Store) : Store := σ.map (fun p => (p.1, p.2.view))

end Cello.Fail
