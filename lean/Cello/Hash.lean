/-
  Cello/Hash.lean — executable model of hashing, comparison, assign/copy and swap as they exist in /repo now (engine `hash`, C10).

  * `hashData`    : src/Hash.c `hash_data`, an interpreter over the step lists that the translator extracts from the source
                    (CelloGen/Hash.lean: constants, block steps, tail switch table, final steps);
    `murmur64A`   : the textbook MurmurHash64A (the specification `hashData` is proved equal to in Props/C10.lean).
  * per-type `hash`/`cmp`: Int, Float (on the bit pattern), String, Type (by name), plain structs and Ref/Box (byte-wise defaults).
  * `Float_Cmp` three times: `floatCmp` — the decision on the bit pattern (for non-NaN doubles the sign of the exact difference
    `floatVal a - floatVal b`); `progCmp ops` — the interpreter of the statements the translator extracts from `Float_Cmp`
    (CelloGen/Hash.lean: `floatCmpStmts`, `floatCmpRet`) over a record `FOps` of double operations; `sfOps` — IEEE-754 binary64
    subtraction / multiplication (round to nearest even, gradual underflow, infinities, NaN) and comparisons computed exactly
    on the bit patterns, so that the kernel can evaluate the extracted program. `SubSign ops` is the one fact about the
    arithmetic the Float theorems use; it is proved for `sfOps` and tested for the machine's doubles by the driver.
  * look-ups: `tableGet` (the probe loop of `Table_Get` / `Table_Mem`), `shGet` (the descent of `Tree_Get` / `Tree_Mem`).
  * `assignSelfVal`: `assign(x, x)` (the early return of Array/List/Table/Tree_Assign and of String_Assign, as extracted).
  * containers    : `seqHash`/`mapHash` (the folds of Array/List/Tuple_Hash and Table/Tree_Hash), `seqCmp`/`mapCmp` (parallel
                    iteration of X_Cmp), the Table's robin-hood slot array (because `Table_Cmp` iterates in slot order), the Tree as
                    its iteration sequence.
  * `assignVal`, `copyVal`, `swap` on a store of objects.
  * element memory (`Cell` = one 64-bit word) and `blit` = memcpy/memmove with an explicit width: every place where a container
    moves an element it already holds goes through it, with the offsets and widths the translator extracts from the source
    (CelloGen/Hash.lean: `treeRemMoveSize`, `tableStepTerms`, `tableMoveKeySize`, `arrayStepTerms`, …) evaluated for the key /
    value / element widths of the container at hand — `Tree_Rem`'s relocation of the in-order neighbour (`treeRelocate`), the
    slot copies of `Table_Set_Move` / `Table_Rem` / `Table_Rehash` (`copySlot`, `loadSlot`), the memmoves of `Array_Pop_At` /
    `Array_Push_At` (`arrayPopAt`, `arrayPushAt`). A move that is too narrow leaves the tail of the old element in place, which
    shows in the dump and in eq / hash.
  * the Tree as a binary search tree of entries (`Sh`) without colours: `Tree_Set_Fix` / `Tree_Rem_Fix` relink and recolour
    nodes, they never touch a payload and keep the in-order sequence (checked by the translator; shape and balance are engine
    `tree`'s, C03). The C10 theorems are stated for every search-tree shape, hence for the shapes the C code reaches.
  Core Lean only.
-/
import CelloGen.Hash

namespace Cello.Hash
open CelloGen.Hash (Step TailStmt Comb SizeTerm FExpr FCond FStmt FRet)

abbrev Bytes := List UInt8

/-! ## hash_data -/

/-- `memcpy(&k, d, 8)` on a little-endian machine: byte 0 is the least significant -/
def le64 (bs : Bytes) : UInt64 :=
  bs.foldr (fun b acc => (acc <<< 8) ||| b.toUInt64) 0

/-- one mixing statement on the pair `(h, k)` -/
def runStep (m r : UInt64) (hk : UInt64 × UInt64) : Step → UInt64 × UInt64
  | .kMulM   => (hk.1, hk.2 * m)
  | .kXorShr => (hk.1, hk.2 ^^^ (hk.2 >>> r))
  | .hXorK   => (hk.1 ^^^ hk.2, hk.2)
  | .hMulM   => (hk.1 * m, hk.2)
  | .hXorShr => (hk.1 ^^^ (hk.1 >>> r), hk.2)

def runSteps (m r : UInt64) (steps : List Step) (h k : UInt64) : UInt64 :=
  (steps.foldl (runStep m r) (h, k)).1

/-- `while (d != end)` with `end = d + (size & ~7)`: exactly `size / 8` iterations, each consuming 8 bytes -/
def blockLoop (f : UInt64 → UInt64 → UInt64) : Nat → UInt64 → Bytes → UInt64
  | 0, h, _ => h
  | n + 1, h, bs => blockLoop f n (f h (le64 (bs.take 8))) (bs.drop 8)

/-- one statement of the tail switch; `d` = the bytes from `end` on -/
def runTailStmt (m : UInt64) (d : Bytes) (h : UInt64) : TailStmt → UInt64
  | .xorByte idx shift => h ^^^ ((d.getD idx 0).toUInt64 <<< (UInt64.ofNat shift))
  | .mulM => h * m
  | .brk => h

def isBrk : TailStmt → Bool
  | .brk => true
  | _ => false

/-- `switch (n) { case …: … }`: jump to the label equal to `n` (none: skip the switch), run until a `break` -/
def runTail (m : UInt64) (cases : List (Nat × List TailStmt)) (n : Nat) (d : Bytes) (h : UInt64) : UInt64 :=
  let after := cases.dropWhile (fun c => c.1 != n)
  let stmts := (after.flatMap (·.2)).takeWhile (fun s => !isBrk s)
  stmts.foldl (runTailStmt m d) h

/-- does the tail table read only bytes that belong to the data (`idx < size & 7` whenever the statement is reachable)? -/
def tailInBounds (cases : List (Nat × List TailStmt)) : Bool :=
  (List.range 8).all fun n =>
    let after := cases.dropWhile (fun c => c.1 != n)
    ((after.flatMap (·.2)).takeWhile (fun s => !isBrk s)).all fun s =>
      match s with
      | .xorByte idx _ => idx < n
      | _ => true

/-- parametrised `hash_data` -/
def hashDataWith (m r seed : UInt64) (block : List Step) (tail : List (Nat × List TailStmt)) (fin : List Step)
    (bytes : Bytes) : UInt64 :=
  let size := bytes.length
  let h0 := seed ^^^ (UInt64.ofNat size * m)
  let h1 := blockLoop (fun h k => runSteps m r block h k) (size / 8) h0 bytes
  let h2 := runTail m tail (size % 8) (bytes.drop (8 * (size / 8))) h1
  runSteps m r fin h2 0

/-- `hash_data(data, size)` of the current source -/
def hashData (bytes : Bytes) : UInt64 :=
  hashDataWith CelloGen.Hash.m CelloGen.Hash.r CelloGen.Hash.seed CelloGen.Hash.blockSteps CelloGen.Hash.tail
    CelloGen.Hash.finalSteps bytes

/-! ### hash_data as a program over addressable memory

  The same function once more, this time with everything the C text says about WHERE the bytes are: the cursor `d` is an address,
  `end = d + (size & ~endMask)`, the block loop runs `while (d != end)` (no counter: a cursor that steps over `end` never stops),
  each round loads `loadWidth` bytes at `d` and moves `d` on by `loadAdvance`, the tail switch reads `d[idx]` relative to the
  cursor the loop left behind and widens the byte as the declared element type of `d` says (`dataByteSigned`). All five are
  read from the source by the translator. `hashDataMem mem p n` is proved equal to `hashData` of the `n` bytes at `p`
  (Lemmas/HashMem.lean), so the result is a function of the byte string alone — not of `p`, its alignment or the neighbours. -/

abbrev Mem := Nat → UInt8

/-- the `n` bytes at address `p` -/
def loadBytes (mem : Mem) : Nat → Nat → Bytes
  | _, 0 => []
  | p, n + 1 => mem p :: loadBytes mem (p + 1) n

/-- `(uint64_t)(d[i])` for `d` a pointer to unsigned / signed bytes -/
def widenByte (signed : Bool) (b : UInt8) : UInt64 :=
  if signed && decide (b ≥ 0x80) then b.toUInt64 ||| 0xffffffffffffff00 else b.toUInt64

def runTailStmtMem (m : UInt64) (signed : Bool) (mem : Mem) (d : Nat) (h : UInt64) : TailStmt → UInt64
  | .xorByte idx shift => h ^^^ (widenByte signed (mem (d + idx)) <<< (UInt64.ofNat shift))
  | .mulM => h * m
  | .brk => h

/-- the statements `switch (n)` executes: from the label equal to `n` to the first `break` -/
def tailStmtsAt (cases : List (Nat × List TailStmt)) (n : Nat) : List TailStmt :=
  ((cases.dropWhile (fun c => c.1 != n)).flatMap (·.2)).takeWhile (fun s => !isBrk s)

/-- `while (d != end) { k = load w bytes at d; d += adv; h = f h k }`; `none` = out of fuel (the cursor stepped over `end`) -/
def memBlockLoop (f : UInt64 → UInt64 → UInt64) (mem : Mem) (w adv e : Nat) : Nat → Nat → UInt64 → Option (Nat × UInt64)
  | 0, _, _ => none
  | fuel + 1, d, h =>
    if d = e then some (d, h) else memBlockLoop f mem w adv e fuel (d + adv) (f h (le64 (loadBytes mem d w)))

structure HdFrame where
  signed : Bool
  endMask : Nat
  loadWidth : Nat
  advance : Nat
  switchMask : Nat
deriving DecidableEq, Repr

def hashDataMemWith (F : HdFrame) (m r seed : UInt64) (block : List Step) (tail : List (Nat × List TailStmt)) (fin : List Step)
    (mem : Mem) (p size : Nat) : Option UInt64 :=
  let e := p + (size - (size &&& F.endMask))               -- size & ~mask
  let h0 := seed ^^^ (UInt64.ofNat size * m)
  match memBlockLoop (fun h k => runSteps m r block h k) mem F.loadWidth F.advance e (size + 1) p h0 with
  | none => none
  | some (d, h1) =>
    some (runSteps m r fin ((tailStmtsAt tail (size &&& F.switchMask)).foldl (runTailStmtMem m F.signed mem d) h1) 0)

/-- the frame of the current source -/
def srcFrame : HdFrame :=
  ⟨CelloGen.Hash.dataByteSigned, CelloGen.Hash.endMask, CelloGen.Hash.loadWidth, CelloGen.Hash.loadAdvance, CelloGen.Hash.switchMask⟩

/-- `hash_data(p, size)` of the current source on the memory `mem` -/
def hashDataMem (mem : Mem) (p size : Nat) : Option UInt64 :=
  hashDataMemWith srcFrame CelloGen.Hash.m CelloGen.Hash.r CelloGen.Hash.seed CelloGen.Hash.blockSteps CelloGen.Hash.tail
    CelloGen.Hash.finalSteps mem p size

/-- a memory that holds `bs` at address `p` and `fill` everywhere else -/
def memOf (fill : UInt8) (p : Nat) (bs : Bytes) : Mem :=
  fun a => if p ≤ a ∧ a < p + bs.length then bs.getD (a - p) fill else fill

/-! ### reference: MurmurHash64A as published -/

def refBlock (h k : UInt64) : UInt64 :=
  let m : UInt64 := 0xc6a4a7935bd1e995
  let k := k * m
  let k := k ^^^ (k >>> 47)
  let k := k * m
  (h ^^^ k) * m

/-- the remaining `len & 7` bytes, xored in little-endian position, then one multiplication (only when there are any) -/
def refTail (h : UInt64) (t : Bytes) : UInt64 :=
  let m : UInt64 := 0xc6a4a7935bd1e995
  match t with
  | [] => h
  | [a] => (h ^^^ a.toUInt64) * m
  | [a, b] => (h ^^^ (b.toUInt64 <<< 8) ^^^ a.toUInt64) * m
  | [a, b, c] => (h ^^^ (c.toUInt64 <<< 16) ^^^ (b.toUInt64 <<< 8) ^^^ a.toUInt64) * m
  | [a, b, c, d] => (h ^^^ (d.toUInt64 <<< 24) ^^^ (c.toUInt64 <<< 16) ^^^ (b.toUInt64 <<< 8) ^^^ a.toUInt64) * m
  | [a, b, c, d, e] =>
    (h ^^^ (e.toUInt64 <<< 32) ^^^ (d.toUInt64 <<< 24) ^^^ (c.toUInt64 <<< 16) ^^^ (b.toUInt64 <<< 8) ^^^ a.toUInt64) * m
  | [a, b, c, d, e, f] =>
    (h ^^^ (f.toUInt64 <<< 40) ^^^ (e.toUInt64 <<< 32) ^^^ (d.toUInt64 <<< 24) ^^^ (c.toUInt64 <<< 16) ^^^ (b.toUInt64 <<< 8)
      ^^^ a.toUInt64) * m
  | a :: b :: c :: d :: e :: f :: g :: _ =>
    (h ^^^ (g.toUInt64 <<< 48) ^^^ (f.toUInt64 <<< 40) ^^^ (e.toUInt64 <<< 32) ^^^ (d.toUInt64 <<< 24) ^^^ (c.toUInt64 <<< 16)
      ^^^ (b.toUInt64 <<< 8) ^^^ a.toUInt64) * m

def murmur64A (seed : UInt64) (key : Bytes) : UInt64 :=
  let m : UInt64 := 0xc6a4a7935bd1e995
  let len := key.length
  let h := seed ^^^ (UInt64.ofNat len * m)
  let h := blockLoop refBlock (len / 8) h key
  let h := refTail h (key.drop (8 * (len / 8)))
  let h := h ^^^ (h >>> 47)
  let h := h * m
  h ^^^ (h >>> 47)

/-! ## scalar values -/

/-- sign of `strcmp` on NUL-free byte strings / of `memcmp` on equally long blocks: lexicographic on unsigned bytes -/
def bytesCmp : Bytes → Bytes → Int
  | [], [] => 0
  | [], _ :: _ => -1
  | _ :: _, [] => 1
  | a :: as, b :: bs => if a < b then -1 else if b < a then 1 else bytesCmp as bs

/-- `Int_Cmp` (after fix 1403e2f): `a > b ? 1 : a < b ? -1 : 0` -/
def intCmp (a b : Int64) : Int := if a > b then 1 else if a < b then -1 else 0
/-- `Int_Hash`: `(uint64_t)c_int(self)` -/
def intHash (v : Int64) : UInt64 := v.toUInt64

/-- magnitude bits of a double -/
def floatMag (b : UInt64) : Nat := b.toNat % 2 ^ 63
def floatNeg (b : UInt64) : Bool := 2 ^ 63 ≤ b.toNat
/-- `x == 0.0` on the bit pattern: +0 and −0 -/
def floatIsZero (b : UInt64) : Bool := floatMag b == 0
/-- exponent all ones, mantissa non-zero -/
def floatIsNaN (b : UInt64) : Bool := floatMag b > 0x7ff0000000000000
/-- position of a non-NaN double on the number line (sign and magnitude) -/
def floatKey (b : UInt64) : Int := if floatNeg b then - (floatMag b : Int) else (floatMag b : Int)

/-- `Float_Cmp`: `c = a - b; c > 0 ? 1 : c < 0 ? -1 : 0`. With a NaN operand `c` is NaN and the result 0; otherwise the
    sign of the IEEE difference is the sign of the real difference (gradual underflow; ∞ − ∞ = NaN gives 0 on equal keys). -/
def floatCmp (a b : UInt64) : Int :=
  if floatIsNaN a || floatIsNaN b then 0
  else if floatKey a > floatKey b then 1 else if floatKey a < floatKey b then -1 else 0

/-- `Float_Hash`: the bits, a zero first replaced by +0.0 when the source normalises (fix b70dd46) -/
def floatHash (normalise : Bool) (b : UInt64) : UInt64 :=
  if normalise && floatIsZero b then 0 else b


/-! ### `Float_Cmp` as a program over `double`, and an exact IEEE-754 binary64 arithmetic on bit patterns -/

/-- the operations on `double` that the fragment of `Float_Cmp` uses (doubles are carried as their 64 bits) -/
structure FOps where
  sub : UInt64 → UInt64 → UInt64
  add : UInt64 → UInt64 → UInt64
  mul : UInt64 → UInt64 → UInt64
  neg : UInt64 → UInt64
  fabs : UInt64 → UInt64
  fmax : UInt64 → UInt64 → UInt64
  fmin : UInt64 → UInt64 → UInt64
  lt : UInt64 → UInt64 → Bool
  le : UInt64 → UInt64 → Bool
  eq : UInt64 → UInt64 → Bool

def evalE (ops : FOps) (self obj : UInt64) (locs : List UInt64) : FExpr → UInt64
  | .self => self
  | .obj => obj
  | .loc i => locs.getD i 0          -- the translator refuses a use before the declaration
  | .lit b => b
  | .sub a b => ops.sub (evalE ops self obj locs a) (evalE ops self obj locs b)
  | .add a b => ops.add (evalE ops self obj locs a) (evalE ops self obj locs b)
  | .mul a b => ops.mul (evalE ops self obj locs a) (evalE ops self obj locs b)
  | .neg a => ops.neg (evalE ops self obj locs a)
  | .fabs a => ops.fabs (evalE ops self obj locs a)
  | .fmax a b => ops.fmax (evalE ops self obj locs a) (evalE ops self obj locs b)
  | .fmin a b => ops.fmin (evalE ops self obj locs a) (evalE ops self obj locs b)

def evalC (ops : FOps) (self obj : UInt64) (locs : List UInt64) : FCond → Bool
  | .lt a b => ops.lt (evalE ops self obj locs a) (evalE ops self obj locs b)
  | .le a b => ops.le (evalE ops self obj locs a) (evalE ops self obj locs b)
  | .gt a b => ops.lt (evalE ops self obj locs b) (evalE ops self obj locs a)
  | .ge a b => ops.le (evalE ops self obj locs b) (evalE ops self obj locs a)
  | .eq a b => ops.eq (evalE ops self obj locs a) (evalE ops self obj locs b)
  | .ne a b => !ops.eq (evalE ops self obj locs a) (evalE ops self obj locs b)
  | .and p q => evalC ops self obj locs p && evalC ops self obj locs q
  | .or p q => evalC ops self obj locs p || evalC ops self obj locs q
  | .not p => !evalC ops self obj locs p

/-- store into local `i` (locals are numbered in order of declaration, so `i ≤ locs.length`) -/
def setLoc (locs : List UInt64) (i : Nat) (v : UInt64) : List UInt64 :=
  if i < locs.length then locs.set i v else locs ++ List.replicate (i - locs.length) 0 ++ [v]

/-- the statements before the final `return`: `.error v` = an early `return v` -/
def runStmts (ops : FOps) (self obj : UInt64) : List FStmt → List UInt64 → Except Int (List UInt64)
  | [], locs => .ok locs
  | .set i e :: rest, locs => runStmts ops self obj rest (setLoc locs i (evalE ops self obj locs e))
  | .setIf c i e :: rest, locs =>
    runStmts ops self obj rest (if evalC ops self obj locs c then setLoc locs i (evalE ops self obj locs e) else locs)
  | .retIf c v :: rest, locs => if evalC ops self obj locs c then .error v else runStmts ops self obj rest locs

def evalRet (ops : FOps) (self obj : UInt64) (locs : List UInt64) : FRet → Int
  | .val v => v
  | .ite c t e => if evalC ops self obj locs c then evalRet ops self obj locs t else evalRet ops self obj locs e

/-- a `Float_Cmp` given as statements and final `return`, run on `self = a`, `obj = b` -/
def progCmp (ops : FOps) (stmts : List FStmt) (ret : FRet) (a b : UInt64) : Int :=
  match runStmts ops a b stmts [] with
  | .error v => v
  | .ok locs => evalRet ops a b locs ret

/-- `Float_Cmp` as it is in the source now -/
def floatCmpSrc (ops : FOps) (a b : UInt64) : Int := progCmp ops CelloGen.Hash.floatCmpStmts CelloGen.Hash.floatCmpRet a b

/-- the plain sign of the difference: `double c = Float_C_Float(self) - c_float(obj); return c > 0 ? 1 : c < 0 ? -1 : 0;` -/
def exactStmts : List FStmt := [.set 0 (.sub .self .obj)]
def exactRet : FRet := .ite (.gt (.loc 0) (.lit 0)) (.val 1) (.ite (.lt (.loc 0) (.lit 0)) (.val (-1)) (.val 0))

/-- the one fact about double arithmetic the Float theorems use: for two non-NaN doubles the difference is positive (negative)
    exactly when the minuend lies above (below) the subtrahend on the number line; with a NaN operand it is neither -/
structure SubSign (ops : FOps) : Prop where
  pos : ∀ a b, floatIsNaN a = false → floatIsNaN b = false → (ops.lt 0 (ops.sub a b) = true ↔ floatKey b < floatKey a)
  neg : ∀ a b, floatIsNaN a = false → floatIsNaN b = false → (ops.lt (ops.sub a b) 0 = true ↔ floatKey a < floatKey b)
  nan : ∀ a b, (floatIsNaN a || floatIsNaN b) = true → ops.lt 0 (ops.sub a b) = false ∧ ops.lt (ops.sub a b) 0 = false

/-- value of the magnitude bits `m` (exponent field `m / 2^52`, fraction `m % 2^52`) in units of 2^-1074, the smallest
    subnormal: exact for every finite double; the infinity pattern reads as 2^2098, above every finite value -/
def magVal (m : Nat) : Nat :=
  if m / 2 ^ 52 = 0 then m % 2 ^ 52 else (2 ^ 52 + m % 2 ^ 52) * 2 ^ (m / 2 ^ 52 - 1)

/-- the exact value of a finite double, in units of 2^-1074 -/
def floatVal (b : UInt64) : Int := if floatNeg b then - (magVal (floatMag b) : Int) else (magVal (floatMag b) : Int)

def infMag : Nat := 0x7ff0000000000000
def floatIsInf (b : UInt64) : Bool := floatMag b == infMag
/-- the quiet NaN the x86-64 SSE unit produces for an invalid operation -/
def sfNaN : UInt64 := 0xfff8000000000000
def mkBits (neg : Bool) (mag : Nat) : UInt64 := UInt64.ofNat ((if neg then 2 ^ 63 else 0) + mag)

/-- round `n / 2^s` units of 2^-1074 to the nearest double (ties to even; overflow to infinity): the magnitude bits of the result.
    `t` = number of low bits dropped: at least `s`, and enough to leave 53 significant bits; exponent field = `t - s` (+1 through
    the carry into bit 52) -/
def roundQ (n s : Nat) : Nat :=
  let t := max s (Nat.log2 n - 52)
  let q := n / 2 ^ t
  let r := n % 2 ^ t
  let up := decide (0 < t) && (decide (2 ^ (t - 1) < r) || (r == 2 ^ (t - 1) && q % 2 == 1))
  let bits := (t - s) * 2 ^ 52 + (if up then q + 1 else q)
  if infMag ≤ bits then infMag else bits

/-- IEEE-754 `a - b` -/
def sfSub (a b : UInt64) : UInt64 :=
  if floatIsNaN a || floatIsNaN b then sfNaN
  else if floatIsInf a then (if floatIsInf b && floatNeg a == floatNeg b then sfNaN else a)
  else if floatIsInf b then mkBits (!floatNeg b) infMag
  else
    let d := floatVal a - floatVal b
    if d = 0 then (if floatNeg a && !floatNeg b then mkBits true 0 else 0)
    else mkBits (decide (d < 0)) (roundQ d.natAbs 0)

def sfNeg (a : UInt64) : UInt64 := mkBits (!floatNeg a) (floatMag a)
def sfAbs (a : UInt64) : UInt64 := mkBits false (floatMag a)

/-- IEEE-754 `a * b`: the exact product is `magVal a * magVal b` units of 2^-2148 -/
def sfMul (a b : UInt64) : UInt64 :=
  if floatIsNaN a || floatIsNaN b then sfNaN
  else if (floatIsInf a && floatIsZero b) || (floatIsZero a && floatIsInf b) then sfNaN
  else if floatIsInf a || floatIsInf b then mkBits (floatNeg a != floatNeg b) infMag
  else mkBits (floatNeg a != floatNeg b) (roundQ (magVal (floatMag a) * magVal (floatMag b)) 1074)

def sfLt (a b : UInt64) : Bool := !floatIsNaN a && !floatIsNaN b && decide (floatKey a < floatKey b)
def sfLe (a b : UInt64) : Bool := !floatIsNaN a && !floatIsNaN b && decide (floatKey a ≤ floatKey b)
def sfEq (a b : UInt64) : Bool := !floatIsNaN a && !floatIsNaN b && decide (floatKey a = floatKey b)
/-- `fmax` / `fmin`: a NaN operand is ignored -/
def sfMax (a b : UInt64) : UInt64 := if floatIsNaN a then b else if floatIsNaN b then a else if sfLt a b then b else a
def sfMin (a b : UInt64) : UInt64 := if floatIsNaN a then b else if floatIsNaN b then a else if sfLt b a then b else a

/-- IEEE-754 binary64 on bit patterns, computed exactly (the kernel can evaluate it; the driver tests it against the machine) -/
def sfOps : FOps where
  sub := sfSub
  add a b := sfSub a (sfNeg b)
  mul := sfMul
  neg := sfNeg
  fabs := sfAbs
  fmax := sfMax
  fmin := sfMin
  lt := sfLt
  le := sfLe
  eq := sfEq

/-- element / key types -/
inductive Ty where
  | int | float | str | typ | ref | box | raw (k : Nat)
deriving DecidableEq, Repr

inductive Scalar where
  | int (v : Int64)
  | float (bits : UInt64)
  | str (b : Bytes)
  | typ (name : Bytes)
  | ptr (box : Bool) (target : Nat)     -- Ref / Box holding the address of object `target`
  | raw (k : Nat) (b : Bytes)           -- plain struct of probe type `k`: its bytes
deriving DecidableEq, Repr

def Scalar.ty : Scalar → Ty
  | .int _ => .int | .float _ => .float | .str _ => .str | .typ _ => .typ
  | .ptr false _ => .ref | .ptr true _ => .box | .raw k _ => .raw k

/-- `hash(x)`; `addr` gives the 8 bytes of an object's address (only Ref/Box depend on it) -/
def scalarHash (addr : Nat → Bytes) : Scalar → UInt64
  | .int v => intHash v
  | .float b => floatHash CelloGen.Hash.floatHashNormalisesZero b
  | .str b => hashData b                       -- String_Hash: hash_data(val, strlen(val))
  | .typ n => hashData n                       -- Type_Hash: hash_data(name, strlen(name))
  | .ptr _ t => hashData (addr t)              -- default: hash_data(self, size(type)) over `struct Ref {var val;}`
  | .raw _ b => hashData b                     -- default: hash_data(self, size(type))

/-- `cmp(a, b)` for two scalars of the same type (`none`: the types differ — TypeError) -/
def scalarCmp (addr : Nat → Bytes) : Scalar → Scalar → Option Int
  | .int a, .int b => some (intCmp a b)
  | .float a, .float b => some (floatCmp a b)
  | .str a, .str b => some (bytesCmp a b)
  | .typ a, .typ b => some (bytesCmp a b)
  | .ptr ba a, .ptr bb b => if ba = bb then some (bytesCmp (addr a) (addr b)) else none
  | .raw ka a, .raw kb b => if ka = kb then some (bytesCmp a b) else none
  | _, _ => none

/-! ## element memory: 64-bit words; memcpy / memmove with an explicit width -/

/-- the plain-struct probe types of the harness: `P<k>` is `struct { unsigned char b[k]; }`, one for every size k = 1 … 41 -/
def maxProbe : Nat := 41
/-- size in bytes of `P<k>` -/
def rawSize (k : Nat) : Nat := k

/-- one 8-byte word of the memory of a container element -/
inductive Cell where
  | hdr (val : Bool)            -- a word of the `struct Header` in front of a key (false) / of a value or sequence element (true)
  | tag (n : Nat)               -- the first word of a Table slot: home slot + 1
  | int (v : Int64)             -- `struct Int`
  | flt (bits : UInt64)         -- `struct Float`
  | str (b : Bytes)             -- `struct String { char* val; }`: the pointer, named by the characters it points to
  | ptr (box : Bool) (t : Nat)  -- `struct Ref` / `struct Box`
  | raw (b : Bytes)             -- eight bytes of a plain struct (the last word zero-padded up to the container's rounded size)
  | zero                        -- a word of zeroed memory (calloc / memset)
deriving DecidableEq, Repr

def pad8 (b : Bytes) : Bytes := b ++ List.replicate (8 - b.length) 0

/-- the first `n` words of a plain struct -/
def rawCells : Nat → Bytes → List Cell
  | 0, _ => []
  | n + 1, b => .raw (pad8 (b.take 8)) :: rawCells n (b.drop 8)

def wordsOf (size : Nat) : Nat := (size + 7) / 8

/-- the words of the struct of a value -/
def scalarCells : Scalar → List Cell
  | .int v => [.int v]
  | .float b => [.flt b]
  | .str b => [.str b]
  | .typ _ => []                -- Type objects are never embedded in a container
  | .ptr bx t => [.ptr bx t]
  | .raw _ b => rawCells (wordsOf b.length) b

def cellBytes : Cell → Bytes
  | .raw b => b
  | _ => List.replicate 8 0

/-- read a value of the type (and size) of `tmpl` back from its words; zeroed memory reads as the zero value -/
def scalarOfCells : Scalar → List Cell → Scalar
  | .int _, [.int v] => .int v
  | .int _, _ => .int 0
  | .float _, [.flt b] => .float b
  | .float _, _ => .float 0
  | .str _, [.str b] => .str b
  | .str _, _ => .str []
  | .typ n, _ => .typ n
  | .ptr bx _, [.ptr _ t] => .ptr bx t
  | .ptr bx _, _ => .ptr bx 0
  | .raw k b, cs => .raw k ((cs.flatMap cellBytes).take b.length)

/-- widths, in words, of the parts of an entry: `sizeof(struct Header)`, key, value (or sequence element) -/
structure Layout where
  hw : Nat
  kw : Nat
  vw : Nat
deriving DecidableEq, Repr

def termWords (L : Layout) : SizeTerm → Nat
  | .hdr => L.hw
  | .u64 => 1
  | .ksize => L.kw
  | .vsize => L.vw
  | .tsize => L.vw

/-- value of a size / offset expression of the source for a container with layout `L` -/
def evalSize (L : Layout) (ts : List SizeTerm) : Nat := ts.foldl (fun n t => n + termWords L t) 0

/-- `memcpy(dst + dstOff, src + srcOff, n)` / `memmove` (the source is read before the destination is written) -/
def blit (dstOff srcOff n : Nat) (src dst : List Cell) : List Cell :=
  dst.take dstOff ++ ((src.drop srcOff).take n ++ dst.drop (dstOff + n))

/-- words of a value of each type as an element of a container (`Table_Size_Round` / `Array_Size_Round` round up to words;
    `Tree_New` does not round: Tree key / value types are kept to multiples of 8 bytes, KF-C19-tree-misaligned-header) -/
def tyWords : Ty → Nat
  | .typ => 0
  | .raw k => wordsOf (rawSize k)
  | _ => 1

/-- `sizeof(struct Header) / 8` in the build the harness uses (type, alloc); no theorem depends on the value -/
def hdrWords : Nat := 2

def layoutOf (kt vt : Ty) : Layout := ⟨hdrWords, tyWords kt, tyWords vt⟩

/-- executable form of "the value occupies `w` words" (the hypothesis of the move theorems; checked by the driver) -/
def sizedB (w : Nat) (s : Scalar) : Bool := (scalarCells s).length == w

/-! ## container hashes and comparisons (polymorphic in the element type) -/

def combine : Comb → UInt64 → UInt64 → UInt64
  | .xor, a, b => a ^^^ b
  | .add, a, b => a + b

/-- `h = 0; for each item: h = h ⊕ hash(item)` -/
def seqHash (c : Comb) (hash : α → UInt64) (xs : List α) : UInt64 :=
  xs.foldl (fun h x => combine c h (hash x)) 0

/-- `h = 0; for each entry: h = h ⊕ hash(key) ⊕ hash(val)` -/
def mapHash (c : Comb) (hk : α → UInt64) (hv : β → UInt64) (es : List (α × β)) : UInt64 :=
  es.foldl (fun h e => combine c (combine c h (hk e.1)) (hv e.2)) 0

/-! ### the container hashes as the programs the translator reads from `X_Hash` (CelloGen.Hash.FoldProg) -/

open CelloGen.Hash (HTerm HExpr FoldProg) in
/-- value of the right-hand side of the loop's assignment to `h` -/
def evalH (env : HTerm → UInt64) : HExpr → UInt64
  | .t x => env x
  | .xor a b => evalH env a ^^^ evalH env b
  | .add a b => evalH env a + evalH env b

open CelloGen.Hash (HTerm HExpr FoldProg) in
/-- `Array_Hash` / `List_Hash` / `Tuple_Hash` as extracted: `h = init; for (i = first; i < n; i++) h = body;` -/
def seqHashSrc (p : FoldProg) (hash : α → UInt64) (xs : List α) : UInt64 :=
  (xs.drop p.first).foldl (fun h x => evalH (fun | .acc => h | .elem => hash x | .key => 0 | .val => 0) p.body) p.init

open CelloGen.Hash (HTerm HExpr FoldProg) in
/-- `Table_Hash` / `Tree_Hash` as extracted: `h = init; for each entry in iteration order: h = body;` -/
def mapHashSrc (p : FoldProg) (hk : α → UInt64) (hv : β → UInt64) (es : List (α × β)) : UInt64 :=
  (es.drop p.first).foldl (fun h e => evalH (fun | .acc => h | .key => hk e.1 | .val => hv e.2 | .elem => 0) p.body) p.init

/-- `Array_Cmp` / `List_Cmp` / `Tuple_Cmp`: parallel iteration, first difference decides, the shorter is smaller -/
def seqCmp (cmp : α → β → Option Int) : List α → List β → Option Int
  | [], [] => some 0
  | [], _ :: _ => some (-1)
  | _ :: _, [] => some 1
  | a :: as, b :: bs =>
    match cmp a b with
    | none => none
    | some c => if c < 0 then some (-1) else if c > 0 then some 1 else seqCmp cmp as bs

/-- `Table_Cmp` / `Tree_Cmp`: parallel iteration over the entries in each side's iteration order, key then value -/
def mapCmp (ck : α → α → Option Int) (cv : β → β → Option Int) : List (α × β) → List (α × β) → Option Int
  | [], [] => some 0
  | [], _ :: _ => some (-1)
  | _ :: _, [] => some 1
  | a :: as, b :: bs =>
    match ck a.1 b.1 with
    | none => none
    | some c =>
      if c < 0 then some (-1) else if c > 0 then some 1 else
      match cv a.2 b.2 with
      | none => none
      | some c => if c < 0 then some (-1) else if c > 0 then some 1 else mapCmp ck cv as bs

/-! ## Table: the robin-hood slot array (src/Table.c) -/

structure Slot where
  stored : Nat          -- home slot + 1, as kept in the first word of the slot
  k : Scalar
  v : Scalar
deriving DecidableEq, Repr

structure Table where
  nslots : Nat
  slots : Array (Option Slot)
  nitems : Nat
deriving Repr

def Table.empty : Table := ⟨0, #[], 0⟩

/-- `Table_Ideal_Size`: `(size_t)((double)(size+1) / 0.9)` rounded up to the next prime of the table -/
def idealSize (n : Nat) : Nat :=
  let want := (n + 1) * 10 / CelloGen.Hash.tableLoadNum
  match CelloGen.Hash.tablePrimes.find? (· ≥ want) with
  | some p => p
  | none =>
    let last := CelloGen.Hash.tablePrimes.getLastD 1
    if last = 0 then want else ((want + last - 1) / last) * last

/-- `Table_Probe`: distance of slot `i` from the home slot `stored - 1` -/
def probe (nslots i stored : Nat) : Nat :=
  if stored - 1 ≤ i then i - (stored - 1) else nslots + i - (stored - 1)

def keyEq (addr : Nat → Bytes) (a b : Scalar) : Bool := scalarCmp addr a b == some 0

/-- the loop of `Table_Set_Move` carrying entry `cur` (`sspace0`) at slot `i` with distance `j` -/
def setMoveLoop (addr : Nat → Bytes) : Nat → Table → Slot → Nat → Nat → Table
  | 0, t, _, _, _ => t      -- not reached: the table always has a free slot
  | fuel + 1, t, cur, i, j =>
    match t.slots.getD i none with
    | none => { t with slots := t.slots.setIfInBounds i (some cur), nitems := t.nitems + 1 }
    | some s =>
      if keyEq addr s.k cur.k then { t with slots := t.slots.setIfInBounds i (some cur) }
      else
        let p := probe t.nslots i s.stored
        if j > p then
          setMoveLoop addr fuel { t with slots := t.slots.setIfInBounds i (some cur) } s ((i + 1) % t.nslots) (p + 1)
        else
          setMoveLoop addr fuel t cur ((i + 1) % t.nslots) (j + 1)

/-- `Table_Set_Move(t, key, val, _)` (requires `nslots > 0`) -/
def setMove (addr : Nat → Bytes) (t : Table) (k v : Scalar) : Table :=
  let i := (scalarHash addr k).toNat % t.nslots
  setMoveLoop addr (2 * t.nslots + 2) t ⟨i + 1, k, v⟩ i 0

def Table.entriesInSlotOrder (t : Table) : List Slot := t.slots.toList.filterMap id

/-- `Table_Rehash` -/
def rehash (addr : Nat → Bytes) (t : Table) (newSize : Nat) : Table :=
  let fresh : Table := ⟨newSize, Array.replicate newSize none, 0⟩
  t.entriesInSlotOrder.foldl (fun acc s => setMove addr acc s.k s.v) fresh

/-- `Table_Set` -/
def tableSet (addr : Nat → Bytes) (t : Table) (k v : Scalar) : Table :=
  let t := if t.nslots = 0 then rehash addr t (idealSize 0) else t
  let t := setMove addr t k v
  let n := idealSize t.nitems
  if n > t.nslots then rehash addr t n else t

/-- the back-shift loop of `Table_Rem` after slot `i` has been emptied -/
def backShift : Nat → Table → Nat → Table
  | 0, t, _ => t
  | fuel + 1, t, i =>
    let ni := (i + 1) % t.nslots
    match t.slots.getD ni none with
    | some s =>
      if probe t.nslots ni s.stored > 0 then
        backShift fuel { t with slots := (t.slots.setIfInBounds i (some s)).setIfInBounds ni none } ni
      else t
    | none => t

/-- the search loop of `Table_Rem`: `none` = KeyError -/
def remLoop (addr : Nat → Bytes) (key : Scalar) : Nat → Table → Nat → Nat → Option Table
  | 0, _, _, _ => none
  | fuel + 1, t, i, j =>
    match t.slots.getD i none with
    | none => none
    | some s =>
      if j > probe t.nslots i s.stored then none
      else if keyEq addr s.k key then
        let t := backShift t.nslots { t with slots := t.slots.setIfInBounds i none } i
        let t := { t with nitems := t.nitems - 1 }
        let n := idealSize t.nitems
        some (if n < t.nslots then rehash addr t n else t)
      else remLoop addr key fuel t ((i + 1) % t.nslots) (j + 1)

/-- `Table_Rem`: `none` = KeyError -/
def tableRem (addr : Nat → Bytes) (t : Table) (key : Scalar) : Option Table :=
  if t.nslots = 0 then none
  else remLoop addr key (t.nslots + 1) t ((scalarHash addr key).toNat % t.nslots) 0

/-- the probe loop of `Table_Get` / `Table_Mem`: the value stored under a key eq to `key`; `none` = KeyError / false -/
def getLoop (addr : Nat → Bytes) (key : Scalar) : Nat → Table → Nat → Nat → Option Scalar
  | 0, _, _, _ => none
  | fuel + 1, t, i, j =>
    match t.slots.getD i none with
    | none => none
    | some s =>
      if j > probe t.nslots i s.stored then none
      else if keyEq addr s.k key then some s.v
      else getLoop addr key fuel t ((i + 1) % t.nslots) (j + 1)

/-- `Table_Get` (`Table_Mem` = whether it finds) -/
def tableGet (addr : Nat → Bytes) (t : Table) (key : Scalar) : Option Scalar :=
  if t.nslots = 0 then none
  else getLoop addr key (t.nslots + 1) t ((scalarHash addr key).toNat % t.nslots) 0

/-- `Table_New` with `pairs`, and `Table_Assign` from an iteration: `nslots = ideal(len)`, entries inserted in order without
    resizing -/
def tableOfEntries (addr : Nat → Bytes) (es : List (Scalar × Scalar)) : Table :=
  let n := idealSize es.length
  if n = 0 then Table.empty
  else es.foldl (fun acc e => setMove addr acc e.1 e.2) ⟨n, Array.replicate n none, 0⟩

/-! ### the same Table code with its slot copies spelt out: every `memcpy` of a slot moves `Table_Step(t)` words -/

def tableStepW (L : Layout) : Nat := evalSize L CelloGen.Hash.tableStepTerms

/-- the words of slot memory: home + 1, key header, key, value header, value; an empty slot is zeroed -/
def slotCells (L : Layout) : Option Slot → List Cell
  | none => List.replicate (tableStepW L) .zero
  | some s => .tag s.stored ::
      (List.replicate L.hw (.hdr false) ++ scalarCells s.k ++ (List.replicate L.hw (.hdr true) ++ scalarCells s.v))

/-- read a slot back (`Table_Key_Hash` = 0: empty; `Table_Key`, `Table_Val` at their offsets); `tmpl` gives the types -/
def slotOfCells (L : Layout) (tmpl : Slot) (cs : List Cell) : Option Slot :=
  match cs with
  | .tag n :: _ =>
    if n = 0 then none
    else some ⟨n, scalarOfCells tmpl.k ((cs.drop (evalSize L CelloGen.Hash.tableKeyOff)).take L.kw),
                  scalarOfCells tmpl.v ((cs.drop (evalSize L CelloGen.Hash.tableValOff)).take L.vw)⟩
  | _ => none

/-- `memcpy(dst, src, Table_Step(t))` of the slot `src` over the slot memory `dst` -/
def copySlot (L : Layout) (src : Slot) (dst : Option Slot) : Option Slot :=
  slotOfCells L src (blit 0 0 (tableStepW L) (slotCells L (some src)) (slotCells L dst))

/-- `sspace0` as `Table_Set_Move(t, key, val, true)` fills it from the old slot `Table_Rehash` points into: zeroed, the new
    home + 1, then `memcpy(sspace0 + …, key - sizeof(struct Header), ksize + sizeof(struct Header))` and the same for the value -/
def loadSlot (L : Layout) (home1 : Nat) (old : Slot) : Option Slot :=
  let oc := slotCells L (some old)
  let s0 := Cell.tag home1 :: List.replicate (tableStepW L - 1) .zero
  let s1 := blit (evalSize L CelloGen.Hash.tableMoveKeyDst) (evalSize L CelloGen.Hash.tableRehashKeyOff - L.hw)
              (evalSize L CelloGen.Hash.tableMoveKeySize) oc s0
  let s2 := blit (evalSize L CelloGen.Hash.tableMoveValDst) (evalSize L CelloGen.Hash.tableRehashValOff - L.hw)
              (evalSize L CelloGen.Hash.tableMoveValSize) oc s1
  slotOfCells L old s2

/-- the loop of `Table_Set_Move`: `cur` = `sspace0`, `sp1` = `sspace1` (zeroed on entry, stale afterwards). The `none` arms
    (a copied slot reads back as empty) are not reached when the widths cover the slot (`setMoveLoopW_eq`). -/
def setMoveLoopW (addr : Nat → Bytes) (L : Layout) : Nat → Table → Slot → Option Slot → Nat → Nat → Table
  | 0, t, _, _, _, _ => t
  | fuel + 1, t, cur, sp1, i, j =>
    match t.slots.getD i none with
    | none => { t with slots := t.slots.setIfInBounds i (copySlot L cur none), nitems := t.nitems + 1 }
    | some s =>
      if keyEq addr s.k cur.k then { t with slots := t.slots.setIfInBounds i (copySlot L cur (some s)) }
      else
        let p := probe t.nslots i s.stored
        if j > p then
          -- memcpy(sspace1, slot, step); memcpy(slot, sspace0, step); memcpy(sspace0, sspace1, step)
          match copySlot L s sp1 with
          | none => t
          | some s1 =>
            let t' := { t with slots := t.slots.setIfInBounds i (copySlot L cur (some s)) }
            match copySlot L s1 (some cur) with
            | none => t'
            | some cur' => setMoveLoopW addr L fuel t' cur' (some s1) ((i + 1) % t.nslots) (p + 1)
        else
          setMoveLoopW addr L fuel t cur sp1 ((i + 1) % t.nslots) (j + 1)

/-- `Table_Set_Move(t, key, val, false)`: `sspace0` gets fresh headers and the assigned key and value -/
def setMoveW (addr : Nat → Bytes) (L : Layout) (t : Table) (k v : Scalar) : Table :=
  let i := (scalarHash addr k).toNat % t.nslots
  setMoveLoopW addr L (2 * t.nslots + 2) t ⟨i + 1, k, v⟩ none i 0

/-- `Table_Set_Move(t, key, val, true)` with `key`, `val` pointing into the old slot `old` -/
def setMoveFromW (addr : Nat → Bytes) (L : Layout) (t : Table) (old : Slot) : Table :=
  let i := (scalarHash addr old.k).toNat % t.nslots
  match loadSlot L (i + 1) old with
  | none => t
  | some cur => setMoveLoopW addr L (2 * t.nslots + 2) t cur none i 0

/-- `Table_Rehash` -/
def rehashW (addr : Nat → Bytes) (L : Layout) (t : Table) (newSize : Nat) : Table :=
  let fresh : Table := ⟨newSize, Array.replicate newSize none, 0⟩
  t.entriesInSlotOrder.foldl (fun acc s => setMoveFromW addr L acc s) fresh

/-- `Table_Set` -/
def tableSetW (addr : Nat → Bytes) (L : Layout) (t : Table) (k v : Scalar) : Table :=
  let t := if t.nslots = 0 then rehashW addr L t (idealSize 0) else t
  let t := setMoveW addr L t k v
  let n := idealSize t.nitems
  if n > t.nslots then rehashW addr L t n else t

/-- the back-shift loop of `Table_Rem`: `memcpy(slot i, slot ni, step); memset(slot ni, 0, step)` -/
def backShiftW (L : Layout) : Nat → Table → Nat → Table
  | 0, t, _ => t
  | fuel + 1, t, i =>
    let ni := (i + 1) % t.nslots
    match t.slots.getD ni none with
    | some s =>
      if probe t.nslots ni s.stored > 0 then
        backShiftW L fuel { t with slots := (t.slots.setIfInBounds i (copySlot L s none)).setIfInBounds ni none } ni
      else t
    | none => t

def remLoopW (addr : Nat → Bytes) (L : Layout) (key : Scalar) : Nat → Table → Nat → Nat → Option Table
  | 0, _, _, _ => none
  | fuel + 1, t, i, j =>
    match t.slots.getD i none with
    | none => none
    | some s =>
      if j > probe t.nslots i s.stored then none
      else if keyEq addr s.k key then
        let t := backShiftW L t.nslots { t with slots := t.slots.setIfInBounds i none } i
        let t := { t with nitems := t.nitems - 1 }
        let n := idealSize t.nitems
        some (if n < t.nslots then rehashW addr L t n else t)
      else remLoopW addr L key fuel t ((i + 1) % t.nslots) (j + 1)

/-- `Table_Rem`: `none` = KeyError -/
def tableRemW (addr : Nat → Bytes) (L : Layout) (t : Table) (key : Scalar) : Option Table :=
  if t.nslots = 0 then none
  else remLoopW addr L key (t.nslots + 1) t ((scalarHash addr key).toNat % t.nslots) 0

/-- `Table_New` with pairs / `Table_Assign` -/
def tableOfEntriesW (addr : Nat → Bytes) (L : Layout) (es : List (Scalar × Scalar)) : Table :=
  let n := idealSize es.length
  if n = 0 then Table.empty
  else es.foldl (fun acc e => setMoveW addr L acc e.1 e.2) ⟨n, Array.replicate n none, 0⟩

def slotSizedB (L : Layout) (s : Slot) : Bool := s.stored != 0 && sizedB L.kw s.k && sizedB L.vw s.v

def Table.entries (t : Table) : List (Scalar × Scalar) := t.entriesInSlotOrder.map fun s => (s.k, s.v)

/-- executable form of the Table invariant "no two entries have eq keys" (checked by the driver on the Table states the op
    files reach; the hypothesis of the Table copy/assign theorems) -/
def entryKeysDistinctB (addr : Nat → Bytes) : List (Scalar × Scalar) → Bool
  | [] => true
  | e :: es => es.all (fun f => !keyEq addr e.1 f.1 && !keyEq addr f.1 e.1) && entryKeysDistinctB addr es

/-! ## Tree: its iteration sequence (in-order walk; `Tree_Set` sends larger keys to the left, so keys descend) -/

/-- `Tree_Set`: an entry whose key compares equal is overwritten (key and value are assigned), otherwise inserted in order -/
def treeSet (addr : Nat → Bytes) : List (Scalar × Scalar) → Scalar → Scalar → List (Scalar × Scalar)
  | [], k, v => [(k, v)]
  | e :: es, k, v =>
    match scalarCmp addr e.1 k with
    | some c => if c = 0 then (k, v) :: es else if c < 0 then (k, v) :: e :: es else e :: treeSet addr es k v
    | none => e :: es

/-- `Tree_Rem`: `none` = KeyError -/
def treeRem (addr : Nat → Bytes) : List (Scalar × Scalar) → Scalar → Option (List (Scalar × Scalar))
  | [], _ => none
  | e :: es, k => if keyEq addr e.1 k then some es else (treeRem addr es k).map (e :: ·)

/-- executable form of the Tree invariant "keys strictly descend along the iteration" (checked by the driver on every Tree
    state the op files reach) -/
def treeSeqB (addr : Nat → Bytes) : List (Scalar × Scalar) → Bool
  | [] => true
  | e :: es => es.all (fun f => match scalarCmp addr e.1 f.1 with | some c => decide (0 < c) | none => false) && treeSeqB addr es

/-- the same invariant checked on neighbours only (linear; `treeSeqAdjB_sound`: the comparison is transitive) -/
def treeSeqAdjB (addr : Nat → Bytes) : List (Scalar × Scalar) → Bool
  | e :: f :: rest =>
    (match scalarCmp addr e.1 f.1 with | some c => decide (0 < c) | none => false) && treeSeqAdjB addr (f :: rest)
  | _ => true

def treeOfEntries (addr : Nat → Bytes) (es : List (Scalar × Scalar)) : List (Scalar × Scalar) :=
  es.foldl (fun acc e => treeSet addr acc e.1 e.2) []

/-! ### the Tree as a binary search tree of entries: `Tree_Set`, `Tree_Rem` with the relocation of the in-order neighbour

  Nodes carry no colour: `Tree_Set_Fix`, `Tree_Rem_Fix`, the rotations and `Tree_Replace` relink and recolour, they move no
  payload and keep the in-order sequence, so they are invisible to `hash`, `cmp`, `assign` and iteration. Larger keys are on the
  left. -/

inductive Sh where
  | nil
  | node (l : Sh) (e : Scalar × Scalar) (r : Sh)
deriving Repr

/-- in-order sequence left → right: what `Tree_Iter_Init` / `Tree_Iter_Next` visit -/
def Sh.toList : Sh → List (Scalar × Scalar)
  | .nil => []
  | .node l e r => l.toList ++ e :: r.toList

def Sh.size : Sh → Nat
  | .nil => 0
  | .node l _ r => l.size + 1 + r.size

/-- the payload of a node behind its three link words (`Tree_Alloc`): key header, key, value header, value -/
def treeNodeCells (L : Layout) (e : Scalar × Scalar) : List Cell :=
  List.replicate L.hw (.hdr false) ++ scalarCells e.1 ++ (List.replicate L.hw (.hdr true) ++ scalarCells e.2)

/-- read `Tree_Key(m, node)`, `Tree_Val(m, node)` -/
def treeEntryOfCells (L : Layout) (tmpl : Scalar × Scalar) (cs : List Cell) : Scalar × Scalar :=
  (scalarOfCells tmpl.1 ((cs.drop (evalSize L CelloGen.Hash.treeKeyOff)).take L.kw),
   scalarOfCells tmpl.2 ((cs.drop (evalSize L CelloGen.Hash.treeValOff)).take L.vw))

/-- `memcpy((char*)node + 3 * sizeof(var), (char*)pred + 3 * sizeof(var), …)` of `Tree_Rem`: what the node holds afterwards -/
def treeRelocate (L : Layout) (pred node : Scalar × Scalar) : Scalar × Scalar :=
  treeEntryOfCells L pred
    (blit 0 0 (evalSize L CelloGen.Hash.treeRemMoveSize) (treeNodeCells L pred) (treeNodeCells L node))

/-- `Tree_Set`: `c = cmp(Tree_Key(node), key)`; 0: assign key and value in place; `c < 0`: left; else right -/
def shSet (addr : Nat → Bytes) : Sh → Scalar → Scalar → Sh
  | .nil, k, v => .node .nil (k, v) .nil
  | .node l e r, k, v =>
    match scalarCmp addr e.1 k with
    | some c => if c = 0 then .node l (k, v) r else if c < 0 then .node (shSet addr l k v) e r else .node l e (shSet addr r k v)
    | none => .node l e r

/-- `Tree_Get` / `Tree_Mem`: `c = cmp(Tree_Key(node), key)`; 0: found; `c < 0`: left; else right; `none` = KeyError / false -/
def shGet (addr : Nat → Bytes) : Sh → Scalar → Option Scalar
  | .nil, _ => none
  | .node l e r, k =>
    match scalarCmp addr e.1 k with
    | some c => if c = 0 then some e.2 else if c < 0 then shGet addr l k else shGet addr r k
    | none => none

/-- `Tree_Maximum` from a non-NULL node: the entry at the end of the right links, and the subtree once that node (which has no
    right child) is replaced by its left child -/
def shMax : Sh → Option ((Scalar × Scalar) × Sh)
  | .nil => none
  | .node l e r =>
    match shMax r with
    | none => some (e, l)
    | some (m, r') => some (m, .node l e r')

/-- `Tree_Rem` once the node is found: with two children the in-order neighbour (the maximum of the left subtree) is copied over
    the node and unlinked instead; otherwise `chld = right is NULL ? left : right` takes the node's place -/
def shRemHere (L : Layout) (l : Sh) (e : Scalar × Scalar) (r : Sh) : Sh :=
  match l, r with
  | .node .., .node .. =>
    match shMax l with
    | some (p, l') => .node l' (treeRelocate L p e) r
    | none => r
  | l, .nil => l
  | .nil, r => r

/-- `Tree_Rem`: `none` = KeyError -/
def shRem (addr : Nat → Bytes) (L : Layout) : Sh → Scalar → Option Sh
  | .nil, _ => none
  | .node l e r, k =>
    match scalarCmp addr e.1 k with
    | some c =>
      if c = 0 then some (shRemHere L l e r)
      else if c < 0 then (shRem addr L l k).map (fun l' => .node l' e r)
      else (shRem addr L r k).map (fun r' => .node l e r')
    | none => none

/-- `Tree_New` with pairs / `Tree_Assign`: `Tree_Set` for each pair in order -/
def shOfEntries (addr : Nat → Bytes) (es : List (Scalar × Scalar)) : Sh :=
  es.foldl (fun acc e => shSet addr acc e.1 e.2) .nil

def entrySizedB (L : Layout) (e : Scalar × Scalar) : Bool := sizedB L.kw e.1 && sizedB L.vw e.2

/-! ## Array: the memmoves of `Array_Pop_At` / `Array_Push_At` over the element memory -/

def arrayStepW (L : Layout) : Nat := evalSize L CelloGen.Hash.arrayStepTerms

/-- one element slot: header, then the value (`Array_Item` = slot + `arrayItemOff`) -/
def elemCells (L : Layout) (s : Scalar) : List Cell := List.replicate L.hw (.hdr true) ++ scalarCells s

def elemsCells (L : Layout) (xs : List Scalar) : List Cell := xs.flatMap (elemCells L)

/-- read `tmpl.length` consecutive element slots (`tmpl` gives the types) -/
def elemsOfCells (L : Layout) : List Scalar → List Cell → List Scalar
  | [], _ => []
  | t :: ts, cs =>
    scalarOfCells t ((cs.drop (evalSize L CelloGen.Hash.arrayItemOff)).take L.vw) :: elemsOfCells L ts (cs.drop (arrayStepW L))

/-- `Array_Pop_At(a, i)` for `i < nitems`: `memmove(data + step * (i + 0), data + step * (i + 1), step * ((nitems - 1) - i))`,
    then `nitems--` -/
def arrayPopAt (L : Layout) (items : List Scalar) (i : Nat) : List Scalar :=
  let step := arrayStepW L
  let mem := elemsCells L items
  let mem' := blit (step * (i + CelloGen.Hash.arrayPopAtDst)) (step * (i + CelloGen.Hash.arrayPopAtSrc))
                (step * ((items.length - 1) - i)) mem mem
  elemsOfCells L (items.take i ++ items.drop (i + 1)) mem'

/-- `Array_Push_At(a, x, i)` for `i ≤ nitems`: `nitems++`, reserve (the new last slot: zeroed here), `memmove(data + step *
    (i + 1), data + step * (i + 0), step * ((nitems - 1) - i))`, then slot `i` is initialised and assigned `x` -/
def arrayPushAt (L : Layout) (items : List Scalar) (i : Nat) (x : Scalar) : List Scalar :=
  let step := arrayStepW L
  let mem := elemsCells L items ++ List.replicate step .zero
  let mem' := blit (step * (i + CelloGen.Hash.arrayPushAtDst)) (step * (i + CelloGen.Hash.arrayPushAtSrc))
                (step * (((items.length + 1) - 1) - i)) mem mem
  elemsOfCells L (items.take i) mem' ++ x :: elemsOfCells L (items.drop i) (mem'.drop (step * (i + 1)))

/-! ## objects -/

inductive Cls where
  | stack | heap | embedded
deriving DecidableEq, Repr

inductive SeqKind where
  | array | list
deriving DecidableEq, Repr

inductive Val where
  | sc (s : Scalar)
  | seq (kind : SeqKind) (ety : Ty) (items : List Scalar)
  | tuple (items : List Nat)                          -- the objects pointed to
  | table (kt vt : Ty) (t : Table)
  | tree (kt vt : Ty) (t : Sh)
deriving Repr

/-- an object: the allocation class of its header, its value, and — for a String / Tuple, whose struct holds a pointer to a
    separately allocated buffer (`val` / `items`) — the class of the memory that buffer lies in (`heap`: got from `malloc` /
    `realloc`; `stack`: a literal, an array in a frame, static storage — what `$S("…")` and `tuple(…)` build). For every other value
    `buf` is not looked at. -/
structure Obj where
  cls : Cls
  val : Val
  buf : Cls := .heap
deriving Repr

abbrev Store := Array (Option Obj)

def Store.get (st : Store) (id : Nat) : Option Obj := st.getD id none

/-- the scalar held by object `id` (Tuple items are scalar objects in this engine) -/
def Store.scalar (st : Store) (id : Nat) : Option Scalar :=
  match st.get id with
  | some ⟨_, .sc s, _⟩ => some s
  | _ => none

/-- element sequence of a sequence-like value, Tuple items resolved through the store -/
def seqItems (st : Store) : Val → Option (List Scalar)
  | .seq _ _ items => some items
  | .tuple ids => ids.mapM st.scalar
  | _ => none

def mapEntries : Val → Option (List (Scalar × Scalar))
  | .table _ _ t => some t.entries
  | .tree _ _ t => some t.toList
  | _ => none

/-- `hash(obj)` -/
def valHash (addr : Nat → Bytes) (st : Store) : Val → UInt64
  | .sc s => scalarHash addr s
  | .seq .array _ items => seqHash CelloGen.Hash.arrayComb (scalarHash addr) items
  | .seq .list _ items => seqHash CelloGen.Hash.listComb (scalarHash addr) items
  | .tuple ids => seqHash CelloGen.Hash.tupleComb (scalarHash addr) ((ids.mapM st.scalar).getD [])
  | .table _ _ t => mapHash CelloGen.Hash.tableComb (scalarHash addr) (scalarHash addr) t.entries
  | .tree _ _ t => mapHash CelloGen.Hash.treeComb (scalarHash addr) (scalarHash addr) t.toList

/-- `hash(obj)` with the five container hashes run as the programs extracted from `Array_Hash` … `Tree_Hash` -/
def valHashSrc (addr : Nat → Bytes) (st : Store) : Val → UInt64
  | .sc s => scalarHash addr s
  | .seq .array _ items => seqHashSrc CelloGen.Hash.arrayHashProg (scalarHash addr) items
  | .seq .list _ items => seqHashSrc CelloGen.Hash.listHashProg (scalarHash addr) items
  | .tuple ids => seqHashSrc CelloGen.Hash.tupleHashProg (scalarHash addr) ((ids.mapM st.scalar).getD [])
  | .table _ _ t => mapHashSrc CelloGen.Hash.tableHashProg (scalarHash addr) (scalarHash addr) t.entries
  | .tree _ _ t => mapHashSrc CelloGen.Hash.treeHashProg (scalarHash addr) (scalarHash addr) t.toList

/-- `cmp(a, b)` (sign); `none` = TypeError / not exercised.
    A sequence on the left (`Array_Cmp` / `List_Cmp` / `Tuple_Cmp`) walks the right operand with `iter_init` / `iter_next`: a Table
    or a Tree then presents its KEYS, in its iteration order, and the values are never looked at (KF-C10-seq-map-eq).
    A Table / Tree on the left against a sequence (`Table_Cmp` / `Tree_Cmp`) calls `get(obj, item)` with the sequence's element as
    the index — IndexOutOfBoundsError / TypeError for most operands, an unrelated element for the rest: `none`, not exercised. -/
def valCmp (addr : Nat → Bytes) (st : Store) (a b : Val) : Option Int :=
  match a, b with
  | .sc x, .sc y => scalarCmp addr x y
  | _, _ =>
    match seqItems st a, seqItems st b with
    | some xs, some ys => seqCmp (scalarCmp addr) xs ys
    | some xs, none =>
      match mapEntries b with
      | some es => seqCmp (scalarCmp addr) xs (es.map Prod.fst)
      | none => none
    | _, _ =>
      match mapEntries a, mapEntries b with
      | some xs, some ys => mapCmp (scalarCmp addr) (scalarCmp addr) xs ys
      | _, _ => none

/-- how a call ends other than by returning: the Cello exceptions, and `undefined` — no exception at all: the call leaves the
    defined behaviour (reads a freed block, hands `realloc` / `free` a pointer that did not come from `malloc`) -/
inductive Exc where
  | valueError | typeError | keyError | indexError | formatError | undefined
deriving DecidableEq, Repr

def Exc.name : Exc → String
  | .valueError => "ValueError" | .typeError => "TypeError" | .keyError => "KeyError"
  | .indexError => "IndexOutOfBoundsError" | .formatError => "FormatError" | .undefined => "undefined"

/-- `assign(self, obj)` for the pairs this engine exercises; `self` has allocation class `cls`.
    Scalars: Int/Float copy the number, String reallocates (refused for a stack/static String), plain structs `memcpy`,
    Ref/Box copy the pointer, Type refuses. Array/List: clear, take the source's element type, copy the items. Tuple: copy the
    pointers (refused for a stack Tuple). Table: clear, `nslots = ideal(len)`, insert in the source's iteration order (with the
    slot copies of `Table_Set_Move` at the widths of the source's key and value types). Tree: clear, insert in the source's
    iteration order. -/
def assignVal (addr : Nat → Bytes) (st : Store) (cls : Cls) (self src : Val) : Except Exc Val :=
  match self, src with
  | .sc (.int _), .sc (.int v) => .ok (.sc (.int v))
  | .sc (.float _), .sc (.float v) => .ok (.sc (.float v))
  | .sc (.str _), .sc (.str v) => if cls = .stack then .error .valueError else .ok (.sc (.str v))
  | .sc (.typ _), .sc (.typ _) => .error .valueError
  | .sc (.ptr b _), .sc (.ptr _ t) => .ok (.sc (.ptr b t))
  | .sc (.raw k _), .sc (.raw k' v) => if k = k' then .ok (.sc (.raw k v)) else .error .typeError
  | .seq kind _ _, .seq _ ety items => .ok (.seq kind ety items)
  -- Array_Assign / List_Assign from a Tuple: a Tuple has no `iter_type`, the element type becomes Ref, and each slot is assigned
  -- the item: a reference to it (KF-C10-assign-from-tuple: the result is not eq to the Tuple)
  | .seq kind _ _, .tuple ids => .ok (.seq kind .ref (ids.map fun i => .ptr false i))
  | .tuple _, .tuple ids => if cls = .stack then .error .valueError else .ok (.tuple ids)
  | .table _ _ _, .table kt vt t => .ok (.table kt vt (tableOfEntriesW addr (layoutOf kt vt) t.entries))
  | .table _ _ _, .tree kt vt s => .ok (.table kt vt (tableOfEntriesW addr (layoutOf kt vt) s.toList))
  | .tree _ _ _, .tree kt vt s => .ok (.tree kt vt (shOfEntries addr s.toList))
  | .tree _ _ _, .table kt vt t => .ok (.tree kt vt (shOfEntries addr t.entries))
  | _, _ => let _ := st; .error .typeError

/-- which of the container `Assign`s return at once when `self is obj` -/
structure SelfGuards where
  array : Bool
  list : Bool
  table : Bool
  tree : Bool
  /-- `String_Assign`: `if (val is s->val) { return; }` between `char* val = c_str(obj);` and the `realloc` (fix 744a45f) -/
  string : Bool := true
  /-- … and before the allocation-class test -/
  stringFirst : Bool := true
deriving DecidableEq, Repr

/-- the guards of the source as it is now (fix a3140e4: the four containers; fix 744a45f: String) -/
def srcSelfGuards : SelfGuards :=
  ⟨CelloGen.Hash.arrayAssignSelfGuard, CelloGen.Hash.listAssignSelfGuard, CelloGen.Hash.tableAssignSelfGuard,
   CelloGen.Hash.treeAssignSelfGuard, CelloGen.Hash.stringAssignSelfGuard, CelloGen.Hash.stringAssignSelfGuardFirst⟩

/-- the code before fix 744a45f: the four container guards, none in `String_Assign` -/
def oldStringSelfGuards : SelfGuards := ⟨true, true, true, true, false, false⟩

/-- `assign(x, x)`: a guarded container returns at once; an unguarded one (the code before a3140e4) clears itself and then
    iterates over the — now empty — source. Int / Float / plain struct / Ref / Box / Type behave as for any source. A heap Tuple
    reallocates its pointer array to the same length and copies the pointers over themselves; a stack Tuple refuses. A String:
    `char* val = c_str(obj);` is the String's own buffer; with the guard `if (val is s->val) { return; }` (fix 744a45f) nothing
    happens, whatever the allocation class (the guard stands before the class test); without it a stack String refuses and a
    heap String reallocates its buffer and then `strcpy`s from the old pointer — the freed block: `undefined`. -/
def assignSelfValWith (g : SelfGuards) (addr : Nat → Bytes) (st : Store) (cls : Cls) (v : Val) : Except Exc Val :=
  match v with
  | .sc (.str b) =>
    if g.string && g.stringFirst then .ok (.sc (.str b))
    else if cls = .stack then .error .valueError
    else if g.string then .ok (.sc (.str b))
    else .error .undefined
  | .seq .array ety items => .ok (if g.array then .seq .array ety items else .seq .array ety [])
  | .seq .list ety items => .ok (if g.list then .seq .list ety items else .seq .list ety [])
  | .table kt vt t => .ok (if g.table then .table kt vt t else .table kt vt (tableOfEntriesW addr (layoutOf kt vt) []))
  | .tree kt vt t => .ok (if g.tree then .tree kt vt t else .tree kt vt .nil)
  | v => assignVal addr st cls v v

/-- `assign(x, x)` of the current source -/
def assignSelfVal (addr : Nat → Bytes) (st : Store) (cls : Cls) (v : Val) : Except Exc Val :=
  assignSelfValWith srcSelfGuards addr st cls v

/-- the zero-initialised object `alloc(type_of(x))` returns -/
def blankOf : Val → Val
  | .sc (.int _) => .sc (.int 0)
  | .sc (.float _) => .sc (.float 0)
  | .sc (.str _) => .sc (.str [])
  | .sc (.typ n) => .sc (.typ n)
  | .sc (.ptr b _) => .sc (.ptr b 0)
  | .sc (.raw k b) => .sc (.raw k (b.map fun _ => 0))
  | .seq kind ety _ => .seq kind ety []
  | .tuple _ => .tuple []
  | .table kt vt _ => .table kt vt Table.empty
  | .tree kt vt _ => .tree kt vt .nil

/-- `copy(x)` = `assign(alloc(type_of(x)), x)` (Type overrides Copy and refuses) -/
def copyVal (addr : Nat → Bytes) (st : Store) (x : Val) : Except Exc Val :=
  assignVal addr st .heap (blankOf x) x

/-! ## `memswap` (src/Assign.c) as a program: the byte-wise default behind `swap`, also what `Array_Sort_Partition` moves elements with

  The translator extracts the body of `memswap(p0, p1, s)` behind its guard `if (p0 == p1) { return; }` as a list of blocks
  (CelloGen/Hash.lean: `memswapProg`) — loops over the remaining count `s`, each with straight-line statements that load a
  temporary, copy between the two objects, store the temporary, advance the two cursors and decrement the count. `runSwapProg`
  executes such a program on two objects given as lists of bytes (of any type `α`: bytes, or tags saying where a byte came from).
  An access outside the objects, a count that would wrap below zero and a loop that does not end are the outcome `ub`. -/

open CelloGen.Hash (SwPtr SwStmt SwBlock)

/-- state of `memswap`: the two objects, the cursors into them (byte offsets from `p0` / `p1`), the count, the loop variable,
    the temporary, and whether the run has left the defined behaviour -/
structure SwSt (α : Type) where
  m0 : List α
  m1 : List α
  a : Nat
  b : Nat
  s : Nat
  i : Nat
  t : List α
  ub : Bool

namespace SwSt
variable {α : Type}

def mem (σ : SwSt α) : SwPtr → List α
  | .a => σ.m0
  | .b => σ.m1

def cur (σ : SwSt α) : SwPtr → Nat
  | .a => σ.a
  | .b => σ.b

def setMem (σ : SwSt α) : SwPtr → List α → SwSt α
  | .a, m => { σ with m0 := m }
  | .b, m => { σ with m1 := m }

/-- the byte offset a memory statement addresses: the cursor, plus `i * w` for `p[i]` -/
def off (σ : SwSt α) (p : SwPtr) (idx : Bool) (w : Nat) : Nat := σ.cur p + (if idx then σ.i * w else 0)

end SwSt

/-- the `w` bytes at offset `o` -/
def window (m : List α) (o w : Nat) : List α := (m.drop o).take w

/-- `m` with the bytes from offset `o` on overwritten by `x` -/
def splice (m : List α) (o : Nat) (x : List α) : List α := m.take o ++ (x ++ m.drop (o + x.length))

/-- one statement -/
def runStmt (σ : SwSt α) : SwStmt → SwSt α
  | .load p idx w =>
    if σ.off p idx w + w ≤ (σ.mem p).length then { σ with t := window (σ.mem p) (σ.off p idx w) w } else { σ with ub := true }
  | .move d s idx w =>
    if σ.off d idx w + w ≤ (σ.mem d).length ∧ σ.off s idx w + w ≤ (σ.mem s).length then
      σ.setMem d (splice (σ.mem d) (σ.off d idx w) (window (σ.mem s) (σ.off s idx w) w))
    else { σ with ub := true }
  | .store p idx w =>
    if σ.off p idx w + w ≤ (σ.mem p).length ∧ w ≤ σ.t.length then σ.setMem p (splice (σ.mem p) (σ.off p idx w) (σ.t.take w))
    else { σ with ub := true }
  | .adv .a k => { σ with a := σ.a + k }
  | .adv .b k => { σ with b := σ.b + k }
  | .dec k => if k ≤ σ.s then { σ with s := σ.s - k } else { σ with ub := true }   -- `size_t` would wrap: the loops then run off the objects

/-- the statements of a block body in order -/
def runBody (σ : SwSt α) : List SwStmt → SwSt α
  | [] => σ
  | st :: rest => if σ.ub then σ else runBody (runStmt σ st) rest

/-- `while (s >= k) { body }`; out of fuel with the condition still true = the loop does not end -/
def loopGe (k : Nat) (body : List SwStmt) : Nat → SwSt α → SwSt α
  | 0, σ => if σ.ub then σ else if k ≤ σ.s then { σ with ub := true } else σ
  | f + 1, σ => if σ.ub then σ else if k ≤ σ.s then loopGe k body f (runBody σ body) else σ

/-- `while (s--) { body }`: the count is decremented before the body runs, and once more (wrapping) when the loop is left -/
def loopDec (body : List SwStmt) : Nat → SwSt α → SwSt α
  | 0, σ => if σ.ub then σ else if σ.s = 0 then { σ with s := 2 ^ 64 - 1 } else { σ with ub := true }
  | f + 1, σ =>
    if σ.ub then σ else if σ.s = 0 then { σ with s := 2 ^ 64 - 1 } else loopDec body f (runBody { σ with s := σ.s - 1 } body)

/-- `for (…; i < s / div; i++) { body }` from the current `i` -/
def loopFor (div : Nat) (body : List SwStmt) : Nat → SwSt α → SwSt α
  | 0, σ => if σ.ub then σ else if σ.i < σ.s / div then { σ with ub := true } else σ
  | f + 1, σ =>
    if σ.ub then σ else if σ.i < σ.s / div then loopFor div body f { runBody σ body with i := (runBody σ body).i + 1 } else σ

def runBlock (σ : SwSt α) : SwBlock → SwSt α
  | .forIdx div body => if div = 0 then { σ with ub := true } else { loopFor div body (σ.s + 1) { σ with i := 0 } with i := 0 }
  | .whileGe k body => loopGe k body (σ.s + 1) σ
  | .ifGe k body => if k ≤ σ.s then runBody σ body else σ
  | .whileDec body => loopDec body (σ.s + 1) σ

def runBlocks (σ : SwSt α) : List SwBlock → SwSt α
  | [] => σ
  | blk :: rest => if σ.ub then σ else runBlocks (runBlock σ blk) rest

/-- `memswap(p0, p1, s)` given as `prog`, on two different objects `x`, `y` of `s = x.length` bytes: what they hold afterwards;
    `none` = undefined behaviour -/
def runSwapProg (prog : List SwBlock) (x y : List α) : Option (List α × List α) :=
  let σ := runBlocks ⟨x, y, 0, 0, x.length, 0, [], false⟩ prog
  if σ.ub then none else some (σ.m0, σ.m1)

/-- `memswap` as it is in the source now -/
def memswapSrc (x y : List α) : Option (List α × List α) := runSwapProg CelloGen.Hash.memswapProg x y

/-! ### which programs exchange: a decidable sufficient shape (`swapProg_exchanges` in CelloProofs/Lemmas/HashSwap.lean) -/

/-- what a block body does when it is an exchange step: `w` bytes at the two cursors (at `p[i]` when `idx`) change sides, the
    cursors move on `da` / `db` bytes, the count drops by `ds` -/
structure Exch where
  w : Nat
  da : Nat
  db : Nat
  ds : Nat
  idx : Bool
deriving DecidableEq, Repr

/-- totals of a run of pointer steps and count decrements; `none` when a memory statement occurs -/
def bookOf : List SwStmt → Option (Nat × Nat × Nat)
  | [] => some (0, 0, 0)
  | .adv .a k :: r => (bookOf r).map fun t => (t.1 + k, t.2.1, t.2.2)
  | .adv .b k :: r => (bookOf r).map fun t => (t.1, t.2.1 + k, t.2.2)
  | .dec k :: r => (bookOf r).map fun t => (t.1, t.2.1, t.2.2 + k)
  | _ => none

/-- the leading steps of the cursor into `p` (the `++` of `*a++ = *b;` stands before `*b++ = t;`): their total, and the rest -/
def splitAdv (p : SwPtr) : List SwStmt → Nat × List SwStmt
  | .adv q k :: r => if q = p then ((splitAdv p r).1 + k, (splitAdv p r).2) else (0, .adv q k :: r)
  | r => (0, r)

/-- a body of the shape  load p; copy p ← q; (steps of p's cursor); store q; (steps and decrements)  with one width throughout -/
def exchBody : List SwStmt → Option Exch
  | .load p idx w :: .move d s idx' w' :: rest =>
    match splitAdv p rest with
    | (k1, .store q idx'' w'' :: bk) =>
      match bookOf bk with
      | some (x, y, z) =>
        if d = p ∧ s = q ∧ p ≠ q ∧ idx' = idx ∧ idx'' = idx ∧ w' = w ∧ w'' = w then
          some ⟨w, (if p = .a then k1 else 0) + x, (if p = .b then k1 else 0) + y, z, idx⟩
        else none
      | none => none
    | _ => none
  | _ => none

/-- a block before the last: an exchange step of `w ≥ 1` bytes that moves both cursors and the count by `w`, guarded by
    `s >= k` with `k ≥ w` -/
def blockOk : SwBlock → Bool
  | .whileGe k body | .ifGe k body =>
    match exchBody body with
    | some e => e.idx == false && decide (1 ≤ e.w) && decide (e.w ≤ k) && e.da == e.w && e.db == e.w && e.ds == e.w
    | none => false
  | _ => false

/-- the last block: a byte loop that runs until nothing is left — `while (s >= 1)` / `while (s--)` over the cursors, or
    `for (i = 0; i < s; i++)` over `p[i]` -/
def lastOk : SwBlock → Bool
  | .whileGe k body => k == 1 && exchBody body == some ⟨1, 1, 1, 1, false⟩
  | .whileDec body => exchBody body == some ⟨1, 1, 1, 0, false⟩
  | .forIdx div body => div == 1 && exchBody body == some ⟨1, 0, 0, 0, true⟩
  | _ => false

/-- blocks of exchange steps of any widths, closed by a byte loop -/
def swapOk : List SwBlock → Bool
  | [] => false
  | [blk] => lastOk blk
  | blk :: rest => blockOk blk && swapOk rest

/-! ## swap -/

/-- `size(type)` of the struct `swap` exchanges -/
def structBytes (name : String) : Nat := 8 * ((CelloGen.Hash.structWords.lookup name).getD 0)

def valStructSize : Val → Nat
  | .sc (.int _) => structBytes "Int"
  | .sc (.float _) => structBytes "Float"
  | .sc (.str _) => structBytes "String"
  | .sc (.typ _) => 0                       -- Type objects are not swapped in this engine
  | .sc (.ptr false _) => structBytes "Ref"
  | .sc (.ptr true _) => structBytes "Box"
  | .sc (.raw k _) => rawSize k
  | .seq .array _ _ => structBytes "Array"
  | .seq .list _ _ => structBytes "List"
  | .tuple _ => structBytes "Tuple"
  | .table _ _ _ => structBytes "Table"
  | .tree _ _ _ => structBytes "Tree"

/-- the two values are of one type (`swap` raises TypeError otherwise) -/
def sameStruct : Val → Val → Bool
  | .sc x, .sc y => x.ty == y.ty
  | .seq k _ _, .seq k' _ _ => k == k'
  | .tuple _, .tuple _ => true
  | .table _ _ _, .table _ _ _ => true
  | .tree _ _ _, .tree _ _ _ => true
  | _, _ => false

/-- the bytes of an `n`-byte struct, each named by the object it belongs to and its position -/
def tagBytes (side : Bool) (n : Nat) : List (Bool × Nat) := (List.range n).map fun j => (side, j)

/-- `memswap` of the structs of two values of one type. A plain struct is its bytes, and the program runs on them. The struct of
    any other value (a number, a buffer pointer, the fields of a container) is followed by position: the values change sides
    when every byte does; `none` = undefined behaviour, or the two structs end up holding a mixture of each other's bytes that is
    no value of the model (half a pointer) -/
def swapVals (x y : Val) : Option (Val × Val) :=
  match x, y with
  | .sc (.raw k bx), .sc (.raw _ by') => (memswapSrc bx by').map fun r => (.sc (.raw k r.1), .sc (.raw k r.2))
  | _, _ =>
    let n := valStructSize x
    match memswapSrc (tagBytes false n) (tagBytes true n) with
    | some r => if r.1 = tagBytes true n ∧ r.2 = tagBytes false n then some (y, x) else none
    | none => none

/-- `swap(self, obj)` on two values: `if (type_of(self) is type_of(obj) and n) { memswap(self, obj, n); return; }`, TypeError
    otherwise; `undefined` = the outcome of `memswap` is no value of the model -/
def swapChecked (x y : Val) : Except Exc (Val × Val) :=
  if sameStruct x y then
    match swapVals x y with
    | some r => .ok r
    | none => .error .undefined
  else .error .typeError

/-- `swap(a, b)` = `memswap` of the two structs: the objects keep their place and their header (allocation class), the structs'
    contents change sides — the value and, for a String / Tuple, the buffer pointer with it (`buf`: the memory the buffer lies
    in goes with the pointer, not with the header). `swap(a, a)` returns at once (the guard `p0 == p1`). -/
def swapObjs (st : Store) (a b : Nat) : Except Exc Store :=
  if a = b then .ok st else
  match st.get a, st.get b with
  | some oa, some ob =>
    (swapChecked oa.val ob.val).map fun r =>
      (st.setIfInBounds a (some { oa with val := r.1, buf := ob.buf })).setIfInBounds b (some { ob with val := r.2, buf := oa.buf })
  | _, _ => .ok st

/-- does the struct of the value hold a pointer to a buffer that the type's methods `realloc` / `free`? (String: `val`, Tuple: `items`) -/
def Val.hasBuffer : Val → Bool
  | .sc (.str _) => true
  | .tuple _ => true
  | _ => false

/-- the object may hand its buffer to `realloc` / `free`: its header refuses (stack / static object: ValueError before the
    call), or the buffer did come from the allocator -/
def Obj.ownsBuffer (o : Obj) : Bool := !o.val.hasBuffer || o.cls == .stack || o.buf != .stack

/-- `assign(o, src)` on an object: a String / Tuple whose header allows reallocation hands its buffer to `realloc` — a buffer
    that is not the allocator's (it came in through `swap` from a stack / static object) is `undefined` (glibc: "realloc():
    invalid pointer", abort); afterwards the buffer is the allocator's -/
def assignObj (addr : Nat → Bytes) (st : Store) (o : Obj) (src : Val) : Except Exc Obj :=
  if !o.ownsBuffer then .error .undefined
  else (assignVal addr st o.cls o.val src).map fun v => { o with val := v, buf := if o.val.hasBuffer then .heap else o.buf }

def swapScalars (x y : Scalar) : Option (Scalar × Scalar) :=
  match swapVals (.sc x) (.sc y) with
  | some (.sc x', .sc y') => some (x', y')
  | _ => none

/-! ## sort: the quicksort of src/Array.c (`Array_Sort_Partition` / `Array_Sort_Part` / `Array_Sort_By`), every element move a `swap` -/

/-- `swap(Array_Item(a, i), Array_Item(a, j))`: the same element = the same address, `memswap` returns at once -/
def swapAt (swp : α → α → Option (α × α)) (arr : Array α) (i j : Nat) : Option (Array α) :=
  if i = j then some arr
  else match arr[i]?, arr[j]? with
    | some x, some y => (swp x y).map fun r => (arr.setIfInBounds i r.1).setIfInBounds j r.2
    | _, _ => none

/-- the `for (i = l; i < r; i++)` loop of `Array_Sort_Partition`: `n` iterations left -/
def partLoopW (swp : α → α → Option (α × α)) (f : α → α → Bool) (r : Nat) : Nat → Nat → Array α → Nat → Option (Array α × Nat)
  | 0, _, a, s => some (a, s)
  | n + 1, i, a, s =>
    match a[i]?, a[r]? with
    | some x, some piv =>
      if f x piv then (swapAt swp a i s).bind fun a' => partLoopW swp f r n (i + 1) a' (s + 1)
      else partLoopW swp f r n (i + 1) a s
    | _, _ => none

/-- `Array_Sort_Partition(a, l, r, f)`: the middle element goes to the right end, Lomuto partition, the pivot to its place `s` -/
def partitionW (swp : α → α → Option (α × α)) (f : α → α → Bool) (a : Array α) (l r : Nat) : Option (Array α × Nat) :=
  (swapAt swp a (l + (r - l) / 2) r).bind fun a1 =>
  (partLoopW swp f r (r - l) l a1 l).bind fun p =>
  (swapAt swp p.1 p.2 r).map fun a3 => (a3, p.2)

/-- `Array_Sort_Part(a, l, r, f)`; the indices are `int64_t` in C and `r = -1` occurs (then `l = 0` and `l < r` is false, as
    it is for `0 < 0` here); the recursion is at most `r - l + 1` deep -/
def sortPartW (swp : α → α → Option (α × α)) (f : α → α → Bool) : Nat → Array α → Nat → Nat → Option (Array α)
  | 0, a, l, r => if l < r then none else some a
  | fuel + 1, a, l, r =>
    if l < r then
      (partitionW swp f a l r).bind fun p =>
      (sortPartW swp f fuel p.1 l (p.2 - 1)).bind fun a2 => sortPartW swp f fuel a2 (p.2 + 1) r
    else some a

/-- `sort_by(self, f)` on the items of an Array -/
def sortW (swp : α → α → Option (α × α)) (f : α → α → Bool) (items : List α) : Option (List α) :=
  (sortPartW swp f (items.length + 1) items.toArray 0 (items.length - 1)).map Array.toList

/-- `lt(a, b)`: `cmp(a, b) < 0` -/
def scalarLt (addr : Nat → Bytes) (x y : Scalar) : Bool :=
  match scalarCmp addr x y with
  | some c => decide (c < 0)
  | none => false

/-- `sort(array)`: `none` = an element swap left no value of the model -/
def arraySort (addr : Nat → Bytes) (items : List Scalar) : Option (List Scalar) := sortW swapScalars (scalarLt addr) items

end Cello.Hash
