"""Link (A) for engine `thr` (C13): the source text the thread model (lean/Cello/Threads.lean) was written against.

Generates lean/CelloGen/Thr.lean:
  * `lockErr trylockErr unlockErr joinErr createErr : List (String × String)` — the pthread error codes that
    Mutex_Lock / Mutex_Trylock / Mutex_Unlock / Thread_Join / Thread_Call test and what each does
    (exception name, or "false"/"true" for a `return`), in source order; `trylockDefault`;
  * `teardownGcFirst : Bool` — Thread_Init_Run calls `del_raw(gc)` before `del_raw(exc)`;
  * `shape : List (String × String)` — for every function the model mirrors (how per-thread state is reached:
    Thread_Current, GC_Current, Exception_Current, the TLS accessors; Thread_Init_Run's prologue/epilogue;
    GC_New/GC_Del, Exception_New/Exception_Del, alloc_by/del_by, start_in/stop_in, the `with` macros, the Mutex
    instance table) its body for the UNIX configuration, comment-free and whitespace-normalised;
    `shapeModelled` — the same texts as they were when the model was written.
  * `threadMarkUnguarded : Bool` — `Thread_Mark` marks `t->tls` without testing `self is current(Thread)`, `Thread` has
    that `Mark` instance, `GC_Recurse` dispatches to the `Mark` instance of any object it meets and `Thread` is not
    among its leaf types: the mark phase of one thread walks the thread-local table of every Thread object it reaches
    (`Cfg.foreignMark`, KF-C13-mark-foreign-tls; true for the current source: the guard `if (self is current(Thread))` of
    commit 80c795e was withdrawn by commit 0a0ad73 — the guarded variant is `foreignMark := false` in the model);
  * `joinErr` has the case `("EDEADLK", "ResourceError")` since commit 484991f (was KF-C13-join-edeadlk); the model's switch
    `Cfg.joinIgnoresDeadlk` is `joinIgnoresDeadlkOf joinErr`.
Theorems `C13_source_shape_as_modelled`, `C13_error_translation_current_source` and `C13_join_repair_in_current_source` are
stated about these definitions: reverting the repair of `Thread_Join` breaks all three.
"""
import re
from ctext import *
from gen import HEADER, lean_str

def pp(body, defined=('CELLO_UNIX',)):
    """resolve #if/#ifdef/#ifndef/#elif/#else/#endif for the UNIX configuration with the collector enabled"""
    out = []; stack = []
    def cond(c):
        c = c.strip()
        m = re.fullmatch(r'defined\s*\(?\s*(\w+)\s*\)?', c)
        if m: return m.group(1) in defined
        return False
    for line in body.split('\n'):
        s = line.strip()
        m = re.match(r'#\s*(ifdef|ifndef|if|elif|else|endif)\b(.*)', s)
        if not m:
            if all(a for _, a in stack): out.append(line)
            continue
        k, rest = m.group(1), m.group(2)
        if k == 'ifdef': v = rest.strip() in defined; stack.append([v, v])
        elif k == 'ifndef': v = rest.strip() not in defined; stack.append([v, v])
        elif k == 'if': v = cond(rest); stack.append([v, v])
        elif k == 'elif':
            if not stack: raise ExtractError('#elif without #if')
            v = (not stack[-1][0]) and cond(rest); stack[-1][1] = v; stack[-1][0] = stack[-1][0] or v
        elif k == 'else':
            if not stack: raise ExtractError('#else without #if')
            v = not stack[-1][0]; stack[-1][1] = v; stack[-1][0] = True
        elif k == 'endif':
            if not stack: raise ExtractError('#endif without #if')
            stack.pop()
    return '\n'.join(out)

def norm(s):
    return re.sub(r'\s+', ' ', s).strip()

def first_body(src, name):
    """body of the first definition of `name` (the UNIX variant comes first in Thread.c), conditionals resolved"""
    return norm(pp(func_body(src, name)))

def err_table(body, fn):
    """[(errno, action)] from `if (err is E…) { throw(X, …) }` / `if (err == E…) { return false; }` in source order"""
    tab = []
    for m in re.finditer(r'if\s*\(\s*err\s*(?:is|==)\s*(E[A-Z]+)\s*\)\s*\{\s*(throw\s*\(\s*(\w+)|return\s+(true|false))', body):
        tab.append((m.group(1), m.group(3) or m.group(4)))
    if not tab: raise ExtractError(f'{fn}: no error translation found')
    return tab

EXPECTED = {
 'Thread_Current': 'if (not Thread_TLS_Key_Created) { Thread_TLS_Key_Create(); Thread_TLS_Key_Created = true; atexit(Thread_TLS_Key_Delete); } var wrapper = pthread_getspecific(Thread_Key_Wrapper); if (wrapper is NULL) { if (Thread_Main is NULL) { Thread_Main = new_raw(Thread); Exception_Main = new_raw(Exception); atexit(Thread_Main_Del); } struct Thread* t = Thread_Main; t->is_main = true; t->is_running = true; t->thread = pthread_self(); return Thread_Main; } return wrapper;',
 'Thread_Init_Run': 'struct Thread* t = self; pthread_setspecific(Thread_Key_Wrapper, t); t->is_running = true; var bottom = NULL; var gc = new_raw(GC, $R(&bottom)); var exc = new_raw(Exception); var x = call_with(t->func, t->args); del_raw(t->args); t->args = NULL; del_raw(gc); del_raw(exc); return x;',
 'Thread_Call': 'struct Thread* t = self; t->args = assign(alloc_raw(type_of(args)), args); if (not Thread_TLS_Key_Created) { Thread_TLS_Key_Create(); Thread_TLS_Key_Created = true; atexit(Thread_TLS_Key_Delete); } int err = pthread_create(&t->thread, NULL, Thread_Init_Run, t); if (err is EINVAL) { throw(ValueError, "Invalid Argument to Thread Creation"); } if (err is EAGAIN) { throw(OutOfMemoryError, "Not enough resources to create another Thread"); } if (err is EBUSY) { throw(BusyError, "System is too busy to create thread"); } return self;',
 'Thread_Join': 'struct Thread* t = self; if (not t->thread) { return; } int err = pthread_join(t->thread, NULL); if (err is EINVAL) { throw(ValueError, "Invalid Argument to Thread Join"); } if (err is ESRCH) { throw(ValueError, "Invalid Thread"); } if (err is EDEADLK) { throw(ResourceError, "Thread cannot join itself or a thread that is joining it"); }',
 'Thread_Stop': 'struct Thread* t = self; if (not t->thread) { return; } int err = pthread_kill(t->thread, SIGINT); if (err is EINVAL) { throw(ValueError, "Invalid Argument to Thread Stop"); } if (err is ESRCH) { throw(ValueError, "Invalid Thread"); }',
 'Thread_Running': 'struct Thread* t = self; return t->is_running;',
 'Thread_C_Int': 'struct Thread* t = self; if (not t->is_running) { throw(ValueError, "Cannot get thread ID, thread not running!"); } return (int64_t)t->thread;',
 'Thread_New_flags': 't->func = empty(args) ? NULL : get(args, $I(0)); t->args = NULL; t->is_main = false; t->is_running = false;',
 'Thread_Get': 'struct Thread* t = self; return deref(get(t->tls, key));',
 'Thread_Set': 'struct Thread* t = self; set(t->tls, key, $R(val));',
 'Thread_Mem': 'struct Thread* t = self; return mem(t->tls, key);',
 'Thread_Rem': 'struct Thread* t = self; rem(t->tls, key);',
 'Thread_Mark': 'struct Thread* t = self; mark(t->tls, gc, f);',
 'Thread_New': 't->tls = new_raw(Table, String, Ref);',
 'Thread_Del': 'struct Thread* t = self; if (t->args isnt NULL) { del_raw(t->args); } del_raw(t->tls);',
 'Thread_Assign': 'struct Thread* t = self; struct Thread* o = cast(obj, Thread); t->func = o->func; t->tls = t->tls ? t->tls : alloc_raw(Table); assign(t->tls, o->tls);',
 'Thread_Mark_instance': 'Instance(Mark, Thread_Mark)',
 'GC_Recurse_mark': 'struct Mark* m = type_instance(type, Mark); if (m and m->mark) { m->mark(ptr, gc, (void(*)(var,void*))GC_Mark_And_Recurse); return; }',
 'Mutex_New': 'struct Mutex* m = self; pthread_mutex_init(&m->mutex, NULL);',
 'Mutex_Lock': 'struct Mutex* m = self; int err = pthread_mutex_lock(&m->mutex); if (err is EINVAL) { throw(ValueError, "Invalid Argument to Mutex Lock"); } if (err is EDEADLK) { throw(ResourceError, "Attempt to relock already held mutex"); }',
 'Mutex_Trylock': 'struct Mutex* m = self; int err = pthread_mutex_trylock(&m->mutex); if (err == EBUSY) { return false; } if (err is EINVAL) { throw(ValueError, "Invalid Argument to Mutex Lock Try"); } return true;',
 'Mutex_Unlock': 'struct Mutex* m = cast(self, Mutex); int err = pthread_mutex_unlock(&m->mutex); if (err is EINVAL) { throw(ValueError, "Invalid Argument to Mutex Unlock"); } if (err is EPERM) { throw(ResourceError, "Mutex cannot be held by caller"); }',
 'Mutex_instances': 'Instance(Lock, Mutex_Lock, Mutex_Unlock, Mutex_Trylock), Instance(Start, Mutex_Lock, Mutex_Unlock, NULL)',
 'GC_Current': 'return get(current(Thread), $S(GC_TLS_KEY));',
 'GC_New': 'set(current(Thread), $S(GC_TLS_KEY), gc);',
 'GC_Del': 'struct GC* gc = self; GC_Unmark(gc); GC_Sweep(gc); free(gc->entries); free(gc->freelist); rem(current(Thread), $S(GC_TLS_KEY));',
 'GC_Mark_tls': 'mark(current(Thread), gc, (void(*)(var,void*))GC_Mark_And_Recurse);',
 'Exception_Current': 'return get(current(Thread), $S(EXCEPTION_TLS_KEY));',
 'Exception_New': 'set(current(Thread), $S(EXCEPTION_TLS_KEY), self);',
 'Exception_Del': 'struct Exception* e = self; del_raw(e->msg); rem(current(Thread), $S(EXCEPTION_TLS_KEY));',
 'alloc_by_register': 'case ALLOC_STANDARD: set(current(GC), self, $I(0)); break; case ALLOC_RAW: break; case ALLOC_ROOT: set(current(GC), self, $I(1)); break;',
 'del_by': 'switch (method) { case ALLOC_STANDARD: case ALLOC_ROOT: rem(current(GC), self); return; break; case ALLOC_RAW: break; } dealloc(destruct(self));',
 'start_in': 'struct Start* s = instance(self, Start); if (s and s->start) { s->start(self); } return self;',
 'stop_in': 'struct Start* s = instance(self, Start); if (s and s->stop) { s->stop(self); } return NULL;',
 'with_in': 'for(var X = start_in(S); X isnt NULL; X = stop_in(X))',
 'Type_Cache_Entry': 'if (cls is lit) { var inst = ((var*)self)[i]; if (inst is NULL) { inst = Type_Scan(self, lit); ((var*)self)[i] = inst; } return inst; }',
}

def gen_thr(repo):
    th = read(f'{repo}/src/Thread.c'); gc = read(f'{repo}/src/GC.c'); ex = read(f'{repo}/src/Exception.c')
    st = read(f'{repo}/src/Start.c'); al = read(f'{repo}/src/Alloc.c'); ty = read(f'{repo}/src/Type.c')
    hdr = open(f'{repo}/include/Cello.h', encoding='utf-8', errors='replace').read()
    shape = {}
    for f in ('Thread_Current', 'Thread_Init_Run', 'Thread_Call', 'Thread_Join', 'Thread_Stop', 'Thread_Running', 'Thread_C_Int', 'Thread_Get', 'Thread_Set', 'Thread_Mem', 'Thread_Rem',
              'Thread_Mark', 'Mutex_New', 'Mutex_Lock', 'Mutex_Trylock', 'Mutex_Unlock'):
        shape[f] = first_body(th, f)
    m = re.search(r't->tls\s*=\s*new_raw\([^;]*\)\s*;', func_body(th, 'Thread_New'))
    if not m: raise ExtractError('Thread_New: creation of the tls table not found')
    shape['Thread_New'] = norm(m.group(0))
    m = re.search(r't->func\s*=[^;]*;\s*t->args\s*=[^;]*;\s*t->is_main\s*=[^;]*;\s*t->is_running\s*=[^;]*;', func_body(th, 'Thread_New'))
    shape['Thread_New_flags'] = norm(m.group(0)) if m else 'none'
    shape['Thread_Del'] = first_body(th, 'Thread_Del')
    shape['Thread_Assign'] = first_body(th, 'Thread_Assign')
    m = re.search(r'var\s+Thread\s*=\s*Cello\s*\(\s*Thread\s*,', th)
    if not m: raise ExtractError('var Thread = Cello(Thread, …) not found')
    tdecl = th[m.end():balanced(th, th.index('(', m.start()))]
    mi = re.search(r'Instance\s*\(\s*Mark\s*,[^)]*\)', tdecl)
    shape['Thread_Mark_instance'] = norm(re.sub(r'\s*,\s*', ', ', re.sub(r'\(\s*', '(', mi.group(0)))) if mi else 'none'
    rec = first_body(gc, 'GC_Recurse')
    mr = re.search(r'struct Mark\* m = type_instance\(type, Mark\); if \(m and m->mark\) \{ m->mark\(ptr, gc, [^;]*\); return; \}', rec)
    shape['GC_Recurse_mark'] = mr.group(0) if mr else 'none'
    tm = shape['Thread_Mark']
    if 'mark(t->tls' not in tm: raise ExtractError('Thread_Mark: marking of the thread-local table not found')
    guarded = re.search(r'if\s*\([^{;]*current\(Thread\)[^{;]*\)\s*\{?\s*mark\(t->tls', tm) is not None
    unguarded = (not guarded) and mi is not None and 'Thread_Mark' in mi.group(0) and mr is not None \
        and re.search(r'type is Thread\b', rec) is None
    m = re.search(r'var\s+Mutex\s*=\s*Cello\s*\(\s*Mutex\s*,', th)
    if not m: raise ExtractError('var Mutex = Cello(Mutex, …) not found')
    decl = th[m.end():balanced(th, th.index('(', m.start()))]
    inst = re.findall(r'Instance\s*\(\s*(?:Lock|Start)\s*,[^)]*\)', decl)
    shape['Mutex_instances'] = ', '.join(norm(re.sub(r'\s*,\s*', ', ', re.sub(r'\(\s*', '(', i))) for i in inst)
    shape['GC_Current'] = first_body(gc, 'GC_Current')
    m = re.search(r'set\s*\(\s*current\s*\(\s*Thread\s*\)[^;]*;', func_body(gc, 'GC_New'))
    if not m: raise ExtractError('GC_New: registration in thread-local storage not found')
    shape['GC_New'] = norm(m.group(0))
    shape['GC_Del'] = first_body(gc, 'GC_Del')
    m = re.search(r'mark\s*\(\s*current\s*\(\s*Thread\s*\)[^;]*;', func_body(gc, 'GC_Mark'))
    if not m: raise ExtractError('GC_Mark: marking of thread-local storage not found')
    shape['GC_Mark_tls'] = norm(m.group(0))
    shape['Exception_Current'] = first_body(ex, 'Exception_Current')
    m = re.search(r'set\s*\(\s*current\s*\(\s*Thread\s*\)[^;]*;', func_body(ex, 'Exception_New'))
    if not m: raise ExtractError('Exception_New: registration in thread-local storage not found')
    shape['Exception_New'] = norm(m.group(0))
    shape['Exception_Del'] = first_body(ex, 'Exception_Del')
    ab = pp(func_body(al, 'alloc_by'))
    m = re.search(r'switch\s*\(\s*method\s*\)\s*\{', ab)
    if not m: raise ExtractError('alloc_by: switch (method) not found')
    shape['alloc_by_register'] = norm(ab[m.end():balanced(ab, m.end() - 1, '{', '}') - 1])
    shape['del_by'] = first_body(al, 'del_by')
    shape['start_in'] = first_body(st, 'start_in')
    shape['stop_in'] = first_body(st, 'stop_in')
    m = re.search(r'#define\s+with_in\(X,\s*S\)\s+(.*)', hdr)
    if not m: raise ExtractError('with_in macro not found')
    shape['with_in'] = norm(m.group(1))
    m = re.search(r'#define\s+Type_Cache_Entry\(i,\s*lit\)\s*\\\n((?:.*\\\n)*.*)', ty if '#define' in ty else open(f'{repo}/src/Type.c').read())
    if not m: raise ExtractError('Type_Cache_Entry macro not found')
    shape['Type_Cache_Entry'] = norm(m.group(1).replace('\\\n', ' '))
    tabs = {
        'lockErr': err_table(shape['Mutex_Lock'], 'Mutex_Lock'),
        'trylockErr': err_table(shape['Mutex_Trylock'], 'Mutex_Trylock'),
        'unlockErr': err_table(shape['Mutex_Unlock'], 'Mutex_Unlock'),
        'joinErr': err_table(shape['Thread_Join'], 'Thread_Join'),
        'createErr': err_table(shape['Thread_Call'], 'Thread_Call'),
        'stopErr': err_table(shape['Thread_Stop'], 'Thread_Stop'),
    }
    m = re.search(r'return\s+(true|false)\s*;\s*$', shape['Mutex_Trylock'])
    if not m: raise ExtractError('Mutex_Trylock: final return not found')
    trydef = m.group(1)
    # teardown order in Thread_Init_Run: is the collector deleted before the exception record?
    ir = shape['Thread_Init_Run']
    pg, pe = ir.find('del_raw(gc)'), ir.find('del_raw(exc)')
    if pg < 0 or pe < 0: raise ExtractError('Thread_Init_Run: del_raw(gc) / del_raw(exc) not found')
    gc_first = pg < pe
    # extension round: the order of flag test, primitive call and translation inside the wrappers, as facts
    def guard_first(body, prim):
        # `if (not t->thread) { return; }` is the first statement, the primitive is called exactly once, after it, on t->thread,
        # and every test of `err` follows the call
        g = body.find('if (not t->thread) { return; }'); c = body.find(prim + '(t->thread')
        tests = [mm.start() for mm in re.finditer(r'if \(err (?:is|==)', body)]
        return body.startswith('struct Thread* t = self; if (not t->thread) { return; }') and body.count(prim + '(') == 1 and 0 <= g < c and all(c < x for x in tests)
    def prim_first(body, prim):
        # the primitive is called exactly once, on the object's own pthread mutex, before every test of `err`
        c = body.find(prim + '(&m->mutex)')
        tests = [mm.start() for mm in re.finditer(r'if \(err (?:is|==)', body)]
        return body.count(prim + '(') == 1 and c >= 0 and all(c < x for x in tests) and 'return' not in body[:c]
    facts = {
        'joinGuardsThread': guard_first(shape['Thread_Join'], 'pthread_join'),
        'stopGuardsThread': guard_first(shape['Thread_Stop'], 'pthread_kill'),
        'lockCallsPrimFirst': prim_first(shape['Mutex_Lock'], 'pthread_mutex_lock'),
        'trylockCallsPrimFirst': prim_first(shape['Mutex_Trylock'], 'pthread_mutex_trylock'),
        'unlockCallsPrimFirst': prim_first(shape['Mutex_Unlock'], 'pthread_mutex_unlock'),
        # is_running: set by the prologue of Thread_Init_Run (and by Thread_Current for the main wrapper), cleared by Thread_New only
        'prologueSetsRunning': 't->is_running = true;' in ir[:ir.find('call_with(')] if 'call_with(' in ir else False,
        'epilogueClearsRunning': 'is_running = false' in ir,
        # Thread_Call copies the argument tuple before pthread_create and touches neither flag
        'callCopiesArgsFirst': 0 <= shape['Thread_Call'].find('t->args = assign(alloc_raw(type_of(args)), args);') < shape['Thread_Call'].find('pthread_create('),
    }
    names = list(EXPECTED.keys())
    missing = [n for n in names if n not in shape]
    if missing: raise ExtractError(f'not extracted: {missing}')
    def pairs(d): return '[' + ',\n   '.join(f'({lean_str(k)}, {lean_str(d[k])})' for k in names) + ']'
    out = HEADER + 'namespace CelloGen.Thr\n\n'
    for k, t in tabs.items():
        out += f'def {k} : List (String × String) := [' + ', '.join(f'({lean_str(a)}, {lean_str(b)})' for a, b in t) + ']\n'
    out += f'def trylockDefault : String := {lean_str(trydef)}\n\n'
    out += '/-- order of flag test / primitive call / error translation inside the wrappers (extension round) -/\n'
    for k, v in facts.items():
        out += f"def {k} : Bool := {'true' if v else 'false'}\n"
    out += '\n'
    out += '/-- does the epilogue of `Thread_Init_Run` delete the collector (teardown sweep) before the exception record? -/\n'
    out += f"def teardownGcFirst : Bool := {'true' if gc_first else 'false'}\n\n"
    out += '/-- true iff the mark phase of one thread walks the thread-local table of every Thread object it reaches: `Thread_Mark`\n'
    out += '    marks `t->tls` of whatever Thread object it is handed (no `self is current(Thread)` test) and `GC_Recurse` hands it\n'
    out += '    every object that has a `Mark` instance -/\n'
    out += f"def threadMarkUnguarded : Bool := {'true' if unguarded else 'false'}\n\n"
    out += '/-- the functions the thread model mirrors, as they are in /repo now (UNIX configuration, collector enabled) -/\n'
    out += 'def shape : List (String × String) :=\n  ' + pairs(shape) + '\n\n'
    out += '/-- the same texts when lean/Cello/Threads.lean was written -/\n'
    out += 'def shapeModelled : List (String × String) :=\n  ' + pairs(EXPECTED) + '\n\nend CelloGen.Thr\n'
    return out

GENERATORS = {'Thr': gen_thr}
