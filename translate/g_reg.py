"""Link (A) for engine `reg` (C17): the data and straight-line arithmetic of src/GC.c that the registry model depends on.

CelloGen/Reg.lean gets: the prime table and its declared length, the load factor as a rational, the `size+1` bump of
GC_Ideal_Size, the shift of GC_Hash, the tie rule of GC_Set_Ptr (`j >= p` / `j > p`), the collection threshold formula
(`gc->mitems = …`, must be the same text in GC_Sweep and GC_Rem), GC_Probe translated expression by expression, the
fields of struct GCEntry, and three flags read from the statement shapes: the NULL test at the head of GC_Rem_Ptr (fix
d3e4e44) and the GC_Unmark calls in the prologue of GC_Mark and in GC_Del (fix d8f0c4f).  Anything that no longer has the expected shape raises ExtractError (a broken tie)."""
import re
from ctext import *
from gen import HEADER, lean_str, lean_list

_TOK = re.compile(r'\s*(gc->\w+|[A-Za-z_]\w*|\d+|[-+*/()])')

def _expr(src, names, cast):
    """translate a C expression over + - * / ( ) integer literals and the identifiers in `names` (C name -> Lean name)"""
    out = []; pos = 0; src = src.strip()
    while pos < len(src):
        m = _TOK.match(src, pos)
        if not m: raise ExtractError(f'cannot translate expression `{src}` at `{src[pos:pos+10]}`')
        t = m.group(1); pos = m.end()
        if t in names: out.append(cast(names[t]))
        elif t.isdigit(): out.append(t)
        elif t in '+-*/()': out.append(t)
        else: raise ExtractError(f'unexpected identifier `{t}` in expression `{src}`')
    return ' '.join(out)

# ---------------------------------------------------------------------------------------------------------------------
# src/Alloc.c: which allocation / deletion entry point tells the collector what (extension round).
# alloc_by and del_by are read statement by statement: the two allocator branches of alloc_by (the type's own Alloc instance /
# the default calloc path) as lists of assigned variables and called functions, the `switch (method)` of both functions as
# (case label, collector actions) rows — fall-through labels share the actions that follow —, the statements after the switch,
# and the one-line wrappers alloc / alloc_raw / alloc_root / del / del_raw / del_root / new_with / new_raw_with / new_root_with
# / the default path of copy as (entry point, callee) rows.  `#if CELLO_MEMORY_CHECK == 1 … #endif` blocks are dropped (the
# out-of-memory throw); `#ifndef CELLO_NGC` / `#endif` lines are dropped (the collector is compiled in).

def _drop_pp(body):
    body = re.sub(r'#if\s+CELLO_MEMORY_CHECK\s*==\s*1.*?#endif', ' ', body, flags=re.S)
    if re.search(r'#\s*(if|ifdef|else|elif)\b(?!ndef)', body): raise ExtractError('alloc_by / del_by: unexpected preprocessor conditional')
    return re.sub(r'#\s*(ifndef\s+CELLO_NGC|endif)\b', ' ', body)

def _stmts(text):
    return [re.sub(r'\s+', ' ', x.strip()) for x in text.split(';') if x.strip()]

_CALL = re.compile(r'([A-Za-z_][\w]*(?:->\w+)?)\s*\(')
def _branch(text, what):
    assigns = []; calls = []
    for st in _stmts(text):
        if re.search(r'\b(return|goto|switch|if|while|for)\b', st): raise ExtractError(f'alloc_by: control flow inside the {what} allocator branch: `{st}`')
        m = re.match(r'(?:struct\s+\w+\s*\*\s*|var\s+)?(\w+)\s*=(?!=)\s*(.*)$', st)
        if not m: raise ExtractError(f'alloc_by: {what} allocator branch: expected an assignment, found `{st}`')
        assigns.append(m.group(1))
        calls += [c for c in _CALL.findall(m.group(2)) if c != 'sizeof']
    return assigns, calls

def _switch(body, fn):
    m = re.search(r'switch\s*\(\s*method\s*\)\s*\{', body)
    if not m: raise ExtractError(f'{fn}: `switch (method) {{` not found')
    end = balanced(body, m.end() - 1, '{', '}')
    inner = body[m.end():end - 1]
    rows = []; labels = []; acts = []
    pos = 0
    tok = re.compile(r'\s*(?:case\s+(\w+)\s*:|(default)\s*:|([^;{}]+);)')
    while pos < len(inner):
        if not inner[pos:].strip(): break
        t = tok.match(inner, pos)
        if not t: raise ExtractError(f'{fn}: cannot read the switch at `{inner[pos:pos+30].strip()}`')
        pos = t.end()
        if t.group(1) or t.group(2):
            if acts: raise ExtractError(f'{fn}: case label after statements without `break` (fall-through with actions)')
            labels.append(t.group(1) or 'default')
            continue
        st = re.sub(r'\s+', ' ', t.group(3).strip())
        if st == 'break':
            if not labels: raise ExtractError(f'{fn}: `break` outside a case')
            rows += [(l, list(acts)) for l in labels]; labels = []; acts = []
            continue
        if not labels: raise ExtractError(f'{fn}: statement outside a case: `{st}`')
        mm = re.fullmatch(r'set\(current\(GC\), self, \$I\((\d+)\)\)', st)
        if mm: acts.append(f'.set {mm.group(1)}'); continue
        if st == 'rem(current(GC), self)': acts.append('.rem'); continue
        if st == 'return': acts.append('.ret'); continue
        raise ExtractError(f'{fn}: unexpected statement in the switch: `{st}`')
    if labels or acts: raise ExtractError(f'{fn}: last case of the switch has no `break`')
    return rows, body[:m.start()], body[end:]

def _wrapper(asrc, name, pat, what):
    b = re.sub(r'\s+', ' ', func_body(asrc, name).strip())
    m = re.fullmatch(pat, b)
    if not m: raise ExtractError(f'{name}: expected `{what}`, found `{b}`')
    return m.group(1)

def alloc_routes(repo):
    asrc = read(f'{repo}/src/Alloc.c')
    m = re.search(r'enum\s*\{\s*(ALLOC_\w+(?:\s*,\s*ALLOC_\w+)*)\s*,?\s*\}', asrc)
    if not m: raise ExtractError('Alloc.c: enum { ALLOC_… } not found')
    methods = [x.strip() for x in m.group(1).split(',') if x.strip()]
    ab = _drop_pp(func_body(asrc, 'alloc_by'))
    rows, before, after = _switch(ab, 'alloc_by')
    m = re.fullmatch(r'\s*struct\s+Alloc\s*\*\s*a\s*=\s*type_instance\(type,\s*Alloc\)\s*;\s*var\s+self\s*;\s*if\s*\(\s*a\s+and\s+a->alloc\s*\)\s*\{(.*?)\}\s*else\s*\{(.*)\}\s*', before, re.S)
    if not m: raise ExtractError('alloc_by: expected `struct Alloc* a = type_instance(type, Alloc); var self; if (a and a->alloc) { … } else { … }` before the switch')
    own = _branch(m.group(1), 'own'); dflt = _branch(m.group(2), 'default')
    aafter = _stmts(after)
    db = _drop_pp(func_body(asrc, 'del_by'))
    drows, dbefore, dafter = _switch(db, 'del_by')
    if dbefore.strip(): raise ExtractError(f'del_by: statements before the switch: `{dbefore.strip()}`')
    dafter = _stmts(dafter)
    entries = []
    for f in ('alloc', 'alloc_raw', 'alloc_root'):
        entries.append((f, 'alloc_by', _wrapper(asrc, f, r'return alloc_by\(type, (\w+)\);', 'return alloc_by(type, ALLOC_…);')))
    for f in ('del', 'del_raw', 'del_root'):
        entries.append((f, 'del_by', _wrapper(asrc, f, r'del_by\(self, (\w+)\);', 'del_by(self, ALLOC_…);')))
    for f in ('new_with', 'new_raw_with', 'new_root_with'):
        entries.append((f, 'construct_with', _wrapper(asrc, f, r'return construct_with\((\w+)\(type\), args\);', 'return construct_with(alloc…(type), args);')))
    cb = re.sub(r'\s+', ' ', func_body(asrc, 'copy').strip())
    m = re.fullmatch(r'struct Copy\* c = instance\(self, Copy\); if \(c and c->copy\) \{ return c->copy\(self\); \} return assign\((\w+)\(type_of\(self\)\), self\);', cb)
    if not m: raise ExtractError('copy: expected the default path `return assign(alloc…(type_of(self)), self);`')
    entries.append(('copy', 'assign', m.group(1)))
    sw = lambda rows: '[' + ', '.join('(' + lean_str(l) + ', [' + ', '.join(a) + '])' for l, a in rows) + ']'
    sl = lambda xs: lean_list([lean_str(x) for x in xs])
    return f"""
/-! ### src/Alloc.c: which entry point tells the collector what -/

/-- what a case of `switch (method)` in alloc_by / del_by does to the collector: `set(current(GC), self, $I(flag))`,
    `rem(current(GC), self)`, `return` -/
inductive GcAct where
  | set (flag : Nat)
  | rem
  | ret
deriving DecidableEq, Repr

/-- `enum {{ ALLOC_… }}` -/
def allocMethods : List String := {sl(methods)}

/-- the two allocator branches of alloc_by — `if (a and a->alloc)` (the type's own Alloc instance) / else (calloc +
    header_init) —: variables assigned, functions called -/
def allocOwnAssigns : List String := {sl(own[0])}
def allocOwnCalls : List String := {sl(own[1])}
def allocDefaultAssigns : List String := {sl(dflt[0])}
def allocDefaultCalls : List String := {sl(dflt[1])}

/-- `switch (method)` of alloc_by: (case label, actions up to its `break`) -/
def allocSwitch : List (String × List GcAct) := {sw(rows)}
/-- statements of alloc_by after the switch -/
def allocAfter : List String := {sl(aafter)}

/-- `switch (method)` of del_by -/
def delSwitch : List (String × List GcAct) := {sw(drows)}
/-- statements of del_by after the switch (reached when no case returned) -/
def delAfter : List String := {sl(dafter)}

/-- the one-line entry points: (function, what it wraps, method constant / allocation function it passes) -/
def allocEntries : List (String × String × String) := [{', '.join('(' + lean_str(a) + ', ' + lean_str(b) + ', ' + lean_str(c) + ')' for a, b, c in entries)}]
"""

def gen_reg(repo):
    src = read(f'{repo}/src/GC.c')
    # --- prime table
    m = re.search(r'GC_PRIMES_COUNT\s*=\s*(\d+)', src)
    if not m: raise ExtractError('GC_PRIMES_COUNT not found')
    count = int(m.group(1))
    m = re.search(r'GC_Primes\s*\[\s*GC_PRIMES_COUNT\s*\]\s*=\s*\{([^}]*)\}', src)
    if not m: raise ExtractError('GC_Primes[GC_PRIMES_COUNT] initialiser not found')
    primes = [p.strip() for p in m.group(1).split(',') if p.strip()]
    if not all(p.isdigit() for p in primes): raise ExtractError('GC_Primes: non-literal entry')
    if len(primes) != count: raise ExtractError(f'GC_Primes has {len(primes)} initialisers, GC_PRIMES_COUNT = {count}')
    # --- load factor
    m = re.search(r'GC_Load_Factor\s*=\s*(\d+)\.(\d+)\s*;', src)
    if not m: raise ExtractError('GC_Load_Factor = <decimal literal> not found')
    num = int(m.group(1) + m.group(2)); den = 10 ** len(m.group(2))
    # --- GC_Ideal_Size
    ib = func_body(src, 'GC_Ideal_Size')
    m = re.search(r'size\s*=\s*\(size_t\)\s*\(\s*\(double\)\s*\(\s*size\s*\+\s*(\d+)\s*\)\s*/\s*GC_Load_Factor\s*\)\s*;', ib)
    if not m: raise ExtractError('GC_Ideal_Size: expected `size = (size_t)((double)(size+K) / GC_Load_Factor);`')
    bump = int(m.group(1))
    shape = [r'for\s*\(\s*size_t\s+i\s*=\s*0\s*;\s*i\s*<\s*GC_PRIMES_COUNT\s*;\s*i\+\+\s*\)',
             r'if\s*\(\s*GC_Primes\[i\]\s*>=\s*size\s*\)\s*\{\s*return\s+GC_Primes\[i\]\s*;',
             r'size_t\s+last\s*=\s*GC_Primes\[GC_PRIMES_COUNT-1\]\s*;',
             r'for\s*\(\s*size_t\s+i\s*=\s*0\s*;\s*;\s*i\+\+\s*\)',
             r'if\s*\(\s*last\s*\*\s*i\s*>=\s*size\s*\)\s*\{\s*return\s+last\s*\*\s*i\s*;']
    pos = 0
    for pat in shape:
        mm = re.compile(pat).search(ib, pos)
        if not mm: raise ExtractError(f'GC_Ideal_Size: expected /{pat}/ in order')
        pos = mm.end()
    # --- GC_Hash
    hb = func_body(src, 'GC_Hash')
    m = re.search(r'return\s*\(\s*\(uintptr_t\)\s*ptr\s*\)\s*>>\s*(\d+)\s*;', hb)
    if not m: raise ExtractError('GC_Hash: expected `return ((uintptr_t)ptr) >> K;`')
    shift = int(m.group(1))
    # --- GC_Probe
    pb = func_body(src, 'GC_Probe')
    m = re.search(r'int64_t\s+v\s*=\s*([^;]+);\s*if\s*\(\s*v\s*<\s*0\s*\)\s*\{\s*v\s*=\s*([^;]+);\s*\}\s*return\s+v\s*;', pb)
    if not m: raise ExtractError('GC_Probe: expected `int64_t v = E1; if (v < 0) { v = E2; } return v;`')
    names = {'i': 'i', 'h': 'h', 'gc->nslots': 'nslots', 'v': 'v'}
    icast = lambda n: n if n == 'v' else f'({n} : Int)'
    e1 = _expr(m.group(1), names, icast); e2 = _expr(m.group(2), names, icast)
    # --- tie rule of GC_Set_Ptr and its statement order
    sb = func_body(src, 'GC_Set_Ptr')
    m = re.search(r'if\s*\(\s*j\s*(>=|>)\s*p\s*\)', sb)
    if not m: raise ExtractError('GC_Set_Ptr: expected `if (j >= p)` or `if (j > p)`')
    tie_ge = m.group(1) == '>='
    # --- threshold formula
    forms = [re.sub(r'\s+', ' ', f.strip()) for f in re.findall(r'gc->mitems\s*=\s*([^;]+);', src)]
    if len(forms) < 2 or len(set(forms)) != 1:
        raise ExtractError(f'expected the same `gc->mitems = E;` in GC_Sweep and GC_Rem, found {forms}')
    mit = _expr(forms[0], {'gc->nitems': 'nitems'}, lambda n: n)
    # --- order of effects in GC_Set (the model follows it)
    gb = func_body(src, 'GC_Set')
    pos = 0
    for pat in [r'if\s*\(\s*not\s+gc->running\s*\)\s*\{\s*return\s*;', r'gc->nitems\+\+\s*;', r'gc->maxptr\s*=', r'gc->minptr\s*=',
                r'GC_Resize_More\(gc\)\s*;', r'GC_Set_Ptr\(gc,\s*key,', r'if\s*\(\s*gc->nitems\s*>\s*gc->mitems\s*\)', r'GC_Mark\(gc\)\s*;', r'GC_Sweep\(gc\)\s*;']:
        mm = re.compile(pat).search(gb, pos)
        if not mm: raise ExtractError(f'GC_Set: expected /{pat}/ in order')
        pos = mm.end()
    # --- GC_Rem_Ptr: the entry test (`nslots is 0`, with or without `or ptr is NULL`: flag gcRemNullGuard — fix d3e4e44), then the
    #     strike-off scan comparing raw words (a struck-off slot holds NULL); GC_Sweep's last loop clears the slot before it
    #     finalises and skips NULL words (the model, C17_progress_all_destructors and the OLD-variant refutation
    #     C17_null_del_in_sweep_old_refuted depend on exactly this)
    rb = func_body(src, 'GC_Rem_Ptr')
    m = re.match(r'\s*if\s*\(\s*gc->nslots\s+is\s+0\s*(or\s+ptr\s+is\s+NULL\s*)?\)\s*\{\s*return\s*;\s*\}', rb)
    if not m: raise ExtractError('GC_Rem_Ptr: expected to start with `if (gc->nslots is 0 [or ptr is NULL]) { return; }`')
    rem_null_guard = m.group(1) is not None
    pos = m.end()
    if re.search(r'\bNULL\b', rb[pos:rb.find('gc->freelist[i] = NULL')]):
        raise ExtractError('GC_Rem_Ptr: another NULL test before the strike-off scan (the model has the entry test only)')
    for pat in [r'for\s*\(\s*size_t\s+i\s*=\s*0\s*;\s*i\s*<\s*gc->freenum\s*;\s*i\+\+\s*\)\s*\{\s*if\s*\(\s*gc->freelist\[i\]\s+is\s+ptr\s*\)\s*\{',
                r'gc->freelist\[i\]\s*=\s*NULL\s*;', r'dealloc\(destruct\(ptr\)\)\s*;\s*return\s*;',
                r'uint64_t\s+i\s*=\s*GC_Hash\(ptr\)\s*%\s*gc->nslots\s*;', r'gc->nitems--\s*;', r'dealloc\(destruct\(freeitem\)\)\s*;']:
        mm = re.compile(pat).search(rb, pos)
        if not mm: raise ExtractError(f'GC_Rem_Ptr: expected /{pat}/ in order')
        pos = mm.end()
    # --- GC_Unmark / the prologue of GC_Mark / GC_Del (fix d8f0c4f): flags gcMarkUnmarksFirst, gcDelUnmarksFirst
    has_unmark = re.search(r'\bstatic\s+void\s+GC_Unmark\s*\(', src) is not None
    if has_unmark:
        ub = func_body(src, 'GC_Unmark')
        if not re.fullmatch(r'\s*for\s*\(\s*size_t\s+i\s*=\s*0\s*;\s*i\s*<\s*gc->nslots\s*;\s*i\+\+\s*\)\s*\{\s*gc->entries\[i\]\.marked\s*=\s*false\s*;\s*\}\s*', ub):
            raise ExtractError('GC_Unmark: expected `for (size_t i = 0; i < gc->nslots; i++) { gc->entries[i].marked = false; }`')
    kb = func_body(src, 'GC_Mark')
    m = re.match(r'\s*if\s*\(\s*gc\s+is\s+NULL\s+or\s+gc->nitems\s+is\s+0\s*\)\s*\{\s*return\s*;\s*\}\s*(GC_Unmark\(gc\)\s*;)?\s*(?:/\*.*?\*/\s*)?mark\(current\(Thread\)', kb, re.S)
    if not m: raise ExtractError('GC_Mark: expected `if (gc is NULL or gc->nitems is 0) { return; } [GC_Unmark(gc);] mark(current(Thread), …`')
    mark_unmarks = m.group(1) is not None
    if len(re.findall(r'GC_Unmark\(', kb)) != (1 if mark_unmarks else 0): raise ExtractError('GC_Mark: GC_Unmark called somewhere else than in the prologue')
    pos = m.end()
    for pat in [r'if\s*\(\s*gc->entries\[i\]\.root\s*\)\s*\{\s*gc->entries\[i\]\.marked\s*=\s*true\s*;', r'mark_stack\(gc\)\s*;']:
        mm = re.compile(pat).search(kb, pos)
        if not mm: raise ExtractError(f'GC_Mark: expected /{pat}/ in order')
        pos = mm.end()
    eb = func_body(src, 'GC_Del')
    m = re.match(r'\s*struct\s+GC\s*\*\s*gc\s*=\s*self\s*;\s*(GC_Unmark\(gc\)\s*;)?\s*GC_Sweep\(gc\)\s*;', eb)
    if not m: raise ExtractError('GC_Del: expected `struct GC* gc = self; [GC_Unmark(gc);] GC_Sweep(gc);`')
    del_unmarks = m.group(1) is not None
    if (mark_unmarks or del_unmarks) and not has_unmark: raise ExtractError('GC_Unmark is called but not defined as a static function of GC.c')
    others = [f for f in ('GC_Sweep', 'GC_Set', 'GC_Rem', 'GC_Rem_Ptr', 'GC_Set_Ptr', 'GC_Rehash', 'GC_Mark_Item') if re.search(r'GC_Unmark\(', func_body(src, f))]
    if others: raise ExtractError(f'GC_Unmark is also called from {others}: the model clears the mark bits in GC_Mark and GC_Del only')
    wb = func_body(src, 'GC_Sweep')
    pos = 0
    for pat in [r'gc->freelist\s*=\s*realloc\(gc->freelist,\s*sizeof\(var\)\s*\*\s*gc->nitems\)\s*;', r'gc->freenum\s*=\s*0\s*;',
                r'gc->freelist\[gc->freenum\]\s*=\s*gc->entries\[i\]\.ptr\s*;', r'GC_Resize_Less\(gc\)\s*;',
                r'var\s+item\s*=\s*gc->freelist\[i\]\s*;\s*if\s*\(\s*item\s*\)\s*\{\s*gc->freelist\[i\]\s*=\s*NULL\s*;\s*dealloc\(destruct\(item\)\)\s*;']:
        mm = re.compile(pat).search(wb, pos)
        if not mm: raise ExtractError(f'GC_Sweep: expected /{pat}/ in order')
        pos = mm.end()
    mb = func_body(src, 'GC_Rem')
    if not re.search(r'if\s*\(\s*not\s+gc->running\s*\)\s*\{\s*return\s*;\s*\}\s*GC_Rem_Ptr\(gc,\s*key\)\s*;\s*GC_Resize_Less\(gc\)\s*;', mb):
        raise ExtractError('GC_Rem: expected `if (not gc->running) { return; } GC_Rem_Ptr(gc, key); GC_Resize_Less(gc);`')
    # --- Alloc.c: dealloc / dealloc_raw / dealloc_root do not tell the collector (C17_dealloc_refuted depends on it)
    asrc = read(f'{repo}/src/Alloc.c')
    db = func_body(asrc, 'dealloc')
    if re.search(r'current\(GC\)|\brem\(|GC_', db): raise ExtractError('dealloc now talks to the collector: the model of `dealloc` (registry untouched) is stale')
    for f in ('dealloc_raw', 'dealloc_root'):
        if not re.fullmatch(r'\s*dealloc\(self\)\s*;\s*', func_body(asrc, f)): raise ExtractError(f'{f}: expected `{{ dealloc(self); }}`')
    # del_raw = del_by(self, ALLOC_RAW): `case ALLOC_RAW: break;` then `dealloc(destruct(self));` — no GC_Rem on that route
    # (C17_del_raw_managed_refuted, the second entrance to KF-C17-dealloc-stale, depends on it)
    if not re.fullmatch(r'\s*del_by\(self,\s*ALLOC_RAW\)\s*;\s*', func_body(asrc, 'del_raw')): raise ExtractError('del_raw: expected `{ del_by(self, ALLOC_RAW); }`')
    dby = func_body(asrc, 'del_by')
    if not re.search(r'case\s+ALLOC_RAW\s*:\s*break\s*;\s*\}\s*dealloc\(destruct\(self\)\)\s*;\s*$', dby.strip() + '\n', re.S) and \
       not re.search(r'case\s+ALLOC_RAW\s*:\s*break\s*;\s*\}\s*dealloc\(destruct\(self\)\)\s*;', dby):
        raise ExtractError('del_by: expected `case ALLOC_RAW: break; } dealloc(destruct(self));` (del_raw does not tell the collector)')
    # --- struct GCEntry
    m = re.search(r'struct\s+GCEntry\s*\{([^}]*)\}', src)
    if not m: raise ExtractError('struct GCEntry not found')
    fields = [re.sub(r'\s+', ' ', f.strip()) for f in m.group(1).split(';') if f.strip()]
    routes = alloc_routes(repo)
    # --- GC_New: the fields it sets on the zeroed object (the model's `Reg.init` is built from them: `regInitFrom`)
    nb = func_body(src, 'GC_New')
    newinit = [(a, re.sub(r'\s+', ' ', b.strip())) for a, b in re.findall(r'gc->(\w+)\s*=(?!=)\s*([^;]+);', nb)]
    if not newinit: raise ExtractError('GC_New: no `gc->field = value;` statement found')
    if re.search(r'\b(if|while|for|return)\b', nb): raise ExtractError('GC_New: control flow (the model has straight-line initialisation)')
    routes += f'''
/-- GC_New: `gc->field = value;` statements, in order (everything else is zero: objects are calloc'ed) -/
def gcNewInit : List (String × String) := [{', '.join('(' + lean_str(a) + ', ' + lean_str(b) + ')' for a, b in newinit)}]
'''
    return HEADER + f"""namespace CelloGen.Reg

/-- `GC_Primes[]` (src/GC.c) -/
def gcPrimes : List Nat := {lean_list(primes)}

/-- `GC_PRIMES_COUNT` -/
def gcPrimesCount : Nat := {count}

/-- `GC_Load_Factor` = {num}/{den} -/
def gcLoadNum : Nat := {num}
def gcLoadDen : Nat := {den}

/-- `size = (size_t)((double)(size+{bump}) / GC_Load_Factor)` in GC_Ideal_Size -/
def gcSizeBump : Nat := {bump}

/-- `GC_Hash(ptr) = ((uintptr_t)ptr) >> {shift}` -/
def gcHashShift : Nat := {shift}

/-- `GC_Probe(gc, i, h)` translated expression by expression (`h` is the stored hash = home slot + 1) -/
def gcProbe (nslots i h : Nat) : Int :=
  let v : Int := {e1}
  if v < 0 then {e2} else v

/-- GC_Set_Ptr displaces the resident when `j >= p` (true) or only when `j > p` (false) -/
def gcTieGe : Bool := {'true' if tie_ge else 'false'}

/-- `gc->mitems = {forms[0]};` (GC_Sweep and GC_Rem) -/
def gcMitems (nitems : Nat) : Nat := {mit}

/-- GC_Rem_Ptr starts with `if (gc->nslots is 0 or ptr is NULL) {{ return; }}` (true) or tests `nslots` only (false) -/
def gcRemNullGuard : Bool := {'true' if rem_null_guard else 'false'}

/-- GC_Mark calls GC_Unmark (every entry's mark bit cleared) right after its `nitems is 0` test, before anything is marked -/
def gcMarkUnmarksFirst : Bool := {'true' if mark_unmarks else 'false'}

/-- GC_Del calls GC_Unmark before its GC_Sweep -/
def gcDelUnmarksFirst : Bool := {'true' if del_unmarks else 'false'}

/-- fields of `struct GCEntry` -/
def gcEntryFields : List String := {lean_list([lean_str(f) for f in fields])}
{routes}
end CelloGen.Reg
"""

GENERATORS = {'Reg': gen_reg}
