"""Link (A) for engine `file` (C20): what src/File.c, src/Start.c and the `with` macro say, as a Lean table.

For every File_* function of src/File.c: which stdio functions it calls (in textual order) and whether the closed-handle
test `if (f->file is NULL) { throw(IOError, …` precedes the first of them; the two facts fix b3448e7 established about
File_Close (guarded; the handle is dropped before the result of fclose is tested); that File_Open and File_Del close a
held handle first; the argument counts File_Read / File_Write pass to fread / fwrite; the class instances of `File`
(which function is sclose, stop, destruct …); `with_in` (also clause by clause: which expression the init clause hands
to start_in and the step clause to stop_in), `start_in`, `stop_in`.

The same anchor file defines `Process`, the second Stream class: the same wrappers over `popen` / `pclose`.  For every
Process_* function the same table (guard `if (p->proc is NULL) { throw(IOError, …` before the first stdio call), the two
facts fix 51c301c established about Process_Close (guarded; the handle is dropped before the result of pclose is tested),
whether each Process_<X> IS File_<X> under the renaming Process_→File_, `struct Process* p`→`struct File* f`,
p->proc→f->file, popen→fopen, pclose→fclose, "process"→"file" (so that one model serves both), and the whitespace-normalised
texts of Process_New / Process_Del / Process_Open / Process_Close (pinned by C20_process_source_shape).
"""
import re
from ctext import *
from gen import HEADER, lean_str, lean_list

STDIO = ['fopen', 'fclose', 'fseek', 'ftell', 'fflush', 'feof', 'fread', 'fwrite', 'vfprintf', 'vfscanf', 'popen', 'pclose',
         'fprintf', 'fscanf', 'fputs', 'fputc', 'fgets', 'fgetc', 'rewind', 'fsetpos', 'fgetpos', 'freopen', 'setvbuf', 'clearerr', 'ferror']
GUARD = r'if\s*\(\s*f->file\s+is\s+NULL\s*\)\s*\{\s*throw\s*\(\s*IOError\b'
HELD = r'if\s*\(\s*f->file\s+isnt\s+NULL\s*\)\s*\{\s*File_Close\s*\(\s*self\s*\)\s*;\s*\}'

def stdio_calls(body):
    out = []
    for m in re.finditer(r'\b(' + '|'.join(STDIO) + r')\s*\(', body):
        out.append((m.start(), m.group(1)))
    return out

def instance_members(src, cls):
    """members of `Instance(<cls>, a, b, …)` inside the definition `var File = Cello(File, …);`"""
    m = re.search(r'var\s+File\s*=\s*Cello\s*\(\s*File\s*,', src)
    if not m: raise ExtractError('`var File = Cello(File, …)` not found')
    end = balanced(src, src.index('(', m.start()))
    decl = src[m.start():end]
    mm = re.search(r'Instance\s*\(\s*' + cls + r'\s*,', decl)
    if not mm: raise ExtractError(f'File has no Instance({cls}, …)')
    e = balanced(decl, decl.index('(', mm.start()))
    return split_top(decl[decl.index('(', mm.start()) + 1:e - 1])[1:]

PGUARD = r'if\s*\(\s*p->proc\s+is\s+NULL\s*\)\s*\{\s*throw\s*\(\s*IOError\b'
PHELD = r'if\s*\(\s*p->proc\s+isnt\s+NULL\s*\)\s*\{\s*Process_Close\s*\(\s*self\s*\)\s*;\s*\}'
PROC_EXPECTED = ['Process_Close', 'Process_Del', 'Process_EOF', 'Process_Flush', 'Process_Format_From', 'Process_Format_To',
                 'Process_New', 'Process_Open', 'Process_Read', 'Process_Seek', 'Process_Tell', 'Process_Write']

def _norm(s): return re.sub(r'\s+', ' ', s).strip()

def as_file(body):
    """a Process_* body under the renaming that turns it into the File_* function of the same name"""
    b = body
    b = re.sub(r'\bProcess_', 'File_', b)
    b = re.sub(r'\bstruct\s+Process\s*\*\s*p\b', 'struct File* f', b)
    b = re.sub(r'\bp->proc\b', 'f->file', b)
    b = re.sub(r'\bpopen\b', 'fopen', b)
    b = re.sub(r'\bpclose\b', 'fclose', b)
    b = re.sub(r'\bprocess\b', 'file', b)
    return _norm(b)

def class_decl(src, cls):
    m = re.search(r'var\s+' + cls + r'\s*=\s*Cello\s*\(\s*' + cls + r'\s*,', src)
    if not m: raise ExtractError(f'`var {cls} = Cello({cls}, …)` not found')
    return src[m.start():balanced(src, src.index('(', m.start()))]

def members_of(decl, cls, who):
    mm = re.search(r'Instance\s*\(\s*' + cls + r'\s*,', decl)
    if not mm: raise ExtractError(f'{who} has no Instance({cls}, …)')
    e = balanced(decl, decl.index('(', mm.start()))
    return split_top(decl[decl.index('(', mm.start()) + 1:e - 1])[1:]

def gen_process(src, file_bodies):
    """the Process half of src/File.c"""
    names = sorted(set(re.findall(r'\bstatic\s+[\w\s\*]+?\b(Process_\w+)\s*\([^;{]*\)\s*\{', src)))
    doc = {'Process_Name', 'Process_Brief', 'Process_Description', 'Process_Definition', 'Process_Examples', 'Process_Methods'}
    names = [n for n in names if n not in doc]
    if names != PROC_EXPECTED:
        raise ExtractError(f'the Process_* functions of src/File.c are {names}, the model covers {PROC_EXPECTED}')
    rows = []; bodies = {}
    for n in names:
        b = func_body(src, n); bodies[n] = b
        calls = stdio_calls(b)
        g = re.search(PGUARD, b)
        rows.append((n, [c for _, c in calls], bool(g), bool(g) and (not calls or g.start() < calls[0][0])))
    bc = bodies['Process_Close']
    m_pclose = re.search(r'\bpclose\s*\(\s*p->proc\s*\)', bc)
    if not m_pclose: raise ExtractError('Process_Close: pclose(p->proc) not found')
    g = re.search(PGUARD, bc)
    close_guarded = bool(g) and g.start() < m_pclose.start()
    m_null = re.search(r'p->proc\s*=\s*NULL\s*;', bc)
    m_err = re.search(r'if\s*\(\s*err\s*!=\s*0\s*\)\s*\{\s*throw\s*\(\s*IOError', bc)
    if not m_null: raise ExtractError('Process_Close never resets p->proc')
    if not m_err: raise ExtractError('Process_Close: the test of the result of pclose (→ IOError) was not found')
    if m_null.start() < m_pclose.start(): raise ExtractError('Process_Close resets p->proc before calling pclose')
    close_drops = m_null.start() < m_err.start()
    bo = bodies['Process_Open']
    h = re.search(PHELD, bo)
    po = re.search(r'p->proc\s*=\s*popen\s*\(\s*c_str\s*\(\s*filename\s*\)\s*,\s*c_str\s*\(\s*access\s*\)\s*\)', bo)
    if not po: raise ExtractError('Process_Open: `p->proc = popen(c_str(filename), c_str(access))` not found')
    open_closes_first = bool(h) and h.start() < po.start()
    open_throws = bool(re.search(r'if\s*\(\s*p->proc\s+is\s+NULL\s*\)\s*\{\s*throw\s*\(\s*IOError', bo[po.end():]))
    bd = bodies['Process_Del']
    del_closes = bool(re.search(PHELD, bd)) and not stdio_calls(bd)
    # Process_New: `p->proc = NULL; Process_Open(self, get(args, $I(0)), get(args, $I(1)));` — no test of len(args): it always opens
    bn = _norm(bodies['Process_New'])
    new_always = bool(re.fullmatch(r'struct Process\* p = self; p->proc = NULL; Process_Open\(self, get\(args, \$I\(0\)\), get\(args, \$I\(1\)\)\);', bn))
    same = []
    for n in names:
        if n == 'Process_New': continue
        fn = 'File_' + n[len('Process_'):]
        same.append((n, fn in file_bodies and as_file(bodies[n]) == _norm(file_bodies[fn])))
    decl = class_decl(src, 'Process')
    inst = {c: members_of(decl, c, 'Process') for c in ('New', 'Start', 'Stream', 'Format')}
    inst_classes = re.findall(r'Instance\s*\(\s*(\w+)\s*,', decl)
    b = lambda x: 'true' if x else 'false'
    rows_txt = ',\n   '.join(f'⟨{lean_str(n)}, {lean_list([lean_str(c) for c in cs])}, {b(g)}, {b(gf)}⟩' for n, cs, g, gf in rows)
    same_txt = ', '.join(f'({lean_str(n)}, {b(v)})' for n, v in same)
    return f"""
/-! ### `Process`, the second Stream class of src/File.c (popen / pclose) -/

/-- every Process_* function of src/File.c (documentation functions excluded); `guarded` = contains
    `if (p->proc is NULL) {{ throw(IOError, …` -/
def procTable : List Row :=
  [{rows_txt}]

/-- Process_Close tests `p->proc is NULL` (→ IOError) before calling pclose (fix 51c301c) -/
def procCloseGuarded : Bool := {b(close_guarded)}
/-- Process_Close executes `p->proc = NULL` after pclose and before testing its result (fix 51c301c) -/
def procCloseDropsAlways : Bool := {b(close_drops)}
/-- Process_Open: `if (p->proc isnt NULL) {{ Process_Close(self); }}` precedes `p->proc = popen(c_str(filename), c_str(access))` -/
def procOpenClosesFirst : Bool := {b(open_closes_first)}
/-- Process_Open: a NULL result of popen → throw IOError -/
def procOpenThrowsOnNull : Bool := {b(open_throws)}
/-- Process_Del: `if (p->proc isnt NULL) {{ Process_Close(self); }}` and no stdio call of its own -/
def procDelClosesIfHeld : Bool := {b(del_closes)}
/-- Process_New is exactly `p->proc = NULL; Process_Open(self, get(args, $I(0)), get(args, $I(1)));` (no test of len(args)) -/
def procNewAlwaysOpens : Bool := {b(new_always)}
/-- is Process_<X> the text of File_<X> under Process_→File_, `struct Process* p`→`struct File* f`, p->proc→f->file,
    popen→fopen, pclose→fclose, "process"→"file" (white space normalised)?  Process_New is not File_New: see above -/
def procSameAsFile : List (String × Bool) := [{same_txt}]
def procInstNew : List String := {lean_list([lean_str(x) for x in inst['New']])}
def procInstStart : List String := {lean_list([lean_str(x) for x in inst['Start']])}
def procInstStream : List String := {lean_list([lean_str(x) for x in inst['Stream']])}
def procInstFormat : List String := {lean_list([lean_str(x) for x in inst['Format']])}
def procInstClasses : List String := {lean_list([lean_str(x) for x in inst_classes])}
/-- whitespace-normalised bodies -/
def procNewText : String := {lean_str(bn)}
def procDelText : String := {lean_str(_norm(bd))}
def procOpenText : String := {lean_str(_norm(bo))}
def procCloseText : String := {lean_str(_norm(bc))}
"""


# ------------------------------------------------------------------------------------------------------------------------
# Extension round: File_Open / File_Del as statement PROGRAMS, the `with_in` macro as a TERM program, start_in / stop_in as records

def top_statements(body):
    """the top-level statements of a (comment-stripped) function body, whitespace-normalised"""
    b = _norm(body); out = []; i = 0
    while i < len(b):
        if b[i] == ' ': i += 1; continue
        m = re.match(r'(if|while|for|switch)\s*\(', b[i:])
        if m:
            k = balanced(b, b.index('(', i)); j = k
            while j < len(b) and b[j] == ' ': j += 1
            if j < len(b) and b[j] == '{': e = balanced(b, j, '{', '}')
            else:
                e = b.find(';', j); e = len(b) if e < 0 else e + 1
            while True:
                me = re.match(r'\s*else\s*(if\s*\()?', b[e:])
                if not me: break
                j = e + me.end()
                if me.group(1):
                    j = balanced(b, j - 1)
                    while j < len(b) and b[j] == ' ': j += 1
                if j < len(b) and b[j] == '{': e = balanced(b, j, '{', '}')
                else:
                    e2 = b.find(';', j); e = len(b) if e2 < 0 else e2 + 1
            out.append(b[i:e].strip()); i = e
        elif b[i] == '{':
            e = balanced(b, i, '{', '}'); out.append(b[i:e]); i = e
        else:
            e = b.find(';', i); e = len(b) if e < 0 else e + 1
            out.append(b[i:e].strip()); i = e
    return [x for x in out if x and x != ';']

FOPEN_CALL = r'fopen\s*\(\s*c_str\s*\(\s*filename\s*\)\s*,\s*c_str\s*\(\s*access\s*\)\s*\)'
def open_program(body, closer='File_Close', field='f->file', struct_decl=r'struct File\s*\*\s*f = self;'):
    """File_Open / File_Del statement by statement.  Tokens: closeIfHeld | fopenTo field/local | throwIfNull field/local |
    storeLocal | ret | other <text> (anything the interpreter of Cello/FileProg.lean has no meaning for)"""
    fld = re.escape(field); toks = []; local = None
    for st in top_statements(body):
        if re.fullmatch(struct_decl, st): continue
        if re.fullmatch(r'if \(\s*' + fld + r' isnt NULL\s*\) \{ ' + closer + r'\(self\); \}', st): toks.append('.closeIfHeld'); continue
        if re.fullmatch(fld + r' = ' + FOPEN_CALL + ';', st): toks.append('(.fopenTo .field)'); continue
        m = re.fullmatch(r'FILE\s*\*\s*(\w+) = ' + FOPEN_CALL + ';', st)
        if m: local = m.group(1); toks.append('(.fopenTo .loc)'); continue
        if re.fullmatch(r'if \(\s*' + fld + r' is NULL\s*\) \{ throw\(IOError\b.*\); \}', st): toks.append('(.throwIfNull .field)'); continue
        if local and re.fullmatch(r'if \(\s*' + local + r' is NULL\s*\) \{ throw\(IOError\b.*\); \}', st): toks.append('(.throwIfNull .loc)'); continue
        if local and re.fullmatch(fld + r' = ' + local + ';', st): toks.append('.storeLocal'); continue
        if re.fullmatch(r'return self;', st): toks.append('.ret'); continue
        toks.append(f'(.other {lean_str(st[:120])})')
    return toks

class _TermParser:
    """C expressions of the `with_in` header:  E ::= NAME | NAME '(' E {',' E} ')'"""
    def __init__(self, txt, where):
        self.toks = re.findall(r'[A-Za-z_]\w*|[(),]|\S', txt); self.i = 0; self.where = where; self.txt = txt
    def peek(self): return self.toks[self.i] if self.i < len(self.toks) else None
    def take(self, t=None):
        x = self.peek()
        if x is None or (t is not None and x != t): raise ExtractError(f'{self.where}: cannot read `{self.txt}`')
        self.i += 1; return x
    def expr(self):
        x = self.take()
        if not re.fullmatch(r'[A-Za-z_]\w*', x): raise ExtractError(f'{self.where}: cannot read `{self.txt}`')
        if self.peek() == '(':
            self.take('('); a = self.expr(); self.take(')')          # unary calls only
            return f'(.call {lean_str(x)} {a})'
        return {'X': '.x', 'S': '.s', 'NULL': '.null'}.get(x, f'(.name {lean_str(x)})')
    def parse(self):
        e = self.expr()
        if self.peek() is not None: raise ExtractError(f'{self.where}: trailing text in `{self.txt}`')
        return e

def with_program(w_init, w_cond, w_step):
    """the three clauses of the for loop as terms over the macro parameters X (loop variable) and S (source expression)"""
    mi = re.fullmatch(r'var\s+(\w+)\s*=\s*(.*)', w_init)
    mc = re.fullmatch(r'(\w+)\s+(isnt|is)\s+(\w+)', w_cond) or re.fullmatch(r'(\w+)\s*(!=|==)\s*(\w+)', w_cond)
    ms = re.fullmatch(r'(\w+)\s*=\s*(.*)', w_step)
    if not (mi and mc and ms): raise ExtractError(f'with_in: clauses of unexpected shape: `{w_init}` ; `{w_cond}` ; `{w_step}`')
    tp = lambda t: _TermParser(t, 'with_in').parse()
    neq = 'true' if mc.group(2) in ('isnt', '!=') else 'false'
    return (f'⟨{tp(mi.group(1))}, {tp(mi.group(2))}, {tp(mc.group(1))}, {neq}, {tp(mc.group(3))}, {tp(ms.group(1))}, {tp(ms.group(2))}⟩')

def start_fn(body, who):
    """start_in / stop_in: `struct Start* s = instance(self, Start); if (s and s-><m>) { s-><m>(self); } return <self|NULL>;`"""
    sts = top_statements(body)
    if len(sts) != 3: raise ExtractError(f'{who}: expected three statements, found {sts}')
    m0 = re.fullmatch(r'struct (\w+)\s*\*\s*s = instance\(self, (\w+)\);', sts[0])
    m1 = re.fullmatch(r'if \(s and s->(\w+)\) \{ s->(\w+)\((\w+)\); \}', sts[1])
    m2 = re.fullmatch(r'return (\w+);', sts[2])
    if not (m0 and m1 and m2) or m0.group(1) != m0.group(2):
        raise ExtractError(f'{who}: body of unexpected shape: {sts}')
    return f'⟨{lean_str(m0.group(2))}, {lean_str(m1.group(1))}, {lean_str(m1.group(2))}, {lean_str(m1.group(3))}, {lean_str(m2.group(1))}⟩'

def gen_file(repo):
    src = read(f'{repo}/src/File.c')
    names = sorted(set(re.findall(r'\bstatic\s+[\w\s\*]+?\b(File_\w+)\s*\([^;{]*\)\s*\{', src)))
    doc = {'File_Name', 'File_Brief', 'File_Description', 'File_Definition', 'File_Examples', 'File_Methods'}
    names = [n for n in names if n not in doc]
    expected = ['File_Close', 'File_Del', 'File_EOF', 'File_Flush', 'File_Format_From', 'File_Format_To', 'File_New', 'File_Open',
                'File_Read', 'File_Seek', 'File_Tell', 'File_Write']
    if names != expected:
        raise ExtractError(f'the File_* functions of src/File.c are {names}, the model covers {expected}')
    rows = []
    bodies = {}
    for n in names:
        b = func_body(src, n); bodies[n] = b
        calls = stdio_calls(b)
        g = re.search(GUARD, b)
        guard_first = bool(g) and (not calls or g.start() < calls[0][0])
        rows.append((n, [c for _, c in calls], bool(g), guard_first))
    # File_Close: guard, then `int err = fclose(f->file); f->file = NULL;` then the error test
    bc = bodies['File_Close']
    m_fclose = re.search(r'\bfclose\s*\(\s*f->file\s*\)', bc)
    if not m_fclose: raise ExtractError('File_Close: fclose(f->file) not found')
    g = re.search(GUARD, bc)
    close_guarded = bool(g) and g.start() < m_fclose.start()
    m_null = re.search(r'f->file\s*=\s*NULL\s*;', bc)
    m_err = re.search(r'if\s*\(\s*err\s*!=\s*0\s*\)', bc)
    if not m_null: raise ExtractError('File_Close never resets f->file')
    if not m_err: raise ExtractError('File_Close: the test of the result of fclose was not found')
    if m_null.start() < m_fclose.start(): raise ExtractError('File_Close resets f->file before calling fclose')
    close_drops = m_null.start() < m_err.start()
    # File_Open: close-if-held, then f->file = fopen(...), then NULL test with throw IOError
    bo = bodies['File_Open']
    h = re.search(HELD, bo); fo = re.search(r'f->file\s*=\s*fopen\s*\(\s*c_str\s*\(\s*filename\s*\)\s*,\s*c_str\s*\(\s*access\s*\)\s*\)', bo)
    # (extension round: a File_Open that does not store fopen's result into the field directly is no longer a translator error —
    #  the body is extracted as a program below, `openProg`, and the theorems about that program give the verdict)
    open_closes_first = bool(h) and bool(fo) and h.start() < fo.start()
    th = re.search(r'if\s*\(\s*f->file\s+is\s+NULL\s*\)\s*\{\s*throw\s*\(\s*IOError', bo[fo.end():]) if fo else None
    open_throws = bool(th)
    # File_Del
    bd = bodies['File_Del']
    del_closes = bool(re.search(HELD, bd)) and not stdio_calls(bd)
    # File_New
    bn = bodies['File_New']
    new_opens = bool(re.search(r'if\s*\(\s*len\s*\(\s*args\s*\)\s*>\s*0\s*\)\s*\{\s*File_Open\s*\(\s*self\s*,\s*get\s*\(\s*args\s*,\s*\$I\(0\)\s*\)\s*,\s*get\s*\(\s*args\s*,\s*\$I\(1\)\s*\)\s*\)', bn)) and not stdio_calls(bn)
    # fread / fwrite argument shape and the error conditions
    br, bw = bodies['File_Read'], bodies['File_Write']
    read_shape = bool(re.search(r'fread\s*\(\s*output\s*,\s*size\s*,\s*1\s*,\s*f->file\s*\)', br)) and \
        bool(re.search(r'if\s*\(\s*num\s+isnt\s+1\s+and\s+size\s+isnt\s+0\s+and\s+not\s+feof\s*\(\s*f->file\s*\)\s*\)\s*\{\s*throw\s*\(\s*IOError', br))
    write_shape = bool(re.search(r'fwrite\s*\(\s*input\s*,\s*size\s*,\s*1\s*,\s*f->file\s*\)', bw)) and \
        bool(re.search(r'if\s*\(\s*num\s+isnt\s+1\s+and\s+size\s+isnt\s+0\s*\)\s*\{\s*throw\s*\(\s*IOError', bw))
    seek_shape = bool(re.search(r'fseek\s*\(\s*f->file\s*,\s*pos\s*,\s*origin\s*\)', bodies['File_Seek'])) and \
        bool(re.search(r'if\s*\(\s*err\s*!=\s*0\s*\)\s*\{\s*throw\s*\(\s*IOError', bodies['File_Seek']))
    tell_shape = bool(re.search(r'=\s*ftell\s*\(\s*f->file\s*\)', bodies['File_Tell'])) and \
        bool(re.search(r'if\s*\(\s*i\s*==\s*-1\s*\)\s*\{\s*throw\s*\(\s*IOError', bodies['File_Tell'])) and bool(re.search(r'return\s+i\s*;', bodies['File_Tell']))
    flush_shape = bool(re.search(r'fflush\s*\(\s*f->file\s*\)', bodies['File_Flush'])) and \
        bool(re.search(r'if\s*\(\s*err\s*!=\s*0\s*\)\s*\{\s*throw\s*\(\s*IOError', bodies['File_Flush']))
    eof_shape = bool(re.search(r'return\s+feof\s*\(\s*f->file\s*\)\s*;', bodies['File_EOF']))
    fmt_shape = bool(re.search(r'return\s+vfprintf\s*\(\s*f->file\s*,\s*fmt\s*,\s*va\s*\)\s*;', bodies['File_Format_To'])) and \
        bool(re.search(r'return\s+vfscanf\s*\(\s*f->file\s*,\s*fmt\s*,\s*va\s*\)\s*;', bodies['File_Format_From']))
    inst = {c: instance_members(src, c) for c in ('New', 'Start', 'Stream', 'Format')}
    # which classes File implements at all (no Assign, no Copy: copy / assign take the generic fall-back paths)
    md = re.search(r'var\s+File\s*=\s*Cello\s*\(\s*File\s*,', src)
    decl = src[md.start():balanced(src, src.index('(', md.start()))]
    inst_classes = re.findall(r'Instance\s*\(\s*(\w+)\s*,', decl)
    # the generic fall-backs: assign without an Assign instance is memcpy of size(type) bytes; copy without a Copy instance
    # is assign(alloc(type), self)
    ba = re.sub(r'\s+', ' ', func_body(read(f'{repo}/src/Assign.c'), 'assign'))
    m1 = re.search(r'if \(a and a->assign\) \{ a->assign\(self, obj\); return self; \}', ba)
    m2 = re.search(r'size_t s = size\(type_of\(self\)\); if \(type_of\(self\) is type_of\(obj\) and s\) \{ return memcpy\(self, obj, s\); \}', ba)
    assign_memcpy = bool(m1) and bool(m2) and m1.start() < m2.start() and 'memcpy' not in ba[:m2.start()]
    bcp = re.sub(r'\s+', ' ', func_body(read(f'{repo}/src/Alloc.c'), 'copy'))
    m3 = re.search(r'if \(c and c->copy\) \{ return c->copy\(self\); \}', bcp)
    m4 = re.search(r'return assign\(alloc\(type_of\(self\)\), self\);', bcp)
    copy_assign_alloc = bool(m3) and bool(m4) and m3.start() < m4.start()
    # with / start_in / stop_in
    hdr = read(f'{repo}/include/Cello.h')
    mw = re.search(r'#define\s+with_in\(X,\s*S\)\s+(.*)', hdr)
    if not mw: raise ExtractError('with_in macro not found')
    with_macro = re.sub(r'\s+', ' ', mw.group(1)).strip()
    # the three clauses of the for loop `with_in(X, S)` expands to: which expression start_in / stop_in receive
    mf = re.fullmatch(r'for\s*\((.*);(.*);(.*)\)', with_macro)
    if not mf: raise ExtractError(f'with_in is not a single for(…;…;…) header: {with_macro}')
    w_init, w_cond, w_step = (x.strip() for x in mf.groups())
    mi = re.fullmatch(r'var\s+X\s*=\s*start_in\s*\((.*)\)', w_init)
    ms = re.fullmatch(r'X\s*=\s*stop_in\s*\((.*)\)', w_step)
    w_init_arg = mi.group(1).strip() if mi else ''
    w_step_arg = ms.group(1).strip() if ms else ''
    w_cond_ok = bool(re.fullmatch(r'X\s+isnt\s+NULL|X\s*!=\s*NULL', w_cond))
    st = read(f'{repo}/src/Start.c')
    bsi, bso = func_body(st, 'start_in'), func_body(st, 'stop_in')
    norm = lambda s: re.sub(r'\s+', ' ', s).strip()
    open_prog = open_program(bo); del_prog = open_program(bd)
    with_prog = with_program(w_init, w_cond, w_step)
    start_rec = start_fn(bsi, 'start_in'); stop_rec = start_fn(bso, 'stop_in')
    rows_txt = ',\n   '.join(f'⟨{lean_str(n)}, {lean_list([lean_str(c) for c in cs])}, {"true" if g else "false"}, {"true" if gf else "false"}⟩'
                             for n, cs, g, gf in rows)
    b = lambda x: 'true' if x else 'false'
    proc_txt = gen_process(src, bodies)
    return HEADER + f"""namespace CelloGen.File

/-- where File_Open keeps the result of fopen: the field `f->file` or a local `FILE*` -/
inductive Slot where
  | field | loc
deriving DecidableEq, Repr, Inhabited

/-- one top-level statement of File_Open / File_Del (extension round: the body as a program, interpreted by Cello/FileProg.lean) -/
inductive OStmt where
  | closeIfHeld                 -- `if (f->file isnt NULL) {{ File_Close(self); }}`
  | fopenTo (s : Slot)          -- `f->file = fopen(c_str(filename), c_str(access));` / `FILE* v = fopen(…);`
  | throwIfNull (s : Slot)      -- `if (<slot> is NULL) {{ throw(IOError, …); }}`
  | storeLocal                  -- `f->file = v;`
  | ret                         -- `return self;`
  | other (text : String)       -- a statement the interpreter gives no meaning to
deriving DecidableEq, Repr, Inhabited

/-- expressions of the header of `with_in` over the macro parameters -/
inductive WTerm where
  | x                           -- the loop variable `X`
  | s                           -- the macro argument `S` (the source expression, spliced in textually)
  | null
  | name (n : String)
  | call (fn : String) (arg : WTerm)
deriving DecidableEq, Repr, Inhabited

/-- `for(var <initVar> = <init>; <condL> isnt/is <condR>; <stepVar> = <step>)` -/
structure WFor where
  initVar : WTerm
  init : WTerm
  condL : WTerm
  condIsnt : Bool
  condR : WTerm
  stepVar : WTerm
  step : WTerm
deriving DecidableEq, Repr, Inhabited

/-- start_in / stop_in: `struct <inst>* s = instance(self, <inst>); if (s and s-><guard>) {{ s-><method>(<arg>); }} return <ret>;` -/
structure StartFn where
  inst : String
  guard : String
  method : String
  arg : String
  ret : String
deriving DecidableEq, Repr, Inhabited

structure Row where
  name : String
  stdio : List String      -- stdio functions called, in textual order
  guarded : Bool           -- contains `if (f->file is NULL) {{ throw(IOError, …`
  guardFirst : Bool        -- … and that test precedes the first stdio call
deriving DecidableEq, Repr

/-- every File_* function of src/File.c (documentation functions excluded) -/
def table : List Row :=
  [{rows_txt}]

/-- File_Close tests `f->file is NULL` (→ IOError) before calling fclose -/
def closeGuarded : Bool := {b(close_guarded)}
/-- File_Close executes `f->file = NULL` after fclose and before testing its result -/
def closeDropsAlways : Bool := {b(close_drops)}
/-- File_Open: `if (f->file isnt NULL) {{ File_Close(self); }}` precedes `f->file = fopen(c_str(filename), c_str(access))` -/
def openClosesFirst : Bool := {b(open_closes_first)}
/-- File_Open: a NULL result of fopen → throw IOError -/
def openThrowsOnNull : Bool := {b(open_throws)}
/-- File_Del: `if (f->file isnt NULL) {{ File_Close(self); }}` and no stdio call of its own -/
def delClosesIfHeld : Bool := {b(del_closes)}
/-- File_New: `if (len(args) > 0) {{ File_Open(self, get(args, $I(0)), get(args, $I(1))); }}` -/
def newOpensIfArgs : Bool := {b(new_opens)}
/-- File_Read: `fread(output, size, 1, f->file)` and `num isnt 1 and size isnt 0 and not feof(f->file)` → IOError -/
def readShape : Bool := {b(read_shape)}
/-- File_Write: `fwrite(input, size, 1, f->file)` and `num isnt 1 and size isnt 0` → IOError -/
def writeShape : Bool := {b(write_shape)}
def seekShape : Bool := {b(seek_shape)}
def tellShape : Bool := {b(tell_shape)}
def flushShape : Bool := {b(flush_shape)}
def eofShape : Bool := {b(eof_shape)}
def formatShape : Bool := {b(fmt_shape)}

/-- the class instances of `File` -/
def instNew : List String := {lean_list([lean_str(x) for x in inst['New']])}
def instStart : List String := {lean_list([lean_str(x) for x in inst['Start']])}
def instStream : List String := {lean_list([lean_str(x) for x in inst['Stream']])}
def instFormat : List String := {lean_list([lean_str(x) for x in inst['Format']])}
/-- every class `File` declares an instance of, in the order of `var File = Cello(File, …)` -/
def instClasses : List String := {lean_list([lean_str(x) for x in inst_classes])}
/-- src/Assign.c `assign`: the type's Assign instance if it has one, else `memcpy(self, obj, size(type_of(self)))` -/
def assignFallsBackToMemcpy : Bool := {b(assign_memcpy)}
/-- src/Alloc.c `copy`: the type's Copy instance if it has one, else `assign(alloc(type_of(self)), self)` -/
def copyFallsBackToAssignAlloc : Bool := {b(copy_assign_alloc)}

/-- `with_in`, `start_in`, `stop_in` (whitespace-normalised) -/
def withMacro : String := {lean_str(with_macro)}
/-- the for loop's clauses: init `var X = start_in(<withInitArg>)` ("" = another shape), condition `X isnt NULL`,
    step `X = stop_in(<withStepArg>)` ("" = another shape) -/
def withInitArg : String := {lean_str(w_init_arg)}
def withCondNotNull : Bool := {b(w_cond_ok)}
def withStepArg : String := {lean_str(w_step_arg)}
/-- the step clause stops the loop variable `X` (the object start_in returned), not the macro argument `S` again -/
def withStopsBound : Bool := {b(w_step_arg == 'X')}
def startIn : String := {lean_str(norm(bsi))}
def stopIn : String := {lean_str(norm(bso))}

/-- File_Open and File_Del, statement by statement -/
def openProg : List OStmt := {lean_list(open_prog)}
def delProg : List OStmt := {lean_list(del_prog)}
/-- the header of `with_in` as terms -/
def withProg : WFor := {with_prog}
def startInFn : StartFn := {start_rec}
def stopInFn : StartFn := {stop_rec}
{proc_txt}
end CelloGen.File
"""

# ------------------------------------------------------------------------------------------------------------------------
# CelloGen/FileScan.lean: the text side of C20 — what scan_from_with (src/Show.c) does with what a conversion of vfscanf
# stored, per conversion and length modifier, as DATA (the narrowing / widening expression is a small term, not a flag), the
# argument print_to_with hands to format_to per conversion, and the formats of Int / Float Show and Look (src/Num.c).

CTYPES = {'char': (True, 8), 'signed char': (True, 8), 'unsigned char': (False, 8), 'short': (True, 16), 'signed short': (True, 16),
          'unsigned short': (False, 16), 'short int': (True, 16), 'unsigned short int': (False, 16), 'int': (True, 32), 'signed int': (True, 32),
          'signed': (True, 32), 'unsigned': (False, 32), 'unsigned int': (False, 32), 'long': (True, 64), 'signed long': (True, 64), 'long int': (True, 64),
          'unsigned long': (False, 64), 'unsigned long int': (False, 64), 'long long': (True, 64), 'signed long long': (True, 64),
          'unsigned long long': (False, 64), 'long long int': (True, 64), 'int8_t': (True, 8), 'uint8_t': (False, 8), 'int16_t': (True, 16),
          'uint16_t': (False, 16), 'int32_t': (True, 32), 'uint32_t': (False, 32), 'int64_t': (True, 64), 'uint64_t': (False, 64),
          'size_t': (False, 64), 'ssize_t': (True, 64), 'intmax_t': (True, 64), 'uintmax_t': (False, 64), 'ptrdiff_t': (True, 64),
          'intptr_t': (True, 64), 'uintptr_t': (False, 64)}
TYPE_RE = '(?:' + '|'.join(sorted((re.escape(k).replace(r'\ ', r'\s+') for k in CTYPES), key=len, reverse=True)) + ')'

def ctype(txt, where):
    k = _norm(txt)
    if k not in CTYPES: raise ExtractError(f'{where}: `{k}` is not an integer type the translator knows')
    return CTYPES[k]

def lean_cty(t): return f'⟨{"true" if t[0] else "false"}, {t[1]}⟩'

class _WParser:
    """the expression assigned to `tmp` in an arm of the integer branch:  E ::= sgn ? E : E | (type) E | ( E ) | t"""
    def __init__(self, txt, var, where):
        self.toks = re.findall(r'[A-Za-z_]\w*|[()?:]|\S', txt); self.i = 0; self.var = var; self.where = where; self.txt = txt
    def peek(self): return self.toks[self.i] if self.i < len(self.toks) else None
    def take(self, t=None):
        x = self.peek()
        if x is None or (t is not None and x != t): raise ExtractError(f'{self.where}: cannot read the expression `{self.txt}` (at token {self.i})')
        self.i += 1; return x
    def expr(self):
        if self.peek() == 'sgn':
            self.take(); self.take('?'); a = self.expr(); self.take(':'); b = self.expr()
            return f'(.cond {a} {b})'
        if self.peek() == 'not' or self.peek() == '!':
            self.take(); self.take('sgn'); self.take('?'); a = self.expr(); self.take(':'); b = self.expr()
            return f'(.cond {b} {a})'
        return self.unary()
    def unary(self):
        if self.peek() == '(':
            # a cast `(type) E` or a parenthesised expression
            j = self.i + 1; words = []
            while j < len(self.toks) and re.fullmatch(r'[A-Za-z_]\w*', self.toks[j]): words.append(self.toks[j]); j += 1
            if words and j < len(self.toks) and self.toks[j] == ')' and ' '.join(words) in CTYPES:
                self.i = j + 1
                e = self.unary()
                return f'(.cast {lean_cty(CTYPES[" ".join(words)])} {e})'
            self.take('('); e = self.expr(); self.take(')'); return e
        x = self.take()
        if x != self.var: raise ExtractError(f'{self.where}: `{x}` in `{self.txt}` is neither the temporary `{self.var}`, `sgn`, nor a cast')
        return '.t'
    def parse(self):
        e = self.expr()
        if self.peek() is not None: raise ExtractError(f'{self.where}: trailing text in the expression `{self.txt}`')
        return e

# the branches of scan_from_with that Cello/FileText.lean mirrors, with the parts extracted as data masked out
SCAN_STR_BRANCH = ("int err = format_from(input, pos, fmt_buf, c_str(a), &off); if (err < 1) { throw(FormatError, \"Unable to input String!\"); } pos += off;")
SCAN_LIT_BRANCH = ("memcpy(fmt_buf, start, fmt - start); fmt_buf[fmt - start] = '\\0'; format_from(input, pos, fmt_buf); pos += (int)(fmt - start); continue;")
SCAN_SPEC_HEAD = ("int off = 0; memcpy(fmt_buf, start, fmt - start + 1); fmt_buf[fmt - start + 1] = '\\0'; strcat(fmt_buf, \"%n\"); if (index >= len(args)) { "
                  "throw(FormatError, \"Not enough arguments to Format String!\"); } var a = get(args, $I(index)); index++; "
                  "if (*fmt is '$') { pos = look_from(a, input, pos); }")
PRINT_BRANCHES = [('$', 'pos = show_to(a, out, pos);'),
                  ('s', 'int off = format_to(out, pos, fmt_buf, c_str(a)); if (off < 0) { throw(FormatError, "Unable to output String!"); } pos += off;'),
                  ('diouxX', 'int off = format_to(out, pos, fmt_buf, c_int(a)); if (off < 0) { throw(FormatError, "Unable to output Int!"); } pos += off;'),
                  ('fFeEgGaA', 'int off = format_to(out, pos, fmt_buf, c_float(a)); if (off < 0) { throw(FormatError, "Unable to output Real!"); } pos += off;'),
                  ('c', 'int off = format_to(out, pos, fmt_buf, c_int(a)); if (off < 0) { throw(FormatError, "Unable to output Char!"); } pos += off;'),
                  ('p', 'int off = format_to(out, pos, fmt_buf, a); if (off < 0) { throw(FormatError, "Unable to output Object!"); } pos += off;')]

def _cbytes(s, where):
    from g_text import c_unescape
    return c_unescape(s, where)

def gen_file_scan(repo):
    shw = read(f'{repo}/src/Show.c')
    sb = _norm(func_body(shw, 'scan_from_with'))
    W = 'scan_from_with'
    # ---- the literal branch and the head of the specification branch (pinned texts)
    ml = re.search(r"if \(start isnt fmt\) \{ (memcpy\(fmt_buf, start, fmt - start\);.*?continue;) \}", sb)
    lit_txt = ml.group(1) if ml else ''
    mh = re.search(r"if \(start isnt fmt\) \{ (int off = 0; .*?if \(\*fmt is '\$'\) \{.*?\}) else if", sb)
    head_txt = mh.group(1) if mh else ''
    # ---- the chain of branches after `%$`: (test, body) in order
    chain = []
    if mh:
        rest = sb[mh.end(1):].strip()
        while True:
            m = re.match(r"else if \((.*?)\) \{", rest)
            if m and rest[m.end() - 1] == '{':
                # the test may contain parentheses: find the `{` that follows the balanced test
                k0 = rest.index('(')
                k1 = balanced(rest, k0)
                test = rest[k0 + 1:k1 - 1].strip()
                kb = rest.index('{', k1 - 1)
                e = balanced(rest, kb, '{', '}')
                chain.append((test, rest[kb + 1:e - 1].strip()))
                rest = rest[e:].strip(); continue
            m = re.match(r"else \{", rest)
            if m:
                e = balanced(rest, m.end() - 1, '{', '}')
                chain.append(('else', rest[m.end():e - 1].strip()))
            break
    if not chain: raise ExtractError(f'{W}: the chain of conversion branches after `%$` was not found')
    def find_branch(pred, what):
        for t, b in chain:
            if pred(t): return t, b
        raise ExtractError(f'{W}: no branch for {what}')
    # ---- %s
    _, str_txt = find_branch(lambda t: re.fullmatch(r"\*fmt is 's'", t), "`%s`")
    # ---- integers
    it, ib = find_branch(lambda t: re.fullmatch(r'strchr\("[diouxX]+", \*fmt\)', t) and 'd' in t, 'the integer conversions')
    int_convs = _cbytes(re.fullmatch(r'strchr\("([^"]*)", \*fmt\)', it).group(1), W)
    mt = re.search(r'if \(err < 1\) \{ throw\(FormatError, "Unable to input Int!"\); \} pos \+= off; assign\(a, \$I\(tmp\)\);$', ib)
    if not mt: raise ExtractError(f'{W}: the integer branch does not end in `if (err < 1) {{ throw … }} pos += off; assign(a, $I(tmp));`')
    ib = ib[:mt.start()].strip()
    m0 = re.match(r'(' + TYPE_RE + r') tmp = 0; ', ib)
    if not m0: raise ExtractError(f'{W}: the integer branch does not start with the declaration of `tmp`: `{ib[:80]}`')
    tmp_ty = ctype(m0.group(1), W)
    ib2 = ib[m0.end():]
    arms = []; int_signed = []
    DIRECT = r'(?:int )?err = format_from\(input, pos, fmt_buf, &tmp, &off\);'
    if re.fullmatch(DIRECT, ib2):
        arms.append(('else', [], tmp_ty, True, '.t'))                     # before 9114264: everything is read into `tmp` itself
    else:
        mh2 = re.match(r'int err = 0; bool sgn = strchr\("([^"]*)", \*fmt\) isnt NULL; ', ib2)
        if not mh2: raise ExtractError(f'{W}: integer branch: expected `int err = 0; bool sgn = strchr("…", *fmt) isnt NULL;`, found `{ib2[:100]}`')
        int_signed = _cbytes(mh2.group(1), W)
        ch = ib2[mh2.end():].strip()
        while ch:
            m = re.match(r'(?:else )?if \((strpbrk|strstr)\(fmt_buf, "([^"]*)"\)\) \{', ch) or re.match(r"(?:else )?if \((strchr)\(fmt_buf, '((?:\\.|[^'\\])+)'\)\) \{", ch)
            final = False
            if m: kind, arg, k = m.group(1), _cbytes(m.group(2), W), m.end() - 1
            else:
                m = re.match(r'else \{', ch)
                if not m: raise ExtractError(f'{W}: integer branch: expected a test on fmt_buf or a final else near `{ch[:100]}`')
                kind, arg, k, final = 'else', [], m.end() - 1, True
            e = balanced(ch, k, '{', '}')
            body = ch[k + 1:e - 1].strip()
            if re.fullmatch(DIRECT, body): arms.append((kind, arg, tmp_ty, True, '.t'))
            else:
                mb = re.fullmatch(r'(' + TYPE_RE + r') (\w+) = 0; err = format_from\(input, pos, fmt_buf, &(\w+), &off\); tmp = (.*);', body)
                if not mb or mb.group(2) != mb.group(3):
                    raise ExtractError(f'{W}: integer branch: arm body of unexpected shape: `{body[:160]}`')
                arms.append((kind, arg, ctype(mb.group(1), W), False, _WParser(mb.group(4), mb.group(2), W).parse()))
            ch = ch[e:].strip()
            if final and ch: raise ExtractError(f'{W}: integer branch: code after the final else: `{ch[:80]}`')
    # ---- floating
    ft, fb = find_branch(lambda t: re.fullmatch(r'strchr\("[fFeEgGaA]+", \*fmt\)', t), 'the floating conversions')
    flt_convs = _cbytes(re.fullmatch(r'strchr\("([^"]*)", \*fmt\)', ft).group(1), W)
    FARM = r'(double|float) tmp = 0; int err = format_from\(input, pos, fmt_buf, &tmp, &off\); if \(err < 1\) \{ throw\(FormatError, "Unable to input Float!"\); \} pos \+= off; assign\(a, \$F\(tmp\)\);'
    mf = re.fullmatch(r'if \((.*?)\) \{ ' + FARM + r' \} else \{ ' + FARM + r' \}', fb)
    if mf:
        mw = re.fullmatch(r"strchr\(fmt_buf, '((?:\\.|[^'\\])+)'\)", mf.group(1)) or re.fullmatch(r'strpbrk\(fmt_buf, "([^"]*)"\)', mf.group(1))
        if not mw: raise ExtractError(f'{W}: floating branch: unexpected test `{mf.group(1)[:80]}`')
        flt_wide = _cbytes(mw.group(1), W); flt_then, flt_else = mf.group(2), mf.group(3)
    else:
        mf1 = re.fullmatch(FARM, fb)
        if not mf1: raise ExtractError(f'{W}: floating branch of unexpected shape: `{fb[:160]}`')
        flt_wide = []; flt_then = flt_else = mf1.group(1)
    # the same branch as a CHAIN of arms (extension round): (test kind, argument, type of the object scanf stores into, what `$F(…)` wraps)
    FARM_G = r'((?:long )?double|float) (\w+) = 0; int err = format_from\(input, pos, fmt_buf, &(\w+), &off\); if \(err < 1\) \{ throw\(FormatError, "Unable to input Float!"\); \} pos \+= off; assign\(a, \$F\((.*?)\)\);'
    farms = []; ch = fb.strip()
    def farm_of(kind, arg, body):
        mb = re.fullmatch(FARM_G, body)
        if not mb or mb.group(2) != mb.group(3): raise ExtractError(f'{W}: floating branch: arm body of unexpected shape: `{body[:160]}`')
        return (kind, arg, mb.group(1), 'tmp' if mb.group(4).strip() == mb.group(2) else _norm(mb.group(4)))
    if re.fullmatch(FARM_G, ch): farms.append(farm_of('else', [], ch))
    else:
        while ch:
            m = re.match(r'(?:else )?if \((strpbrk|strstr)\(fmt_buf, "([^"]*)"\)\) \{', ch) or re.match(r"(?:else )?if \((strchr)\(fmt_buf, '((?:\\.|[^'\\])+)'\)\) \{", ch)
            final = False
            if m: kind, arg, k = m.group(1), _cbytes(m.group(2), W), m.end() - 1
            else:
                m = re.match(r'else \{', ch)
                if not m: raise ExtractError(f'{W}: floating branch: expected a test on fmt_buf or a final else near `{ch[:100]}`')
                kind, arg, k, final = 'else', [], m.end() - 1, True
            e = balanced(ch, k, '{', '}')
            farms.append(farm_of(kind, arg, ch[k + 1:e - 1].strip()))
            ch = ch[e:].strip()
            if final and ch: raise ExtractError(f'{W}: floating branch: code after the final else: `{ch[:80]}`')
    # ---- %c
    _, cb = find_branch(lambda t: re.fullmatch(r"\*fmt is 'c'", t), '`%c`')
    mc = re.fullmatch(r"(" + TYPE_RE + r") tmp = (?:'\\0'|0); int err = format_from\(input, pos, fmt_buf, &tmp, &off\); if \(err < 1\) \{ throw\(FormatError, \"Unable to input Char!\"\); \} pos \+= off; assign\(a, \$I\((.*)\)\);", cb)
    if not mc: raise ExtractError(f'{W}: `%c` branch of unexpected shape: `{cb[:160]}`')
    char_ty = ctype(mc.group(1), W); char_fin = _WParser(mc.group(2), 'tmp', W).parse()
    # ---- print_to_with: which argument each conversion hands to format_to
    pb = _norm(func_body(shw, 'print_to_with'))
    pbr = []
    for m in re.finditer(r"if \((?:\*fmt is '(.)'|strchr\(\"([^\"]*)\", \*fmt\))\) \{ (.*?) \} (?=if \(|fmt\+\+;)", pb):
        pbr.append((m.group(1) or m.group(2), m.group(3).strip()))
    # ---- Num.c: formats of Show / Look
    num = read(f'{repo}/src/Num.c')
    def fmt_of(fn, call, arg):
        b = _norm(func_body(num, fn))
        m = re.fullmatch(r'return ' + call + r'\(' + arg + r', pos, "((?:\\.|[^"\\])*)", self\);', b)
        if not m: raise ExtractError(f'{fn}: expected `return {call}({arg}, pos, "<fmt>", self);`, found `{b[:80]}`')
        return ''.join(chr(x) for x in _cbytes(m.group(1), fn))
    int_show = fmt_of('Int_Show', 'print_to', 'output'); int_look = fmt_of('Int_Look', 'scan_from', 'input')
    flt_show = fmt_of('Float_Show', 'print_to', 'output'); flt_look = fmt_of('Float_Look', 'scan_from', 'input')
    inst_ok = bool(re.search(r'Instance\(\s*Show\s*,\s*Int_Show\s*,\s*Int_Look\s*\)', num)) and bool(re.search(r'Instance\(\s*Show\s*,\s*Float_Show\s*,\s*Float_Look\s*\)', num))
    lb = lambda bs: '[' + ', '.join(str(x) for x in bs) + ']'
    bl = lambda x: 'true' if x else 'false'
    arms_txt = ',\n   '.join(f'⟨{lean_str(k)}, {lb(a)}, {lean_cty(o)}, {bl(d)}, {fin}⟩' for k, a, o, d, fin in arms)
    pbr_txt = ', '.join(f'({lean_str(a)}, {lean_str(b)})' for a, b in pbr)
    farms_txt = ',\n   '.join(f'⟨{lean_str(k)}, {lb(a)}, {lean_str(o)}, {lean_str(fin)}⟩' for k, a, o, fin in farms)
    pbm_txt = ', '.join(f'({lean_str(a)}, {lean_str(b)})' for a, b in PRINT_BRANCHES)
    return HEADER + f"""namespace CelloGen.FileScan

/-- a C integer type on this platform (x86-64 glibc): signedness and width in bits -/
structure CTy where
  signed : Bool
  bits : Nat
deriving DecidableEq, Repr, Inhabited

/-- the expression an arm of the integer branch of `scan_from_with` assigns to `tmp`, over the temporary `t` scanf stored into -/
inductive WExpr where
  | t                               -- the temporary
  | cast (ty : CTy) (e : WExpr)     -- `(type) e`
  | cond (a b : WExpr)              -- `sgn ? a : b`
deriving DecidableEq, Repr, Inhabited

/-- one arm of the chain of tests on `fmt_buf`: the test (`strpbrk` / `strstr` / `strchr` / `else`) and its argument, the type of the
    object whose address scanf gets, whether that object is `tmp` itself (`direct`), and the expression assigned to `tmp` otherwise -/
structure Arm where
  test : String
  arg : List Nat
  obj : CTy
  direct : Bool
  fin : WExpr
deriving DecidableEq, Repr, Inhabited

/-- one arm of the chain of tests on `fmt_buf` in the FLOATING branch: the test and its argument, the C type of the object whose
    address scanf gets (`float` / `double` / `long double`), and the expression inside `$F(…)` ("tmp" = that object) -/
structure FArm where
  test : String
  arg : List Nat
  obj : String
  fin : String
deriving DecidableEq, Repr, Inhabited

/-- `<type> tmp = 0;` at the head of the integer branch: what `$I(tmp)` converts from -/
def tmpTy : CTy := {lean_cty(tmp_ty)}
/-- `strchr("…", *fmt)` that selects the integer branch -/
def intConvs : List Nat := {lb(int_convs)}
/-- the conversion characters for which `sgn` is true -/
def intSigned : List Nat := {lb(int_signed)}
def intArms : List Arm :=
  [{arms_txt}]

/-- the floating branch: its conversion characters, the characters of `fmt_buf` that select the first arm, the types read by the
    first and the second arm -/
def floatConvs : List Nat := {lb(flt_convs)}
def floatWide : List Nat := {lb(flt_wide)}
def floatArms : List FArm :=
  [{farms_txt}]
def floatThenTy : String := {lean_str(flt_then)}
def floatElseTy : String := {lean_str(flt_else)}

/-- the `%c` branch: the type of the object scanf stores the byte into and the expression handed to `$I(…)` -/
def charTy : CTy := {lean_cty(char_ty)}
def charFin : WExpr := {char_fin}

/-- pinned texts of the remaining branches (whitespace-normalised) and the texts Cello/FileText.lean was written against -/
def scanLitBranch : String := {lean_str(lit_txt)}
def scanLitBranchModelled : String := {lean_str(SCAN_LIT_BRANCH)}
def scanSpecHead : String := {lean_str(head_txt)}
def scanSpecHeadModelled : String := {lean_str(SCAN_SPEC_HEAD)}
def scanStrBranch : String := {lean_str(str_txt)}
def scanStrBranchModelled : String := {lean_str(SCAN_STR_BRANCH)}
/-- print_to_with: conversion characters ↦ the statement(s) of their branch (which argument `format_to` receives) -/
def printBranches : List (String × String) := [{pbr_txt}]
def printBranchesModelled : List (String × String) := [{pbm_txt}]

/-- src/Num.c: `Int_Show` / `Int_Look` / `Float_Show` / `Float_Look` are one print_to / scan_from with these formats, and are the
    Show instances of Int and Float -/
def intShowFmt : String := {lean_str(int_show)}
def intLookFmt : String := {lean_str(int_look)}
def floatShowFmt : String := {lean_str(flt_show)}
def floatLookFmt : String := {lean_str(flt_look)}
/-- the same four formats as bytes -/
def intShowFmtB : List Nat := {lb([ord(c) for c in int_show])}
def intLookFmtB : List Nat := {lb([ord(c) for c in int_look])}
def floatShowFmtB : List Nat := {lb([ord(c) for c in flt_show])}
def floatLookFmtB : List Nat := {lb([ord(c) for c in flt_look])}
def numShowInstances : Bool := {bl(inst_ok)}

end CelloGen.FileScan
"""

GENERATORS = {'File': gen_file, 'FileScan': gen_file_scan}
