"""Link (A) for engine `file` (C20): what src/File.c, src/Start.c and the `with` macro say, as a Lean table.

For every File_* function of src/File.c: which stdio functions it calls (in textual order) and whether the closed-handle
test `if (f->file is NULL) { throw(IOError, …` precedes the first of them; the two facts fix b3448e7 established about
File_Close (guarded; the handle is dropped before the result of fclose is tested); that File_Open and File_Del close a
held handle first; the argument counts File_Read / File_Write pass to fread / fwrite; the class instances of `File`
(which function is sclose, stop, destruct …); `with_in` (also clause by clause: which expression the init clause hands
to start_in and the step clause to stop_in), `start_in`, `stop_in`.

The same anchor file defines `Process`, the second Stream class: the same wrappers over `popen` / `pclose`.  For every
Process_* function the same table (guard `if (p->proc is NULL) { throw(IOError, …` before the first stdio call), the two
facts fix 51c301c established about Process_Close (guarded; the handle is dropped before the result of pclose is tested),
whether each Process_<X> IS File_<X> under the renaming Process_→File_, `struct Process* p`→`struct File* f`,
p->proc→f->file, popen→fopen, pclose→fclose, "process"→"file" (so that one model serves both), and the whitespace-normalised
texts of Process_New / Process_Del / Process_Open / Process_Close (pinned by C20_process_source_shape).
"""
import re
from ctext import *
from gen import HEADER, lean_str, lean_list

STDIO = ['fopen', 'fclose', 'fseek', 'ftell', 'fflush', 'feof', 'fread', 'fwrite', 'vfprintf', 'vfscanf', 'popen', 'pclose',
         'fprintf', 'fscanf', 'fputs', 'fputc', 'fgets', 'fgetc', 'rewind', 'fsetpos', 'fgetpos', 'freopen', 'setvbuf', 'clearerr', 'ferror']
GUARD = r'if\s*\(\s*f->file\s+is\s+NULL\s*\)\s*\{\s*throw\s*\(\s*IOError\b'
HELD = r'if\s*\(\s*f->file\s+isnt\s+NULL\s*\)\s*\{\s*File_Close\s*\(\s*self\s*\)\s*;\s*\}'

def stdio_calls(body):
    out = []
    for m in re.finditer(r'\b(' + '|'.join(STDIO) + r')\s*\(', body):
        out.append((m.start(), m.group(1)))
    return out

def instance_members(src, cls):
    """members of `Instance(<cls>, a, b, …)` inside the definition `var File = Cello(File, …);`"""
    m = re.search(r'var\s+File\s*=\s*Cello\s*\(\s*File\s*,', src)
    if not m: raise ExtractError('`var File = Cello(File, …)` not found')
    end = balanced(src, src.index('(', m.start()))
    decl = src[m.start():end]
    mm = re.search(r'Instance\s*\(\s*' + cls + r'\s*,', decl)
    if not mm: raise ExtractError(f'File has no Instance({cls}, …)')
    e = balanced(decl, decl.index('(', mm.start()))
    return split_top(decl[decl.index('(', mm.start()) + 1:e - 1])[1:]

PGUARD = r'if\s*\(\s*p->proc\s+is\s+NULL\s*\)\s*\{\s*throw\s*\(\s*IOError\b'
PHELD = r'if\s*\(\s*p->proc\s+isnt\s+NULL\s*\)\s*\{\s*Process_Close\s*\(\s*self\s*\)\s*;\s*\}'
PROC_EXPECTED = ['Process_Close', 'Process_Del', 'Process_EOF', 'Process_Flush', 'Process_Format_From', 'Process_Format_To',
                 'Process_New', 'Process_Open', 'Process_Read', 'Process_Seek', 'Process_Tell', 'Process_Write']

def _norm(s): return re.sub(r'\s+', ' ', s).strip()

def as_file(body):
    """a Process_* body under the renaming that turns it into the File_* function of the same name"""
    b = body
    b = re.sub(r'\bProcess_', 'File_', b)
    b = re.sub(r'\bstruct\s+Process\s*\*\s*p\b', 'struct File* f', b)
    b = re.sub(r'\bp->proc\b', 'f->file', b)
    b = re.sub(r'\bpopen\b', 'fopen', b)
    b = re.sub(r'\bpclose\b', 'fclose', b)
    b = re.sub(r'\bprocess\b', 'file', b)
    return _norm(b)

def class_decl(src, cls):
    m = re.search(r'var\s+' + cls + r'\s*=\s*Cello\s*\(\s*' + cls + r'\s*,', src)
    if not m: raise ExtractError(f'`var {cls} = Cello({cls}, …)` not found')
    return src[m.start():balanced(src, src.index('(', m.start()))]

def members_of(decl, cls, who):
    mm = re.search(r'Instance\s*\(\s*' + cls + r'\s*,', decl)
    if not mm: raise ExtractError(f'{who} has no Instance({cls}, …)')
    e = balanced(decl, decl.index('(', mm.start()))
    return split_top(decl[decl.index('(', mm.start()) + 1:e - 1])[1:]

def gen_process(src, file_bodies):
    """the Process half of src/File.c"""
    names = sorted(set(re.findall(r'\bstatic\s+[\w\s\*]+?\b(Process_\w+)\s*\([^;{]*\)\s*\{', src)))
    doc = {'Process_Name', 'Process_Brief', 'Process_Description', 'Process_Definition', 'Process_Examples', 'Process_Methods'}
    names = [n for n in names if n not in doc]
    if names != PROC_EXPECTED:
        raise ExtractError(f'the Process_* functions of src/File.c are {names}, the model covers {PROC_EXPECTED}')
    rows = []; bodies = {}
    for n in names:
        b = func_body(src, n); bodies[n] = b
        calls = stdio_calls(b)
        g = re.search(PGUARD, b)
        rows.append((n, [c for _, c in calls], bool(g), bool(g) and (not calls or g.start() < calls[0][0])))
    bc = bodies['Process_Close']
    m_pclose = re.search(r'\bpclose\s*\(\s*p->proc\s*\)', bc)
    if not m_pclose: raise ExtractError('Process_Close: pclose(p->proc) not found')
    g = re.search(PGUARD, bc)
    close_guarded = bool(g) and g.start() < m_pclose.start()
    m_null = re.search(r'p->proc\s*=\s*NULL\s*;', bc)
    m_err = re.search(r'if\s*\(\s*err\s*!=\s*0\s*\)\s*\{\s*throw\s*\(\s*IOError', bc)
    if not m_null: raise ExtractError('Process_Close never resets p->proc')
    if not m_err: raise ExtractError('Process_Close: the test of the result of pclose (→ IOError) was not found')
    if m_null.start() < m_pclose.start(): raise ExtractError('Process_Close resets p->proc before calling pclose')
    close_drops = m_null.start() < m_err.start()
    bo = bodies['Process_Open']
    h = re.search(PHELD, bo)
    po = re.search(r'p->proc\s*=\s*popen\s*\(\s*c_str\s*\(\s*filename\s*\)\s*,\s*c_str\s*\(\s*access\s*\)\s*\)', bo)
    if not po: raise ExtractError('Process_Open: `p->proc = popen(c_str(filename), c_str(access))` not found')
    open_closes_first = bool(h) and h.start() < po.start()
    open_throws = bool(re.search(r'if\s*\(\s*p->proc\s+is\s+NULL\s*\)\s*\{\s*throw\s*\(\s*IOError', bo[po.end():]))
    bd = bodies['Process_Del']
    del_closes = bool(re.search(PHELD, bd)) and not stdio_calls(bd)
    # Process_New: `p->proc = NULL; Process_Open(self, get(args, $I(0)), get(args, $I(1)));` — no test of len(args): it always opens
    bn = _norm(bodies['Process_New'])
    new_always = bool(re.fullmatch(r'struct Process\* p = self; p->proc = NULL; Process_Open\(self, get\(args, \$I\(0\)\), get\(args, \$I\(1\)\)\);', bn))
    same = []
    for n in names:
        if n == 'Process_New': continue
        fn = 'File_' + n[len('Process_'):]
        same.append((n, fn in file_bodies and as_file(bodies[n]) == _norm(file_bodies[fn])))
    decl = class_decl(src, 'Process')
    inst = {c: members_of(decl, c, 'Process') for c in ('New', 'Start', 'Stream', 'Format')}
    inst_classes = re.findall(r'Instance\s*\(\s*(\w+)\s*,', decl)
    b = lambda x: 'true' if x else 'false'
    rows_txt = ',\n   '.join(f'⟨{lean_str(n)}, {lean_list([lean_str(c) for c in cs])}, {b(g)}, {b(gf)}⟩' for n, cs, g, gf in rows)
    same_txt = ', '.join(f'({lean_str(n)}, {b(v)})' for n, v in same)
    return f"""
/-! ### `Process`, the second Stream class of src/File.c (popen / pclose) -/

/-- every Process_* function of src/File.c (documentation functions excluded); `guarded` = contains
    `if (p->proc is NULL) {{ throw(IOError, …` -/
def procTable : List Row :=
  [{rows_txt}]

/-- Process_Close tests `p->proc is NULL` (→ IOError) before calling pclose (fix 51c301c) -/
def procCloseGuarded : Bool := {b(close_guarded)}
/-- Process_Close executes `p->proc = NULL` after pclose and before testing its result (fix 51c301c) -/
def procCloseDropsAlways : Bool := {b(close_drops)}
/-- Process_Open: `if (p->proc isnt NULL) {{ Process_Close(self); }}` precedes `p->proc = popen(c_str(filename), c_str(access))` -/
def procOpenClosesFirst : Bool := {b(open_closes_first)}
/-- Process_Open: a NULL result of popen → throw IOError -/
def procOpenThrowsOnNull : Bool := {b(open_throws)}
/-- Process_Del: `if (p->proc isnt NULL) {{ Process_Close(self); }}` and no stdio call of its own -/
def procDelClosesIfHeld : Bool := {b(del_closes)}
/-- Process_New is exactly `p->proc = NULL; Process_Open(self, get(args, $I(0)), get(args, $I(1)));` (no test of len(args)) -/
def procNewAlwaysOpens : Bool := {b(new_always)}
/-- is Process_<X> the text of File_<X> under Process_→File_, `struct Process* p`→`struct File* f`, p->proc→f->file,
    popen→fopen, pclose→fclose, "process"→"file" (white space normalised)?  Process_New is not File_New: see above -/
def procSameAsFile : List (String × Bool) := [{same_txt}]
def procInstNew : List String := {lean_list([lean_str(x) for x in inst['New']])}
def procInstStart : List String := {lean_list([lean_str(x) for x in inst['Start']])}
def procInstStream : List String := {lean_list([lean_str(x) for x in inst['Stream']])}
def procInstFormat : List String := {lean_list([lean_str(x) for x in inst['Format']])}
def procInstClasses : List String := {lean_list([lean_str(x) for x in inst_classes])}
/-- whitespace-normalised bodies -/
def procNewText : String := {lean_str(bn)}
def procDelText : String := {lean_str(_norm(bd))}
def procOpenText : String := {lean_str(_norm(bo))}
def procCloseText : String := {lean_str(_norm(bc))}
"""

def gen_file(repo):
    src = read(f'{repo}/src/File.c')
    names = sorted(set(re.findall(r'\bstatic\s+[\w\s\*]+?\b(File_\w+)\s*\([^;{]*\)\s*\{', src)))
    doc = {'File_Name', 'File_Brief', 'File_Description', 'File_Definition', 'File_Examples', 'File_Methods'}
    names = [n for n in names if n not in doc]
    expected = ['File_Close', 'File_Del', 'File_EOF', 'File_Flush', 'File_Format_From', 'File_Format_To', 'File_New', 'File_Open',
                'File_Read', 'File_Seek', 'File_Tell', 'File_Write']
    if names != expected:
        raise ExtractError(f'the File_* functions of src/File.c are {names}, the model covers {expected}')
    rows = []
    bodies = {}
    for n in names:
        b = func_body(src, n); bodies[n] = b
        calls = stdio_calls(b)
        g = re.search(GUARD, b)
        guard_first = bool(g) and (not calls or g.start() < calls[0][0])
        rows.append((n, [c for _, c in calls], bool(g), guard_first))
    # File_Close: guard, then `int err = fclose(f->file); f->file = NULL;` then the error test
    bc = bodies['File_Close']
    m_fclose = re.search(r'\bfclose\s*\(\s*f->file\s*\)', bc)
    if not m_fclose: raise ExtractError('File_Close: fclose(f->file) not found')
    g = re.search(GUARD, bc)
    close_guarded = bool(g) and g.start() < m_fclose.start()
    m_null = re.search(r'f->file\s*=\s*NULL\s*;', bc)
    m_err = re.search(r'if\s*\(\s*err\s*!=\s*0\s*\)', bc)
    if not m_null: raise ExtractError('File_Close never resets f->file')
    if not m_err: raise ExtractError('File_Close: the test of the result of fclose was not found')
    if m_null.start() < m_fclose.start(): raise ExtractError('File_Close resets f->file before calling fclose')
    close_drops = m_null.start() < m_err.start()
    # File_Open: close-if-held, then f->file = fopen(...), then NULL test with throw IOError
    bo = bodies['File_Open']
    h = re.search(HELD, bo); fo = re.search(r'f->file\s*=\s*fopen\s*\(\s*c_str\s*\(\s*filename\s*\)\s*,\s*c_str\s*\(\s*access\s*\)\s*\)', bo)
    if not fo: raise ExtractError('File_Open: `f->file = fopen(c_str(filename), c_str(access))` not found')
    open_closes_first = bool(h) and h.start() < fo.start()
    th = re.search(r'if\s*\(\s*f->file\s+is\s+NULL\s*\)\s*\{\s*throw\s*\(\s*IOError', bo[fo.end():])
    open_throws = bool(th)
    # File_Del
    bd = bodies['File_Del']
    del_closes = bool(re.search(HELD, bd)) and not stdio_calls(bd)
    # File_New
    bn = bodies['File_New']
    new_opens = bool(re.search(r'if\s*\(\s*len\s*\(\s*args\s*\)\s*>\s*0\s*\)\s*\{\s*File_Open\s*\(\s*self\s*,\s*get\s*\(\s*args\s*,\s*\$I\(0\)\s*\)\s*,\s*get\s*\(\s*args\s*,\s*\$I\(1\)\s*\)\s*\)', bn)) and not stdio_calls(bn)
    # fread / fwrite argument shape and the error conditions
    br, bw = bodies['File_Read'], bodies['File_Write']
    read_shape = bool(re.search(r'fread\s*\(\s*output\s*,\s*size\s*,\s*1\s*,\s*f->file\s*\)', br)) and \
        bool(re.search(r'if\s*\(\s*num\s+isnt\s+1\s+and\s+size\s+isnt\s+0\s+and\s+not\s+feof\s*\(\s*f->file\s*\)\s*\)\s*\{\s*throw\s*\(\s*IOError', br))
    write_shape = bool(re.search(r'fwrite\s*\(\s*input\s*,\s*size\s*,\s*1\s*,\s*f->file\s*\)', bw)) and \
        bool(re.search(r'if\s*\(\s*num\s+isnt\s+1\s+and\s+size\s+isnt\s+0\s*\)\s*\{\s*throw\s*\(\s*IOError', bw))
    seek_shape = bool(re.search(r'fseek\s*\(\s*f->file\s*,\s*pos\s*,\s*origin\s*\)', bodies['File_Seek'])) and \
        bool(re.search(r'if\s*\(\s*err\s*!=\s*0\s*\)\s*\{\s*throw\s*\(\s*IOError', bodies['File_Seek']))
    tell_shape = bool(re.search(r'=\s*ftell\s*\(\s*f->file\s*\)', bodies['File_Tell'])) and \
        bool(re.search(r'if\s*\(\s*i\s*==\s*-1\s*\)\s*\{\s*throw\s*\(\s*IOError', bodies['File_Tell'])) and bool(re.search(r'return\s+i\s*;', bodies['File_Tell']))
    flush_shape = bool(re.search(r'fflush\s*\(\s*f->file\s*\)', bodies['File_Flush'])) and \
        bool(re.search(r'if\s*\(\s*err\s*!=\s*0\s*\)\s*\{\s*throw\s*\(\s*IOError', bodies['File_Flush']))
    eof_shape = bool(re.search(r'return\s+feof\s*\(\s*f->file\s*\)\s*;', bodies['File_EOF']))
    fmt_shape = bool(re.search(r'return\s+vfprintf\s*\(\s*f->file\s*,\s*fmt\s*,\s*va\s*\)\s*;', bodies['File_Format_To'])) and \
        bool(re.search(r'return\s+vfscanf\s*\(\s*f->file\s*,\s*fmt\s*,\s*va\s*\)\s*;', bodies['File_Format_From']))
    inst = {c: instance_members(src, c) for c in ('New', 'Start', 'Stream', 'Format')}
    # which classes File implements at all (no Assign, no Copy: copy / assign take the generic fall-back paths)
    md = re.search(r'var\s+File\s*=\s*Cello\s*\(\s*File\s*,', src)
    decl = src[md.start():balanced(src, src.index('(', md.start()))]
    inst_classes = re.findall(r'Instance\s*\(\s*(\w+)\s*,', decl)
    # the generic fall-backs: assign without an Assign instance is memcpy of size(type) bytes; copy without a Copy instance
    # is assign(alloc(type), self)
    ba = re.sub(r'\s+', ' ', func_body(read(f'{repo}/src/Assign.c'), 'assign'))
    m1 = re.search(r'if \(a and a->assign\) \{ a->assign\(self, obj\); return self; \}', ba)
    m2 = re.search(r'size_t s = size\(type_of\(self\)\); if \(type_of\(self\) is type_of\(obj\) and s\) \{ return memcpy\(self, obj, s\); \}', ba)
    assign_memcpy = bool(m1) and bool(m2) and m1.start() < m2.start() and 'memcpy' not in ba[:m2.start()]
    bcp = re.sub(r'\s+', ' ', func_body(read(f'{repo}/src/Alloc.c'), 'copy'))
    m3 = re.search(r'if \(c and c->copy\) \{ return c->copy\(self\); \}', bcp)
    m4 = re.search(r'return assign\(alloc\(type_of\(self\)\), self\);', bcp)
    copy_assign_alloc = bool(m3) and bool(m4) and m3.start() < m4.start()
    # with / start_in / stop_in
    hdr = read(f'{repo}/include/Cello.h')
    mw = re.search(r'#define\s+with_in\(X,\s*S\)\s+(.*)', hdr)
    if not mw: raise ExtractError('with_in macro not found')
    with_macro = re.sub(r'\s+', ' ', mw.group(1)).strip()
    # the three clauses of the for loop `with_in(X, S)` expands to: which expression start_in / stop_in receive
    mf = re.fullmatch(r'for\s*\((.*);(.*);(.*)\)', with_macro)
    if not mf: raise ExtractError(f'with_in is not a single for(…;…;…) header: {with_macro}')
    w_init, w_cond, w_step = (x.strip() for x in mf.groups())
    mi = re.fullmatch(r'var\s+X\s*=\s*start_in\s*\((.*)\)', w_init)
    ms = re.fullmatch(r'X\s*=\s*stop_in\s*\((.*)\)', w_step)
    w_init_arg = mi.group(1).strip() if mi else ''
    w_step_arg = ms.group(1).strip() if ms else ''
    w_cond_ok = bool(re.fullmatch(r'X\s+isnt\s+NULL|X\s*!=\s*NULL', w_cond))
    st = read(f'{repo}/src/Start.c')
    bsi, bso = func_body(st, 'start_in'), func_body(st, 'stop_in')
    norm = lambda s: re.sub(r'\s+', ' ', s).strip()
    rows_txt = ',\n   '.join(f'⟨{lean_str(n)}, {lean_list([lean_str(c) for c in cs])}, {"true" if g else "false"}, {"true" if gf else "false"}⟩'
                             for n, cs, g, gf in rows)
    b = lambda x: 'true' if x else 'false'
    proc_txt = gen_process(src, bodies)
    return HEADER + f"""namespace CelloGen.File

structure Row where
  name : String
  stdio : List String      -- stdio functions called, in textual order
  guarded : Bool           -- contains `if (f->file is NULL) {{ throw(IOError, …`
  guardFirst : Bool        -- … and that test precedes the first stdio call
deriving DecidableEq, Repr

/-- every File_* function of src/File.c (documentation functions excluded) -/
def table : List Row :=
  [{rows_txt}]

/-- File_Close tests `f->file is NULL` (→ IOError) before calling fclose -/
def closeGuarded : Bool := {b(close_guarded)}
/-- File_Close executes `f->file = NULL` after fclose and before testing its result -/
def closeDropsAlways : Bool := {b(close_drops)}
/-- File_Open: `if (f->file isnt NULL) {{ File_Close(self); }}` precedes `f->file = fopen(c_str(filename), c_str(access))` -/
def openClosesFirst : Bool := {b(open_closes_first)}
/-- File_Open: a NULL result of fopen → throw IOError -/
def openThrowsOnNull : Bool := {b(open_throws)}
/-- File_Del: `if (f->file isnt NULL) {{ File_Close(self); }}` and no stdio call of its own -/
def delClosesIfHeld : Bool := {b(del_closes)}
/-- File_New: `if (len(args) > 0) {{ File_Open(self, get(args, $I(0)), get(args, $I(1))); }}` -/
def newOpensIfArgs : Bool := {b(new_opens)}
/-- File_Read: `fread(output, size, 1, f->file)` and `num isnt 1 and size isnt 0 and not feof(f->file)` → IOError -/
def readShape : Bool := {b(read_shape)}
/-- File_Write: `fwrite(input, size, 1, f->file)` and `num isnt 1 and size isnt 0` → IOError -/
def writeShape : Bool := {b(write_shape)}
def seekShape : Bool := {b(seek_shape)}
def tellShape : Bool := {b(tell_shape)}
def flushShape : Bool := {b(flush_shape)}
def eofShape : Bool := {b(eof_shape)}
def formatShape : Bool := {b(fmt_shape)}

/-- the class instances of `File` -/
def instNew : List String := {lean_list([lean_str(x) for x in inst['New']])}
def instStart : List String := {lean_list([lean_str(x) for x in inst['Start']])}
def instStream : List String := {lean_list([lean_str(x) for x in inst['Stream']])}
def instFormat : List String := {lean_list([lean_str(x) for x in inst['Format']])}
/-- every class `File` declares an instance of, in the order of `var File = Cello(File, …)` -/
def instClasses : List String := {lean_list([lean_str(x) for x in inst_classes])}
/-- src/Assign.c `assign`: the type's Assign instance if it has one, else `memcpy(self, obj, size(type_of(self)))` -/
def assignFallsBackToMemcpy : Bool := {b(assign_memcpy)}
/-- src/Alloc.c `copy`: the type's Copy instance if it has one, else `assign(alloc(type_of(self)), self)` -/
def copyFallsBackToAssignAlloc : Bool := {b(copy_assign_alloc)}

/-- `with_in`, `start_in`, `stop_in` (whitespace-normalised) -/
def withMacro : String := {lean_str(with_macro)}
/-- the for loop's clauses: init `var X = start_in(<withInitArg>)` ("" = another shape), condition `X isnt NULL`,
    step `X = stop_in(<withStepArg>)` ("" = another shape) -/
def withInitArg : String := {lean_str(w_init_arg)}
def withCondNotNull : Bool := {b(w_cond_ok)}
def withStepArg : String := {lean_str(w_step_arg)}
/-- the step clause stops the loop variable `X` (the object start_in returned), not the macro argument `S` again -/
def withStopsBound : Bool := {b(w_step_arg == 'X')}
def startIn : String := {lean_str(norm(bsi))}
def stopIn : String := {lean_str(norm(bso))}
{proc_txt}
end CelloGen.File
"""

GENERATORS = {'File': gen_file}
