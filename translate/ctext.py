"""Small helpers over C source text (no parser): comment stripping, balanced brackets, function bodies."""
import re

class ExtractError(Exception):
    """the source no longer has the shape the translator expects: a broken tie, never silently skipped"""

def strip_comments(s):
    out = []; i = 0; n = len(s)
    while i < n:
        c = s[i]
        if c == '"' or c == "'":
            q = c; j = i + 1
            while j < n and s[j] != q:
                if s[j] == '\\': j += 1
                j += 1
            out.append(s[i:j+1]); i = j + 1
        elif s.startswith('/*', i):
            j = s.find('*/', i + 2); j = n if j < 0 else j + 2
            out.append(' ' * 1); i = j
        elif s.startswith('//', i):
            j = s.find('\n', i); j = n if j < 0 else j
            i = j
        else:
            out.append(c); i += 1
    return ''.join(out)

def balanced(s, i, open_='(', close=')'):
    """s[i] == open_; return index just after the matching close, skipping string/char literals"""
    assert s[i] == open_, (s[i-20:i+20])
    depth = 0; j = i
    while j < len(s):
        c = s[j]
        if c == '"' or c == "'":
            q = c; j += 1
            while s[j] != q:
                if s[j] == '\\': j += 1
                j += 1
        elif c == open_: depth += 1
        elif c == close:
            depth -= 1
            if depth == 0: return j + 1
        j += 1
    raise ExtractError('unbalanced')

def split_top(s):
    parts = []; depth = 0; cur = ''; j = 0
    while j < len(s):
        c = s[j]
        if c in '"\'':
            q = c; cur += c; j += 1
            while s[j] != q:
                if s[j] == '\\': cur += s[j]; j += 1
                cur += s[j]; j += 1
            cur += s[j]
        elif c in '({[': depth += 1; cur += c
        elif c in ')}]': depth -= 1; cur += c
        elif c == ',' and depth == 0: parts.append(cur.strip()); cur = ''
        else: cur += c
        j += 1
    if cur.strip(): parts.append(cur.strip())
    return parts

def func_body(src, name):
    """body text (between the outer braces) of the definition of function `name` in comment-stripped source"""
    for m in re.finditer(r'\b' + re.escape(name) + r'\s*\(', src):
        end = balanced(src, m.end() - 1)
        k = end
        while k < len(src) and src[k] in ' \t\r\n': k += 1
        if k < len(src) and src[k] == '{':
            e = balanced(src, k, '{', '}')
            return src[k+1:e-1]
    raise ExtractError(f'definition of {name} not found')

def read(path):
    return strip_comments(open(path, encoding='utf-8', errors='replace').read())
