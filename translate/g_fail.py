"""Link (A) for C12 (engine fail): the *check / mutation order profile* of every function the model Cello/Fail.lean mirrors.

For each function the body is read statement by statement (comments stripped; preprocessor conditionals evaluated for the Linux default build
with every check on, except that the `#if CELLO_MEMORY_CHECK == 1 … #endif` regions — the OutOfMemoryError paths, which C12 does
not cover — are dropped) and flattened into a list of
tokens (kind, text) in execution order of the text — written `kind:text` below:

    if:<condition>  …  [else …]  end        an `if` statement (condition whitespace-normalised: the *guard expressions*)
    loop:<header>   …  end                  for / while / foreach (body between the tokens)
    return                                   a `return`
    throw:<Exception>                        a `throw(Exception, …)` site
    check:<callee>(<args>)                   a call that validates and can raise (c_int, c_str, cast, len, get, eq, instance, …,
                                             `foreach` over an object)
    call:<function>                          a call of another function of this profile (List_At, Array_Pop_At, Table_Set_Move, …)
    assign                                   `assign(slot, obj)`: validates `obj` and, if it is accepted, overwrites the slot
    mut:<what>                               a mutation of the object: a store through `->field` / `*f(…)` / `x[i]`
                                             (`mut:nitems++`, `mut:data=`, …) or a call that mutates (memmove, realloc, destruct,
                                             free, the container-internal helpers Array_Reserve_More, List_Unlink, Table_Rehash, …)
Within one statement the tokens are in evaluation order (arguments before the call, right-hand side before the store).

CelloProofs/Props/C12.lean states `CelloGen.Fail.profile = modelledProfile` (the sequences the hand model was written against) and
evaluates an abstract interpretation of these token lists (`Profile.ordered`: on no path does a pure mutation precede a raising
event) on the generated definition: moving a mutation in front of a check, dropping a throw, editing a guard or adding a branch in
the C source changes the generated definition and the theorems stop checking.
"""
import re
from ctext import *
from gen import HEADER, lean_str, lean_list

FUNCS = {
    'Array.c': ['Array_Get', 'Array_Set', 'Array_Mem', 'Array_Rem', 'Array_Push', 'Array_Push_At', 'Array_Pop', 'Array_Pop_At',
                'Array_Resize', 'Array_Concat', 'Array_Assign', 'Array_Clear', 'Array_Sort_Partition', 'Array_Sort_Part', 'Array_Sort_By'],
    'List.c': ['List_At', 'List_Get', 'List_Set', 'List_Mem', 'List_Rem', 'List_Push', 'List_Push_At', 'List_Pop', 'List_Pop_At',
               'List_Resize', 'List_Concat', 'List_Assign', 'List_Clear'],
    'Tuple.c': ['Tuple_Get', 'Tuple_Set', 'Tuple_Mem', 'Tuple_Rem', 'Tuple_Push', 'Tuple_Push_At', 'Tuple_Pop', 'Tuple_Pop_At',
                'Tuple_Resize', 'Tuple_Concat', 'Tuple_Assign', 'Tuple_Sort_Partition', 'Tuple_Sort_Part', 'Tuple_Sort_By'],
    'Table.c': ['Table_Get', 'Table_Set', 'Table_Set_Move', 'Table_Mem', 'Table_Rem', 'Table_Resize', 'Table_Assign'],
    'Tree.c': ['Tree_Get', 'Tree_Set', 'Tree_Mem', 'Tree_Rem', 'Tree_Resize', 'Tree_Assign'],
    'String.c': ['String_Mem', 'String_Rem', 'String_Resize', 'String_Concat', 'String_Assign', 'String_Format_To'],
    'Iter.c': ['Range_Len', 'Range_Get', 'Slice_Get', 'Zip_Get'],
    'Type.c': ['Type_Of', 'cast', 'Type_Method_At_Offset'],
    'Alloc.c': ['dealloc'],
    'Assign.c': ['assign'],
    'Show.c': ['print_to_with'],
}
# functions whose CELLO_MEMORY_CHECK regions are extracted as well (`memoryProfile`): where the NULL test of an allocation sits
# relative to the writes through the new pointer
MEMORY_FUNCS = {'String.c': ['String_Resize']}

# calls that validate their arguments and can raise (nothing of the target object is written by them)
CHECKS = ['c_int', 'c_str', 'c_float', 'cast', 'len', 'get', 'eq', 'neq', 'cmp', 'hash', 'mem', 'instance', 'type_instance',
          'type_of', 'Type_Instance', 'implements_method', 'type_implements_method', 'implements', 'type_implements',
          'iter_type', 'key_type', 'val_type', 'copy', 'iter_init', 'iter_next',
          'f']          # the comparison handed to `*_Sort_Partition` (`lt`: `cmp` of two elements)
# calls that modify the target object (or memory it owns); pure allocators of fresh memory (malloc, calloc, List_Alloc,
# Tree_Alloc) are not mutations of the object — the store that links the new block in is
MUTS = ['memmove', 'memcpy', 'memset', 'realloc', 'free', 'destruct', 'construct_with', 'construct', 'swap', 'del',
        'strcpy', 'strcat', 'strncpy', 'Tuple_Swap', 'format_to', 'show_to',
        'Array_Alloc', 'Array_Reserve_More', 'Array_Reserve_Less',
        'List_Free', 'List_Link', 'List_Unlink',
        'Table_Rehash', 'Table_Clear', 'Table_Resize_More', 'Table_Resize_Less',
        'Tree_Clear', 'Tree_Clear_Entry', 'Tree_Replace', 'Tree_Rem_Fix', 'Tree_Set_Fix', 'Tree_Set_Color',
        'Tree_Rotate_Left', 'Tree_Rotate_Right', 'Tree_Set_Parent']
PROFILED = sorted({f for fs in FUNCS.values() for f in fs} - {'assign'})
WORDS = sorted(set(CHECKS + MUTS + PROFILED + ['throw', 'assign']), key=len, reverse=True)
CALL = re.compile(r'(?<![\w>.])(' + '|'.join(WORDS) + r')\s*\(')
# stores through the object: `p->field op`, `p->field[i] op`, `*f(...) =`, `x[i] =`, `(…)[i] =`  (op: = += -= ++ -- …, not ==)
STORE_FIELD = re.compile(r'->\s*(\w+)\s*(?:\[[^\]]*\]\s*)?(\+\+|--|(?:[-+*/|&^]|<<|>>)?=(?!=))')
STORE_PRE = re.compile(r'(\+\+|--)\s*\w+\s*->\s*(\w+)')
STORE_DEREF = re.compile(r'(?<![\w)\]])\*\s*(\w+)\s*\(')
STORE_INDEX = re.compile(r'(?<![\w>.])(\w+|\))\s*\[[^\]]*\]\s*((?:[-+*/|&^])?=(?!=)|\+\+|--)')

def norm(s):
    return re.sub(r'\s+', ' ', s).strip()

KEEP_MEMORY_CHECK = [False]     # set while `memoryProfile` is extracted

def cond_value(t):
    """value of a preprocessor condition on the configuration the check runs (Linux, default build, all checks on);
    the OutOfMemoryError regions are dropped on purpose (C12 does not cover allocation failure) — except for `memoryProfile`"""
    m = re.match(r'(CELLO_\w+_CHECK)\s*==\s*1$', t)
    if m: return KEEP_MEMORY_CHECK[0] or m.group(1) != 'CELLO_MEMORY_CHECK'
    m = re.match(r'defined\s*\(?\s*(\w+)\s*\)?$', t)
    if m and m.group(1) in ('CELLO_WINDOWS', 'CELLO_MAC', '_WIN32', '__APPLE__'): return False
    if m and m.group(1) in ('CELLO_UNIX', 'CELLO_LINUX', '__unix__'): return True
    raise ExtractError('preprocessor condition not understood: ' + t)

def preprocess(body):
    """evaluate the preprocessor conditionals of a function body for the Linux default build"""
    out = []; stack = []          # (parent_active, this_branch_active, some_branch_taken)
    active = True
    for line in body.split('\n'):
        t = line.strip()
        if t.startswith('#'):
            t = norm(t[1:])
            if t.startswith('ifdef '): c = cond_value('defined(' + t[6:].strip() + ')'); stack.append((active, c)); active = active and c
            elif t.startswith('ifndef '): c = not cond_value('defined(' + t[7:].strip() + ')'); stack.append((active, c)); active = active and c
            elif t.startswith('if '): c = cond_value(t[3:].strip()); stack.append((active, c)); active = active and c
            elif t.startswith('elif '):
                if not stack: raise ExtractError('unbalanced #elif')
                par, taken = stack.pop(); c = (not taken) and cond_value(t[5:].strip()); stack.append((par, taken or c)); active = par and c
            elif t == 'else':
                if not stack: raise ExtractError('unbalanced #else')
                par, taken = stack.pop(); stack.append((par, True)); active = par and not taken
            elif t == 'endif':
                if not stack: raise ExtractError('unbalanced #endif')
                active, _ = stack.pop()
            else: raise ExtractError('preprocessor line in a mirrored function: #' + t)
            continue
        if active: out.append(line)
    if stack: raise ExtractError('unbalanced #if')
    return '\n'.join(out)

def deref_store_end(s, m):
    """`*f(args) = …` : is the call followed by an assignment operator?"""
    e = balanced(s, m.end() - 1)
    return re.match(r'\s*=(?!=)', s[e:]) is not None

def events(expr):
    """the check / call / throw / assign / mutation tokens of an expression or simple statement, in *evaluation* order: a call
    after the calls in its arguments (ordered by closing parenthesis), a store `lhs = rhs` after everything in `rhs`"""
    found = []
    for m in CALL.finditer(expr):
        w = m.group(1)
        e = balanced(expr, m.end() - 1)
        args = norm(expr[m.end():e - 1])
        if w == 'throw':
            parts = split_top(expr[m.end():e - 1])
            if not parts: raise ExtractError('throw without arguments')
            found.append((e, 'throw:' + parts[0]))
        elif w == 'assign': found.append((e, 'assign'))
        elif w in PROFILED: found.append((e, 'call:' + w))
        elif w in MUTS: found.append((e, 'mut:' + w))
        else: found.append((e, f'check:{w}({args})'))
    end = len(expr) + 1
    for m in STORE_FIELD.finditer(expr): found.append((m.end() if m.group(2) in ('++', '--') else end, 'mut:' + m.group(1) + m.group(2)))
    for m in STORE_PRE.finditer(expr): found.append((m.end(), 'mut:' + m.group(2) + m.group(1)))
    for m in STORE_DEREF.finditer(expr):
        if deref_store_end(expr, m): found.append((end, 'mut:*' + m.group(1) + '='))
    for m in STORE_INDEX.finditer(expr):
        w = '' if m.group(1) == ')' else m.group(1)
        found.append((m.end() if m.group(2) in ('++', '--') else end, 'mut:' + w + '[]' + m.group(2)))
    return [t for _, t in sorted(found, key=lambda x: x[0])]

def skip_ws(s, i):
    while i < len(s) and s[i] in ' \t\r\n': i += 1
    return i

def stmt_end(s, i):
    """index just after the `;` that ends the simple statement starting at i"""
    j = i
    while j < len(s):
        c = s[j]
        if c in '"\'':
            q = c; j += 1
            while s[j] != q:
                if s[j] == '\\': j += 1
                j += 1
        elif c == '(': j = balanced(s, j) - 1
        elif c == '{': j = balanced(s, j, '{', '}') - 1
        elif c == '[': j = balanced(s, j, '[', ']') - 1
        elif c == ';': return j + 1
        j += 1
    raise ExtractError('statement without `;`: ' + norm(s[i:i + 60]))

KEYWORD = re.compile(r'(if|else|for|while|foreach|switch|do|return|try|catch|goto)\b')

def parse_stmt(s, i):
    """one statement starting at s[i] (after whitespace); returns (tokens, index after it)"""
    i = skip_ws(s, i)
    if i >= len(s): return [], i
    if s[i] == '{':
        e = balanced(s, i, '{', '}')
        return parse_block(s[i + 1:e - 1]), e
    if s[i] == ';': return [], i + 1
    m = KEYWORD.match(s, i)
    kw = m.group(1) if m else None
    if kw == 'if':
        p = skip_ws(s, m.end())
        if s[p] != '(': raise ExtractError('if without (')
        e = balanced(s, p)
        cond = s[p + 1:e - 1]
        then, j = parse_stmt(s, e)
        toks = events(cond) + ['if:' + norm(cond)] + then
        k = skip_ws(s, j)
        m2 = KEYWORD.match(s, k)
        if m2 and m2.group(1) == 'else':
            els, j = parse_stmt(s, m2.end())
            toks += ['else'] + els
        return toks + ['end'], j
    if kw in ('for', 'while', 'foreach'):
        p = skip_ws(s, m.end())
        if s[p] != '(': raise ExtractError(kw + ' without (')
        e = balanced(s, p)
        head = s[p + 1:e - 1]
        body, j = parse_stmt(s, e)
        if kw == 'for':
            parts = [x for x in re.split(r';', head)]
            if len(parts) != 3: raise ExtractError('for header: ' + norm(head))
            return events(parts[0]) + ['loop:' + norm(parts[1])] + events(parts[1]) + body + events(parts[2]) + ['end'], j
        if kw == 'while':
            return ['loop:' + norm(head)] + events(head) + body + ['end'], j
        mm = re.match(r'\s*\w+\s+in\s+(.*)$', head, re.S)
        if not mm: raise ExtractError('foreach header: ' + norm(head))
        return events(mm.group(1)) + [f'check:foreach({norm(mm.group(1))})', 'loop:foreach ' + norm(head)] + body + ['end'], j
    if kw == 'return':
        e = stmt_end(s, m.end())
        return events(s[m.end():e - 1]) + ['return'], e
    if kw in ('switch', 'do', 'try', 'catch', 'goto', 'else'):
        raise ExtractError(f'`{kw}` in a mirrored function: the profile extractor does not handle it')
    e = stmt_end(s, i)
    return events(s[i:e - 1]), e

def parse_block(text):
    toks = []; i = 0
    while True:
        i = skip_ws(text, i)
        if i >= len(text): return toks
        t, i = parse_stmt(text, i)
        toks += t

def profile_of(src, name):
    return parse_block(preprocess(func_body(src, name)))

# ---------------------------------------------------------------------------------------------------------------------------
# index prologues as programs (extension round): every statement that gives the index variable `i` a value in front of the
# IndexOutOfBoundsError guard, and the guard itself, as terms `IE` over c_int(key) / i / nitems with the C types (int64_t = signed,
# size_t = unsigned) — Cello/FailIdx.lean evaluates them on BitVec 64 and Props/C12.lean proves, for every nitems and every 64-bit
# key, that they compute what the model's `resolveB` / `normIdxPush` compute.  A statement that is not in the fragment is an ExtractError.
INDEX_FUNCS = {
    'Array.c': ['Array_Get', 'Array_Set', 'Array_Pop_At', 'Array_Push_At'],
    'List.c': ['List_At'],
    'Tuple.c': ['Tuple_Get', 'Tuple_Set', 'Tuple_Push_At', 'Tuple_Pop_At'],
}
NITEMS_NAMES = {'a->nitems', 'l->nitems'}
IE_TOKEN = re.compile(r'\s*(?:(\d+)|([A-Za-z_]\w*(?:\s*->\s*\w+)*)|(<=|>=|==|!=|\|\||&&|[?:+\-<>()]))')

class _IEParser:
    """recursive descent over the C expression fragment: ?: / or and / comparisons / + - / casts to int64_t and size_t /
    c_int(key), i, nitems, integer literals"""
    def __init__(self, text, local_nitems):
        self.toks = []; pos = 0; text = text.strip()
        while pos < len(text):
            m = IE_TOKEN.match(text, pos)
            if not m: raise ExtractError('index expression outside the fragment: ' + norm(text))
            if m.group(1) is not None: self.toks.append(('num', m.group(1)))
            elif m.group(2) is not None: self.toks.append(('id', re.sub(r'\s+', '', m.group(2))))
            else: self.toks.append(('op', m.group(3)))
            pos = m.end()
        self.k = 0; self.text = text; self.local_nitems = local_nitems
    def peek(self): return self.toks[self.k] if self.k < len(self.toks) else ('end', '')
    def take(self): t = self.peek(); self.k += 1; return t
    def expect(self, v):
        t = self.take()
        if t[1] != v: raise ExtractError(f'index expression: expected `{v}` in ' + norm(self.text))
    def is_word(self, *ws): t = self.peek(); return t[0] in ('id', 'op') and t[1] in ws
    def ternary(self):
        c = self.lor()
        if self.is_word('?'):
            self.take(); a = self.ternary(); self.expect(':'); b = self.ternary()
            return f'(.cond {c} {a} {b})'
        return c
    def lor(self):
        a = self.land()
        while self.is_word('or', '||'): self.take(); a = f'(.or {a} {self.land()})'
        return a
    def land(self):
        a = self.cmp()
        while self.is_word('and', '&&'): self.take(); a = f'(.and {a} {self.cmp()})'
        return a
    def cmp(self):
        a = self.add()
        ops = {'<': 'lt', '<=': 'le', '>': 'gt', '>=': 'ge', 'is': 'eq', '==': 'eq', 'isnt': 'ne', '!=': 'ne'}
        if self.is_word(*ops): o = self.take()[1]; a = f'(.{ops[o]} {a} {self.add()})'
        return a
    def add(self):
        a = self.unary()
        while self.is_word('+', '-'):
            o = self.take()[1]; a = f'(.{"add" if o == "+" else "sub"} {a} {self.unary()})'
        return a
    def unary(self):
        if self.is_word('(') and self.k + 2 < len(self.toks) and self.toks[self.k + 1] in (('id', 'int64_t'), ('id', 'size_t')) and self.toks[self.k + 2] == ('op', ')'):
            ty = self.toks[self.k + 1][1]; self.k += 3
            return f'(.{"castS" if ty == "int64_t" else "castU"} {self.unary()})'
        return self.primary()
    def primary(self):
        t = self.take()
        if t[0] == 'num': return f'(.lit {t[1]})'
        if t == ('op', '('):
            e = self.ternary(); self.expect(')'); return e
        if t[0] == 'id':
            if t[1] == 'c_int':
                self.expect('('); self.expect('key'); self.expect(')'); return '.key'
            if t[1] == 'i': return '.i'
            if t[1] in NITEMS_NAMES or (t[1] == 'nitems' and self.local_nitems): return '.n'
        raise ExtractError(f'index expression: `{t[1]}` is outside the fragment in ' + norm(self.text))
    def parse(self):
        e = self.ternary()
        if self.k != len(self.toks): raise ExtractError('index expression: trailing text in ' + norm(self.text))
        return e

ASSIGN_I = re.compile(r'^(?:int64_t\s+)?i\s*=(?!=)\s*(.*)$', re.S)
TOUCHES_I = re.compile(r'(?<![\w>.])i\s*(\+\+|--|[-+*/|&^%]?=(?!=)|<<=|>>=)|(\+\+|--)\s*i\b')

def index_program(src, name):
    """(is `i` a parameter, [assignments to i in front of the guard], guard condition, [assignments to i after the guard at top level])"""
    body = preprocess(func_body(src, name))
    m = re.search(r'\b' + re.escape(name) + r'\s*\(([^)]*)\)\s*\{', src)
    param = bool(m and re.search(r'\bint64_t\s+i\b', m.group(1)))
    local_nitems = re.search(r'\bsize_t\s+nitems\s*=\s*Tuple_Len\s*\(\s*t\s*\)\s*;', body) is not None
    assigns = []; guard = None; post = []
    i = 0
    while True:
        i = skip_ws(body, i)
        if i >= len(body): break
        if body[i] == '{': raise ExtractError(f'{name}: bare block at the top level')
        mk = KEYWORD.match(body, i)
        if mk and mk.group(1) == 'if':
            p = skip_ws(body, mk.end()); e = balanced(body, p); cond = body[p + 1:e - 1]
            j = skip_ws(body, e)
            if body[j] == '{': e2 = balanced(body, j, '{', '}')
            else: e2 = stmt_end(body, j)
            block = body[j:e2]
            # else branches
            k = skip_ws(body, e2); me = KEYWORD.match(body, k)
            while me and me.group(1) == 'else':
                k = skip_ws(body, me.end())
                if KEYWORD.match(body, k) and KEYWORD.match(body, k).group(1) == 'if':
                    p2 = skip_ws(body, KEYWORD.match(body, k).end()); k = skip_ws(body, balanced(body, p2))
                e2 = balanced(body, k, '{', '}') if body[k] == '{' else stmt_end(body, k)
                block += body[k:e2]; k = skip_ws(body, e2); me = KEYWORD.match(body, k)
            if guard is None and re.search(r'\bthrow\s*\(\s*IndexOutOfBoundsError\b', block):
                guard = _IEParser(cond, local_nitems).parse()
            elif guard is None and TOUCHES_I.search(block):
                raise ExtractError(f'{name}: the index variable is modified inside a conditional in front of the bounds test')
            i = e2; continue
        if mk and mk.group(1) in ('for', 'while', 'foreach', 'do', 'switch'):
            if guard is None: raise ExtractError(f'{name}: a loop in front of the bounds test')
            break        # what follows the first loop is the walk to the element, not the prologue
        e = stmt_end(body, i); st = body[i:e - 1].strip(); i = e
        ma = ASSIGN_I.match(st)
        if ma:
            term = _IEParser(ma.group(1), local_nitems).parse()
            (assigns if guard is None else post).append(term)
        elif TOUCHES_I.search(st):
            raise ExtractError(f'{name}: the index variable is modified by `{norm(st)}` (outside the fragment)')
    if guard is None: raise ExtractError(f'{name}: no IndexOutOfBoundsError guard found')
    return param, assigns, guard, post

def c_string_literals(text):
    """the concatenation of adjacent C string literals at the start of `text` (None when it does not start with one)"""
    out = ''; i = 0; any_ = False
    while True:
        while i < len(text) and text[i] in ' \t\r\n': i += 1
        if i >= len(text) or text[i] != '"': break
        i += 1; any_ = True
        while text[i] != '"':
            if text[i] == '\\':
                c = text[i + 1]; out += {'n': '\n', 't': '\t', '"': '"', '\\': '\\', "'": "'"}.get(c, '\\' + c); i += 2
            else: out += text[i]; i += 1
        i += 1
    return out if any_ and i >= len(text) else None

THROW = re.compile(r'(?<![\w>.])throw\s*\(')
def throw_sites(src, name):
    body = preprocess(func_body(src, name)); out = []
    for m in THROW.finditer(body):
        e = balanced(body, m.end() - 1)
        parts = split_top(body[m.end():e - 1])
        if len(parts) < 2: raise ExtractError(f'{name}: throw without a message')
        fmt = c_string_literals(parts[1])
        if fmt is None: raise ExtractError(f'{name}: the message of a throw is not a string literal: ' + norm(parts[1]))
        out.append((name, parts[0].strip(), fmt, [re.sub(r'\s+', '', a) for a in parts[2:]]))
    return out

KIND = {'if': 'ite', 'else': 'els', 'end': 'fin', 'loop': 'loop', 'return': 'ret', 'throw': 'thr', 'check': 'chk', 'call': 'call',
        'assign': 'asg', 'mut': 'mut'}

def lean_tok(t):
    k, _, text = t.partition(':')
    if k not in KIND: raise ExtractError('token ' + t)
    return f'(.{KIND[k]}, {lean_str(text)})'

def gen_fail(repo):
    rows = []
    for fname, funcs in FUNCS.items():
        src = read(f'{repo}/src/{fname}')
        for f in funcs:
            rows.append((f, profile_of(src, f)))       # func_body raises ExtractError when the function is gone
    body = ',\n  '.join(f'({lean_str(f)}, {lean_list([lean_tok(t) for t in toks])})' for f, toks in rows)
    mrows = []
    KEEP_MEMORY_CHECK[0] = True
    try:
        for fname, funcs in MEMORY_FUNCS.items():
            src = read(f'{repo}/src/{fname}')
            for f in funcs: mrows.append((f, profile_of(src, f)))
    finally:
        KEEP_MEMORY_CHECK[0] = False
    irows = []
    for fname, funcs in INDEX_FUNCS.items():
        src = read(f'{repo}/src/{fname}')
        for f in funcs: irows.append((f,) + index_program(src, f))
    idefs = '\n\n'.join(
        f'/-- `{f}`: the statements that give `i` its value in front of the bounds test, the test, and what is assigned to `i` behind it -/\n'
        f'def idx_{f} : IdxProg :=\n  {{ param := {"true" if param else "false"},\n    assigns := {lean_list(assigns)},\n    guard := {guard},\n    post := {lean_list(post)} }}'
        for f, param, assigns, guard, post in irows)
    ilist = ', '.join(f'({lean_str(f)}, idx_{f})' for f, *_ in irows)
    trows = []
    for fname, funcs in FUNCS.items():
        src = read(f'{repo}/src/{fname}')
        for f in funcs: trows += throw_sites(src, f)
    tbody = ',\n  '.join(f'({lean_str(f)}, {lean_str(x)}, {lean_str(fmt)}, {lean_list([lean_str(a) for a in args])})' for f, x, fmt, args in trows)
    mbody = ',\n  '.join(f'({lean_str(f)}, {lean_list([lean_tok(t) for t in toks])})' for f, toks in mrows)
    return HEADER + f"""namespace CelloGen.Fail

/-- kinds of profile tokens: `if (cond)` / `else` / end of block / loop header / `return` / `throw(E, …)` / a validating call that
    can raise / a call of another profiled function / `assign(slot, obj)` / a mutation of the object -/
inductive K where
  | ite | els | fin | loop | ret | thr | chk | call | asg | mut
deriving DecidableEq, Repr, Inhabited

/-- for each function mirrored by Cello/Fail.lean: its guards, throw sites, validating calls, element assignments and mutations of
    the object, flattened in statement (and, inside a statement, evaluation) order, with `els` / `fin` / `loop` / `ret` marking the
    control structure (translate/g_fail.py; Linux default build, OutOfMemoryError regions dropped) -/
def profile : List (String × List (K × String)) := [
  {body}]

/-- the same token lists with the `#if CELLO_MEMORY_CHECK == 1` regions kept (the OutOfMemoryError paths), for the functions whose
    NULL test of an allocation the model's `Str.resizeOom` depends on -/
def memoryProfile : List (String × List (K × String)) := [
  {mbody}]

/-- C expressions over the index variable: `c_int(key)` and `i` are `int64_t` (signed), `nitems` is `size_t` (unsigned), literals
    are `int`; comparisons and `or` / `and` yield the `int` 0 or 1; `cond c a b` is `c ? a : b` -/
inductive IE where
  | key | i | n
  | lit (v : Nat)
  | add (a b : IE) | sub (a b : IE)
  | castS (a : IE) | castU (a : IE)
  | lt (a b : IE) | le (a b : IE) | gt (a b : IE) | ge (a b : IE) | eq (a b : IE) | ne (a b : IE)
  | or (a b : IE) | and (a b : IE)
  | cond (c a b : IE)
deriving DecidableEq, Repr, Inhabited

/-- the index prologue of a function: is `i` a parameter (`List_At`) or a local initialised by the first assignment; the right-hand
    sides assigned to `i`, in statement order, in front of the `IndexOutOfBoundsError` guard; the guard condition; right-hand sides
    assigned to `i` at the top level behind the guard -/
structure IdxProg where
  param : Bool
  assigns : List IE
  guard : IE
  post : List IE
deriving DecidableEq, Repr, Inhabited

{idefs}

def idxProgs : List (String × IdxProg) := [{ilist}]

/-- every `throw(E, "format", args…)` site of the profiled functions, in source order: function, exception, message format, arguments -/
def throwSites : List (String × String × String × List String) := [
  {tbody}]

end CelloGen.Fail
"""

GENERATORS = {'Fail': gen_fail}
