"""Link (A) for engine `str` (C16): the straight-line size arithmetic and the libc-call shape of src/String.c.

Generates lean/CelloGen/Str.lean:
  * `newEmptySize assignSize clearSize concatSize resizeSize formatSize remCount` — the C expressions passed to
    calloc/realloc and the `count` of String_Rem's memmove, translated token by token to `Nat` arithmetic
    (`strlen(...)` sub-expressions become the named arguments), and `params : Cello.Str.Params` bundling them;
  * `shape` — for every modelled function, the libc calls / terminator stores it makes, in source order,
    whitespace-free; `shapeModelled` — what Cello/Str.lean was written against.
  * `advLit advPct advStr advInt advFlt advChr advPtr showPos` — the position updates of `print_to_with` (src/Show.c):
    for every `format_to` call the statement that moves `pos` afterwards, translated to `Nat` arithmetic over
    `pos`, `off` (the value `format_to` returned) and `width` (format characters consumed by the branch), and the
    statement that takes the result of `show_to` in the `%$` branch; `posParams : Cello.Str.PosParams` bundling them;
    `printConvSet` — the `strchr` set that ends a specification.
  * `lookParams : Cello.Str.LookParams` — String_Look: whether `String_Clear(self)` stands first, the opening / closing quote
    tests, the escape lead and the escape switch as a table (case label -> bytes of the `$S("…")` appended).
The theorems `C16_current_source`, `C16_current_source_positions`, `C16_look_current_source` and `C16_source_shape_as_modelled` are stated about
these definitions.
"""
import re
from ctext import *
from gen import HEADER, lean_str, lean_list

CALLS = ('realloc', 'calloc', 'strcpy', 'strcat', 'memset', 'memmove', 'strstr', 'strcmp', 'hash_data',
         'vsnprintf', 'vsprintf', 'vsscanf', 'strncpy', 'strncat', 'memcpy', 'malloc', 'free', 'sprintf', 'snprintf', 'strlen')

def preprocess(body, defined=(), true_conds=('CELLO_ALLOC_CHECK == 1', 'CELLO_MEMORY_CHECK == 1')):
    """resolve #if/#ifdef/#elif/#else/#endif line by line: names in `defined` are defined, the listed
    conditions are true, everything else is false"""
    out = []; stack = []   # entries: [taken_before, active_now]
    def cond(c):
        c = c.strip()
        m = re.fullmatch(r'defined\s*\(?\s*(\w+)\s*\)?', c)
        if m: return m.group(1) in defined
        return c in true_conds
    for line in body.split('\n'):
        s = line.strip()
        m = re.match(r'#\s*(ifdef|ifndef|if|elif|else|endif)\b(.*)', s)
        if not m:
            if all(a for _, a in stack): out.append(line)
            continue
        k, rest = m.group(1), m.group(2)
        if k == 'ifdef': v = rest.strip() in defined; stack.append([v, v])
        elif k == 'ifndef': v = rest.strip() not in defined; stack.append([v, v])
        elif k == 'if': v = cond(rest); stack.append([v, v])
        elif k == 'elif':
            if not stack: raise ExtractError('#elif without #if')
            v = (not stack[-1][0]) and cond(rest); stack[-1][1] = v; stack[-1][0] = stack[-1][0] or v
        elif k == 'else':
            if not stack: raise ExtractError('#else without #if')
            v = not stack[-1][0]; stack[-1][1] = v; stack[-1][0] = True
        elif k == 'endif':
            if not stack: raise ExtractError('#endif without #if')
            stack.pop()
    if stack: raise ExtractError('unbalanced preprocessor conditionals')
    return '\n'.join(out)

def nows(s): return re.sub(r'\s+', '', s)

def nows_code(s):
    """remove white space outside string / character literals"""
    out = []; i = 0; n = len(s)
    while i < n:
        c = s[i]
        if c in '"\'':
            j = i + 1
            while j < n and s[j] != c:
                if s[j] == '\\': j += 1
                j += 1
            out.append(s[i:j+1]); i = j + 1
        elif c.isspace(): i += 1
        else: out.append(c); i += 1
    return ''.join(out)

def def_body(src, name, what):
    """body of the definition of `name` (a line that starts with its return type), skipping uses inside doc strings"""
    m = re.search(r'^(?:static\s+)?\w[\w\s\*]*\b' + re.escape(name) + r'\s*\(', src, flags=re.M)
    if not m: raise ExtractError(f'{what}: definition of {name} not found')
    return func_body(src[m.start():], name)

# ---- position bookkeeping of print_to_with (src/Show.c)
def enclosing_block(body, i):
    """(start, end) of the innermost `{…}` of `body` that contains index i (start at `{`, end just after `}`)"""
    depth = 0; j = i
    while j >= 0:
        c = body[j]
        if c == '}': depth += 1
        elif c == '{':
            if depth == 0: return j, balanced(body, j, '{', '}')
            depth -= 1
        j -= 1
    raise ExtractError('print_to_with: a format_to call outside any block')

def condition_before(body, start):
    """text of the `if (…)` whose block starts at `start`"""
    k = start - 1
    while k >= 0 and body[k].isspace(): k -= 1
    if k < 0 or body[k] != ')': raise ExtractError('print_to_with: a format_to call in a block that is not the body of an `if`')
    depth = 0; j = k
    while j >= 0:
        if body[j] == ')': depth += 1
        elif body[j] == '(':
            depth -= 1
            if depth == 0: break
        j -= 1
    if not re.search(r'\bif\s*$', body[:j]): raise ExtractError('print_to_with: a format_to call in a block that is not the body of an `if`')
    return nows_code(body[j:k+1])

def pos_expr(op, expr, subst):
    """`pos <op> expr;` -> Lean Nat expression over pos/off/width (or pos/ret)"""
    e = nows(re.sub(r'\(\s*(int|size_t|long)\s*\)', '', expr))
    for c_text, name in sorted(subst.items(), key=lambda kv: -len(kv[0])):
        e = e.replace(nows(c_text), f' {name} ')
    toks = re.findall(r'[A-Za-z_]\w*|\d+|[-+*()]|\S', e)
    for t in toks:
        if re.fullmatch(r'\d+|[-+*()]', t): continue
        if t in ('pos', 'off', 'width', 'ret'): continue
        raise ExtractError(f'print_to_with: position update `pos {op} {expr.strip()}`: unexpected token `{t}`')
    e = ' '.join(toks)
    return f'pos + ({e})' if op == '+=' else e

def positions(repo):
    src = read(f'{repo}/src/Show.c')
    body = def_body(src, 'print_to_with', 'Show.c')
    if not re.search(r'return\s+pos\s*;\s*$', body.strip()): raise ExtractError('print_to_with: does not end in `return pos;`')
    found = {}; texts = {}
    for m in re.finditer(r'\bint\s+(\w+)\s*=\s*format_to\s*\(', body):
        var = m.group(1)
        call_end = balanced(body, m.end() - 1)
        args = [nows_code(a) for a in split_top(body[m.end():call_end - 1])]
        bs, be = enclosing_block(body, m.start())
        cond = condition_before(body, bs)
        if args[:2] != ['out', 'pos']: raise ExtractError(f'print_to_with: format_to({", ".join(args)}): expected (out, pos, …)')
        rest = args[2:]
        if rest == ['fmt_buf']: br = 'Lit'; width = {'fmt-start': 'width'}
        elif rest == ['"%%"']: br = 'Pct'; width = {'fmt-start': '0'}
        elif rest == ['fmt_buf', 'c_str(a)']: br = 'Str'; width = {'fmt-start': '(width - 1)'}
        elif rest == ['fmt_buf', 'c_float(a)']: br = 'Flt'; width = {'fmt-start': '(width - 1)'}
        elif rest == ['fmt_buf', 'a']: br = 'Ptr'; width = {'fmt-start': '(width - 1)'}
        elif rest == ['fmt_buf', 'c_int(a)']:
            br = 'Chr' if "'c'" in cond else 'Int'; width = {'fmt-start': '(width - 1)'}
        else: raise ExtractError(f'print_to_with: unexpected format_to({", ".join(args)})')
        if br in found: raise ExtractError(f'print_to_with: two format_to calls for branch {br}')
        ups = re.findall(r'\bpos\s*(\+=|-=|\*=|=)(?!=)\s*([^;]+);', body[call_end:be])
        if len(ups) != 1: raise ExtractError(f'print_to_with, branch {br}: expected exactly one assignment to `pos` after format_to, found {len(ups)}')
        op, expr = ups[0]
        if op not in ('+=', '='): raise ExtractError(f'print_to_with, branch {br}: `pos {op} …`')
        sub = dict(width); sub[var] = 'off'
        found[br] = pos_expr(op, expr, sub); texts[br] = f'pos {op} {expr.strip()};'
    for br in ('Lit', 'Pct', 'Str', 'Int', 'Flt', 'Chr', 'Ptr'):
        if br not in found: raise ExtractError(f'print_to_with: no format_to call found for branch {br}')
    ms = re.findall(r'\bpos\s*(\+=|-=|=)(?!=)\s*([^;]*\bshow_to\s*\([^;]*);', body)
    if len(ms) != 1: raise ExtractError(f'print_to_with: expected exactly one `pos = show_to(…)`, found {len(ms)}')
    op, expr = ms[0]
    if op not in ('+=', '='): raise ExtractError(f'print_to_with: `pos {op} show_to(…)`')
    k = re.search(r'\bshow_to\s*\(', expr)
    kend = balanced(expr, k.end() - 1)
    if [nows(a) for a in split_top(expr[k.end():kend - 1])] != ['a', 'out', 'pos']:
        raise ExtractError('print_to_with: show_to is not called as show_to(a, out, pos)')
    found['Show'] = pos_expr(op, expr[:k.start()] + ' ret ' + expr[kend:], {}); texts['Show'] = f'pos {op} {expr.strip()};'
    mc = re.search(r'while\s*\(\s*not\s+strchr\s*\(\s*"([^"]*)"\s*,\s*\*fmt\s*\)\s*\)', body)
    if not mc: raise ExtractError('print_to_with: `while(not strchr("…", *fmt))` not found')
    return found, texts, [ord(c) for c in mc.group(1)]

def outer_calls(body):
    """libc calls and terminator stores in source order (outermost calls only; strlen only when not nested in another
    listed call), whitespace-free"""
    items = []; i = 0
    pat = re.compile(r'\b(' + '|'.join(CALLS) + r')\s*\(|(s->val\s*\[[^\]]*\]\s*=\s*[^;]+);|\b(count)\s*=\s*([^;]+);|\bif\s*\(\s*(n\s*[<>]=?\s*m)\s*\)'
                     r'|\b(if\s*\(\s*size\s*<=?\s*-?\d+\s*\)\s*\{[^{}]*\})|\b(char\s*\*\s*sub\s*=\s*[^;]+;)'
                     r'|\b(if\s*\(\s*val\s+is\s+s->val\s*\)\s*\{[^{}]*\})|\bif\s*\(\s*s->val\s+is\s+NULL\s*\)\s*\{\s*throw\s*\(\s*(\w+)')
    while True:
        m = pat.search(body, i)
        if not m: break
        if m.group(1):
            end = balanced(body, m.end() - 1)
            items.append(nows(body[m.start():end])); i = end
        elif m.group(2):
            items.append(nows(m.group(2))); i = m.end()
        elif m.group(3):
            items.append('count=' + nows(m.group(4))); i = m.end()
        elif m.group(5):
            items.append('if(' + nows(m.group(5)) + ')'); i = m.end()
        elif m.group(6):
            items.append(nows(m.group(6))); i = m.end()          # `if (size < 0) { return size; }`: libc rejected the format
        elif m.group(7):
            items.append(nows(m.group(7))); i = m.end()          # `char* sub = c_str(obj);`: the operand must have a C string
        elif m.group(8):
            items.append(nows(m.group(8))); i = m.end()          # `if (val is s->val) { return; }`: assign(s, s) is a no-op (744a45f)
        else:
            items.append(f'if(s->valisNULL)throw({m.group(9)})'); i = m.end()   # the CELLO_MEMORY_CHECK test: WHERE it stands (63509f2)
    return items

def arg_of(call, idx):
    """idx-th top-level argument of a whitespace-free call text"""
    k = call.index('(')
    return split_top(call[k+1:-1])[idx]

def to_nat(expr, subst, allowed):
    """C size expression -> Lean Nat expression: substitute the given sub-expressions by names, then accept only
    names in `allowed`, decimal literals, + - * and parentheses"""
    e = nows(expr)
    for c_text, name in sorted(subst.items(), key=lambda kv: -len(kv[0])):
        e = e.replace(nows(c_text), f' {name} ')
    toks = re.findall(r'[A-Za-z_]\w*|\d+|[-+*()]|\S', e)
    for t in toks:
        if re.fullmatch(r'\d+|[-+*()]', t): continue
        if t in allowed: continue
        raise ExtractError(f'size expression `{expr}`: unexpected token `{t}`')
    return ' '.join(toks)

# the CELLO_MEMORY_CHECK test as `outer_calls` records it: in every function it stands directly after the allocation
OOM = 'if(s->valisNULL)throw(OutOfMemoryError)'

SHAPE_MODELLED = [
    ('String_New', ['calloc(1,1)', OOM]),
    # after 744a45f: an operand whose C string IS the target's buffer returns before the realloc
    ('String_Assign', ['if(valiss->val){return;}', 'realloc(s->val,strlen(val)+1)', OOM, 'strcpy(s->val,val)']),
    ('String_Clear', ['realloc(s->val,1)', OOM, "s->val[0]='\\0'"]),
    ('String_Concat', ['realloc(s->val,strlen(s->val)+strlen(c_str(obj))+1)', OOM, 'strcat(s->val,c_str(obj))']),
    # after 63509f2: the result of realloc is tested BEFORE it is written through
    ('String_Resize', ['realloc(s->val,n+1)', OOM, 'if(n>m)', 'memset(&s->val[m],0,n-m)', "s->val[n]='\\0'"]),
    # after e60e6ec: the operand's C string is taken first (c_str raises ClassError for an object without C_Str)
    ('String_Rem', ['char*sub=c_str(obj);', 'strstr(String_C_Str(self),sub)', 'count=strlen(pos)-strlen(sub)+1',
                    'memmove((char*)pos,pos+strlen(sub),count)']),
    # after a626877: a negative size (libc rejects the format) is returned before anything is touched
    ('String_Format_To', ['vsnprintf(NULL,0,fmt,va_tmp)', 'if(size<0){returnsize;}', 'realloc(s->val,pos+size+1)', OOM, 'vsprintf(s->val+pos,fmt,va)']),
    ('String_Format_From', ['vsscanf(s->val+pos,fmt,va)']),
    ('String_Len', ['strlen(s->val)']),
    ('String_Cmp', ['strcmp(String_C_Str(self),c_str(obj))']),
    ('String_Mem', ['strstr(String_C_Str(self),c->c_str(obj))']),
    ('String_Hash', ['hash_data(s->val,strlen(s->val))']),
    # which function serves which class member (src/String.c `var String = Cello(String, …)`)
    ('String', ['Instance(New,String_New,String_Del)', 'Instance(Assign,String_Assign)', 'Instance(Cmp,String_Cmp)',
                'Instance(Hash,String_Hash)', 'Instance(Len,String_Len)', 'Instance(Get,NULL,NULL,String_Mem,String_Rem)',
                'Instance(Resize,String_Resize)', 'Instance(Concat,String_Concat,String_Concat)',
                'Instance(C_Str,String_C_Str)', 'Instance(Format,String_Format_To,String_Format_From)',
                'Instance(Show,String_Show,String_Look)']),
    # the generic entry points (src/Concat.c Resize.c Get.c Cmp.c Len.c): plain dispatch to the member
    ('append', ['method(self,Concat,append,obj);']), ('concat', ['method(self,Concat,concat,obj);']),
    ('resize', ['method(self,Resize,resize,n);']), ('mem', ['returnmethod(self,Get,mem,key);']),
    ('rem', ['method(self,Get,rem,key);']), ('len', ['returnmethod(self,Len,len);']),
    ('eq', ['returncmp(self,obj)is0;']),
    # how an operand becomes a C string, how a String is made, copied and released (extension round: pinned, were trusted)
    ('c_str', ['if(type_of(self)isString){return((structString*)self)->val;}returnmethod(self,C_Str,c_str);']),
    ('String_C_Str', ['structString*s=self;returns->val;']),
    ('String_New.body', ['structString*s=self;if(len(args)>0){String_Assign(self,get(args,$I(0)));}else{s->val=calloc(1,1);}#ifCELLO_MEMORY_CHECK==1if(s->valisNULL){throw(OutOfMemoryError,"Cannot allocate String, out of memory!");}#endif']),
    ('String_Del', ['structString*s=self;#ifCELLO_ALLOC_CHECK==1if(header(self)->allocis(var)AllocStackorheader(self)->allocis(var)AllocStatic){throw(ValueError,"Cannot destruct String, not on heap!");}#endiffree(s->val);']),
    ('assign', ['structAssign*a=instance(self,Assign);if(aanda->assign){a->assign(self,obj);returnself;}size_ts=size(type_of(self));if(type_of(self)istype_of(obj)ands){returnmemcpy(self,obj,s);}returnthrow(TypeError,"Cannotassigntype%stotype%s",type_of(obj),type_of(self));']),
    ('copy', ['structCopy*c=instance(self,Copy);if(candc->copy){returnc->copy(self);}returnassign(alloc(type_of(self)),self);']),
    # what String_Format_To returns (the `off` of print_to_with), and the Show instances / entry points that the model of
    # the formatted-write path mirrors (Cello.Str.showVal, emit): whole bodies, white space outside literals removed
    ('String_Format_To.return', ['size', 'vsprintf(s->val+pos,fmt,va)']),
    ('String_Show', ['structString*s=self;pos=print_to(out,pos,"\\"",self);char*v=s->val;while(*v){switch(*v){case\'\\a\':pos=print_to(out,pos,"\\\\a");break;case\'\\b\':pos=print_to(out,pos,"\\\\b");break;case\'\\f\':pos=print_to(out,pos,"\\\\f");break;case\'\\n\':pos=print_to(out,pos,"\\\\n");break;case\'\\r\':pos=print_to(out,pos,"\\\\r");break;case\'\\t\':pos=print_to(out,pos,"\\\\t");break;case\'\\v\':pos=print_to(out,pos,"\\\\v");break;case\'\\\\\':pos=print_to(out,pos,"\\\\\\\\");break;case\'\\\'\':pos=print_to(out,pos,"\\\\\'");break;case\'\\"\':pos=print_to(out,pos,"\\\\\\"");break;case\'\\?\':pos=print_to(out,pos,"\\\\?");break;default:pos=print_to(out,pos,"%c",$I(*v));}v++;}returnprint_to(out,pos,"\\"",self);']),
    # String_Look (the Look member of Show): whole body; its quote / escape characters, escape table and the place of String_Clear are
    # ALSO extracted as terms (`lookParams`), which the model `Cello.Str.look` consumes
    ('String_Look', ['String_Clear(self);varchr=$I(0);pos=scan_from(input,pos,"%c",chr);if(c_int(chr)isnt\'\\"\'){throw(FormatError,"String literal does not start with quotation marks!");}while(true){pos=scan_from(input,pos,"%c",chr);if(c_int(chr)==\'"\'){break;}if(c_int(chr)==\'\\\\\'){pos=scan_from(input,pos,"%c",chr);switch(c_int(chr)){case\'a\':String_Concat(self,$S("\\a"));break;case\'b\':String_Concat(self,$S("\\b"));break;case\'f\':String_Concat(self,$S("\\f"));break;case\'n\':String_Concat(self,$S("\\n"));break;case\'r\':String_Concat(self,$S("\\r"));break;case\'t\':String_Concat(self,$S("\\t"));break;case\'v\':String_Concat(self,$S("\\v"));break;case\'\\\\\':String_Concat(self,$S("\\\\"));break;case\'\\\'\':String_Concat(self,$S("\\\'"));break;case\'"\':String_Concat(self,$S("\\""));break;case\'?\':String_Concat(self,$S("\\?"));break;default:throw(FormatError,"Unknown Escape Sequence \'\\\\%c\'!",chr);}continue;}charbuffer[2];buffer[0]=(char)c_int(chr);buffer[1]=\'\\0\';String_Concat(self,$S(buffer));}returnpos;']),
    ('look_from', ['returnmethod(self,Show,look,input,pos);']),
    ('Int_Show', ['returnprint_to(output,pos,"%li",self);']),
    ('Tuple_Show', ['structTuple*t=self;pos=print_to(output,pos,"tuple(",self);size_ti=0;while(t->items[i]isntTerminal){pos=print_to(output,pos,"%$",t->items[i]);if(t->items[i+1]isntTerminal){pos=print_to(output,pos,", ");}i++;}returnprint_to(output,pos,")");']),
    ('show_to', ['if(selfisNULL){returnprint_to(out,pos,"<NULL>");}structShow*s=instance(self,Show);if(sands->show){returns->show(self,out,pos);}returnprint_to(out,pos,"<\'%s\' At 0x%p>",type_of(self),self);']),
    ('format_to', ['va_listva;va_start(va,fmt);intret=format_to_va(self,pos,fmt,va);va_end(va);returnret;']),
    ('format_to_va', ['returnmethod(self,Format,format_to,pos,fmt,va);']),
    ('print_to', ['print_to_with(out,pos,fmt,tuple(__VA_ARGS__))']),
]
WHOLE = {'String_Show': 'String.c', 'String_Look': 'String.c', 'look_from': 'Show.c', 'c_str': 'String.c', 'String_C_Str': 'String.c',
         'String_New.body': 'String.c', 'String_Del': 'String.c', 'Int_Show': 'Num.c', 'Tuple_Show': 'Tuple.c', 'show_to': 'Show.c', 'format_to': 'Show.c',
         'format_to_va': 'Show.c'}
GENERIC = {'append': 'Concat.c', 'concat': 'Concat.c', 'resize': 'Resize.c', 'mem': 'Get.c', 'rem': 'Get.c', 'len': 'Len.c', 'eq': 'Cmp.c', 'assign': 'Assign.c', 'copy': 'Alloc.c'}

C_ESC = {'a': 7, 'b': 8, 'f': 12, 'n': 10, 'r': 13, 't': 9, 'v': 11, '\\': 92, "'": 39, '"': 34, '?': 63}

def c_bytes(lit, what):
    """bytes of the inside of a C character / string literal (simple escapes only; no NUL)"""
    out = []; i = 0
    while i < len(lit):
        if lit[i] == '\\':
            if i + 1 >= len(lit) or lit[i + 1] not in C_ESC: raise ExtractError(f'{what}: escape `{lit[i:i+2]}` not understood')
            out.append(C_ESC[lit[i + 1]]); i += 2
        else:
            if ord(lit[i]) == 0 or ord(lit[i]) > 255: raise ExtractError(f'{what}: character `{lit[i]}`')
            out.append(ord(lit[i])); i += 1
    return out

def look_params(src):
    """String_Look: where String_Clear stands, the quote tests, the escape lead and the escape table (letter -> text appended)"""
    body = def_body(src, 'String_Look', 'String.c')
    if '#' in body: raise ExtractError('String_Look: preprocessor conditionals inside the body')
    flat = nows_code(body)
    CH = r"'((?:\\.|[^'\\]))'"
    clears_first = flat.startswith('String_Clear(self);')
    if flat.count('String_Clear(') != (1 if clears_first else 0) and not clears_first:
        raise ExtractError('String_Look: String_Clear is called, but not as the first statement')
    reads = re.findall(r'(\w+)?=?scan_from\(input,pos,"%c",chr\)', flat)
    if len(re.findall(r'pos=scan_from\(input,pos,"%c",chr\);', flat)) != 3 or flat.count('scan_from(') != 3:
        raise ExtractError('String_Look: expected exactly three `pos = scan_from(input, pos, "%c", chr);`')
    mo = re.findall(r'if\(c_int\(chr\)isnt' + CH + r'\)\{throw\(FormatError,', flat)
    mc = re.findall(r'if\(c_int\(chr\)==' + CH + r'\)\{break;\}', flat)
    ml = re.findall(r'if\(c_int\(chr\)==' + CH + r'\)\{pos=scan_from\(input,pos,"%c",chr\);switch\(c_int\(chr\)\)\{', flat)
    if len(mo) != 1 or len(mc) != 1 or len(ml) != 1:
        raise ExtractError(f'String_Look: opening-quote test / closing-quote test / escape lead found {len(mo)}/{len(mc)}/{len(ml)} times (1 each expected)')
    k = flat.index('switch(c_int(chr)){'); kend = balanced(flat, k + len('switch(c_int(chr))'), '{', '}')
    sw = flat[k + len('switch(c_int(chr)){'):kend - 1]
    cases = re.findall(r'case' + CH + r':String_Concat\(self,\$S\("((?:\\.|[^"\\])*)"\)\);break;', sw)
    rest = re.sub(r'case' + CH + r':String_Concat\(self,\$S\("((?:\\.|[^"\\])*)"\)\);break;', '', sw)
    if not re.fullmatch(r'default:throw\(FormatError,"(?:\\.|[^"\\])*",chr\);', rest):
        raise ExtractError(f'String_Look: the escape switch has something besides `case c: String_Concat(self, $S("…")); break;` and a throwing default: `{rest[:80]}`')
    if not flat[kend:].startswith('continue;}charbuffer[2];buffer[0]=(char)c_int(chr);buffer[1]=\'\\0\';String_Concat(self,$S(buffer));}returnpos;'):
        raise ExtractError('String_Look: after the escape switch: expected `continue; }` then the one-character buffer appended with String_Concat, then `return pos;`')
    one = lambda lit, what: (c_bytes(lit, what) if len(c_bytes(lit, what)) == 1 else (_ for _ in ()).throw(ExtractError(f'{what}: not one character')))[0]
    esc = [(one(c, 'String_Look case label'), c_bytes(t, 'String_Look escape text')) for c, t in cases]
    if len({c for c, _ in esc}) != len(esc): raise ExtractError('String_Look: duplicate case label')
    return clears_first, one(mo[0], 'opening quote'), one(mc[0], 'closing quote'), one(ml[0], 'escape lead'), esc

GUARD_RE = re.compile(r'if\s*\(\s*header\(self\)->alloc\s+is\s+\(var\)AllocStack\s+or\s+header\(self\)->alloc\s+is\s+\(var\)AllocStatic\s*\)\s*\{\s*throw\s*\(\s*ValueError\s*,')

def guard_params(src):
    """per reallocating function: the CELLO_ALLOC_CHECK test (`AllocStack or AllocStatic -> throw(ValueError`) is present and stands before
    the first realloc( / free( of the (preprocessed) body; String_Assign: the `val is s->val` return stands before it"""
    out = {}
    for key, fn in (('assign', 'String_Assign'), ('clear', 'String_Clear'), ('concat', 'String_Concat'), ('resize', 'String_Resize'),
                    ('format', 'String_Format_To'), ('del', 'String_Del')):
        body = preprocess(func_body(src, fn))
        g = GUARD_RE.search(body); r = re.search(r'\b(realloc|free)\s*\(', body)
        if not r: raise ExtractError(f'{fn}: no realloc( / free( found')
        if len(GUARD_RE.findall(body)) > 1: raise ExtractError(f'{fn}: more than one alloc check')
        out[key] = bool(g) and g.start() < r.start()
        if fn == 'String_Assign':
            e = re.search(r'if\s*\(\s*val\s+is\s+s->val\s*\)\s*\{\s*return\s*;\s*\}', body)
            out['assignSelfFirst'] = bool(e) and (not g or e.start() < g.start()) and e.start() < r.start()
    body = preprocess(func_body(src, 'String_Rem'))
    if GUARD_RE.search(body) or re.search(r'\b(realloc|free)\s*\(', body): raise ExtractError('String_Rem: an alloc check / realloc / free (modelled: memmove in place)')
    return out

def gen_str(repo):
    src = read(f'{repo}/src/String.c')
    shape = []
    bodies = {}
    for fn, _ in SHAPE_MODELLED:
        if fn == 'String':
            m = re.search(r'var\s+String\s*=\s*Cello\s*\(', src)
            if not m: raise ExtractError('`var String = Cello(String, …)` not found')
            inner = src[m.end():balanced(src, m.end() - 1) - 1]
            shape.append((fn, [nows(x) for x in split_top(inner) if nows(x).startswith('Instance(') and not re.match(r'Instance\((Doc),', nows(x))]))
            continue
        if fn == 'String_Format_To.return':
            shape.append((fn, [nows(r) for r in re.findall(r'\breturn\s+([^;]+);', bodies['String_Format_To'])]))
            continue
        if fn == 'print_to':
            hdr = read(f'{repo}/include/Cello.h')
            mm = re.search(r'#\s*define\s+print_to\s*\(\s*out\s*,\s*pos\s*,\s*fmt\s*,\s*\.\.\.\s*\)\s*\\?\s*\n?\s*([^\n]+)', hdr)
            if not mm: raise ExtractError('Cello.h: `#define print_to(out, pos, fmt, ...)` not found')
            shape.append((fn, [nows(mm.group(1))]))
            continue
        if fn in WHOLE:
            wsrc = read(f'{repo}/src/{WHOLE[fn]}')
            shape.append((fn, [nows_code(def_body(wsrc, fn.split('.')[0], WHOLE[fn]))]))
            continue
        if fn in GENERIC:
            gsrc = read(f'{repo}/src/{GENERIC[fn]}')
            mm = re.search(r'^\w[\w\s\*]*\b' + fn + r'\s*\(', gsrc, flags=re.M)
            if not mm: raise ExtractError(f'{GENERIC[fn]}: definition of {fn} not found')
            shape.append((fn, [nows(func_body(gsrc[mm.start():], fn))]))
            continue
        body = preprocess(func_body(src, fn))   # func_body skips declarations and uses: it wants `name(...) {`
        bodies[fn] = body
        shape.append((fn, outer_calls(body)))
    def find(fn, prefix):
        xs = [c for c in dict(shape)[fn] if c.startswith(prefix)]
        if len(xs) != 1: raise ExtractError(f'{fn}: expected exactly one `{prefix}…`, found {len(xs)}')
        return xs[0]
    # sizes
    ca = find('String_New', 'calloc(')
    new_empty = to_nat(f'({arg_of(ca, 0)})*({arg_of(ca, 1)})', {}, ())
    assign = to_nat(arg_of(find('String_Assign', 'realloc('), 1), {'strlen(val)': 'lv'}, ('lv',))
    if not re.search(r'char\s*\*\s*val\s*=\s*c_str\s*\(\s*obj\s*\)', bodies['String_Assign']):
        raise ExtractError('String_Assign: `char* val = c_str(obj)` not found')
    clear = to_nat(arg_of(find('String_Clear', 'realloc('), 1), {}, ())
    concat = to_nat(arg_of(find('String_Concat', 'realloc('), 1),
                    {'strlen(s->val)': 'ls', 'strlen(c_str(obj))': 'lo'}, ('ls', 'lo'))
    resize = to_nat(arg_of(find('String_Resize', 'realloc('), 1), {}, ('n',))
    if not re.search(r'size_t\s+m\s*=\s*String_Len\s*\(\s*self\s*\)', bodies['String_Resize']):
        raise ExtractError('String_Resize: `size_t m = String_Len(self)` not found')
    fmt = to_nat(arg_of(find('String_Format_To', 'realloc('), 1), {}, ('pos', 'size'))
    if not re.search(r'int\s+size\s*=\s*vsnprintf\s*\(\s*NULL\s*,\s*0\s*,', bodies['String_Format_To']):
        raise ExtractError('String_Format_To: `int size = vsnprintf(NULL, 0, …` not found')
    cnt = find('String_Rem', 'count=')[len('count='):]
    rem = to_nat(cnt, {'strlen(String_C_Str(self))': 'ls', 'strlen(pos)': 'lp', 'strlen(c->c_str(obj))': 'lo', 'strlen(sub)': 'lo'}, ('ls', 'lp', 'lo'))
    if not re.search(r'if\s*\(\s*pos\s+is\s+NULL\s*\)\s*\{\s*throw\s*\(\s*ValueError', bodies['String_Rem']):
        raise ExtractError('String_Rem: `if (pos is NULL) { throw(ValueError …` not found')
    # 744a45f: `if (val is s->val) { return; }` between `char* val = c_str(obj);` and the realloc
    sa = dict(shape)['String_Assign']; guard = 'if(valiss->val){return;}'
    assign_self_returns = guard in sa and sa.index(guard) < sa.index(find('String_Assign', 'realloc('))
    # 63509f2: the NULL test directly after the realloc of String_Resize, before the memset / terminator store
    sr = dict(shape)['String_Resize']; ri = sr.index(find('String_Resize', 'realloc('))
    resize_checks_first = ri + 1 < len(sr) and sr[ri + 1] == OOM
    pos, pos_txt, conv = positions(repo)
    lk_clear, lk_qo, lk_qc, lk_lead, lk_esc = look_params(src)
    gp = guard_params(src); B = lambda v: 'true' if v else 'false'
    lk_esc_lean = lean_list([f'({c}, {lean_list([str(b) for b in t])})' for c, t in lk_esc])
    def shape_lean(sh):
        return lean_list(['(' + lean_str(fn) + ', ' + lean_list([lean_str(c) for c in cs]) + ')' for fn, cs in sh])
    adv_defs = '\n'.join(
        f"/-- src/Show.c print_to_with, {what}: `{pos_txt[br]}` -/\ndef adv{br} (pos off width : Nat) : Nat := {pos[br]}"
        for br, what in (('Lit', 'literal run'), ('Pct', '`%%`'), ('Str', '`%s`'), ('Int', '`%d %i %o %u %x %X`'),
                         ('Flt', '`%f %e %g %a`'), ('Chr', '`%c`'), ('Ptr', '`%p`')))
    return HEADER + f"""import Cello.Str
import Cello.StrLook
import Cello.StrRecv
set_option linter.unusedVariables false
namespace CelloGen.Str

/-- `String_New` without arguments: `{ca}` → nmemb * size -/
def newEmptySize : Nat := {new_empty}
/-- `String_Assign`: size passed to realloc, `lv` = strlen(val) -/
def assignSize (lv : Nat) : Nat := {assign}
/-- `String_Clear`: size passed to realloc -/
def clearSize : Nat := {clear}
/-- `String_Concat`: size passed to realloc, `ls` = strlen(s->val), `lo` = strlen(c_str(obj)) -/
def concatSize (ls lo : Nat) : Nat := {concat}
/-- `String_Resize`: size passed to realloc -/
def resizeSize (n : Nat) : Nat := {resize}
/-- `String_Format_To` (portable branch): size passed to realloc -/
def formatSize (pos size : Nat) : Nat := {fmt}
/-- `String_Rem`: byte count of the memmove; `ls` = strlen(self), `lp` = strlen(pos), `lo` = strlen(c_str(obj)) -/
def remCount (ls lp lo : Nat) : Nat := {rem}
/-- `String_Assign`: `if (val is s->val) {{ return; }}` stands before the realloc (744a45f) -/
def assignSelfReturns : Bool := {'true' if assign_self_returns else 'false'}
/-- `String_Resize`: the `s->val is NULL` test stands directly after the realloc, before the memset / terminator store (63509f2) -/
def resizeChecksFirst : Bool := {'true' if resize_checks_first else 'false'}

def params : Cello.Str.Params :=
  {{ newEmptySize := newEmptySize, assignSize := assignSize, clearSize := clearSize, concatSize := concatSize,
     resizeSize := resizeSize, formatSize := formatSize, remCount := remCount,
     assignSelfReturns := assignSelfReturns, resizeChecksFirst := resizeChecksFirst }}

/-! position bookkeeping of `print_to_with`: `off` = the value `format_to` returned, `width` = format characters consumed -/
{adv_defs}
/-- src/Show.c print_to_with, `%$`: `{pos_txt['Show']}` with `ret` = the value `show_to` returned -/
def showPos (pos ret : Nat) : Nat := {pos['Show']}

def posParams : Cello.Str.PosParams :=
  {{ adv := fun br => match br with
      | .lit => advLit | .pct => advPct | .str => advStr | .int => advInt | .flt => advFlt | .chr => advChr | .ptr => advPtr,
     shw := showPos }}

/-- the `strchr` set that ends a specification in `print_to_with` -/
def printConvSet : List UInt8 := {lean_list([str(c) for c in conv])}

/-- `String_Look`: `String_Clear(self);` is its first statement; the quote tests, the escape lead, and the escape `switch`
    (`case c: String_Concat(self, $S("…")); break;` as (c, bytes appended)) -/
def lookParams : Cello.Str.LookParams :=
  {{ clearsFirst := {'true' if lk_clear else 'false'}, quoteOpen := {lk_qo}, quoteClose := {lk_qc}, escLead := {lk_lead},
     escapes := {lk_esc_lean} }}

/-- per reallocating function of src/String.c: `if (header(self)->alloc is (var)AllocStack or … AllocStatic) {{ throw(ValueError, …` is there and
    stands before the first `realloc(` / `free(`; `assignSelfFirst`: String_Assign's `if (val is s->val) {{ return; }}` stands before it -/
def guardParams : Cello.Str.GuardParams :=
  {{ assign := {B(gp['assign'])}, clear := {B(gp['clear'])}, concat := {B(gp['concat'])}, resize := {B(gp['resize'])},
     format := {B(gp['format'])}, del := {B(gp['del'])}, assignSelfFirst := {B(gp['assignSelfFirst'])} }}

/-- libc calls / terminator stores of each modelled function, in source order (whitespace removed) -/
def shape : List (String × List String) := {shape_lean(shape)}

/-- the shape Cello/Str.lean was written against -/
def shapeModelled : List (String × List String) := {shape_lean(SHAPE_MODELLED)}

end CelloGen.Str
"""

GENERATORS = {'Str': gen_str}
