"""Link (A) for engine `str` (C16): the straight-line size arithmetic and the libc-call shape of src/String.c.

Generates lean/CelloGen/Str.lean:
  * `newEmptySize assignSize clearSize concatSize resizeSize formatSize remCount` — the C expressions passed to
    calloc/realloc and the `count` of String_Rem's memmove, translated token by token to `Nat` arithmetic
    (`strlen(...)` sub-expressions become the named arguments), and `params : Cello.Str.Params` bundling them;
  * `shape` — for every modelled function, the libc calls / terminator stores it makes, in source order,
    whitespace-free; `shapeModelled` — what Cello/Str.lean was written against.
The theorems `C16_current_source` and `C16_source_shape_as_modelled` are stated about these definitions.
"""
import re
from ctext import *
from gen import HEADER, lean_str, lean_list

CALLS = ('realloc', 'calloc', 'strcpy', 'strcat', 'memset', 'memmove', 'strstr', 'strcmp', 'hash_data',
         'vsnprintf', 'vsprintf', 'strncpy', 'strncat', 'memcpy', 'malloc', 'free', 'sprintf', 'snprintf', 'strlen')

def preprocess(body, defined=(), true_conds=('CELLO_ALLOC_CHECK == 1', 'CELLO_MEMORY_CHECK == 1')):
    """resolve #if/#ifdef/#elif/#else/#endif line by line: names in `defined` are defined, the listed
    conditions are true, everything else is false"""
    out = []; stack = []   # entries: [taken_before, active_now]
    def cond(c):
        c = c.strip()
        m = re.fullmatch(r'defined\s*\(?\s*(\w+)\s*\)?', c)
        if m: return m.group(1) in defined
        return c in true_conds
    for line in body.split('\n'):
        s = line.strip()
        m = re.match(r'#\s*(ifdef|ifndef|if|elif|else|endif)\b(.*)', s)
        if not m:
            if all(a for _, a in stack): out.append(line)
            continue
        k, rest = m.group(1), m.group(2)
        if k == 'ifdef': v = rest.strip() in defined; stack.append([v, v])
        elif k == 'ifndef': v = rest.strip() not in defined; stack.append([v, v])
        elif k == 'if': v = cond(rest); stack.append([v, v])
        elif k == 'elif':
            if not stack: raise ExtractError('#elif without #if')
            v = (not stack[-1][0]) and cond(rest); stack[-1][1] = v; stack[-1][0] = stack[-1][0] or v
        elif k == 'else':
            if not stack: raise ExtractError('#else without #if')
            v = not stack[-1][0]; stack[-1][1] = v; stack[-1][0] = True
        elif k == 'endif':
            if not stack: raise ExtractError('#endif without #if')
            stack.pop()
    if stack: raise ExtractError('unbalanced preprocessor conditionals')
    return '\n'.join(out)

def nows(s): return re.sub(r'\s+', '', s)

def outer_calls(body):
    """libc calls and terminator stores in source order (outermost calls only; strlen only when not nested in another
    listed call), whitespace-free"""
    items = []; i = 0
    pat = re.compile(r'\b(' + '|'.join(CALLS) + r')\s*\(|(s->val\s*\[[^\]]*\]\s*=\s*[^;]+);|\b(count)\s*=\s*([^;]+);|\bif\s*\(\s*(n\s*[<>]=?\s*m)\s*\)')
    while True:
        m = pat.search(body, i)
        if not m: break
        if m.group(1):
            end = balanced(body, m.end() - 1)
            items.append(nows(body[m.start():end])); i = end
        elif m.group(2):
            items.append(nows(m.group(2))); i = m.end()
        elif m.group(3):
            items.append('count=' + nows(m.group(4))); i = m.end()
        else:
            items.append('if(' + nows(m.group(5)) + ')'); i = m.end()
    return items

def arg_of(call, idx):
    """idx-th top-level argument of a whitespace-free call text"""
    k = call.index('(')
    return split_top(call[k+1:-1])[idx]

def to_nat(expr, subst, allowed):
    """C size expression -> Lean Nat expression: substitute the given sub-expressions by names, then accept only
    names in `allowed`, decimal literals, + - * and parentheses"""
    e = nows(expr)
    for c_text, name in sorted(subst.items(), key=lambda kv: -len(kv[0])):
        e = e.replace(nows(c_text), f' {name} ')
    toks = re.findall(r'[A-Za-z_]\w*|\d+|[-+*()]|\S', e)
    for t in toks:
        if re.fullmatch(r'\d+|[-+*()]', t): continue
        if t in allowed: continue
        raise ExtractError(f'size expression `{expr}`: unexpected token `{t}`')
    return ' '.join(toks)

SHAPE_MODELLED = [
    ('String_New', ['calloc(1,1)']),
    ('String_Assign', ['realloc(s->val,strlen(val)+1)', 'strcpy(s->val,val)']),
    ('String_Clear', ['realloc(s->val,1)', "s->val[0]='\\0'"]),
    ('String_Concat', ['realloc(s->val,strlen(s->val)+strlen(c_str(obj))+1)', 'strcat(s->val,c_str(obj))']),
    ('String_Resize', ['realloc(s->val,n+1)', 'if(n>m)', 'memset(&s->val[m],0,n-m)', "s->val[n]='\\0'"]),
    ('String_Rem', ['strstr(String_C_Str(self),c->c_str(obj))', 'count=strlen(pos)-strlen(c->c_str(obj))+1',
                    'memmove((char*)pos,pos+strlen(c->c_str(obj)),count)']),
    ('String_Format_To', ['vsnprintf(NULL,0,fmt,va_tmp)', 'realloc(s->val,pos+size+1)', 'vsprintf(s->val+pos,fmt,va)']),
    ('String_Len', ['strlen(s->val)']),
    ('String_Cmp', ['strcmp(String_C_Str(self),c_str(obj))']),
    ('String_Mem', ['strstr(String_C_Str(self),c->c_str(obj))']),
    ('String_Hash', ['hash_data(s->val,strlen(s->val))']),
    # which function serves which class member (src/String.c `var String = Cello(String, …)`)
    ('String', ['Instance(New,String_New,String_Del)', 'Instance(Assign,String_Assign)', 'Instance(Cmp,String_Cmp)',
                'Instance(Hash,String_Hash)', 'Instance(Len,String_Len)', 'Instance(Get,NULL,NULL,String_Mem,String_Rem)',
                'Instance(Resize,String_Resize)', 'Instance(Concat,String_Concat,String_Concat)',
                'Instance(C_Str,String_C_Str)', 'Instance(Format,String_Format_To,String_Format_From)']),
    # the generic entry points (src/Concat.c Resize.c Get.c Cmp.c Len.c): plain dispatch to the member
    ('append', ['method(self,Concat,append,obj);']), ('concat', ['method(self,Concat,concat,obj);']),
    ('resize', ['method(self,Resize,resize,n);']), ('mem', ['returnmethod(self,Get,mem,key);']),
    ('rem', ['method(self,Get,rem,key);']), ('len', ['returnmethod(self,Len,len);']),
    ('eq', ['returncmp(self,obj)is0;']),
]
GENERIC = {'append': 'Concat.c', 'concat': 'Concat.c', 'resize': 'Resize.c', 'mem': 'Get.c', 'rem': 'Get.c', 'len': 'Len.c', 'eq': 'Cmp.c'}

def gen_str(repo):
    src = read(f'{repo}/src/String.c')
    shape = []
    bodies = {}
    for fn, _ in SHAPE_MODELLED:
        if fn == 'String':
            m = re.search(r'var\s+String\s*=\s*Cello\s*\(', src)
            if not m: raise ExtractError('`var String = Cello(String, …)` not found')
            inner = src[m.end():balanced(src, m.end() - 1) - 1]
            shape.append((fn, [nows(x) for x in split_top(inner) if nows(x).startswith('Instance(') and not re.match(r'Instance\((Doc|Show),', nows(x))]))
            continue
        if fn in GENERIC:
            gsrc = read(f'{repo}/src/{GENERIC[fn]}')
            mm = re.search(r'^\w[\w\s\*]*\b' + fn + r'\s*\(', gsrc, flags=re.M)
            if not mm: raise ExtractError(f'{GENERIC[fn]}: definition of {fn} not found')
            shape.append((fn, [nows(func_body(gsrc[mm.start():], fn))]))
            continue
        body = preprocess(func_body(src, fn))   # func_body skips declarations and uses: it wants `name(...) {`
        bodies[fn] = body
        shape.append((fn, outer_calls(body)))
    def find(fn, prefix):
        xs = [c for c in dict(shape)[fn] if c.startswith(prefix)]
        if len(xs) != 1: raise ExtractError(f'{fn}: expected exactly one `{prefix}…`, found {len(xs)}')
        return xs[0]
    # sizes
    ca = find('String_New', 'calloc(')
    new_empty = to_nat(f'({arg_of(ca, 0)})*({arg_of(ca, 1)})', {}, ())
    assign = to_nat(arg_of(find('String_Assign', 'realloc('), 1), {'strlen(val)': 'lv'}, ('lv',))
    if not re.search(r'char\s*\*\s*val\s*=\s*c_str\s*\(\s*obj\s*\)', bodies['String_Assign']):
        raise ExtractError('String_Assign: `char* val = c_str(obj)` not found')
    clear = to_nat(arg_of(find('String_Clear', 'realloc('), 1), {}, ())
    concat = to_nat(arg_of(find('String_Concat', 'realloc('), 1),
                    {'strlen(s->val)': 'ls', 'strlen(c_str(obj))': 'lo'}, ('ls', 'lo'))
    resize = to_nat(arg_of(find('String_Resize', 'realloc('), 1), {}, ('n',))
    if not re.search(r'size_t\s+m\s*=\s*String_Len\s*\(\s*self\s*\)', bodies['String_Resize']):
        raise ExtractError('String_Resize: `size_t m = String_Len(self)` not found')
    fmt = to_nat(arg_of(find('String_Format_To', 'realloc('), 1), {}, ('pos', 'size'))
    if not re.search(r'int\s+size\s*=\s*vsnprintf\s*\(\s*NULL\s*,\s*0\s*,', bodies['String_Format_To']):
        raise ExtractError('String_Format_To: `int size = vsnprintf(NULL, 0, …` not found')
    cnt = find('String_Rem', 'count=')[len('count='):]
    rem = to_nat(cnt, {'strlen(String_C_Str(self))': 'ls', 'strlen(pos)': 'lp', 'strlen(c->c_str(obj))': 'lo'}, ('ls', 'lp', 'lo'))
    if not re.search(r'if\s*\(\s*pos\s+is\s+NULL\s*\)\s*\{\s*throw\s*\(\s*ValueError', bodies['String_Rem']):
        raise ExtractError('String_Rem: `if (pos is NULL) { throw(ValueError …` not found')
    def shape_lean(sh):
        return lean_list(['(' + lean_str(fn) + ', ' + lean_list([lean_str(c) for c in cs]) + ')' for fn, cs in sh])
    return HEADER + f"""import Cello.Str
namespace CelloGen.Str

/-- `String_New` without arguments: `{ca}` → nmemb * size -/
def newEmptySize : Nat := {new_empty}
/-- `String_Assign`: size passed to realloc, `lv` = strlen(val) -/
def assignSize (lv : Nat) : Nat := {assign}
/-- `String_Clear`: size passed to realloc -/
def clearSize : Nat := {clear}
/-- `String_Concat`: size passed to realloc, `ls` = strlen(s->val), `lo` = strlen(c_str(obj)) -/
def concatSize (ls lo : Nat) : Nat := {concat}
/-- `String_Resize`: size passed to realloc -/
def resizeSize (n : Nat) : Nat := {resize}
/-- `String_Format_To` (portable branch): size passed to realloc -/
def formatSize (pos size : Nat) : Nat := {fmt}
/-- `String_Rem`: byte count of the memmove; `ls` = strlen(self), `lp` = strlen(pos), `lo` = strlen(c_str(obj)) -/
def remCount (ls lp lo : Nat) : Nat := {rem}

def params : Cello.Str.Params :=
  {{ newEmptySize := newEmptySize, assignSize := assignSize, clearSize := clearSize, concatSize := concatSize,
     resizeSize := resizeSize, formatSize := formatSize, remCount := remCount }}

/-- libc calls / terminator stores of each modelled function, in source order (whitespace removed) -/
def shape : List (String × List String) := {shape_lean(shape)}

/-- the shape Cello/Str.lean was written against -/
def shapeModelled : List (String × List String) := {shape_lean(SHAPE_MODELLED)}

end CelloGen.Str
"""

GENERATORS = {'Str': gen_str}
