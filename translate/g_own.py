"""Link (A) for C05 (engine own): the *ownership profile* of the container sources.

For every function of Array.c / List.c / Table.c / Tree.c / Pointer.c that constructs, finalises or moves elements,
the ordered list of ownership-relevant calls in its body (destruct, assign, byte moves, allocation, throw, the type
checks `cast(<arg>)`, and the container-internal helpers).  The Lean model Cello/Own.lean was written against exactly
these sequences (`CelloProofs/Props/C05.lean: C05_source_profile`): removing a `destruct`, adding an `assign`, or moving
the bounds check of a push behind the construction changes the generated definition and the theorem stops checking.

`typeChecks`: for every function that receives an element / key / value from the caller, WHERE its type check stands
relative to the first thing the function does to memory: the arguments `cast` before the first effect, the first
effect (an allocation, assign, destruct, byte move, container-internal helper, or an update of `nitems`), and the
arguments cast only after it.  The model's type-refused calls (`Op.typed`) are inert exactly where the casts come
first (Table_Set_Move, Tree_Set, Table_Rem, Tree_Rem: `C05_type_check_first_*`) and mirror what is left behind where
the container makes room before the element's own check runs (Array_Push, …: `C05_type_check_late_array_list`).

`unmodelledCallees`: calls from these functions to other functions of the same source file that are neither in the
profile vocabulary nor pure accessors — a refactor that moves allocation / assignment into a new helper shows up here
(`C05_no_unmodelled_helpers`) instead of silently dropping out of the profile.
"""
import re
from ctext import *
from gen import HEADER, lean_str, lean_list

# calls that matter for ownership; everything else (len, c_int, cast, hash, eq, print_to, ...) is ignored
WORDS = ['cast', 'destruct', 'assign', 'memcpy', 'memmove', 'memset', 'swap', 'free', 'realloc', 'calloc', 'malloc', 'throw', 'del',
         'Array_Alloc', 'Array_Clear', 'Array_Push', 'Array_Pop_At', 'Array_Reserve_More', 'Array_Reserve_Less',
         'Array_Sort_Partition', 'Array_Sort_Part',
         'List_Alloc', 'List_Free', 'List_Push', 'List_Unlink', 'List_Link', 'List_At', 'List_Clear',
         'Table_Set_Move', 'Table_Rehash', 'Table_Clear', 'Table_Resize_More', 'Table_Resize_Less',
         'Tree_Alloc', 'Tree_Set', 'Tree_Clear', 'Tree_Clear_Entry', 'Tree_Replace', 'Tree_Rem_Fix', 'Tree_Set_Fix',
         'Box_Ref', 'Box_Deref', 'Box_Assign']

FUNCS = {
    'Array.c': ['Array_Alloc', 'Array_New', 'Array_Del', 'Array_Clear', 'Array_Assign', 'Array_Reserve_More', 'Array_Concat',
                'Array_Reserve_Less', 'Array_Pop_At', 'Array_Rem', 'Array_Push', 'Array_Push_At', 'Array_Pop', 'Array_Set',
                'Array_Sort_Partition', 'Array_Resize'],
    'List.c': ['List_Alloc', 'List_New', 'List_Clear', 'List_Del', 'List_Assign', 'List_Concat', 'List_Pop_At', 'List_Rem',
               'List_Push', 'List_Push_At', 'List_Pop', 'List_Set', 'List_Resize'],
    'Table.c': ['Table_New', 'Table_Del', 'Table_Clear', 'Table_Assign', 'Table_Set_Move', 'Table_Rehash', 'Table_Rem',
                'Table_Set', 'Table_Resize'],
    'Tree.c': ['Tree_Alloc', 'Tree_New', 'Tree_Clear_Entry', 'Tree_Clear', 'Tree_Del', 'Tree_Assign', 'Tree_Set', 'Tree_Rem',
               'Tree_Resize'],
    'Pointer.c': ['Box_New', 'Box_Del', 'Box_Assign'],
}

CALL = re.compile(r'\b(' + '|'.join(sorted(WORDS, key=len, reverse=True)) + r')\s*\(')

# pure accessors / link-and-colour helpers of the container sources: they construct, finalise and move no element
ACCESSORS = {'Array_Get', 'Array_Item', 'Array_Size_Round', 'Array_Step', 'List_Next', 'List_Prev',
             'Table_Ideal_Size', 'Table_Key', 'Table_Key_Hash', 'Table_Probe', 'Table_Size_Round', 'Table_Step',
             'Table_Swapspace_Key', 'Table_Swapspace_Val', 'Table_Swapspace_Hash', 'Table_Val',
             'Tree_Get_Color', 'Tree_Get_Parent', 'Tree_Is_Black', 'Tree_Is_Red', 'Tree_Key', 'Tree_Left', 'Tree_Maximum',
             'Tree_Right', 'Tree_Set_Black', 'Tree_Set_Color', 'Tree_Set_Parent', 'Tree_Set_Red', 'Tree_Val',
             'Box_Ref', 'Box_Deref'}
LOCAL_CALL = re.compile(r'\b((?:Array|List|Table|Tree|Box)_\w+)\s*\(')

# functions that receive an element / key / value (or constructor arguments) from the caller
TYPECHECKED = {
    'Array.c': ['Array_New', 'Array_Concat', 'Array_Rem', 'Array_Push', 'Array_Push_At', 'Array_Set'],
    'List.c': ['List_New', 'List_Concat', 'List_Rem', 'List_Push', 'List_Push_At', 'List_Set'],
    'Table.c': ['Table_New', 'Table_Set_Move', 'Table_Rem', 'Table_Set'],
    'Tree.c': ['Tree_New', 'Tree_Set', 'Tree_Rem'],
}
# `x->nitems++`, `x->nitems += n`, `x->nitems = n`, `x->nitems--`: the container's element count changes
NITEMS = re.compile(r'->\s*nitems\s*(\+\+|--|\+=|-=|=(?!=))')

def cast_arg(body, at):
    """first argument of the `cast(` call whose name starts at `at`, whitespace removed"""
    i = body.index('(', at)
    e = balanced(body, i)
    parts = split_top(body[i + 1:e - 1])
    if len(parts) != 2: raise ExtractError('cast( with ' + str(len(parts)) + ' arguments')
    return re.sub(r'\s+', '', parts[0])

# `if (self is obj) { return; }` at the head of a *_Assign (fix a3140e4): assign(x, x) must not reach the Clear
SELF_GUARD = re.compile(r'\bif\s*\(\s*self\s+is\s+obj\s*\)\s*\{?\s*return\s*;')

def profile_of(body, self_name):
    calls = []
    for m in CALL.finditer(body):
        w = m.group(1)
        if w == 'cast': w = 'cast(' + cast_arg(body, m.start()) + ')'
        calls.append((m.start(), w))
    g = SELF_GUARD.search(body)
    if g: calls.append((g.start(), 'return_if_self_is_obj'))
    return [w for _, w in sorted(calls)]

def type_check_of(body):
    """(arguments cast before the first effect, first effect, arguments cast after it)"""
    ev = []
    for m in CALL.finditer(body):
        w = m.group(1)
        if w == 'throw': continue
        ev.append((m.start(), ('cast', cast_arg(body, m.start())) if w == 'cast' else ('effect', w)))
    for m in NITEMS.finditer(body): ev.append((m.start(), ('effect', 'nitems' + m.group(1))))
    ev = [e for _, e in sorted(ev)]
    k = next((i for i, e in enumerate(ev) if e[0] == 'effect'), len(ev))
    upfront = [a for t, a in ev[:k]]
    first = ev[k][1] if k < len(ev) else ''
    late = [a for t, a in ev[k:] if t == 'cast']
    return upfront, first, late

# the generic entry points the containers reach their elements through (src/Alloc.c, src/Assign.c): which instance they
# consult and what they fall back to
GENERIC = {'Alloc.c': ['destruct', 'construct_with', 'copy'], 'Assign.c': ['assign']}
GEN_CALL = re.compile(r'\binstance\s*\(\s*self\s*,\s*(\w+)\s*\)|\b\w+\s*->\s*(destruct|construct_with|copy|assign)\s*\(|\b(alloc|assign|memcpy|throw|dealloc|free)\s*\(')

def generic_of(body):
    out = []
    for m in GEN_CALL.finditer(body):
        if m.group(1): out.append('instance(' + m.group(1) + ')')
        elif m.group(2): out.append('->' + m.group(2))
        else: out.append(m.group(3))
    return out

def gen_own(repo):
    rows = []
    generic = []
    for fname, funcs in GENERIC.items():
        gsrc = strip_comments(read(f'{repo}/src/{fname}'))
        for f in funcs: generic.append((f, generic_of(func_body(gsrc, f))))
    copyswap = []
    for fname, funcs in FUNCS.items():
        src = read(f'{repo}/src/{fname}')
        for f in funcs:
            body = func_body(src, f)        # raises ExtractError when the function is gone
            rows.append((f, profile_of(body, f)))
    # which classes the container types register (the harness relies on Push/Concat/Get/Resize/Sort/Assign/New)
    insts = []
    for fname, tname in (('Array.c', 'Array'), ('List.c', 'List'), ('Table.c', 'Table'), ('Tree.c', 'Tree'), ('Pointer.c', 'Box')):
        src = read(f'{repo}/src/{fname}')
        m = re.search(r'\bvar\s+' + tname + r'\s*=\s*Cello\s*\(', src)
        if not m: raise ExtractError(f'var {tname} = Cello(...) not found')
        end = balanced(src, m.end() - 1)
        text = src[m.end():end - 1]
        for im in re.finditer(r'Instance\s*\(', text):
            e = balanced(text, im.end() - 1)
            parts = split_top(text[im.end():e - 1])
            if parts and parts[0] in ('New', 'Assign', 'Push', 'Concat', 'Get', 'Resize', 'Sort'):
                insts.append((tname, parts[0], parts[1:]))
            if parts and parts[0] in ('Copy', 'Swap'): copyswap.append((tname, parts[0]))
    checks, unknown = [], []
    for fname, funcs in FUNCS.items():
        src = read(f'{repo}/src/{fname}')
        for f in funcs:
            b = func_body(src, f)
            if f in TYPECHECKED.get(fname, []): checks.append((f,) + type_check_of(b))
            extra = []
            for m in LOCAL_CALL.finditer(b):
                n = m.group(1)
                if n not in WORDS and n not in ACCESSORS and n not in extra: extra.append(n)
            if extra: unknown.append((f, extra))
    for fname, funcs in TYPECHECKED.items():
        for f in funcs:
            if f not in FUNCS[fname]: raise ExtractError(f'{f} is type-checked but not profiled')
    cbody = ',\n  '.join(f'({lean_str(f)}, {lean_list([lean_str(a) for a in up])}, {lean_str(first)}, {lean_list([lean_str(a) for a in late])})'
                         for f, up, first, late in checks)
    ubody = ', '.join(f'({lean_str(f)}, {lean_list([lean_str(x) for x in xs])})' for f, xs in unknown)
    body = ',\n  '.join(f'({lean_str(f)}, {lean_list([lean_str(c) for c in calls])})' for f, calls in rows)
    gbody = ',\n  '.join(f'({lean_str(f)}, {lean_list([lean_str(c) for c in calls])})' for f, calls in generic)
    csbody = ', '.join(f'({lean_str(t)}, {lean_str(c)})' for t, c in copyswap)
    ibody = ',\n  '.join(f'({lean_str(t)}, {lean_str(c)}, {lean_list([lean_str(x) for x in fs])})' for t, c, fs in insts)
    return HEADER + f"""namespace CelloGen.Own

/-- for each element-handling function of the container sources: the ownership-relevant calls in its body, in
    textual order (destruct / assign / byte moves / allocation / throw / container-internal helpers) -/
def profile : List (String × List String) := [
  {body}]

/-- for each function that receives an element / key / value (or constructor arguments) from the caller:
    (function, arguments `cast` before the first effect, the first effect — allocation / assign / destruct / byte move /
    container-internal helper / update of `nitems`; "" = none —, arguments `cast` only after it) -/
def typeChecks : List (String × List String × String × List String) := [
  {cbody}]

/-- calls to functions of the same source file that are neither in the profile vocabulary nor pure accessors -/
def unmodelledCallees : List (String × List String) := [{ubody}]

/-- the New / Assign / Push / Concat / Get / Resize / Sort instances the container types register -/
def instances : List (String × String × List String) := [
  {ibody}]

/-- the generic entry points of src/Alloc.c / src/Assign.c through which containers reach their elements: the instance
    consulted, the call through it, and the fallback, in textual order -/
def generic : List (String × List String) := [
  {gbody}]

/-- container types (Array, List, Table, Tree, Box) that register their own Copy or Swap instance -/
def copySwapInstances : List (String × String) := [{csbody}]

end CelloGen.Own
"""

GENERATORS = {'Own': gen_own}
