"""Link (A) for C05 (engine own): the *ownership profile* of the container sources.

For every function of Array.c / List.c / Table.c / Tree.c / Pointer.c that constructs, finalises or moves elements,
the ordered list of ownership-relevant calls in its body (destruct, assign, byte moves, allocation, throw, and the
container-internal helpers).  The Lean model Cello/Own.lean was written against exactly these sequences
(`CelloProofs/Props/C05.lean: C05_source_profile`): removing a `destruct`, adding an `assign`, or moving the bounds
check of a push behind the construction changes the generated definition and the theorem stops checking.
"""
import re
from ctext import *
from gen import HEADER, lean_str, lean_list

# calls that matter for ownership; everything else (len, c_int, cast, hash, eq, print_to, ...) is ignored
WORDS = ['destruct', 'assign', 'memcpy', 'memmove', 'memset', 'swap', 'free', 'realloc', 'calloc', 'malloc', 'throw', 'del',
         'Array_Alloc', 'Array_Clear', 'Array_Push', 'Array_Pop_At', 'Array_Reserve_More', 'Array_Reserve_Less',
         'Array_Sort_Partition', 'Array_Sort_Part',
         'List_Alloc', 'List_Free', 'List_Push', 'List_Unlink', 'List_Link', 'List_At', 'List_Clear',
         'Table_Set_Move', 'Table_Rehash', 'Table_Clear', 'Table_Resize_More', 'Table_Resize_Less',
         'Tree_Alloc', 'Tree_Set', 'Tree_Clear', 'Tree_Clear_Entry', 'Tree_Replace', 'Tree_Rem_Fix', 'Tree_Set_Fix',
         'Box_Ref', 'Box_Deref', 'Box_Assign']

FUNCS = {
    'Array.c': ['Array_Alloc', 'Array_New', 'Array_Del', 'Array_Clear', 'Array_Assign', 'Array_Reserve_More', 'Array_Concat',
                'Array_Reserve_Less', 'Array_Pop_At', 'Array_Rem', 'Array_Push', 'Array_Push_At', 'Array_Pop', 'Array_Set',
                'Array_Sort_Partition', 'Array_Resize'],
    'List.c': ['List_Alloc', 'List_New', 'List_Clear', 'List_Del', 'List_Assign', 'List_Concat', 'List_Pop_At', 'List_Rem',
               'List_Push', 'List_Push_At', 'List_Pop', 'List_Set', 'List_Resize'],
    'Table.c': ['Table_New', 'Table_Del', 'Table_Clear', 'Table_Assign', 'Table_Set_Move', 'Table_Rehash', 'Table_Rem',
                'Table_Set', 'Table_Resize'],
    'Tree.c': ['Tree_Alloc', 'Tree_New', 'Tree_Clear_Entry', 'Tree_Clear', 'Tree_Del', 'Tree_Assign', 'Tree_Set', 'Tree_Rem',
               'Tree_Resize'],
    'Pointer.c': ['Box_New', 'Box_Del', 'Box_Assign'],
}

CALL = re.compile(r'\b(' + '|'.join(sorted(WORDS, key=len, reverse=True)) + r')\s*\(')

# `if (self is obj) { return; }` at the head of a *_Assign (fix a3140e4): assign(x, x) must not reach the Clear
SELF_GUARD = re.compile(r'\bif\s*\(\s*self\s+is\s+obj\s*\)\s*\{?\s*return\s*;')

def profile_of(body, self_name):
    calls = [(m.start(), m.group(1)) for m in CALL.finditer(body)]
    g = SELF_GUARD.search(body)
    if g: calls.append((g.start(), 'return_if_self_is_obj'))
    return [w for _, w in sorted(calls)]

def gen_own(repo):
    rows = []
    for fname, funcs in FUNCS.items():
        src = read(f'{repo}/src/{fname}')
        for f in funcs:
            body = func_body(src, f)        # raises ExtractError when the function is gone
            rows.append((f, profile_of(body, f)))
    # which classes the container types register (the harness relies on Push/Concat/Get/Resize/Sort/Assign/New)
    insts = []
    for fname, tname in (('Array.c', 'Array'), ('List.c', 'List'), ('Table.c', 'Table'), ('Tree.c', 'Tree'), ('Pointer.c', 'Box')):
        src = read(f'{repo}/src/{fname}')
        m = re.search(r'\bvar\s+' + tname + r'\s*=\s*Cello\s*\(', src)
        if not m: raise ExtractError(f'var {tname} = Cello(...) not found')
        end = balanced(src, m.end() - 1)
        text = src[m.end():end - 1]
        for im in re.finditer(r'Instance\s*\(', text):
            e = balanced(text, im.end() - 1)
            parts = split_top(text[im.end():e - 1])
            if parts and parts[0] in ('New', 'Assign', 'Push', 'Concat', 'Get', 'Resize', 'Sort'):
                insts.append((tname, parts[0], parts[1:]))
    body = ',\n  '.join(f'({lean_str(f)}, {lean_list([lean_str(c) for c in calls])})' for f, calls in rows)
    ibody = ',\n  '.join(f'({lean_str(t)}, {lean_str(c)}, {lean_list([lean_str(x) for x in fs])})' for t, c, fs in insts)
    return HEADER + f"""namespace CelloGen.Own

/-- for each element-handling function of the container sources: the ownership-relevant calls in its body, in
    textual order (destruct / assign / byte moves / allocation / throw / container-internal helpers) -/
def profile : List (String × List String) := [
  {body}]

/-- the New / Assign / Push / Concat / Get / Resize / Sort instances the container types register -/
def instances : List (String × String × List String) := [
  {ibody}]

end CelloGen.Own
"""

GENERATORS = {'Own': gen_own}
