-- SEED (design-phase prototype; compiled with core Lean 4.33): comparison drivers used (lake env lean --run X.lean trace.txt)
-- RBCheck.lean
import Proto.RB
open RB
def main (args : List String) : IO UInt32 := do
  let lines ← IO.FS.lines args.head!
  let mut t : T := .nil
  let mut i := 0
  let mut bad := 0
  let mut ops := 0
  while i < lines.size do
    let l := lines[i]!
    match l.splitOn " " with
    | ["new"] => t := .nil; i := i + 1
    | ["set", k, v] =>
      match set 100000 t [] k.toInt! v.toInt! with
      | some t' => t := t'
      | none => IO.println s!"model UB at line {i}"; bad := bad + 1
      ops := ops + 1
      if dump t != lines[i+1]! then
        if bad < 5 then IO.println s!"MISMATCH line {i}: {l}\n model {dump t}\n impl  {lines[i+1]!}"
        bad := bad + 1
      i := i + 2
    | ["rem", k] =>
      match rem 100000 t [] k.toInt! with
      | some t' => t := t'
      | none => IO.println s!"model UB at line {i}"; bad := bad + 1
      ops := ops + 1
      if dump t != lines[i+1]! then
        if bad < 5 then IO.println s!"MISMATCH line {i}: {l}\n model {dump t}\n impl  {lines[i+1]!}"
        bad := bad + 1
      i := i + 2
    | _ => IO.println s!"bad line {l}"; i := i + 1
  IO.println s!"ops {ops} mismatches {bad}"
  return 0
-- TbCheck.lean (arg2 = ge|gt)
import Proto.Tbl
open Tbl
def main (args : List String) : IO UInt32 := do
  let lines ← IO.FS.lines args.head!
  let ge := args[1]! == "ge"
  let mut t : Tab := { slots := #[], nitems := 0 }
  let mut i := 0
  let mut bad := 0
  let mut ops := 0
  let mut dups := 0
  while i < lines.size do
    let l := lines[i]!
    let r : Option Tab := match l.splitOn " " with
      | ["new"] => some { slots := Array.replicate (idealSize 0) none, nitems := 0 }
      | ["set", k, v] => set ge t k.toInt! v.toInt!
      | ["rem", k] => rem ge t k.toInt!
      | _ => none
    match r with
    | some t' => t := t'
    | none => IO.println s!"model failed at line {i}: {l}"; bad := bad + 1
    ops := ops + 1
    if dump t != lines[i+1]! then
      if bad < 4 then IO.println s!"MISMATCH line {i}: {l}\n model {dump t}\n impl  {lines[i+1]!}"
      bad := bad + 1
    let keys := t.slots.toList.filterMap (·.map (·.key))
    if keys.eraseDups.length != keys.length then dups := dups + 1
    i := i + 2
  IO.println s!"ops {ops} mismatches {bad} states-with-duplicate-keys {dups}"
  return 0
