-- SEED (design-phase prototype; compiled with core Lean 4.33): Proto/Mark.lean (C01)
/- calibration: worklist marking is complete w.r.t. reachability -/
namespace Mark

abbrev Addr := Nat

def notIn (m : List Addr) : Addr → Bool := fun a => !m.contains a
def unm (regs m : List Addr) : Nat := regs.countP (notIn m)

theorem unm_le (regs m : List Addr) (a : Addr) : unm regs (a :: m) ≤ unm regs m := by
  unfold unm
  apply List.countP_mono_left
  intro x _ hx
  simp only [notIn, List.contains_cons, Bool.not_or, Bool.and_eq_true] at hx
  simpa [notIn] using hx.2

theorem unm_lt (regs m : List Addr) (a : Addr) (ha : a ∈ regs) (hm : a ∉ m) : unm regs (a :: m) < unm regs m := by
  induction regs with
  | nil => cases ha
  | cons x xs ih =>
    have hle := unm_le xs m a
    unfold unm at *
    by_cases h1 : x = a
    · subst h1
      have p1 : ¬ (notIn (x :: m) x = true) := by simp [notIn]
      have p2 : notIn m x = true := by simp [notIn, hm]
      rw [List.countP_cons_of_neg p1, List.countP_cons_of_pos p2]; omega
    · have hx : a ∈ xs := by
        cases ha with
        | head => exact absurd rfl h1
        | tail _ h => exact h
      have := ih hx
      by_cases h2 : x ∈ m
      · have p1 : ¬ (notIn (a :: m) x = true) := by simp [notIn, h2]
        have p2 : ¬ (notIn m x = true) := by simp [notIn, h2]
        rw [List.countP_cons_of_neg p1, List.countP_cons_of_neg p2]; exact this
      · have p1 : notIn (a :: m) x = true := by simp [notIn, h1, h2]
        have p2 : notIn m x = true := by simp [notIn, h2]
        rw [List.countP_cons_of_pos p1, List.countP_cons_of_pos p2]; omega

structure Heap where
  regs   : List Addr            -- registered addresses (the registry's key set)
  fields : Addr → List Addr     -- words the marker presents to GC_Mark_Item when it recurses into an object

/-- GC_Mark_Item / GC_Recurse as a worklist: `stack` = words still to be presented, `m` = marked entries -/
def dfs (h : Heap) (stack m : List Addr) : List Addr :=
  match stack with
  | [] => m
  | w :: st =>
    if hw : w ∈ h.regs ∧ w ∉ m then dfs h (h.fields w ++ st) (w :: m)
    else dfs h st m
termination_by (unm h.regs m, stack.length)
decreasing_by
  · exact Prod.Lex.left _ _ (unm_lt _ _ _ hw.1 hw.2)
  · exact Prod.Lex.right _ (by simp)

inductive Reach (h : Heap) (roots : List Addr) : Addr → Prop
  | root {a} : a ∈ roots → a ∈ h.regs → Reach h roots a
  | step {a b} : Reach h roots a → b ∈ h.fields a → b ∈ h.regs → Reach h roots b

/-- invariant: marked ⊆ regs-closed-or-on-stack -/
def Closed (h : Heap) (stack m : List Addr) : Prop :=
  ∀ a ∈ m, ∀ b ∈ h.fields a, b ∈ h.regs → b ∈ m ∨ b ∈ stack

theorem dfs_spec (h : Heap) : ∀ (stack m : List Addr), Closed h stack m →
    (m ⊆ dfs h stack m) ∧ (∀ w ∈ stack, w ∈ h.regs → w ∈ dfs h stack m) ∧ Closed h [] (dfs h stack m) := by
  intro stack m
  induction stack, m using dfs.induct h with
  | case1 m => intro hc; unfold dfs; exact ⟨fun _ h => h, by simp, hc⟩
  | case2 m w st hw ih =>
    intro hc
    unfold dfs; simp only [hw, dite_true]
    have hc' : Closed h (h.fields w ++ st) (w :: m) := by
      intro a ha b hb hbr
      cases ha with
      | head => right; exact List.mem_append_left _ hb
      | tail _ ha =>
        rcases hc a ha b hb hbr with h1 | h1
        · left; exact List.mem_cons_of_mem _ h1
        · cases h1 with
          | head => left; exact List.mem_cons_self
          | tail _ h1 => right; exact List.mem_append_right _ h1
    obtain ⟨h1, h2, h3⟩ := ih hc'
    refine ⟨fun a ha => h1 (List.mem_cons_of_mem _ ha), ?_, h3⟩
    intro x hx hxr
    cases hx with
    | head => exact h1 List.mem_cons_self
    | tail _ hx => exact h2 x (List.mem_append_right _ hx) hxr
  | case3 m w st hw ih =>
    intro hc
    unfold dfs; simp only [hw, dite_false]
    have hc' : Closed h st m := by
      intro a ha b hb hbr
      rcases hc a ha b hb hbr with h1 | h1
      · left; exact h1
      · rcases List.mem_cons.mp h1 with heq | h1
        · left
          by_cases hm : b ∈ m
          · exact hm
          · exact absurd ⟨heq ▸ hbr, heq ▸ hm⟩ hw
        · right; exact h1
    obtain ⟨h1, h2, h3⟩ := ih hc'
    refine ⟨h1, ?_, h3⟩
    intro x hx hxr
    rcases List.mem_cons.mp hx with heq | hx
    · by_cases hm : x ∈ m
      · exact h1 hm
      · exact absurd ⟨heq ▸ hxr, heq ▸ hm⟩ hw
    · exact h2 x hx hxr

/-- C01 core: everything registered and reachable from the root words is marked -/
theorem mark_complete (h : Heap) (roots : List Addr) (a : Addr) (hr : Reach h roots a) :
    a ∈ dfs h roots [] := by
  have hc0 : Closed h roots [] := by intro a ha; cases ha
  obtain ⟨_, h2, h3⟩ := dfs_spec h roots [] hc0
  induction hr with
  | root hroot hreg => exact h2 _ hroot hreg
  | step _ hb hbr ih =>
    rcases h3 _ ih _ hb hbr with h | h
    · exact h
    · cases h

#print axioms mark_complete
end Mark
