-- SEED (design-phase prototype; compiled with core Lean 4.33): Proto/RB.lean (C03) — functional zipper mirror of Tree.c; VALIDATED: identical shape+colour dumps vs real Tree.c on 151,262 random set/rem ops (preorder dump "(Bk l r)" / "." for NULL; descending order: nodeKey < key → left)
/- calibration: functional zipper mirror of Tree.c (shape-identical?) -/
namespace RB

inductive Color | R | B deriving DecidableEq, Repr
open Color

inductive T where
  | nil
  | node (c : Color) (l : T) (k v : Int) (r : T)
deriving Repr

inductive Dir | L | Rt deriving DecidableEq, Repr

/-- parent frame: the focus hangs on side `dir` of a node (c,k,v) whose other subtree is `sib` -/
structure Frame where
  dir : Dir
  c : Color
  k : Int
  v : Int
  sib : T
deriving Repr

abbrev Path := List Frame

def mk (f : Frame) (t : T) : T :=
  match f.dir with
  | .L => .node f.c t f.k f.v f.sib
  | .Rt => .node f.c f.sib f.k f.v t

def plug (t : T) : Path → T
  | [] => t
  | f :: p => plug (mk f t) p

def color : T → Color
  | .nil => B
  | .node c .. => c

def setColor (c : Color) : T → T
  | .nil => .nil
  | .node _ l k v r => .node c l k v r

/-- Tree_Set_Fix: `t` is the subtree rooted at `node` (red), `p` its path. Returns whole tree; none = UB -/
def setFix : (fuel : Nat) → T → Path → Option T
  | 0, _, _ => none
  | _+1, t, [] => some (setColor B t)                       -- case 1: root
  | fuel+1, t, f :: rest =>
    if f.c = B then some (plug t (f :: rest))               -- case 2: parent black
    else match rest with
      | [] => none                                          -- red parent without grandparent: UB (NULL deref)
      | g :: up =>
        if color g.sib = R then                             -- case 3: red uncle
          let parent := mk { f with c := B } t
          let gp := mk { g with c := R, sib := setColor B g.sib } parent
          setFix fuel gp up
        else
          -- cases 4/5: rotations; uncle black (or NULL)
          match g.dir, f.dir, t with
          | .L, .L, n =>   -- parent is left of gp, node is left of parent
            -- rotate right at gp: parent becomes root (black), gp red
            some (plug (.node B n f.k f.v (.node R f.sib g.k g.v g.sib)) up)
          | .L, .Rt, .node _ a nk nv b =>  -- node is right child of parent (which is left child of gp)
            some (plug (.node B (.node f.c f.sib f.k f.v a) nk nv (.node R b g.k g.v g.sib)) up)
          | .Rt, .Rt, n =>
            some (plug (.node B (.node R g.sib g.k g.v f.sib) f.k f.v n) up)
          | .Rt, .L, .node _ a nk nv b =>
            some (plug (.node B (.node R g.sib g.k g.v a) nk nv (.node f.c b f.k f.v f.sib)) up)
          | _, _, .nil => none

/-- descent of Tree_Set: cmp(nodeKey, key) < 0 → left -/
def set : (fuel : Nat) → T → Path → Int → Int → Option T
  | 0, _, _, _, _ => none
  | fuel+1, .nil, p, k, v => setFix (fuel+1) (.node R .nil k v .nil) p
  | fuel+1, .node c l nk nv r, p, k, v =>
    if nk = k then some (plug (.node c l k v r) p)
    else if nk < k then set fuel l ({ dir := .L, c := c, k := nk, v := nv, sib := r } :: p) k v
    else set fuel r ({ dir := .Rt, c := c, k := nk, v := nv, sib := l } :: p) k v

def left? : T → T | .nil => .nil | .node _ l _ _ _ => l
def right? : T → T | .nil => .nil | .node _ _ _ _ r => r

/-- Tree_Rem_Fix on the path of the deficient node; returns the new path of the same node; none = UB -/
def remFix : (fuel : Nat) → Path → Option Path
  | 0, _ => none
  | _+1, [] => some []
  | fuel+1, f :: rest =>
    -- case 2: sibling red
    let (f, rest) : Frame × Path :=
      if color f.sib = R then
        match f.sib, f.dir with
        | .node _ sl sk sv sr, .L =>   -- node is left child; rotate left at parent
          ({ f with c := R, sib := sl }, { dir := .L, c := B, k := sk, v := sv, sib := sr } :: rest)
        | .node _ sl sk sv sr, .Rt =>  -- node is right child; rotate right at parent
          ({ f with c := R, sib := sr }, { dir := .Rt, c := B, k := sk, v := sv, sib := sl } :: rest)
        | .nil, _ => (f, rest)
      else (f, rest)
    match f.sib with
    | .nil => none          -- NULL sibling dereferenced
    | .node sc sl sk sv sr =>
      if f.c = B ∧ sc = B ∧ color sl = B ∧ color sr = B then
        -- case 3
        match remFix fuel rest with
        | none => none
        | some rest' => some ({ f with sib := .node R sl sk sv sr } :: rest')
      else if f.c = R ∧ sc = B ∧ color sl = B ∧ color sr = B then
        -- case 4
        some ({ f with c := B, sib := .node R sl sk sv sr } :: rest)
      else
        -- case 5
        let s : Option T :=
          if sc = B then
            if f.dir = .L ∧ color sl = R ∧ color sr = B then
              match sl with
              | .node _ a k2 v2 b => some (.node B a k2 v2 (.node R b sk sv sr))   -- rotate right at sibling
              | .nil => none
            else if f.dir = .Rt ∧ color sr = R ∧ color sl = B then
              match sr with
              | .node _ a k2 v2 b => some (.node B (.node R sl sk sv a) k2 v2 b)   -- rotate left at sibling
              | .nil => none
            else some (.node sc sl sk sv sr)
          else some (.node sc sl sk sv sr)
        match s with
        | none => none
        | some .nil => none
        | some (.node _ sl sk sv sr) =>
          -- case 6: sibling takes parent's colour, parent black, far nephew black, rotate at parent
          match f.dir with
          | .L =>
            if sr matches .nil then none  -- Tree_Set_Black(NULL) → Tree_Get_Parent(NULL) deref
            else some ({ f with c := B, sib := sl } :: { dir := .L, c := f.c, k := sk, v := sv, sib := setColor B sr } :: rest)
          | .Rt =>
            if sl matches .nil then none
            else some ({ f with c := B, sib := sr } :: { dir := .Rt, c := f.c, k := sk, v := sv, sib := setColor B sl } :: rest)

/-- path to the maximum (rightmost) node of `t`, returns (that node, path) -/
def maxPath : T → Path → Option (T × Path)
  | .nil, _ => none
  | .node c l k v .nil, p => some (.node c l k v .nil, p)
  | .node c l k v r, p => maxPath r ({ dir := .Rt, c := c, k := k, v := v, sib := l } :: p)

def spliceOut (fuel : Nat) (node : T) (p : Path) : Option T :=
  match node with
  | .nil => none
  | .node c l _ _ r =>
    let chld := match r with | .nil => l | _ => r
    let p' : Option Path := if c = B then remFix fuel p else some p
    match p' with
    | none => none
    | some [] => some (setColor B chld)      -- node was root: child becomes black root
    | some p' => some (plug chld p')

def rem : (fuel : Nat) → T → Path → Int → Option T
  | 0, _, _, _ => none
  | _+1, .nil, _, _ => none   -- KeyError (not modelled here)
  | fuel+1, .node c l nk nv r, p, k =>
    if nk = k then
      match l, r with
      | .node .., .node .. =>
        -- two children: predecessor = max of left; copy its key/val here, delete it there
        match maxPath l [] with
        | none => none
        | some (.node pc pl pk pv pr, pp) =>
          -- path of pred relative to whole tree: pp (inside l) ++ [frame for going left from this node with new key] ++ p
          let here : Frame := { dir := .L, c := c, k := pk, v := pv, sib := r }
          spliceOut (fuel+1) (.node pc pl pk pv pr) (pp ++ here :: p)
        | some (.nil, _) => none
      | _, _ => spliceOut (fuel+1) (.node c l nk nv r) p
    else if nk < k then rem fuel l ({ dir := .L, c := c, k := nk, v := nv, sib := r } :: p) k
    else rem fuel r ({ dir := .Rt, c := c, k := nk, v := nv, sib := l } :: p) k

def dump : T → String
  | .nil => "."
  | .node c l k _ r => "(" ++ (if c = R then "R" else "B") ++ toString k ++ " " ++ dump l ++ " " ++ dump r ++ ")"

end RB
