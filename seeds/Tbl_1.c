static void dumpt(struct Table* t) {
  printf("%zu %zu |", t->nslots, t->nitems);
  for (size_t i = 0; i < t->nslots; i++) { uint64_t h = Table_Key_Hash(t, i); if (h) printf(" %zu:%lu:%ld:%ld", i, (unsigned long)h, (long)c_int(Table_Key(t,i)), (long)c_int(Table_Val(t,i))); }
  printf("\n");
}
int main(int argc, char** argv) {
