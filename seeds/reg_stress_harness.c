#include "unity.c"
#include <sys/mman.h>
struct Probe { int64_t id; };
#define ARENA_BASE ((char*)0x200000000000ULL)
#define STRIDE 64
#define NSLOT 4096
static char* arena; static int want_slot = 0; static int ndealloc = 0; static int last_dealloc = -1;
static int live[NSLOT]; /* 1 = registered expected */
static int dealloc_seen[NSLOT];
static var Probe_Alloc(void); static void Probe_Dealloc(var self);
var Probe = Cello(Probe, Instance(Alloc, Probe_Alloc, Probe_Dealloc));
static var addr_of(int k) { return arena + (size_t)k * STRIDE + sizeof(struct Header); }
static var Probe_Alloc(void) { char* p = arena + (size_t)want_slot * STRIDE; memset(p, 0, STRIDE); return header_init(p, Probe, AllocHeap); }
static void Probe_Dealloc(var self) { int k = (int)(((char*)self - sizeof(struct Header) - arena) / STRIDE); dealloc_seen[k]++; ndealloc++; }
static int fails = 0;
static void check(struct GC* gc, const char* what, int step) {
  size_t occ = 0; 
  for (size_t i = 0; i < gc->nslots; i++) {
    struct GCEntry* e = &gc->entries[i];
    if (e->hash == 0) continue;
    occ++;
    size_t home = GC_Hash(e->ptr) % gc->nslots;
    if (e->hash != home + 1) { printf("FAIL home %s step %d\n", what, step); fails++; }
    if (e->marked) { printf("FAIL mark left set %s step %d\n", what, step); fails++; }
    uint64_t d = GC_Probe(gc, i, e->hash);
    if (d > 0) { size_t pi = (i + gc->nslots - 1) % gc->nslots; struct GCEntry* pe = &gc->entries[pi];
      if (pe->hash == 0 || GC_Probe(gc, pi, pe->hash) + 1 < d) { printf("FAIL local inv %s step %d slot %zu\n", what, step, i); fails++; } }
    if ((uintptr_t)e->ptr < gc->minptr || (uintptr_t)e->ptr > gc->maxptr) { printf("FAIL bounds\n"); fails++; }
  }
  if (occ != gc->nitems) { printf("FAIL nitems %zu vs occ %zu %s step %d\n", gc->nitems, occ, what, step); fails++; }
  size_t exp = 0;
  for (int k = 0; k < NSLOT; k++) { int m = GC_Mem_Ptr(gc, addr_of(k)); if (m != live[k]) { printf("FAIL mem slot %d expected %d got %d %s step %d\n", k, live[k], m, what, step); fails++; } exp += live[k]; }
  if (gc->nitems != exp + 0 /* other registered objects accounted below */) { /* other objects: Probe type is static; none */ }
  if (gc->nslots != GC_Ideal_Size(gc->nitems) && strcmp(what,"alloc")!=0) { /* after del/sweep nslots is ideal or larger */ if (gc->nslots < GC_Ideal_Size(gc->nitems) && !(gc->nslots == 0 && gc->nitems == 0)) { printf("FAIL nslots small\n"); fails++; } }
}
int main(int argc, char** argv) {
  unsigned seed = atoi(argv[1]); srand(seed);
  arena = mmap(ARENA_BASE, (size_t)NSLOT*STRIDE, PROT_READ|PROT_WRITE, MAP_PRIVATE|MAP_ANONYMOUS|MAP_FIXED_NOREPLACE, -1, 0);
  if (arena != ARENA_BASE) { perror("mmap"); return 1; }
  struct GC* gc = current(GC);
  gc->mitems = 1000000; /* no threshold collections: we drive sweep ourselves */
  int cls = (int)(5*11*23); /* stride 64 => hash = addr>>3 = base/8 + k*8 + 3 ; choose k multiples to collide */
  for (int step = 0; step < 20000 && !fails; step++) {
    int r = rand() % 100;
    if (r < 55) {
      int k = (rand() % 3 == 0) ? rand() % NSLOT : ((rand() % (NSLOT / 55)) * 55) % NSLOT; /* many k ≡ 0 mod 55 -> collide mod 5 and 11 */
      if (live[k]) continue;
      want_slot = k; var p = (rand()%4==0) ? alloc_root(Probe) : alloc(Probe); if (p != addr_of(k)) { printf("addr mismatch\n"); return 1; }
      live[k] = 1; gc->mitems = 1000000; check(gc, "alloc", step);
    } else if (r < 80) {
      int k = rand() % NSLOT; if (!live[k]) continue;
      int before = dealloc_seen[k]; del(addr_of(k)); live[k] = 0; gc->mitems = 1000000;
      if (dealloc_seen[k] != before + 1) { printf("FAIL del did not dealloc once\n"); fails++; }
      check(gc, "del", step);
    } else {
      /* sweep with a chosen marked set */
      int expect_free[NSLOT]; int nf = 0;
      for (size_t i = 0; i < gc->nslots; i++) { struct GCEntry* e = &gc->entries[i]; if (!e->hash) continue; int keep = rand() % 2; int k = (int)(((char*)e->ptr - sizeof(struct Header) - arena) / STRIDE);
        if (keep) e->marked = true; else if (!e->root) { expect_free[nf++] = k; } }
      int before = ndealloc; GC_Sweep(gc); gc->mitems = 1000000;
      if (ndealloc - before != nf) { printf("FAIL sweep freed %d expected %d step %d\n", ndealloc - before, nf, step); fails++; }
      for (int a = 0; a < nf; a++) live[expect_free[a]] = 0;
      check(gc, "sweep", step);
    }
  }
  size_t maxslots = gc->nslots;
  printf("registry stress seed %u done fails=%d nitems=%zu nslots=%zu\n", seed, fails, gc->nitems, maxslots);
  /* leave objects for teardown */
  return 0;
}
