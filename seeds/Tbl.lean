-- SEED (design-phase prototype; compiled with core Lean 4.33): Proto/Tbl.lean (C02) — layout-exact mirror of Table.c for Int keys; VALIDATED: 0 mismatches vs real Table.c slot dumps on 51,747 set/rem ops with colliding keys (k*lcm(5,11,23,53,101)+cls); with ge:=true it reproduces the duplicate-key defect F02. Dump format: "nslots nitems | idx:storedhash:key:val ..."
/- calibration: layout-exact mirror of Table.c (Int keys: hash = value as uint64) -/
namespace Tbl

structure E where
  key : Int
  val : Int
  home : Nat
deriving Repr

structure Tab where
  slots : Array (Option E)
  nitems : Nat
deriving Repr

def primes : List Nat := [0,1,5,11,23,53,101,197,389,683,1259,2417,4733,9371,18617,37097,74093,148073,296099,592019,1100009,2200013,4400021,8800019]

def idealSize (n : Nat) : Nat :=
  let s := ((n+1) * 10) / 9
  match primes.find? (· ≥ s) with
  | some p => p
  | none => let last := 8800019; ((s + last - 1) / last) * last

def hashInt (k : Int) : Nat := (k % (2^64 : Int)).toNat   -- (uint64_t) of int64

def dist (n i home : Nat) : Nat := if home ≤ i then i - home else i + n - home
def next (n i : Nat) : Nat := if i + 1 = n then 0 else i + 1

/-- Table_Set_Move probing loop; `ge` = the `j >= p` of the unfixed code -/
def insertLoop (ge : Bool) : (fuel : Nat) → Array (Option E) → E → Nat → Nat → Option (Array (Option E) × Bool)
  | 0, _, _, _, _ => none
  | fuel+1, s, c, i, j =>
    match s[i]! with
    | none => some (s.set! i (some c), true)
    | some r =>
      if r.key = c.key then some (s.set! i (some c), false)
      else
        let p := dist s.size i r.home
        if (if ge then j ≥ p else j > p) then insertLoop ge fuel (s.set! i (some c)) r (next s.size i) (p+1)
        else insertLoop ge fuel s c (next s.size i) (j+1)

def setMove (ge : Bool) (t : Tab) (k v : Int) : Option Tab :=
  let n := t.slots.size
  if n = 0 then none else
  let home := hashInt k % n
  match insertLoop ge (n+1) t.slots { key := k, val := v, home := home } home 0 with
  | none => none
  | some (s, added) => some { slots := s, nitems := if added then t.nitems + 1 else t.nitems }

def rehash (ge : Bool) (t : Tab) (newSize : Nat) : Option Tab := do
  let mut nt : Tab := { slots := Array.replicate newSize none, nitems := 0 }
  for e in t.slots do
    match e with
    | none => pure ()
    | some e => nt ← setMove ge nt e.key e.val
  return nt

def set (ge : Bool) (t : Tab) (k v : Int) : Option Tab := do
  let t ← setMove ge t k v
  let ns := idealSize t.nitems
  if ns > t.slots.size then rehash ge t ns else pure t

def shiftBack : (fuel : Nat) → Array (Option E) → Nat → Array (Option E)
  | 0, s, _ => s
  | fuel+1, s, i =>
    let ni := next s.size i
    match s[ni]! with
    | some e => if dist s.size ni e.home > 0 then shiftBack fuel ((s.set! i (some e)).set! ni none) ni else s
    | none => s

def findLoop : (fuel : Nat) → Array (Option E) → Int → Nat → Nat → Option Nat
  | 0, _, _, _, _ => none
  | fuel+1, s, k, i, j =>
    match s[i]! with
    | none => none
    | some r => if j > dist s.size i r.home then none else if r.key = k then some i else findLoop fuel s k (next s.size i) (j+1)

def rem (ge : Bool) (t : Tab) (k : Int) : Option Tab := do
  let n := t.slots.size
  if n = 0 then none
  let i ← findLoop (n+1) t.slots k (hashInt k % n) 0
  let s := shiftBack n (t.slots.set! i none) i
  let t' : Tab := { slots := s, nitems := t.nitems - 1 }
  let ns := idealSize t'.nitems
  if ns < n then rehash ge t' ns else pure t'

def dump (t : Tab) : String :=
  s!"{t.slots.size} {t.nitems} |" ++ String.join (t.slots.toList.zipIdx.filterMap (fun (e, i) => e.map (fun e => s!" {i}:{e.home+1}:{e.key}:{e.val}")))

end Tbl
