-- SEED (design-phase prototype; compiled with core Lean 4.33): Proto/RH.lean (C02/C17)
/- calibration: robin-hood lookup correctness from the local invariant -/
namespace RH

structure Entry where
  key  : Nat
  home : Nat
deriving DecidableEq, Repr

abbrev Slots (n : Nat) := Vector (Option Entry) n

def next (n i : Nat) : Nat := if i + 1 = n then 0 else i + 1
def prev (n i : Nat) : Nat := if i = 0 then n - 1 else i - 1
def dist (n i home : Nat) : Nat := if home ≤ i then i - home else i + n - home

theorem next_lt {n i : Nat} (h : i < n) : next n i < n := by unfold next; split <;> omega
theorem prev_lt {n i : Nat} (h : i < n) : prev n i < n := by unfold prev; split <;> omega
theorem next_eq_mod {n i : Nat} (h : i < n) : next n i = (i + 1) % n := by
  unfold next; split
  · rename_i h1; rw [h1, Nat.mod_self]
  · rw [Nat.mod_eq_of_lt (by omega)]
theorem dist_eq_mod {n i home : Nat} (hi : i < n) (hh : home < n) : dist n i home = (i + n - home) % n := by
  unfold dist; split
  · have : i + n - home = (i - home) + n := by omega
    rw [this, Nat.add_mod_right, Nat.mod_eq_of_lt (by omega)]
  · rw [Nat.mod_eq_of_lt (by omega)]

variable {n : Nat}

/-- probing loop of GC_Mem_Ptr / Table_Mem -/
def lookupLoop (s : Slots n) (k : Nat) : (fuel i j : Nat) → (hi : i < n) → Option Bool
  | 0, _, _, _ => none
  | fuel+1, i, j, hi =>
    match s[i] with
    | none => some false
    | some e =>
      if j > dist n i e.home then some false
      else if e.key = k then some true
      else lookupLoop s k fuel (next n i) (j+1) (next_lt hi)

def lookup (hash : Nat → Nat) (s : Slots n) (k : Nat) (hn : 0 < n) : Option Bool :=
  lookupLoop s k n (hash k % n) 0 (Nat.mod_lt _ hn)

structure Inv (hash : Nat → Nat) (s : Slots n) : Prop where
  home_ok : ∀ i (hi : i < n) e, s[i] = some e → e.home = hash e.key % n
  distinct : ∀ i j (hi : i < n) (hj : j < n) e e', s[i] = some e → s[j] = some e' → e.key = e'.key → i = j
  loc : ∀ i (hi : i < n) e, s[i] = some e → 0 < dist n i e.home →
          ∃ e', s[prev n i]'(prev_lt hi) = some e' ∧ dist n i e.home ≤ dist n (prev n i) e'.home + 1
  has_empty : ∃ i, ∃ hi : i < n, s[i] = none

def Present (s : Slots n) (k : Nat) : Prop := ∃ i, ∃ hi : i < n, ∃ e, s[i] = some e ∧ e.key = k

theorem prev_next {n q : Nat} (hq : q < n) : prev n (next n q) = q := by
  unfold prev next; split <;> split <;> omega

theorem dist_next {n p q t : Nat} (hp : p < n) (hq : q < n) (h : dist n p q = t + 1) : dist n p (next n q) = t := by
  unfold dist next at *; split at h <;> split <;> split <;> omega

/-- chain property derived from the local invariant -/
theorem chain (hash : Nat → Nat) (s : Slots n) (inv : Inv hash s)
    (p : Nat) (hp : p < n) (e : Entry) (hpe : s[p] = some e) :
    ∀ (t q : Nat) (hq : q < n), dist n p q = t → t ≤ dist n p e.home →
      ∃ e', s[q] = some e' ∧ dist n p e.home ≤ dist n q e'.home + t := by
  intro t
  induction t with
  | zero =>
    intro q hq hd _
    have : q = p := by unfold dist at hd; split at hd <;> omega
    subst this
    exact ⟨e, hpe, by omega⟩
  | succ t ih =>
    intro q hq hd hle
    have hq' := next_lt hq
    obtain ⟨e'', he'', hD⟩ := ih (next n q) hq' (dist_next hp hq hd) (by omega)
    have hpos : 0 < dist n (next n q) e''.home := by omega
    obtain ⟨e', he', hl⟩ := inv.loc (next n q) hq' e'' he'' hpos
    have hpn : prev n (next n q) = q := prev_next hq
    refine ⟨e', ?_, ?_⟩
    · simpa [hpn] using he'
    · simp only [hpn] at hl; omega

/-- walking forward from slot `i` (offset `j` from k's home) towards the slot `p` that holds `k` -/
theorem lookupLoop_finds (hash : Nat → Nat) (s : Slots n) (inv : Inv hash s) (k : Nat)
    (p : Nat) (hp : p < n) (e : Entry) (hpe : s[p] = some e) (hk : e.key = k) :
    ∀ (m : Nat) (i j : Nat) (hi : i < n) (fuel : Nat),
      dist n p i = m → j + m = dist n p e.home → m < fuel →
      lookupLoop s k fuel i j hi = some true := by
  intro m
  induction m with
  | zero =>
    intro i j hi fuel hm hj hf
    have hip : i = p := by unfold dist at hm; split at hm <;> omega
    subst hip
    match fuel, hf with
    | fuel+1, _ =>
      simp only [lookupLoop, hpe]
      have : ¬ j > dist n i e.home := by omega
      simp [this, hk]
  | succ m ih =>
    intro i j hi fuel hm hj hf
    match fuel, hf with
    | fuel+1, hf =>
      obtain ⟨e', he', hD⟩ := chain hash s inv p hp e hpe (m+1) i hi hm (by omega)
      simp only [lookupLoop, he']
      have : ¬ j > dist n i e'.home := by omega
      simp only [this, if_false]
      by_cases hkk : e'.key = k
      · simp [hkk]
      · simp only [hkk, if_false]
        exact ih (next n i) (j+1) (next_lt hi) fuel (dist_next hp hi hm) (by omega) (by omega)

theorem lookup_present (hash : Nat → Nat) (s : Slots n) (inv : Inv hash s) (hn : 0 < n) (k : Nat)
    (h : Present s k) : lookup hash s k hn = some true := by
  obtain ⟨p, hp, e, hpe, hk⟩ := h
  have hh : e.home = hash k % n := by rw [← hk]; exact inv.home_ok p hp e hpe
  have hhome : hash k % n < n := Nat.mod_lt _ hn
  unfold lookup
  apply lookupLoop_finds hash s inv k p hp e hpe hk (dist n p (hash k % n)) _ 0 hhome n rfl
  · rw [hh]; omega
  · unfold dist; split <;> omega

/-- soundness: `some true` only if present -/
theorem lookupLoop_sound (s : Slots n) (k : Nat) :
    ∀ (fuel i j : Nat) (hi : i < n), lookupLoop s k fuel i j hi = some true → Present s k := by
  intro fuel
  induction fuel with
  | zero => intro i j hi h; simp [lookupLoop] at h
  | succ fuel ih =>
    intro i j hi h
    simp only [lookupLoop] at h
    split at h
    · simp at h
    · rename_i e he
      split at h
      · simp at h
      · split at h
        · exact ⟨i, hi, e, he, by assumption⟩
        · exact ih _ _ _ h

#print axioms lookup_present
end RH
