-- SEED (design-phase prototype; compiled with core Lean 4.33): Proto/RHIns.lean (C17/C02 T2) — PROVED: robin-hood insertion loop (either tie rule `ge`) preserves the local invariant Inv0 and terminates, via Pending structure (empty slot z ahead), lemmas place_empty / pass_step / swap_step / run_avoids_empty; arithmetic helper pattern `unfold dist next; (repeat' split) <;> omega`; dependent index rewrite via idx_congr. Axioms propext, Classical.choice, Quot.sound.
import Proto.RH
/- calibration: robin-hood insertion (GC_Set_Ptr shape: unique keys) preserves the local invariant -/
namespace RH
variable {n : Nat}

def insertLoop (ge : Bool) : (fuel : Nat) → Slots n → Entry → (i j : Nat) → (hi : i < n) → Option (Slots n)
  | 0, _, _, _, _, _ => none
  | fuel+1, s, c, i, j, hi =>
    match s[i] with
    | none => some (s.set i (some c))
    | some r =>
      let p := dist n i r.home
      if (if ge then j ≥ p else j > p) then insertLoop ge fuel (s.set i (some c)) r (next n i) (p+1) (next_lt hi)
      else insertLoop ge fuel s c (next n i) (j+1) (next_lt hi)

/-- the part of the invariant that does not mention emptiness -/
structure Inv0 (hash : Nat → Nat) (s : Slots n) : Prop where
  home_ok : ∀ i (hi : i < n) e, s[i] = some e → e.home = hash e.key % n
  distinct : ∀ i j (hi : i < n) (hj : j < n) e e', s[i] = some e → s[j] = some e' → e.key = e'.key → i = j
  loc : ∀ i (hi : i < n) e, s[i] = some e → 0 < dist n i e.home →
          ∃ e', s[prev n i]'(prev_lt hi) = some e' ∧ dist n i e.home ≤ dist n (prev n i) e'.home + 1

theorem dist_lt {n i h : Nat} (hi : i < n) (hh : h < n) : dist n i h < n := by unfold dist; split <;> omega

theorem next_prev {n q : Nat} (hq : q < n) : next n (prev n q) = q := by
  unfold prev next; split <;> split <;> omega

theorem next_ne {n q : Nat} (hq : q < n) (hn : 1 < n) : next n q ≠ q := by unfold next; split <;> omega

theorem prev_inj {n a b : Nat} (ha : a < n) (hb : b < n) (h : prev n a = prev n b) : a = b := by
  unfold prev at h; split at h <;> split at h <;> omega

/-- State of the probing loop: table `s` satisfies Inv0, carried entry `c` is not in the table, sits at virtual
    distance `j` from its home at slot `i`, its predecessor slot supports it, and an empty slot `z` lies ahead. -/
structure Pending (hash : Nat → Nat) (s : Slots n) (c : Entry) (i j z : Nat) : Prop where
  inv : Inv0 hash s
  chome : c.home = hash c.key % n
  fresh : ∀ q (hq : q < n) e, s[q] = some e → e.key ≠ c.key
  hz : z < n
  zempty : s[z]'hz = none
  jdist : j = dist n i c.home
  ahead : j + dist n z i = dist n z c.home      -- i is between c.home and z (no wrap past z)
  pred : 0 < j → ∃ e', ∃ hp : prev n i < n, s[prev n i]'hp = some e' ∧ j ≤ dist n (prev n i) e'.home + 1

end RH

namespace RH
variable {n : Nat}

/-- chain property from Inv0: every slot within the run of the entry at `p` (back to its home) is occupied -/
theorem chain0 (hash : Nat → Nat) (s : Slots n) (inv : Inv0 hash s)
    (p : Nat) (hp : p < n) (e : Entry) (hpe : s[p] = some e) :
    ∀ (t q : Nat) (hq : q < n), dist n p q = t → t ≤ dist n p e.home →
      ∃ e', s[q] = some e' ∧ dist n p e.home ≤ dist n q e'.home + t := by
  intro t
  induction t with
  | zero =>
    intro q hq hd _
    have : q = p := by unfold dist at hd; split at hd <;> omega
    subst this
    exact ⟨e, hpe, by omega⟩
  | succ t ih =>
    intro q hq hd hle
    have hq' := next_lt hq
    obtain ⟨e'', he'', hD⟩ := ih (next n q) hq' (dist_next hp hq hd) (by omega)
    have hpos : 0 < dist n (next n q) e''.home := by omega
    obtain ⟨e', he', hl⟩ := inv.loc (next n q) hq' e'' he'' hpos
    have hpn : prev n (next n q) = q := prev_next hq
    refine ⟨e', ?_, ?_⟩
    · simpa [hpn] using he'
    · simp only [hpn] at hl; omega

/-- an empty slot `z` is not inside the run of the entry at `i` -/
theorem run_avoids_empty (hash : Nat → Nat) (s : Slots n) (inv : Inv0 hash s)
    (i : Nat) (hi : i < n) (r : Entry) (hr : s[i] = some r) (z : Nat) (hz : z < n) (hze : s[z] = none) :
    dist n i r.home < dist n i z := by
  by_cases h : dist n i z ≤ dist n i r.home
  · obtain ⟨e', he', _⟩ := chain0 hash s inv i hi r hr (dist n i z) z hz rfl h
    rw [hze] at he'; cases he'
  · omega

end RH

namespace RH
variable {n : Nat}

theorem idx_congr (s : Slots n) {a b : Nat} (ha : a < n) (hb : b < n) (h : a = b) : s[a] = s[b] := by
  subst h; rfl

theorem place_empty (hash : Nat → Nat) (s : Slots n) (c : Entry) (i j z : Nat) (hi : i < n)
    (P : Pending hash s c i j z) (hnone : s[i] = none) : Inv0 hash (s.set i (some c) hi) := by
  have inv := P.inv
  refine ⟨?_, ?_, ?_⟩
  · intro q hq e he
    rw [Vector.getElem_set] at he
    split at he
    · cases he; exact P.chome
    · exact inv.home_ok q hq e he
  · intro a b ha hb e e' hea heb hk
    rw [Vector.getElem_set] at hea heb
    split at hea <;> split at heb
    · omega
    · cases hea; exact absurd hk.symm (P.fresh b hb e' heb)
    · cases heb; exact absurd hk (P.fresh a ha e hea)
    · exact inv.distinct a b ha hb e e' hea heb hk
  · intro q hq e he hpos
    rw [Vector.getElem_set] at he
    split at he
    · -- q = i, e = c
      rename_i hiq; subst hiq; cases he
      have hj : 0 < j := by rw [P.jdist]; exact hpos
      obtain ⟨e', hp, he', hle⟩ := P.pred hj
      have hne : prev n i ≠ i := by
        intro h; rw [idx_congr s hp hi h, hnone] at he'; cases he'
      refine ⟨e', ?_, ?_⟩
      · rw [Vector.getElem_set]; split
        · rename_i h; exact absurd h.symm hne
        · exact he'
      · rw [← P.jdist]; exact hle
    · rename_i hiq
      obtain ⟨e', he', hle⟩ := inv.loc q hq e he hpos
      have hne : i ≠ prev n q := by
        intro h; rw [idx_congr s (prev_lt hq) hi h.symm, hnone] at he'; cases he'
      refine ⟨e', ?_, hle⟩
      rw [Vector.getElem_set]; split
      · rename_i h; exact absurd h hne
      · exact he'

end RH

namespace RH
variable {n : Nat}

theorem ne_of_occ_empty (s : Slots n) {i z : Nat} (hi : i < n) (hz : z < n) {r : Entry}
    (hr : s[i] = some r) (hze : s[z] = none) : i ≠ z := by
  intro h; rw [idx_congr s hi hz h, hze] at hr; cases hr

theorem dist_next_fwd {n z i : Nat} (hi : i < n) (hz : z < n) (hne : i ≠ z) :
    dist n z (next n i) + 1 = dist n z i := by
  unfold dist next; (repeat' split) <;> omega

theorem dist_next_home {n i h : Nat} (hi : i < n) (hh : h < n) (hlt : dist n i h + 1 < n) :
    dist n (next n i) h = dist n i h + 1 := by
  revert hlt; unfold dist next; (repeat' split) <;> omega

theorem dist_pos_of_ne {n z i : Nat} (hi : i < n) (hz : z < n) (hne : i ≠ z) : 0 < dist n z i := by
  unfold dist; split <;> omega

theorem dist_compl {n z i : Nat} (hi : i < n) (hz : z < n) (hne : i ≠ z) : dist n z i + dist n i z = n := by
  unfold dist; (repeat' split) <;> omega

theorem pass_step (hash : Nat → Nat) (s : Slots n) (c : Entry) (i j z : Nat) (hi : i < n)
    (P : Pending hash s c i j z) (r : Entry) (hr : s[i] = some r) (hle : j ≤ dist n i r.home) :
    Pending hash s c (next n i) (j+1) z ∧ dist n z (next n i) < dist n z i := by
  have hz := P.hz
  have hne : i ≠ z := ne_of_occ_empty s hi hz hr P.zempty
  have hch : c.home < n := by rw [P.chome]; exact Nat.mod_lt _ (by omega)
  have ha := P.ahead
  have hjd := P.jdist
  have h1 := dist_next_fwd hi hz hne
  have h2 := dist_pos_of_ne hi hz hne
  have h3 : dist n z c.home < n := dist_lt hz hch
  have h4 := dist_next_home hi hch (by omega)
  refine ⟨⟨P.inv, P.chome, P.fresh, hz, P.zempty, by omega, by omega, ?_⟩, by omega⟩
  intro _
  refine ⟨r, by rw [prev_next hi]; exact hi, ?_, ?_⟩
  · rw [idx_congr s (by rw [prev_next hi]; exact hi) hi (prev_next hi)]; exact hr
  · rw [prev_next hi]; omega

end RH

namespace RH
variable {n : Nat}

theorem swap_step (hash : Nat → Nat) (s : Slots n) (c : Entry) (i j z : Nat) (hi : i < n)
    (P : Pending hash s c i j z) (r : Entry) (hr : s[i] = some r) (hle : dist n i r.home ≤ j) :
    Pending hash (s.set i (some c) hi) r (next n i) (dist n i r.home + 1) z ∧ dist n z (next n i) < dist n z i := by
  have hz := P.hz
  have inv := P.inv
  have hne : i ≠ z := ne_of_occ_empty s hi hz hr P.zempty
  have hrh : r.home < n := by rw [inv.home_ok i hi r hr]; exact Nat.mod_lt _ (by omega)
  have h1 := dist_next_fwd hi hz hne
  have h2 := dist_pos_of_ne hi hz hne
  have h5 := dist_compl hi hz hne
  have hrun := run_avoids_empty hash s inv i hi r hr z hz P.zempty
  have h4 := dist_next_home hi hrh (by omega)
  have hni : next n i ≠ i := next_ne hi (by omega)
  refine ⟨⟨⟨?_, ?_, ?_⟩, inv.home_ok i hi r hr, ?_, hz, ?_, by omega, ?_, ?_⟩, by omega⟩
  · -- home_ok
    intro q hq e he
    rw [Vector.getElem_set] at he
    split at he
    · cases he; exact P.chome
    · exact inv.home_ok q hq e he
  · -- distinct
    intro a b ha hb e e' hea heb hk
    rw [Vector.getElem_set] at hea heb
    split at hea <;> split at heb
    · omega
    · cases hea; exact absurd hk.symm (P.fresh b hb e' heb)
    · cases heb; exact absurd hk (P.fresh a ha e hea)
    · exact inv.distinct a b ha hb e e' hea heb hk
  · -- loc
    intro q hq e he hpos
    rw [Vector.getElem_set] at he
    split at he
    · rename_i hiq; subst hiq; cases he
      have hj : 0 < j := by rw [P.jdist]; exact hpos
      obtain ⟨e', hp, he', hle'⟩ := P.pred hj
      have hpi : prev n i ≠ i := by unfold prev; split <;> omega
      refine ⟨e', ?_, ?_⟩
      · rw [Vector.getElem_set]; split
        · rename_i h; exact absurd h.symm hpi
        · exact he'
      · rw [← P.jdist]; exact hle'
    · rename_i hiq
      obtain ⟨e', he', hle'⟩ := inv.loc q hq e he hpos
      by_cases hpq : prev n q = i
      · -- predecessor is the slot we just overwrote: it now holds c with dist j ≥ old dist
        have hre : e' = r := by
          rw [idx_congr s (prev_lt hq) hi hpq, hr] at he'; cases he'; rfl
        subst hre
        refine ⟨c, ?_, ?_⟩
        · rw [Vector.getElem_set]; split
          · rfl
          · rename_i h; exact absurd hpq.symm h
        · rw [hpq] at hle' ⊢; rw [← P.jdist]; omega
      · refine ⟨e', ?_, hle'⟩
        rw [Vector.getElem_set]; split
        · rename_i h; exact absurd h.symm hpq
        · exact he'
  · -- fresh for r
    intro q hq e he
    rw [Vector.getElem_set] at he
    split at he
    · cases he; exact (P.fresh i hi r hr).symm
    · rename_i hiq
      intro hk
      exact hiq (inv.distinct i q hi hq r e hr he hk.symm)
  · -- z still empty
    rw [Vector.getElem_set]; split
    · rename_i h; exact absurd h hne
    · exact P.zempty
  · -- ahead
    have := dist_lt hz hrh
    have hx : dist n z r.home = dist n z i + dist n i r.home := by
      revert hrun h5; unfold dist; (repeat' split) <;> omega
    omega
  · -- pred
    intro _
    refine ⟨c, by rw [prev_next hi]; exact hi, ?_, ?_⟩
    · rw [idx_congr _ (by rw [prev_next hi]; exact hi) hi (prev_next hi), Vector.getElem_set_self]
    · rw [prev_next hi, ← P.jdist]; omega

end RH

namespace RH
variable {n : Nat}

/-- GC_Set_Ptr / Table_Set_Move (new key) preserves the invariant, for either tie rule, and terminates
    within `dist z i + 1` steps where `z` is any empty slot ahead. -/
theorem insertLoop_inv (hash : Nat → Nat) (ge : Bool) :
    ∀ (fuel : Nat) (s : Slots n) (c : Entry) (i j z : Nat) (hi : i < n),
      Pending hash s c i j z → dist n z i < fuel →
      ∃ s', insertLoop ge fuel s c i j hi = some s' ∧ Inv0 hash s' := by
  intro fuel
  induction fuel with
  | zero => intro s c i j z hi _ h; omega
  | succ fuel ih =>
    intro s c i j z hi P hf
    unfold insertLoop
    split
    · rename_i hnone
      exact ⟨_, rfl, place_empty hash s c i j z hi P hnone⟩
    · rename_i r hr
      simp only []
      by_cases hcond : (if ge then j ≥ dist n i r.home else j > dist n i r.home)
      · rw [if_pos hcond]
        have hle : dist n i r.home ≤ j := by
          cases ge <;> simp at hcond <;> omega
        obtain ⟨P', hm⟩ := swap_step hash s c i j z hi P r hr hle
        exact ih _ _ _ _ z (next_lt hi) P' (by omega)
      · rw [if_neg hcond]
        have hle : j ≤ dist n i r.home := by
          cases ge <;> simp at hcond <;> omega
        obtain ⟨P', hm⟩ := pass_step hash s c i j z hi P r hr hle
        exact ih _ _ _ _ z (next_lt hi) P' (by omega)

#print axioms insertLoop_inv
end RH
