static void dump(struct Tree* m, var n) {
  if (!n) { printf("."); return; }
  printf("(%s%ld ", Tree_Is_Red(m, n) ? "R" : "B", (long)c_int(Tree_Key(m, n)));
  dump(m, *Tree_Left(m, n)); printf(" "); dump(m, *Tree_Right(m, n)); printf(")");
}
int main(int argc, char** argv) {
