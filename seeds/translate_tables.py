import re, glob, json
def strip_comments(s):
    return re.sub(r'/\*.*?\*/', '', s, flags=re.S)
def balanced(s, i):
    # s[i] == '(' ; return index after matching ')', skipping string/char literals
    depth = 0; j = i
    while j < len(s):
        c = s[j]
        if c == '"':
            j += 1
            while s[j] != '"':
                if s[j] == '\\': j += 1
                j += 1
        elif c == "'":
            j += 1
            while s[j] != "'":
                if s[j] == '\\': j += 1
                j += 1
        elif c == '(': depth += 1
        elif c == ')':
            depth -= 1
            if depth == 0: return j+1
        j += 1
    raise ValueError
def split_top(s):
    parts=[]; depth=0; cur=''; j=0
    while j < len(s):
        c=s[j]
        if c in '"\'':
            q=c; cur+=c; j+=1
            while s[j]!=q:
                if s[j]=='\\': cur+=s[j]; j+=1
                cur+=s[j]; j+=1
            cur+=s[j]
        elif c in '({': depth+=1; cur+=c
        elif c in ')}': depth-=1; cur+=c
        elif c==',' and depth==0: parts.append(cur.strip()); cur=''
        else: cur+=c
        j+=1
    if cur.strip(): parts.append(cur.strip())
    return parts
decl = {}
for f in sorted(glob.glob('/repo/src/*.c')):
    s = strip_comments(open(f).read())
    for m in re.finditer(r'^var\s+(\w+)\s*=\s*(Cello|CelloEmpty)\s*\(', s, flags=re.M):
        end = balanced(s, m.end()-1)
        args = split_top(s[m.end():end-1])
        insts = {}
        for a in args[1:]:
            mm = re.match(r'Instance\s*\(', a)
            if mm:
                ia = split_top(a[mm.end():-1])
                insts[ia[0]] = [x != 'NULL' for x in ia[1:]]
        decl[m.group(1)] = insts
print(len(decl), 'types/classes declared')
for t in ['Array','Tuple','Table','Tree','List','Thread','Ref','Box','Int','GC','File','Type']:
    print(t, {k:v for k,v in decl[t].items() if k!='Doc'})
type_c = strip_comments(open('/repo/src/Type.c').read())
print(re.findall(r'Type_Cache_Entry\(\s*(\d+)\s*,\s*(\w+)\s*\)', type_c))
gc_c = strip_comments(open('/repo/src/GC.c').read())
m = re.search(r'static void GC_Recurse.*?\{(.*?)return;', gc_c, flags=re.S)
print(re.findall(r'type is (\w+)', m.group(1)))
print(re.search(r'GC_Primes\[GC_PRIMES_COUNT\]\s*=\s*\{(.*?)\}', gc_c, flags=re.S).group(1).split())
show_c = open('/repo/src/Show.c').read()
print(re.findall(r'strchr\("([^"]+)",\s*\*fmt\)', show_c))
str_c = open('/repo/src/String.c').read()
print(re.findall(r"case '(\\?.)':\s*pos = print_to\(out, pos, \"((?:\\\\.|[^\"])*)\"\)", str_c))
print(re.findall(r"case '(\\?.)':\s*String_Concat\(self, \$S\(\"((?:\\\\.|[^\"])*)\"\)\)", str_c))
