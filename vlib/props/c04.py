"""C04 — Array, List and Tuple behave as sequences (engine seq).

Op language: see the header of harness/h_seq.c.  The generator keeps a shadow of every container (plain Python lists) only
to choose arguments that are mostly in range, hit existing values (duplicates) and cross every growth / shrink step; the
verdicts come from the harness' reference array (direct oracle) and from the line-by-line comparison with the Lean model."""
import re
from ..runner import Spec, Case
from .. import core

KINDS = ('A', 'L', 'T', 'AS', 'LS', 'A12', 'A5')
ARRS = ('A', 'AS', 'A12', 'A5')
TUPS = ('T', 'TK')          # TK = a Tuple that is not on the heap: every reallocating op raises and changes nothing


class Shadow:
    """generator-side shadow: list of values (A/L/AS/LS) or of (id, val) pairs (T); for Arrays also the capacity (nslots), followed
    with the rules of Array_Reserve_More / _Less only to aim the own-element ops at the region where they are executed"""
    def __init__(self, kind, items, cap=None):
        self.kind = kind; self.items = list(items); self.cap = len(self.items) if cap is None else cap

    def grew(self):
        n = len(self.items)
        if n > self.cap: self.cap = n + n // 2

    def shrank(self):
        n = len(self.items)
        if self.cap > n + n // 2: self.cap = n


class Gen:
    def __init__(self, rng, valmode='small'):
        self.rng = rng; self.lines = []; self.slots = {}; self.next_id = 1; self.valmode = valmode

    # ---- values
    def val(self, kind):
        r = self.rng
        if self.valmode == 'small':
            return r.randrange(0, 10)
        if self.valmode == 'keytag':
            return r.randrange(0, 6) * 256 + r.randrange(0, 256)
        if self.valmode == 'wide':
            if kind in ('AS', 'LS'): return r.randrange(0, 9999999)
            if kind == 'A5': return r.choice([r.randrange(-50, 50), r.randrange(-8388608, 8388608), r.randrange(-70000, 70000)])
            return r.choice([r.randrange(-50, 50), r.randrange(-10**11, 10**11), r.randrange(-70000, 70000)])
        return r.randrange(0, 1000)

    def elem(self, kind):
        v = self.val(kind)
        if kind in TUPS:
            i = self.next_id; self.next_id += 1
            return (i, v)
        return v

    @staticmethod
    def tok(kind, e):
        return f'{e[0]}:{e[1]}' if kind in TUPS else str(e)

    def idx(self, n, oob=0.12):
        r = self.rng
        if r.random() < oob: return r.choice([n, n + 1, -n - 1, -n - 2, n + r.randrange(2, 9), -n - r.randrange(3, 9)])
        if n == 0: return r.choice([0, -1, 1])
        x = r.random()
        if x < 0.15: return r.choice([0, -1, n - 1, -n])
        return r.randrange(-n, n)

    # ---- ops (emit the line and update the shadow with the type's own rule)
    def new(self, slot, kind, items):
        self.lines.append(f'new {slot} {kind} ' + ' '.join(self.tok(kind, e) for e in items))
        self.slots[slot] = Shadow(kind, items)

    def delete(self, slot):
        self.lines.append(f'del {slot}'); del self.slots[slot]

    def ids(self, s):
        return {e[0] for e in s.items} if s.kind in TUPS else set()

    def fresh(self, s, reuse=0.0):
        """an element for container s; for T normally a fresh object, sometimes (reuse) one already inside (-> dup-refused)"""
        if s.kind in TUPS and s.items and self.rng.random() < reuse:
            return self.rng.choice(s.items), True
        return self.elem(s.kind), False

    def push(self, slot, cmd='push'):
        s = self.slots[slot]; e, dup = self.fresh(s, 0.02)
        self.lines.append(f'{cmd} {slot} {self.tok(s.kind, e)}')
        if s.kind == 'TK': return
        if not dup: s.items.append(e); s.grew()

    def pop(self, slot):
        s = self.slots[slot]; self.lines.append(f'pop {slot}')
        if s.kind == 'TK': return
        if s.items: s.items.pop(); s.shrank()

    def ins_pos(self, s, i):
        """the position an insertion index names for this kind, or None"""
        n = len(s.items)
        if s.kind in ARRS: return i if 0 <= i <= n else (n + 1 + i if i < 0 and -(n + 1) <= i else None)
        if s.kind in ('L', 'LS') and i == 0: return 0
        return self.norm(n, i)

    def pushelem(self, slot, at=False):
        """push(x, get(x, k)) / push_at(x, get(x, k), i): the container's own element as the argument.  Aimed (not restricted: harness
        and driver refuse the rest alike) at the region outside KF-C04-push-own-element: spare capacity and, for push_at, k < i."""
        s = self.slots[slot]; n = len(s.items); r = self.rng
        k = self.idx(n, 0.08)
        i = None
        if at:
            kk = self.norm(n, k)
            if kk is not None and s.kind in ARRS and r.random() < 0.8:
                ip = r.randrange(kk + 1, n + 1) if kk + 1 <= n else n
                i = ip if r.random() < 0.6 else ip - (n + 1)
            else: i = self.idx(n)
        self.lines.append(f'pushatelem {slot} {k} {i}' if at else f'pushelem {slot} {k}')
        kk = self.norm(n, k)
        if kk is None or s.kind in TUPS: return
        ip = self.ins_pos(s, i) if at else n
        if ip is None: return
        if s.kind in ARRS and (n + 1 > s.cap or (at and kk >= ip)): return      # own-refused
        s.items.insert(ip, s.items[kk]); s.grew()

    def setelem(self, slot):
        """set(x, i, get(x, k)); i = k (the element assigned to itself: String_Assign(s, s), fix 744a45f) in about half of the in-range cases"""
        s = self.slots[slot]; n = len(s.items); r = self.rng
        k = self.idx(n, 0.08); kk = self.norm(n, k)
        if kk is not None and r.random() < 0.5: i = kk if r.random() < 0.5 else kk - n
        else: i = self.idx(n, 0.08)
        self.lines.append(f'setelem {slot} {i} {k}')
        ii = self.norm(n, i)
        if kk is None or ii is None: return
        if s.kind in TUPS and ii != kk: return                                  # dup-refused
        s.items[ii] = s.items[kk]

    def remelem(self, slot, cmd='remelem'):
        s = self.slots[slot]; n = len(s.items)
        k = self.idx(n, 0.08); self.lines.append(f'{cmd} {slot} {k}')
        kk = self.norm(n, k)
        if cmd != 'remelem' or kk is None or s.kind == 'TK': return
        vs = self.vals(s); del s.items[vs.index(vs[kk])]; s.shrank()

    def concatelems(self, slot):
        """concat(x, tuple(get(x, k1), get(x, k2))): executed by a List always and by an Array with room for two more records; refused alike by
        harness and driver otherwise (KF-C04-push-own-element, site Array_Concat) and when k1, k2 name one element (the operand would be F13)"""
        s = self.slots[slot]; n = len(s.items)
        k1 = self.idx(n, 0.06); k2 = self.idx(n, 0.06)
        self.lines.append(f'concatelems {slot} {k1} {k2}')
        p1, p2 = self.norm(n, k1), self.norm(n, k2)
        if p1 is None or p2 is None or p1 == p2 or s.kind in TUPS: return
        if s.kind in ARRS and n + 2 > s.cap: return                             # own-refused
        s.items += [s.items[p1], s.items[p2]]; s.grew()

    @staticmethod
    def norm(n, i):
        if 0 <= i < n: return i
        if i < 0 and -n <= i: return n + i
        return None

    def pushat(self, slot, i=None):
        s = self.slots[slot]; n = len(s.items); e, dup = self.fresh(s, 0.02)
        if i is None: i = self.idx(n)
        self.lines.append(f'pushat {slot} {self.tok(s.kind, e)} {i}')
        if dup or s.kind == 'TK': return
        if s.kind in ARRS:
            k = i if 0 <= i <= n else (n + 1 + i if i < 0 and -(n + 1) <= i else None)
        elif s.kind in ('L', 'LS') and i == 0: k = 0
        else: k = self.norm(n, i)
        if k is not None: s.items.insert(k, e); s.grew()

    def popat(self, slot, i=None):
        s = self.slots[slot]; n = len(s.items)
        if i is None: i = self.idx(n)
        self.lines.append(f'popat {slot} {i}')
        if s.kind == 'TK': return
        k = self.norm(n, i)
        if k is not None: del s.items[k]; s.shrank()

    def get(self, slot, i=None):
        s = self.slots[slot]
        if i is None: i = self.idx(len(s.items))
        self.lines.append(f'get {slot} {i}')

    def set(self, slot, i=None):
        s = self.slots[slot]; n = len(s.items); e, dup = self.fresh(s, 0.02)
        if i is None: i = self.idx(n)
        self.lines.append(f'set {slot} {i} {self.tok(s.kind, e)}')
        if dup: return
        k = self.norm(n, i)
        if k is not None: s.items[k] = e

    def vals(self, s):
        return [e[1] for e in s.items] if s.kind in TUPS else s.items

    def probe(self, s):
        vs = self.vals(s)
        if vs and self.rng.random() < 0.7: return self.rng.choice(vs)
        return self.val(s.kind)

    def mem(self, slot):
        s = self.slots[slot]; self.lines.append(f'mem {slot} {self.probe(s)}')

    def rem(self, slot):
        s = self.slots[slot]; v = self.probe(s)
        self.lines.append(f'rem {slot} {v}')
        if s.kind == 'TK': return
        vs = self.vals(s)
        if v in vs: del s.items[vs.index(v)]; s.shrank()

    def compatible(self, dst, src, concat, retype=False):
        d, s = self.slots[dst].kind, self.slots[src].kind
        if dst == src: return not concat                 # assign(x, x) is a no-op since fix a3140e4; concat(x, x) is a known finding
        if d in TUPS: return s in TUPS
        if retype and not concat and s not in TUPS and (d in ARRS or s not in ('A12', 'A5')): return True     # assign takes over the element type of the source
        if d in ('AS', 'LS'): return s in ('AS', 'LS')
        if d in ('A12', 'A5'): return s == d
        return s in ('A', 'L') or (concat and s in TUPS)

    @staticmethod
    def keep(p, v):
        return p == 0 or (p == 1 and v % 2 == 0)

    def assignf(self, dst, src, p):
        """assign(dst, filter(src, p)): an iterator-only source"""
        d, s = self.slots[dst], self.slots[src]
        self.lines.append(f'assignf {dst} {src} {p}')
        if d.kind == 'TK': return
        if d.kind == 'T':
            ys = [e for e in s.items if self.keep(p, e[1])]
            if self.ids(d) & {e[0] for e in ys}: return          # dup-refused
            d.items += ys                                         # (the generator only comes here with an empty d)
        elif d.kind in ('L', 'LS'): d.items = []                  # ClassError after the clear
        else:
            d.items = []; d.cap = 0
            for v in self.vals(s):
                if self.keep(p, v): d.items.append(v); d.grew()

    def two(self, cmd, dst, src):
        d, s = self.slots[dst], self.slots[src]
        self.lines.append(f'{cmd} {dst} {src}')
        if dst == src or d.kind == 'TK': return
        if d.kind == 'T':
            if cmd == 'concat':
                if self.ids(d) & self.ids(s): return
                d.items += s.items
            else: d.items = list(s.items)
        else:
            ys = self.vals(s)
            if cmd == 'concat': d.items += ys; d.grew()
            else:
                d.items = list(ys); d.cap = len(ys)
                e = {'A': 0, 'L': 0, 'AS': 1, 'LS': 1, 'A12': 2, 'A5': 3}[s.kind]
                d.kind = ('A', 'AS', 'A12', 'A5')[e] if d.kind in ARRS else ('L', 'LS')[e]

    def resize(self, slot, n=None):
        s = self.slots[slot]; m = len(s.items)
        if n is None:
            n = self.rng.choice([0, m, max(0, m - 1), m // 2, m + 1, m + self.rng.randrange(1, 6), self.rng.randrange(0, m + 4)])
        if s.kind == 'LS' and n > m: n = m // 2
        self.lines.append(f'resize {slot} {n}')
        if s.kind == 'TK': return
        if s.kind == 'T':
            if n < m: del s.items[n:]
        elif n < m: del s.items[n:]
        elif s.kind == 'L': s.items += [0] * (n - m)
        if s.kind in ARRS: s.cap = n

    def sort(self, slot, f=None):
        s = self.slots[slot]
        if f is None: f = self.rng.randrange(4)
        self.lines.append(f'sort {slot} {f}')
        # the shadow runs the same unstable algorithm (middle-pivot Lomuto quicksort), so that it stays exact: later argument choices (and
        # staying out of known-finding territory, e.g. "assignf only into an EMPTY Tuple") depend on what each position holds
        if s.kind in ('L', 'LS'): return                       # no Sort instance: ClassError
        val = (lambda e: e[1]) if s.kind in TUPS else (lambda e: e)
        key = lambda e: val(e) // 256
        lt = [lambda a, b: val(a) < val(b), lambda a, b: key(a) < key(b), lambda a, b: key(a) > key(b), lambda a, b: key(a) <= key(b)][f]
        a = s.items; stack = [(0, len(a) - 1)]
        while stack:
            l, r = stack.pop()
            if not l < r: continue
            p = l + (r - l) // 2
            a[p], a[r] = a[r], a[p]
            st = l
            for i in range(l, r):
                if lt(a[i], a[r]):
                    a[i], a[st] = a[st], a[i]; st += 1
            a[st], a[r] = a[r], a[st]
            stack.append((l, st - 1)); stack.append((st + 1, r))

    def copy(self, dst, src):
        self.lines.append(f'copy {dst} {src}')
        s = self.slots[src]; self.slots[dst] = Shadow('T' if s.kind == 'TK' else s.kind, s.items)     # Array: assign into a zeroed struct: capacity = length; the copy of a stack Tuple is a heap Tuple

    def simple(self, cmd, slot):
        self.lines.append(f'{cmd} {slot}')

    def free_slot(self):
        for k in range(16):
            if k not in self.slots: return k
        return None


WEIGHTS = [('push', 14), ('append', 3), ('pop', 9), ('pushat', 12), ('popat', 10), ('get', 8), ('set', 7), ('mem', 5), ('rem', 7),
           ('concat', 3), ('assign', 2), ('assignf', 1.5), ('pushelem', 2.5), ('pushatelem', 3.5), ('setelem', 3), ('remelem', 1.5), ('memelem', 1), ('concatelems', 2), ('reserve', 1), ('copy', 1.5), ('resize', 2.5), ('sort', 3),
           ('iter', 2), ('len', 1), ('layout', 0.7), ('del', 1), ('new', 2)]


def random_history(rng, nops, kinds, valmode, maxlen=60):
    g = Gen(rng, valmode)
    names = [w[0] for w in WEIGHTS]; ws = [w[1] for w in WEIGHTS]
    # start with one or two containers
    for k in rng.sample(kinds, min(len(kinds), rng.choice([1, 2, 2, 3]))):
        g.new(g.free_slot(), k, [g.elem(k) for _ in range(rng.choice([0, 0, 1, 2, 3, 5, 8]))])
    for _ in range(nops):
        op = rng.choices(names, ws)[0]
        if not g.slots or op == 'new':
            fs = g.free_slot()
            if fs is None: continue
            k = rng.choice(kinds); g.new(fs, k, [g.elem(k) for _ in range(rng.choice([0, 1, 2, 3, 4, 7, 12]))]); continue
        slot = rng.choice(list(g.slots)); s = g.slots[slot]
        if len(s.items) > maxlen and op in ('push', 'append', 'pushat', 'concat', 'pushelem', 'pushatelem', 'concatelems'): op = rng.choice(['pop', 'popat', 'resize', 'rem'])
        if op == 'push': g.push(slot)
        elif op == 'pushelem': g.pushelem(slot)
        elif op == 'pushatelem': g.pushelem(slot, at=True)
        elif op == 'setelem': g.setelem(slot)
        elif op == 'remelem': g.remelem(slot)
        elif op == 'memelem': g.remelem(slot, 'memelem')
        elif op == 'concatelems': g.concatelems(slot)
        elif op == 'reserve':
            # an Array gets spare capacity (resize beyond the length only reserves), so that the own-element ops are executed, not refused
            if s.kind in ARRS: g.resize(slot, len(s.items) + rng.randrange(1, 6))
            else: g.resize(slot)
        elif op == 'assignf':
            cands = [x for x in g.slots if x != slot and g.compatible(slot, x, False)]
            # a non-empty Tuple target is the territory of KF-C04-tuple-assign-iter (items are appended): not generated
            if not cands or (s.kind == 'T' and s.items): continue
            g.assignf(slot, rng.choice(cands), rng.choice([0, 0, 1, 1, 2]))
        elif op == 'append': g.push(slot, 'append')
        elif op == 'pop': g.pop(slot)
        elif op == 'pushat': g.pushat(slot)
        elif op == 'popat': g.popat(slot)
        elif op == 'get': g.get(slot)
        elif op == 'set': g.set(slot)
        elif op == 'mem': g.mem(slot)
        elif op == 'rem': g.rem(slot)
        elif op in ('concat', 'assign'):
            cands = [x for x in g.slots if g.compatible(slot, x, op == 'concat', retype=(op == 'assign'))]
            if not cands: continue
            g.two(op, slot, rng.choice(cands))
        elif op == 'copy':
            fs = g.free_slot()
            if fs is None: continue
            g.copy(fs, slot)
        elif op == 'resize': g.resize(slot)
        elif op == 'sort': g.sort(slot)
        elif op in ('iter', 'len'): g.simple(op, slot)
        elif op == 'layout':
            if s.kind in ARRS: g.simple('layout', slot)
        elif op == 'del':
            if len(g.slots) > 1: g.delete(slot)
    return g.lines


def locality_history(rng, kind, nops, valmode='small'):
    """index locality without interference: under `#!quiet on` the harness oracle makes no public calls of its own, so the only
    indexed accesses are the ones written here: get/set at an interior index k, then a removal / insertion in FRONT of k (rem by
    value, pop_at, push_at, pop), then indexed accesses at and around k. State hidden behind the index interface (a cached cursor,
    a remembered position) is exposed when it survives the structural change."""
    g = Gen(rng, valmode); g.lines.append('#!quiet on')
    g.new(0, kind, [g.elem(kind) for _ in range(rng.choice([9, 14, 23, 40]))])
    for _ in range(nops):
        s = g.slots[0]; n = len(s.items)
        if n < 6:
            for _ in range(8): g.push(0)
            continue
        k = rng.randrange(2, n - 1)
        (g.get if rng.random() < 0.6 else g.set)(0, k if rng.random() < 0.8 else k - n)
        r = rng.random()
        if r < 0.40:                                   # rem of a value whose first occurrence lies before k
            vs = g.vals(s); v = vs[rng.randrange(0, k)]; g.lines.append(f'rem 0 {v}'); del s.items[vs.index(v)]
        elif r < 0.60: g.popat(0, rng.randrange(0, k))
        elif r < 0.80: g.pushat(0, rng.randrange(0, k + 1))
        elif r < 0.90: g.pop(0)
        else: g.push(0)
        n = len(s.items)
        for _ in range(rng.choice([1, 2, 3])):
            j = min(max(k + rng.choice([-2, -1, 0, 0, 1, 2]), 0), n - 1)
            op = rng.random()
            if op < 0.5: g.get(0, j)
            elif op < 0.7: g.set(0, j)
            elif op < 0.85: g.popat(0, j); n = len(s.items)
            else: g.pushat(0, j); n = len(s.items)
            if n < 3: break
    g.lines.append('#!quiet off'); g.simple('len', 0)
    return g.lines


def growth_sweep(rng, kind, n, valmode='small'):
    """push up to n, pop to empty; insert / remove at the front; shrink by popat in the middle: crosses every growth and shrink"""
    g = Gen(rng, valmode); g.new(0, kind, [])
    for j in range(n):
        g.push(0)
        if kind in ARRS and (j < 12 or j % 17 == 0): g.simple('layout', 0)          # every stride / capacity step at the small end
    g.simple('iter', 0)
    for _ in range(n + 1): g.pop(0)
    if kind in ARRS: g.simple('layout', 0)                                         # empty again: data == NULL
    for _ in range(n // 2): g.pushat(0, 0)
    for _ in range(n // 2): g.pushat(0, -1)
    g.simple('iter', 0)
    while g.slots[0].items:
        m = len(g.slots[0].items); g.popat(0, rng.choice([0, -1, m // 2, -(m // 2) - 1 if m > 1 else 0]))
    g.popat(0, 0)
    return g.lines


def index_exhaustive(rng, kind, maxlen):
    """every op that takes an index, for every length 0..maxlen and every index -len-2 .. len+2"""
    g = Gen(rng, 'small')        # one generator: Tuple element ids stay unique over the whole file
    for n in range(maxlen + 1):
        for i in range(-n - 2, n + 3):
            for op in ('pushat', 'popat', 'get', 'set'):
                g.new(0, kind, [g.elem(kind) for _ in range(n)])
                getattr(g, op)(0, i)
                g.delete(0)
    return g.lines


def sort_inputs(rng, n):
    """key sequences: sorted, reversed, constant, runs, organ pipe, random with few keys, random with many keys"""
    shapes = []
    shapes.append(list(range(n)))
    shapes.append(list(range(n, 0, -1)))
    shapes.append([3] * n)
    shapes.append([(i // max(1, n // 4)) for i in range(n)])
    shapes.append([min(i, n - 1 - i) for i in range(n)])
    shapes.append([rng.randrange(0, 4) for _ in range(n)])
    shapes.append([rng.randrange(0, max(2, n * 2)) for _ in range(n)])
    runs = []
    while len(runs) < n:
        a = rng.randrange(0, 20); l = rng.randrange(1, 6); runs += [a + j * rng.choice([0, 1]) for j in range(l)]
    shapes.append(runs[:n])
    return shapes


def sort_cases(rng, sizes, kinds=('A', 'T', 'AS', 'A12', 'A12', 'A5')):
    g = Gen(rng)
    for n in sizes:
        for keys in sort_inputs(rng, n):
            kind = rng.choice(kinds)
            f = rng.randrange(4)
            vals = [min(k, 30000) * 256 + rng.randrange(0, 256) for k in keys]
            items = [(g.next_id + j, v) for j, v in enumerate(vals)] if kind == 'T' else vals
            g.next_id += len(vals)
            g.new(0, kind, items)
            g.sort(0, f)
            if rng.random() < 0.5: g.sort(0, rng.randrange(4))     # sort the sorted
            g.simple('iter', 0)
            g.delete(0)
    return g.lines


def big_case(rng, kind, n):
    """a long container built in one step, quiet bulk phase, then everything at the ends and in the middle"""
    g = Gen(rng, 'keytag')
    g.new(0, kind, [g.elem(kind) for _ in range(n)])
    g.lines.append('dump off')
    for _ in range(40):
        op = rng.choice(['push', 'pop', 'pushat', 'popat', 'get', 'set', 'rem', 'mem'])
        m = len(g.slots[0].items)
        if op in ('pushat', 'popat', 'get', 'set'):
            getattr(g, op)(0, rng.choice([0, -1, m // 2, m - 1, -m, m // 2 + 1, m, -m - 1, rng.randrange(-m, m)]))
        else: getattr(g, op)(0)
    g.lines.append('dump on')
    g.simple('len', 0)
    if kind not in ('L', 'LS'):
        g.sort(0, 1); g.sort(0, 2); g.sort(0, 0)
    g.copy(1, 0)
    m = len(g.slots[0].items)
    g.resize(0, m // 2 + 1)
    for _ in range(30): g.pop(0)
    g.resize(0, 3); g.pop(0); g.pop(0); g.pop(0); g.pop(0)
    g.simple('iter', 1)
    return g.lines


def chunks(name, lines, size=400):
    """split at `new 0` boundaries where possible (cases made of independent blocks)"""
    out, cur = [], []
    for l in lines:
        if len(cur) >= size and l.startswith('new 0 '):
            out.append(cur); cur = []
        cur.append(l)
    if cur: out.append(cur)
    return [Case(f'{name}{i}', c) for i, c in enumerate(out)]


class C04(Spec):
    id = 'C04'; engine = 'seq'; harness = 'h_seq'; driver = 'drv_seq'
    generators = ('SeqSrc',)
    harness_timeout = 300
    technique = ('Lean 4 proofs in two layers about an executable model that mirrors Array.c / List.c / Tuple.c. STORE level (what the driver runs and what is '
                 'compared with the C representation): Array = block of record cells with memmove as an index-range copy and realloc as a new block, '
                 'List = heap of prev/next/val nodes with List_Link / List_Unlink and the two-ended walk of List_At, Tuple = pointer cells ending in the '
                 'Terminal cell; every cell / node access is checked (outcome ub otherwise). LIST level: the same operations as list surgery. Proved: '
                 'per-operation simulation store -> list level for every history (so memmove = take/drop, relinking = insert/remove, prev-walk = reverse and '
                 'nitems <= nslots are theorems about cells and links) and absence of ub; refinement list level -> List alpha for every in-range history with '
                 'the observations len/get/mem/iteration; the quicksort (permutation; ordered for a strict partial order). The store-level model is tied to '
                 'the real code by white-box differential runs (element sequence, nitems, nslots, List links both ways, Tuple block read to Terminal after '
                 'every operation) under ASan/UBSan, and the code is searched for failing inputs with a reference-array oracle')
    level_text = ('Theorems C04_store_{array,list,tuple}_simulates: from any store state that holds a list-level container, every history (in range or not) run on '
                  'cells / links / the Terminal block ends in a state holding exactly what the list-level run ends in, with the same outcome; '
                  'C04_store_*_never_ub: in every state reachable from a new container by any history the next operation reads no unwritten or out-of-block cell, '
                  'follows no NULL link, touches no freed node, and nitems <= nslots / forward = reverse of backward / the block has len+1 cells; '
                  'C04_refines_list_{array,list,tuple} and C04_store_refines_list_*: for every history of push, pop, push_at, pop_at, set, rem, concat, append, resize, '
                  'sort, assign whose arguments are in range for the type, nothing is raised, the container holds exactly the abstract sequence, and len / get with '
                  'positive and negative indices / mem / forward and backward iteration agree with it (Tuple iteration and mem: under distinct element pointers, '
                  'known finding F13 otherwise, with C04_tuple_mem_before_cycle for what survives); C04_*_out_of_range: the abstract "in range" is exactly what the code accepts; '
                  'C04_source_*: the index normalisations and bounds tests of the nine indexed functions, the capacity policy of Array_Reserve_More / _Less, the memmove / realloc arguments of '
                  'Array / Tuple push_at / pop_at / push / pop, the walk choice of List_At, the record layout (Array_Step / _Item / _Alloc / _Size_Round) and the List node layout are EXTRACTED from the source as terms '
                  '(translate/g_seq.py -> CelloGen.SeqSrc) and the operations run with them are proved equal to the modelled ones for every state and argument (C04_source_ops_are_modelled, _history_array, _history_never_ub, '
                  '_index_rules, _capacity_policy, _array_layout for every element size, _memmove_bytes, _list_node_layout, _statement_order); '
                  'C04_sort_perm / C04_sort_sorted: the middle-pivot Lomuto quicksort leaves a permutation, ordered for every strict partial order; C04_rem_first (all three types); '
                  'aliased arguments: assign(x, x) changes nothing (C04_self_assign, since fix a3140e4; the old code refuted), concat(x, x) and an Array\'s own element '
                  'passed to push / push_at or held by the operand of concat / assign (tuple(get(x, k), ...)) are known findings with _statement / _refuted / _partial '
                  'theorems, the formulas derived from the cells (C04_store_push_own_element, C04_store_operand_own_elements); set / rem(x, get(x, k)) hold '
                  '(C04_set_rem_own_element; String elements since fix 744a45f, the old code refuted); resize of a List beyond its length is in range only for element types '
                  'whose zero record is a value (class ZeroIsValue; C04_list_resize_grow_refuted / _partial, C04_list_ub_iff_raw_grow: known finding KF-C04-list-resize-raw); assign from an iterator-only source (C04_assign_iter_*: Tuple appends - known finding); Terminal stored as a Tuple '
                  'element and Tuples that are not on the heap (C04_tuple_terminal_element, C04_tuple_not_on_heap). The store-level model is compared with the real '
                  'containers after every operation of thousands of generated histories (all index values, every growth and shrink step, duplicates, own elements as arguments, '
                  'iterator-only sources, adversarial sort inputs).')
    level_note = ('Trusted: Lean kernel; the hand-written store-level model lean/Cello/SeqStore.lean (+ Seq.lean, Sort.lean) is tied to the C code by testing (white-box '
                  'differential runs under ASan/UBSan) and, for its arithmetic (indices, bounds, capacity policy, memmove / realloc arguments, layout), by the extracted terms of CelloGen.SeqSrc (the expression reader translate/g_seq.py is trusted), not by proof of the C semantics; element types in the correspondence are Int, String, a 12-byte and a 5-byte record type, heap Tuples of Int objects. '
                  'Not covered by generated inputs: concat(x, x), an Array\'s own element where the Array must grow or k >= i, an operand of pointers to own elements where the Array must grow '
                  '(concat) or at all (assign), resize of a List<String> beyond its length, assign(Tuple, filter) on a non-empty Tuple (known findings, modelled, refuted, with witnesses); '
                  'the store-level List versions of concat / assign with an operand of own-element pointers and set(x, i, get(x, k)) on cells are executed and compared, not proved; '
                  'the quicksort is proved on an index-addressed array of items, not on the Option cells of the block, and its outcome `ok` is for element types with a positive size and the default byte-wise swap (a type with size 0 or its own Swap instance goes through TypeError / user code: not an element type of the model); Terminal stored as an element (theorem only), lengths >= 2^63, allocation failure.')
    rule = ('op files over 16 container slots of kinds Array<Int>, List<Int>, heap Tuple of Int objects, stack Tuple of Int objects (header AllocStack), Array<String>, List<String>, Array<Rec12>, Array<Rec5> '
            '(file-scope record types of 12 and 5 bytes with their own Cmp and no Swap/Assign instance: default byte-wise swap and assign, rounded Array stride; '
            'each value is encoded redundantly in the whole record so that a record assembled from two elements is detected): '
            '(a) random histories of all operations (indices uniform in -len..len-1 with 12% out of range, values from a 10-value domain / key*256+tag / wide) including '
            'assign(x, x), push(x, get(x, k)) / push_at(x, get(x, k), i) aimed at spare capacity and k < i, set(x, i, get(x, k)) with i = k in half of the cases, rem / mem(x, get(x, k)), '
            'concat(x, tuple(get(x, k1), get(x, k2))) (Arrays get spare capacity through `reserve` ops), assign between containers of different element types (the target changes kind), '
            'assign from filter(src, all|even|none), '
            '(a\') index-locality histories with a silent oracle (#!quiet on), '
            '(b) growth sweeps push^n pop^n, front insertion and removal (every Reserve_More / Reserve_Less step up to n), '
            '(c) every index -len-2..len+2 for every length 0..L for push_at/pop_at/get/set and every kind, '
            '(d) sort inputs sorted/reversed/constant/runs/organ-pipe/few keys/many keys with 4 comparators (tags make instability visible), '
            '(e) long containers (quick 3000, thorough 20000; Tuple 600/2000) with operations at both ends and the middle, '
            '(g) `layout` ops on Arrays of every element type at every small length and capacity: element size, rounded size, stride, offset of element nitems, the record Array_Alloc zeroes and its header position, block bytes - observed on the real functions, computed by the driver from the extracted terms, '
            '(f) corpus files. After every op the harness dumps the concrete representation (compared line by line with the dump of the store-level Lean model: cells in use and '
            'capacity, node chain with link check, cell block up to Terminal) and its reference array checks contents, len, get for all (or sampled) positive and negative indices, '
            'mem, both iteration directions, sort = ordered permutation, rem = first equal element, exceptions for out-of-range arguments. The driver also evaluates the list-level '
            'model and the abstract step on every op and prints an M line if store level, list level and specification ever disagree (they cannot: theorems). '
            'non-trivial item = an (operation line, observation) pair whose observation shows a non-empty container or an exception; distinct = distinct pair.')
    trusted_base = ('lean/Cello/SeqStore.lean (store level: cells / nodes / Terminal block), lean/Cello/Seq.lean, lean/Cello/Sort.lean: hand-written model of Array.c, List.c, Tuple.c '
                    '(tied to the code by the differential runs only)',
                    'harness/h_seq.c + lean/Driver/Seq.lean (correspondence is testing; the reference array in the harness is the direct oracle)',
                    'malloc/realloc/memmove/free (libc) are modelled as block / cell-range / node operations with checked accesses, not verified; realloc is assumed to '
                    'invalidate every pointer into the old block')
    assumptions = ('concat(x, x) is not generated and is refused as bad-op by harness and driver (known finding KF-C04-self-concat: concat of a container with itself iterates '
                   'over storage it is growing); its witnesses run as `kfself` ops in a forked child. assign(x, x) IS generated (repaired by a3140e4)',
                   'an Array\'s own element as the argument of push / push_at is executed only outside known finding KF-C04-push-own-element (spare capacity, and k < i for '
                   'push_at); inside it harness and driver both print own-refused; witnesses run as `kfown` ops in a forked child',
                   'concat(x, tuple(get(x, k1), get(x, k2))) on an Array is executed only with room for two more records (same finding, site Array_Concat; refused alike otherwise, and when k1, k2 '
                   'name one element: the operand Tuple would be F13); assign with such an operand is never generated (Array_Clear / List_Clear free what the operand points to); witnesses `kfown concat|assign|lassign`',
                   'assign(t, filter(...)) is generated only for an empty Tuple t (known finding KF-C04-tuple-assign-iter: the items are appended to a non-empty Tuple)',
                   'Tuple elements are distinct objects (a Tuple holding the same pointer twice is known finding F13: iteration and mem do not terminate); '
                   'ops that would store a pointer a second time are refused by harness and driver alike (a pointer may replace itself with set)',
                   'Terminal is never stored as a Tuple element (covered by a theorem about the cell model only); Tuples that are not on the heap are exercised as kind TK',
                   'lengths and capacities stay below 2^63; allocation does not fail',
                   'List<String> is never grown by resize (known finding KF-C04-list-resize-raw: List_Resize links calloc\'ed String records with a NULL buffer that no String operation accepts; '
                   'harness and driver print `resize unsupported`); witness op `kfraw` in a forked child',
                   'element objects are not mutated while they are in a container')

    def cases(self, rng, tier, boost=1):
        quick = tier == 'quick'
        cs = []
        # (a) random histories
        nrand = (150 if quick else 2500) * boost
        for i in range(nrand):
            mode = rng.choice(['small', 'small', 'keytag', 'wide'])
            kinds = rng.choice([['A'], ['L'], ['T'], ['A', 'L'], ['A', 'L', 'T'], ['T', 'TK'], ['AS', 'LS'], ['A12'], ['A5'], ['A12', 'A5'], list(KINDS), list(KINDS) + ['TK']])
            cs.append(Case(f'rand{i}', random_history(rng, 400 if quick else 500, kinds, mode, maxlen=rng.choice([12, 40, 90]))))
        # (a') index locality with a silent oracle (hidden cursor / memo state)
        for i in range((12 if quick else 120) * boost):
            cs.append(Case(f'local{i}', locality_history(rng, rng.choice(['A', 'L', 'L', 'L', 'T', 'LS']), 120 if quick else 400)))
        # (b) growth sweeps
        for kind in KINDS:
            n = (70 if quick else 700) if kind != 'T' else (60 if quick else 300)
            cs.append(Case(f'sweep{kind}', growth_sweep(rng, kind, n)))
        # (c) index-exhaustive
        for kind in KINDS + ('TK',):
            cs += chunks(f'idx{kind}', index_exhaustive(rng, kind, 4 if quick else 8), 450)
        # (d) sort inputs
        sizes = list(range(0, 12)) + ([17, 33, 64, 200] if quick else list(range(12, 70, 3)) + [100, 200, 500, 1000, 3000])
        for rep in range((3 if quick else 12) * boost):
            cs += chunks(f'sort{rep}_', sort_cases(rng, sizes), 300)
        # (e) long containers
        for kind in KINDS:
            n = (3000 if quick else 20000) if kind != 'T' else (600 if quick else 2000)
            for rep in range(2 if quick else 3):
                cs.append(Case(f'big{kind}{rep}', big_case(rng, kind, n)))
        return cs

    def nontrivial_items(self, case, c_out, m_out):
        ops = [l for l in case.lines if l.strip() and not l.startswith('#')]
        obs = core.lines_with('O ', c_out)
        items = set()
        for op, o in zip(ops, obs):
            if 'err=' in o or (re.search(r' n=[1-9]', o)): items.add(hash((op, o)))
        return items

    def stats(self, case, c_out, m_out, acc):
        for o in core.lines_with('O ', c_out):
            w = o.split()
            cmd = w[1] if len(w) > 1 else '?'
            acc['op_' + cmd] = acc.get('op_' + cmd, 0) + 1
            m = re.search(r'err=(\w+)', o)
            if m: acc['exc_' + m.group(1)] = acc.get('exc_' + m.group(1), 0) + 1
            if 'dup-refused' in o: acc['dup_refused'] = acc.get('dup_refused', 0) + 1
            if 'own-refused' in o: acc['own_refused'] = acc.get('own_refused', 0) + 1
            m = re.search(r'\| (\w+) n=(\d+)', o)
            if m:
                acc['kind_' + m.group(1)] = acc.get('kind_' + m.group(1), 0) + 1
                acc['max_len'] = max(acc.get('max_len', 0), int(m.group(2)))
        for i in core.lines_with('I ', c_out):
            for k, v in re.findall(r'(\w+)=(\d+)', i):
                if k in ('grow', 'shrink', 'sorts'): acc['array_' + k] = acc.get('array_' + k, 0) + int(v)

    def model_selfcheck(self, case, m_out):
        # the model never reports `ub` or a diverging iteration on generated (duplicate-free) inputs
        for l in m_out.split('\n'):
            if l.startswith('M '): return l
            if l.startswith('O ') and (' ub' in l or 'diverges' in l) and not l.startswith('O kf13'):
                return f'model observation `{l[:200]}`'
        return None


SPEC = C04()
