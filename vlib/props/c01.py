"""C01 — the collector never reclaims a reachable object (engine gcmark)."""
import hashlib, re, random
from ..runner import Spec, Case
from .. import core

NROOTS = 64
WORDS = 'PMRBQ'; SEQ = 'ALH'; ARR = 'AL'; MAPS = 'TE'
# kind letter -> (kind, default key type, default element / value type); the letters U / F are T / E with Ref keys
LETTER = {'P': ('P', 'R', 'R'), 'M': ('M', 'R', 'R'), 'R': ('R', 'R', 'R'), 'B': ('B', 'R', 'R'), 'A': ('A', 'R', 'R'), 'L': ('L', 'R', 'R'),
          'T': ('T', 'I', 'R'), 'U': ('T', 'R', 'R'), 'E': ('E', 'I', 'R'), 'F': ('E', 'R', 'R'), 'H': ('H', 'R', 'R'),
          'W': ('W', 'S', 'R'),
          'Y': ('Y', 'R', 'R'),        # a Type made at run time (new(Type, ...)): a registered object, a leaf for the marker
          'Q': ('Q', 'R', 'R')}        # an instance of a run-time type (arg = the type's id): refers to its Type through its header only      # W: a Thread object other than current(Thread) (new(Thread), never started); set(t, key, obj) stores into its table
NTLS = 64
LEAF_T = 'ISF'
CHAIN_CAP = {'R': 20000, 'P': 20000, 'A': 6000, 'H': 8000, 'U': 4000, 'L': 6000, 'E': 4000}

class Shadow:
    """the generator's own picture of the heap (keeps generated ops valid; not an oracle)"""
    def __init__(self, full):
        self.full = full
        self.o = {}            # id -> dict(kind, k, root, owner, el[list of tok], key[list], kt, vt: CURRENT key / element types[, raw])
        self.used = set()
        self.roots = ['n'] * NROOTS
        self.tls = {}
        self.ghost = set()     # targets of Tuples / ProbeMs that became garbage in full mode (KF-C01-dangling-tuple-item: never del them)
        self.lines = ['mode full' if full else 'mode exact']
        self.next_id = 0
        self.stats = {}
        self.stale = False     # exact mode: an xraise left mark bits set (new / pair / copy / chain / del / xbox / newraw are refused until the next collection)
        self.focus = False     # re-typing campaign: mostly containers, half of them leaf-typed, many assign / copy / clear
        self.autowalk = False  # random histories: after a collection, the Mark instances of a few live containers are walked (`walk`)
    # ---- helpers
    def emit(self, l):
        self.lines.append(l); k = l.split()[0]; self.stats[k] = self.stats.get(k, 0) + 1
    def fresh(self):
        i = self.next_id; self.next_id += 1; return i
    def usable(self, i): return i in self.o
    def israw(self, i): return self.o[i].get('raw', False)      # allocated with new_raw: not registered, not traced, never swept
    def owned(self, i):
        ow = self.o[i]['owner']; return ow is not None and ow in self.o
    def targets(self):
        return [i for i in self.o if not self.owned(i)]
    def refkeys(self, o): return o['kind'] in MAPS and o['kt'] == 'R'
    def refvals(self, o): return o['vt'] in 'RXD' if (o['kind'] in ARR or o['kind'] in MAPS) else True
    def is_deep(self, o): return (o['kind'] in ARR or o['kind'] in MAPS) and o['vt'] == 'D'     # elements `o<b>` stand for the objects b, b+1, b+2
    def out_edges(self, i):
        o = self.o[i]; e = [int(t[1:]) for t in o['el'] if t[0] == 'o'] if self.refvals(o) else []
        if self.is_deep(o): e = [b + f for b in e for f in (0, 1, 2)]
        if self.refkeys(o): e += list(o['key'])
        return e
    def has_incoming(self, i, except_slot=None):
        for j, o in self.o.items():
            if j == i: continue
            if ('o%d' % i) in o['el']: return True
            if self.is_deep(o) and any(t[0] == 'o' and int(t[1:]) <= i <= int(t[1:]) + 2 for t in o['el']): return True
            if self.refkeys(o) and i in o['key']: return True
        for s, t in enumerate(self.roots):
            if s != except_slot and t == 'o%d' % i: return True
        return ('o%d' % i) in self.tls.values()
    def reach(self, words=(), slots=False):
        seen = set(); st = []
        def push(t):
            if t and t[0] == 'o':
                i = int(t[1:])
                if i in self.o and i not in seen and not self.israw(i): seen.add(i); st.append(i)
        for t in self.tls.values(): push(t)
        for i, o in self.o.items():
            if o['root']: push('o%d' % i)
        if slots:
            for t in self.roots: push(t)
        for t in words: push(t)
        while st:
            i = st.pop()
            for j in self.out_edges(i): push('o%d' % j)
        return seen
    def checkpoint(self):
        live = self.reach(slots=True)
        for i in list(self.o):
            if i not in live:
                if self.o[i]['kind'] in 'HM': self.ghost.update(int(t[1:]) for t in self.o[i]['el'] if t[0] == 'o')
                del self.o[i]
    # ---- ops
    def new(self, letter, arg='-', slot=None, root=False, boxtgt=None):
        """letter: op-file kind letter; arg for containers: '-' or element type (A/L) or key type + value type (T/U/E/F)"""
        i = self.fresh(); self.used.add(i)
        kind, kt, vt = LETTER[letter]
        if kind in ARR and arg != '-': vt = arg
        if kind in MAPS and arg != '-': kt, vt = arg[0], arg[1]
        k = {'P': int(arg) if kind == 'P' else 0, 'M': 4, 'R': 1, 'B': 1, 'Q': 1}.get(kind, 0)
        self.o[i] = dict(kind=kind, k=k, root=root, owner=None, el=(['n'] * k if kind in WORDS else []), key=[], kt=kt, vt=vt)
        if kind == 'B': self.o[i]['el'][0] = 'o%d' % boxtgt; self.o[boxtgt]['owner'] = i; arg = str(boxtgt)
        if kind == 'Q': self.o[i]['ty'] = int(arg)
        where = '-' if slot is None else 's%d' % slot
        if slot is not None: self.roots[slot] = 'o%d' % i
        self.emit(f"new {i} {letter}{'!' if root else ''} {arg} {where}")
        if self.full: self.checkpoint()
        return i
    def newraw(self, letter, arg='-'):
        """a container allocated with new_raw (exact mode): the collector does not follow a path through it"""
        i = self.fresh(); self.used.add(i)
        kind, kt, vt = LETTER[letter]
        if kind in ARR and arg != '-': vt = arg
        if kind in MAPS and arg != '-': kt, vt = arg[0], arg[1]
        self.o[i] = dict(kind=kind, k=0, root=False, owner=None, el=[], key=[], kt=kt, vt=vt, raw=True)
        self.emit(f"newraw {i} {letter} {arg} -")
        return i
    # ---- re-typing ops
    def can_assign(self, d, s):
        if d == s or d not in self.o or s not in self.o: return False
        od, os_ = self.o[d], self.o[s]
        if self.is_deep(od) or self.is_deep(os_): return False      # ProbeDeep elements: dassign / dconcat only
        if od['kind'] in ARR and os_['kind'] in ARR: return True
        if od['kind'] in ARR and os_['kind'] == 'H':
            return all(t[0] == 'o' and int(t[1:]) in self.o and self.o[int(t[1:])]['kind'] != 'B' for t in os_['el'])
        if od['kind'] in MAPS and os_['kind'] in MAPS: return True
        return od['kind'] == 'H' and os_['kind'] == 'H'
    def assign(self, d, s):
        od, os_ = self.o[d], self.o[s]
        if od['kind'] in ARR and os_['kind'] == 'H':
            od['vt'] = 'R'
            od['el'] = [(self.o[int(t[1:])]['el'][0] if self.o[int(t[1:])]['kind'] == 'R' else t) for t in os_['el']]
        else:
            if od['kind'] in ARR: od['vt'] = os_['vt']
            if od['kind'] in MAPS: od['kt'], od['vt'] = os_['kt'], os_['vt']; od['key'] = list(os_['key'])
            od['el'] = list(os_['el'])
        self.emit(f'assign {d} {s}')
    def copy(self, s, slot=None):
        i = self.fresh(); self.used.add(i); os_ = self.o[s]
        self.o[i] = dict(kind=os_['kind'], k=0, root=False, owner=None, el=list(os_['el']), key=list(os_['key']), kt=os_['kt'], vt=os_['vt'])   # never raw
        if slot is not None: self.roots[slot] = 'o%d' % i
        self.emit(f"copy {i} {s} {'-' if slot is None else 's%d' % slot}")
        if self.full: self.checkpoint()
        return i
    def clear(self, i):
        self.o[i]['el'] = []; self.o[i]['key'] = []; self.emit(f'clear {i}')
    def trunc(self, i, n):
        if self.o[i]['kind'] in ARR: del self.o[i]['el'][n:]
        self.emit(f'trunc {i} {n}')
    def pair(self, slot=None):
        a = self.fresh(); b = self.fresh(); self.used.update((a, b))
        self.o[a] = dict(kind='R', k=1, root=False, owner=None, el=['n'], key=[], kt='R', vt='R')
        self.o[b] = dict(kind='R', k=1, root=False, owner=None, el=['o%d' % a], key=[], kt='R', vt='R')
        if slot is not None: self.roots[slot] = 'o%d' % b
        self.emit(f"pair {a} {b} {'-' if slot is None else 's%d' % slot}")
        if self.full: self.checkpoint()
        return a, b
    def store(self, i, slot, tok):
        self.o[i]['el'][slot] = tok; self.emit(f'store {i} {slot} {tok}')
    def push(self, i, tok):
        self.o[i]['el'].append(tok); self.emit(f'push {i} {tok}')
    def pop(self, i, idx):
        del self.o[i]['el'][idx]; self.emit(f'pop {i} {idx}')
    def aset(self, i, idx, tok):
        self.o[i]['el'][idx] = tok; self.emit(f'aset {i} {idx} {tok}')
    def tset(self, i, key, tok):
        o = self.o[i]
        if key in o['key']: o['el'][o['key'].index(key)] = tok
        else: o['key'].append(key); o['el'].append(tok)
        self.emit(f'tset {i} {key} {tok}')
    def trem(self, i, key):
        o = self.o[i]; j = o['key'].index(key)
        o['el'][j] = o['el'][-1]; o['key'][j] = o['key'][-1]; o['el'].pop(); o['key'].pop()
        self.emit(f'trem {i} {key}')
    def wset(self, i, k, tok):
        o = self.o[i]
        if k in o['key']: o['el'][o['key'].index(k)] = tok
        else: o['key'].append(k); o['el'].append(tok)
        self.emit(f'wset {i} {k} {tok}')
    def wrem(self, i, k):
        o = self.o[i]; j = o['key'].index(k)
        o['el'][j] = o['el'][-1]; o['key'][j] = o['key'][-1]; o['el'].pop(); o['key'].pop()
        self.emit(f'wrem {i} {k}')
    def settls(self, k, tok):
        self.tls[k] = tok; self.emit(f'tls {k} {tok}')
    def remtls(self, k):
        del self.tls[k]; self.emit(f'tlsrem {k}')
    def root(self, j, tok):
        self.roots[j] = tok; self.emit(f'root {j} {tok}')
    def delete(self, i):
        def rec(i):
            o = self.o.pop(i)
            if o['kind'] == 'B' and o['el'][0][0] == 'o' and int(o['el'][0][1:]) in self.o: rec(int(o['el'][0][1:]))
        rec(i); self.emit(f'del {i}')
    def arem(self, i, idx):
        """rem(container, value of element idx): removes the FIRST equal element (Array_Rem -> Array_Pop_At; List_Rem)"""
        j = self.o[i]['el'].index(self.o[i]['el'][idx]); del self.o[i]['el'][j]; self.emit(f'arem {i} {idx}')
    def ins(self, i, idx, tok):
        self.o[i]['el'].insert(idx, tok); self.emit(f'ins {i} {idx} {tok}')
    def concat(self, d, s):
        self.o[d]['el'] += list(self.o[s]['el']); self.emit(f'concat {d} {s}')
    # ---- a collection INSIDE a container operation (the k-th ProbeE destructor / Assign call of the operation runs it)
    def inner_ok(self, op):
        """is `op` (a tuple: name, container, args...) an operation xin / cin accept?"""
        name, i = op[0], op[1]
        if i not in self.o: return False
        o = self.o[i]
        if not (o['kind'] in ARR or o['kind'] in MAPS) or o.get('raw') or self.owned(i): return False
        if name in ('pop', 'arem'): return o['kind'] in ARR and 0 <= op[2] < len(o['el']) and (name == 'pop' or o['vt'] == 'X')
        if name == 'aset': return o['kind'] in ARR and 0 <= op[2] < len(o['el']) and (op[3] == 'n' or (op[3][0] == 'o' and self.tok_ok(op[3])))
        if name == 'push': return o['kind'] in ARR and (op[2] == 'n' or (op[2][0] == 'o' and self.tok_ok(op[2])))
        if name == 'ins':
            n = len(o['el'])
            return (o['kind'] in ARR and 0 <= op[2] <= n and not (o['kind'] == 'L' and op[2] == n and n != 0)
                    and (op[3] == 'n' or (op[3][0] == 'o' and self.tok_ok(op[3]))))
        if name == 'tset': return o['kind'] in MAPS and o['kt'] != 'R' and (op[3] == 'n' or (op[3][0] == 'o' and self.tok_ok(op[3])))
        if name == 'trem': return o['kind'] in MAPS and o['kt'] != 'R' and op[2] in o['key']
        if name == 'clear': return True
        if name == 'trunc': return o['kind'] in ARR and 1 <= op[2] <= len(o['el'])
        if name in ('assign', 'concat'):
            s = op[2]
            if s not in self.o or s == i or self.o[s].get('raw') or self.owned(s): return False
            os_ = self.o[s]
            if name == 'assign':
                return (o['kind'] in ARR and os_['kind'] in ARR) or (o['kind'] in MAPS and os_['kind'] in MAPS and o['kt'] != 'R' and os_['kt'] != 'R')
            return o['kind'] in ARR and os_['kind'] in ARR and o['vt'] == os_['vt']
        return False
    def tok_ok(self, t):
        i = int(t[1:]); return i in self.o and not self.owned(i)
    def inner_calls(self, op):
        """(destructor calls, Assign calls) of ProbeE elements the operation makes"""
        name, i = op[0], op[1]; o = self.o[i]; x = o['vt'] == 'X'; n = len(o['el'])
        if name in ('pop', 'arem', 'trem'): return (1 if x else 0, 0)
        if name in ('aset', 'push', 'ins'): return (0, 1 if x else 0)
        if name == 'tset': return (1 if (x and o['kind'] == 'T' and op[2] in o['key']) else 0, 1 if x else 0)
        if name == 'clear': return (n if x else 0, 0)
        if name == 'trunc': return (n - op[2] if x else 0, 0)
        sx = self.o[op[2]]['vt'] == 'X'; m = len(self.o[op[2]]['el'])
        if name == 'assign': return (n if x else 0, m if sx else 0)
        return (0, m if sx else 0)
    def inner_safe(self, op, k):
        """1: modelled; 0: known-finding territory (freed / unconstructed cells presented); -1: iteration order of the source not modelled"""
        name, i = op[0], op[1]; o = self.o[i]; nd, na = self.inner_calls(op)
        if k < 0 or k >= nd + na or name == 'tset': return 1
        chained = o['kind'] in 'LE'
        if k < nd: return (1 if (not chained or k == 0) else 0) if name in ('clear', 'assign') else 1
        j = k - nd
        if name in ('assign', 'concat'):
            if o['kind'] == 'A': return 1 if j == na - 1 else 0
            if o['kind'] in MAPS:
                os_ = self.o[op[2]]
                return 1 if (na == 1 or (os_['kind'] == 'E' and os_['kt'] == 'I')) else -1
        return 1
    def inner_text(self, op): return ' '.join(str(x) for x in op)
    def inner_apply(self, op):
        name, i = op[0], op[1]; o = self.o[i]
        if name == 'pop': del o['el'][op[2]]
        elif name == 'arem': del o['el'][o['el'].index(o['el'][op[2]])]
        elif name == 'aset': o['el'][op[2]] = op[3]
        elif name == 'push': o['el'].append(op[2])
        elif name == 'ins': o['el'].insert(op[2], op[3])
        elif name == 'tset':
            if op[2] in o['key']: o['el'][o['key'].index(op[2])] = op[3]
            else: o['key'].append(op[2]); o['el'].append(op[3])
        elif name == 'trem':
            j = o['key'].index(op[2]); o['el'][j] = o['el'][-1]; o['key'][j] = o['key'][-1]; o['el'].pop(); o['key'].pop()
        elif name == 'clear': o['el'] = []; o['key'] = []
        elif name == 'trunc': del o['el'][op[2]:]
        elif name == 'assign':
            os_ = self.o[op[2]]
            if o['kind'] in MAPS: o['kt'] = os_['kt']; o['key'] = list(os_['key'])
            o['vt'] = os_['vt']; o['el'] = list(os_['el'])
        elif name == 'concat': o['el'] += list(self.o[op[2]]['el'])
    def inner_operands(self, op):
        """what the caller's frame holds while the operation runs: the container and the operand"""
        ws = [f'o{op[1]}']
        if op[0] in ('aset', 'tset', 'ins') and op[3][0] == 'o': ws.append(op[3])
        if op[0] == 'push' and op[2][0] == 'o': ws.append(op[2])
        if op[0] in ('assign', 'concat'): ws.append(f'o{op[2]}')
        return ws
    def xin(self, k, words, op):
        """exact mode: `op` with an exact collection inside its k-th ProbeE call.  Whatever the container holds AFTER the operation (plus the
        operand) must survive; objects that only the intermediate state still presented may survive too (the generator forgets them)."""
        nd, na = self.inner_calls(op); safe = self.inner_safe(op, k)
        extra = self.inner_operands(op)
        self.inner_apply(op)
        if safe == 1 and k < nd + na:
            live = self.reach(words=list(words) + extra)
            for j in list(self.o):
                if j not in live and not self.israw(j): del self.o[j]
        self.emit(f"xin {k} {' '.join(words)}{' ' if words else ''}| {self.inner_text(op)}")
    def cin(self, k, op):
        self.inner_apply(op)
        self.emit(f'cin {k} | {self.inner_text(op)}'); self.checkpoint()
    # ---- containers of ProbeDeep elements (letter D): the element type's Assign instance allocates a fresh object per field (3 fields); a
    #      collection at an ALLOCATION POINT of the operation (4 per assigned element: in front of each allocation, behind the last store)
    def fresh3(self, n=1):
        b = self.next_id; self.next_id += 3 * n
        return b
    def deep_ok(self, op):
        name, i = op[0], op[1]
        if i not in self.o: return False
        o = self.o[i]
        if not self.is_deep(o) or o.get('raw') or self.owned(i): return False
        def tk(t): return t == 'n' or (t[0] == 'o' and self.tok_ok(t))
        n = len(o['el'])
        if name == 'dpush': return o['kind'] in ARR and tk(op[3])
        if name == 'dins': return o['kind'] in ARR and 0 <= op[2] <= n and not (o['kind'] == 'L' and op[2] == n and n != 0) and tk(op[4])
        if name == 'daset': return o['kind'] in ARR and 0 <= op[2] < n and tk(op[4])
        if name == 'dtset': return o['kind'] in MAPS and o['kt'] == 'I' and tk(op[4])
        if name in ('dconcat', 'dassign'):
            s = op[2]
            if s not in self.o or s == i or self.o[s].get('raw') or self.owned(s): return False
            return self.is_deep(self.o[s]) and o['kind'] in ARR and self.o[s]['kind'] in ARR
        return False
    def deep_count(self, op): return len(self.o[op[2]]['el']) if op[0] in ('dconcat', 'dassign') else 1
    def deep_safe(self, op, k):
        """1: modelled; 0: KF-C01-array-uninit-slots; 2: KF-C01-unlinked-entry-assign (the entry is assigned outside the structure)"""
        o = self.o[op[1]]; ne = self.deep_count(op)
        if k >= 4 * ne: return 1
        i, kk = divmod(k, 4)
        if o['kind'] == 'A': return 0 if (op[0] in ('dconcat', 'dassign') and i + 1 != ne) else 1
        if o['kind'] == 'L': return 1 if (op[0] == 'daset' or kk == 0) else 2
        if o['kind'] == 'T': return 1 if kk == 0 else 2
        return 1 if (op[2] in o['key'] or kk == 0) else 2
    def deep_all_safe(self, op): return all(self.deep_safe(op, k) == 1 for k in range(4 * self.deep_count(op)))
    def deep_points(self, op):
        """the allocation points at which a collection is modelled"""
        return [k for k in range(4 * self.deep_count(op)) if self.deep_safe(op, k) == 1]
    def deep_apply(self, op):
        name, i = op[0], op[1]; o = self.o[i]
        def mk(b, toks):
            for f in range(3):
                self.o[b + f] = dict(kind='P', k=1, root=False, owner=None, el=[toks[f]], key=[], kt='R', vt='R'); self.used.add(b + f)
        if name in ('dconcat', 'dassign'):
            src = list(self.o[op[2]]['el']); b = op[3]; new = []
            for n_, t in enumerate(src):
                sb = int(t[1:]); mk(b + 3 * n_, [f'o{sb + f}' for f in range(3)]); new.append(f'o{b + 3 * n_}')
            o['el'] = (o['el'] if name == 'dconcat' else []) + new
            return
        b, t = (op[2], op[3]) if name == 'dpush' else (op[3], op[4])
        mk(b, [t, t, t]); e = f'o{b}'
        if name == 'dpush': o['el'].append(e)
        elif name == 'dins': o['el'].insert(op[2], e)
        elif name == 'daset': o['el'][op[2]] = e
        else:
            if op[2] in o['key']: o['el'][o['key'].index(op[2])] = e
            else: o['key'].append(op[2]); o['el'].append(e)
    def deep_operands(self, op):
        return [f'o{op[1]}'] + ([f'o{op[2]}'] if op[0] in ('dconcat', 'dassign') else [op[-1]] if op[-1][0] == 'o' else [])
    def dplain(self, op):
        self.deep_apply(op); self.emit(self.inner_text(op))
        if self.full: self.checkpoint()
    def dxin(self, k, words, op):
        safe = self.deep_safe(op, k); ne = self.deep_count(op); extra = self.deep_operands(op)
        self.deep_apply(op)
        if safe == 1 and k < 4 * ne:
            live = self.reach(words=list(words) + extra)
            for j in list(self.o):
                if j not in live and not self.israw(j): del self.o[j]
        self.emit(f"xin {k} {' '.join(words)}{' ' if words else ''}| {self.inner_text(op)}")
    def dcin(self, k, op):
        self.deep_apply(op)
        self.emit(f'cin {k} | {self.inner_text(op)}'); self.checkpoint()
    def walk(self, i):
        """the Mark instance of container i called with a recording callback: every occupied position must be handed over (no state change)"""
        self.emit('walk tls' if i is None else f'walk {i}')
    def walk_some(self):
        r = random.Random((len(self.lines) * 2654435761) & 0xffffffff)      # a stream of its own: the histories stay what they were
        cs = [i for i in self.o if self.o[i]['kind'] in 'ALTEH']
        for i in r.sample(cs, min(len(cs), r.choice([0, 1, 1, 2]))): self.walk(i)
        if r.random() < 0.25: self.walk(None)
    def xcollect(self, words):
        live = self.reach(words=words)
        for i in list(self.o):
            if i not in live and not self.israw(i): del self.o[i]
        self.stale = False
        self.emit('xcollect ' + ' '.join(words) if words else 'xcollect')
        if self.autowalk: self.walk_some()
    def xraise(self, i, words):
        """exact mode: the Mark instance of ProbeM i throws when the marker reaches it (then: no sweep, the bits stay); not reached: an xcollect"""
        live = self.reach(words=words)
        if i in live: self.stale = True
        else:
            for j in list(self.o):
                if j not in live and not self.israw(j): del self.o[j]
            self.stale = False
        self.emit(f'xraise {i} ' + ' '.join(words) if words else f'xraise {i}')
    def craise(self, i):
        """full mode: the real GC_Mark is left by an exception thrown by the Mark instance of the reachable ProbeM i"""
        self.emit(f'craise {i}')
    def collect(self):
        self.emit('collect'); self.checkpoint()
        if self.autowalk: self.walk_some()
    def churn(self, n):
        self.emit(f'churn {n}'); self.checkpoint()
    def chain(self, n, letter, slot=None):
        base = self.next_id; self.next_id += n
        kind, kt, vt = LETTER[letter]
        for i in range(n - 1, -1, -1):
            k = 1 if kind in 'RP' else 0
            self.o[base + i] = dict(kind=kind, k=k, root=False, owner=None, el=(['n'] * k if kind in WORDS else []), key=[], kt=kt, vt=vt)
            self.used.add(base + i)
            if slot is not None: self.roots[slot + (i & 1)] = 'o%d' % (base + i)
            if i < n - 1:
                o = self.o[base + i]; t = 'o%d' % (base + i + 1)
                if kind in WORDS: o['el'][0] = t
                elif kind in SEQ: o['el'].append(t)
                elif kt != 'R': o['key'].append(7); o['el'].append(t)
                else: o['key'].append(base + i + 1); o['el'].append(t)
        self.emit(f"chain {base} {n} {letter} {'-' if slot is None else 's%d' % slot}")
        if self.full: self.checkpoint()
        return base

KINDS = ['P', 'P', 'P', 'R', 'R', 'M', 'A', 'L', 'T', 'U', 'E', 'F', 'H', 'H', 'B', 'W', 'Q']

FOCUS_KINDS = ['P', 'P', 'R', 'A', 'L', 'T', 'T', 'U', 'E', 'F', 'H', 'A', 'T']

def rand_types(rng, letter, focus=False):
    """type argument of `new` for a container: mostly the default (reference-bearing), sometimes leaf / mixed types"""
    if focus and letter in ARR: return rng.choice(['-', 'R', 'I', 'S', 'F', 'I', 'X', 'D'])
    if focus and letter in 'TUEF': return rng.choice(['-', 'II', 'SI', 'IS', 'SR', 'IR', 'IF', 'SS', 'RR', 'RI', 'SI', 'II', 'IX', 'SX', 'ID'])
    if letter in ARR: return rng.choice(['-', '-', 'R', 'I', 'S', 'F', 'I', 'X', 'X', 'D'])
    if letter in 'TUEF': return rng.choice(['-', '-', '-', 'II', 'SI', 'IS', 'SR', 'RI', 'IF', 'SS', 'RR', 'IR', 'RF', 'SF', 'IX', 'IX', 'SX', 'ID'])
    return '-'

def retype(rng, sh, cands, new_slot_fn):
    """a re-typing op on the live containers: assign between containers of different element types, copy, clear, trunc.
    Returns False when no candidate exists."""
    conts = [c for c in cands if sh.o[c]['kind'] in 'ALTEH']
    if not conts: return False
    q = rng.random()
    if q < 0.62:
        d = rng.choice(conts)
        srcs = [c for c in conts if sh.can_assign(d, c)]
        # prefer a source whose types differ from the target's (leaf -> reference-bearing and back)
        diff = [c for c in srcs if (sh.o[c]['kt'], sh.o[c]['vt']) != (sh.o[d]['kt'], sh.o[d]['vt']) or sh.o[c]['kind'] != sh.o[d]['kind']]
        if diff and rng.random() < 0.8: srcs = diff
        if not srcs: return False
        sh.assign(d, rng.choice(srcs))
    elif q < 0.80:
        c = [x for x in conts if not sh.is_deep(sh.o[x])]
        if not c: return False
        sh.copy(rng.choice(c), new_slot_fn())
    elif q < 0.90:
        c = [x for x in conts if sh.o[x]['kind'] != 'H']
        if not c: return False
        sh.clear(rng.choice(c))
    else:
        c = [x for x in conts if (sh.o[x]['kind'] in ARR and sh.o[x]['el']) or sh.o[x]['kind'] == 'T']
        if not c: return False
        i = rng.choice(c)
        if sh.o[i]['kind'] in ARR: sh.trunc(i, rng.randrange(1, len(sh.o[i]['el']) + 1))
        else: sh.trunc(i, max(1, len(sh.o[i]['el'])) + rng.choice([0, 1, 7, 40]))
    return True

def rand_tok(rng, sh, cands, junk=True):
    r = rng.random()
    if not cands or r < 0.07: return 'n'
    if junk and r < 0.16:
        return rng.choice([f'm{rng.choice(cands)}', f'i{rng.choice(cands)}', 'lo', 'hi', f's{rng.randrange(1 << 20)}'])
    return 'o%d' % rng.choice(cands)

def mutate(rng, sh, cands_fn, new_slot_fn):
    """one random mutation op; cands_fn() -> ids that may be pointed to / mutated"""
    cands = cands_fn()
    r = rng.random()
    if r < 0.28 or not cands:
        if rng.random() < 0.08:
            sh.pair(new_slot_fn()); return
        kind = rng.choice(FOCUS_KINDS if sh.focus else KINDS)
        if not sh.full and kind in 'ALTUEF' and rng.random() < 0.12:
            sh.newraw(kind, rand_types(rng, kind, sh.focus)); return
        if kind == 'Q':
            # an object of a type made at run time; generated histories keep the Type root-registered (in contract: KF-C01-type-outlived)
            tys = [i for i in sh.o if sh.o[i]['kind'] == 'Y' and sh.o[i]['root']]
            t = rng.choice(tys) if tys and rng.random() < 0.85 else sh.new('Y', root=True)
            sh.new('Q', arg=str(t), slot=new_slot_fn()); return
        def mk(kind, slot, root=False):
            return sh.new(kind, arg=str(rng.choice([1, 2, 4, 8])) if kind == 'P' else rand_types(rng, kind, sh.focus), slot=slot, root=root)
        if kind == 'B':
            slot = new_slot_fn()
            t = mk(rng.choice(['P', 'R', 'A', 'H']), slot)
            c2 = [c for c in cands_fn() if c != t and not sh.owned(c) and not (sh.o[t]['kind'] == 'H' and sh.israw(c))]
            if c2 and sh.o[t]['kind'] in WORDS: sh.store(t, 0, 'o%d' % rng.choice(c2))
            elif c2 and not sh.is_deep(sh.o[t]): sh.push(t, 'o%d' % rng.choice(c2))
            if t in sh.o and t not in sh.ghost and not sh.has_incoming(t, slot): sh.new('B', slot=slot, boxtgt=t)   # full mode: the box takes over the target's slot
            return
        mk(kind, new_slot_fn(), root=rng.random() < (0.04 if sh.full else 0.08))
        return
    if r < (0.58 if sh.focus else 0.40) and retype(rng, sh, cands, new_slot_fn): return
    mutate_existing(rng, sh, cands)

def mutate_existing(rng, sh, cands):
    """a store into an existing object (no allocation, no deletion): also what a program may do while stale mark bits are set"""
    if not cands: return
    i = rng.choice(cands); o = sh.o[i]; k = o['kind']
    tg = [c for c in cands if not sh.owned(c)]
    if sh.is_deep(o):
        # elements of type ProbeDeep enter through the deep ops only; removal is the ordinary op
        if o['el'] and rng.random() < 0.5:
            if k in ARR: sh.pop(i, rng.randrange(len(o['el'])))
            else: sh.trem(i, rng.choice(o['key']))
        elif not sh.owned(i) and not o.get('raw') and not sh.stale:
            t = rand_tok(rng, sh, tg, junk=False)
            op = ('dpush', i, sh.fresh3(), t) if k in ARR else ('dtset', i, rng.choice(o['key']) if (o['key'] and rng.random() < 0.5) else rng.randrange(-5, 40), sh.fresh3(), t)
            # full mode: a threshold collection may run at any allocation of the operation (known-finding territory for List / Table / Tree)
            if sh.deep_ok(op) and (not sh.full or sh.deep_all_safe(op)): sh.dplain(op)
        return
    if k in 'MH': tg = [c for c in tg if not sh.israw(c)]     # a Mark instance would hand the raw pointer to the callback
    if k in 'PRQ': sh.store(i, rng.randrange(o['k']), rand_tok(rng, sh, tg))
    elif k == 'M': sh.store(i, rng.randrange(4), rand_tok(rng, sh, tg, junk=False))
    elif k in 'BY': return
    elif k in SEQ:
        n = len(o['el']); q = rng.random()
        if n and q < 0.25: sh.pop(i, rng.randrange(n))
        elif n and q < 0.4:
            t = rand_tok(rng, sh, tg, junk=False)
            if k == 'H' and t == 'n': return
            sh.aset(i, rng.randrange(n), t)
        else:
            t = rand_tok(rng, sh, tg, junk=False)
            if k == 'H' and t == 'n': return
            sh.push(i, t)
    elif k == 'W':
        if o['key'] and rng.random() < 0.3: sh.wrem(i, rng.choice(o['key']))
        else: sh.wset(i, rng.randrange(8), rand_tok(rng, sh, tg, junk=False))
    elif k in MAPS and o['kt'] != 'R':
        if o['key'] and rng.random() < 0.3: sh.trem(i, rng.choice(o['key']))
        else: sh.tset(i, rng.choice([rng.randrange(-5, 40), rng.randrange(40) * 1265 + 3]), rand_tok(rng, sh, tg, junk=False))
    else:
        if o['key'] and rng.random() < 0.3: sh.trem(i, rng.choice(o['key']))
        elif tg: sh.tset(i, rng.choice(tg), rand_tok(rng, sh, tg, junk=False))

def rand_inner(rng, sh, cands, tg):
    """a container operation that calls ProbeE destructors / Assign instances, on a live container; None when there is none"""
    xs = [c for c in cands if sh.o[c]['kind'] in 'ALTE' and sh.o[c]['vt'] == 'X' and not sh.o[c].get('raw') and not (sh.o[c]['kind'] in MAPS and sh.o[c]['kt'] == 'R')]
    if not xs: return None
    def tok(): return rand_tok(rng, sh, tg, junk=False)
    for _ in range(6):
        i = rng.choice(xs); o = sh.o[i]; n = len(o['el']); q = rng.random()
        if o['kind'] in ARR:
            if q < 0.30 and n: op = ('pop', i, rng.choice([0, 0, n - 1, rng.randrange(n)]))
            elif q < 0.38 and n: op = ('arem', i, rng.randrange(n))
            elif q < 0.50 and n: op = ('aset', i, rng.randrange(n), tok())
            elif q < 0.60: op = ('push', i, tok())
            elif q < 0.66: op = ('ins', i, rng.choice([0, n // 2, max(0, n - 1), n if o['kind'] == 'A' else 0]), tok())
            elif q < 0.74: op = ('clear', i)
            elif q < 0.82 and n: op = ('trunc', i, rng.randrange(1, n + 1))
            else:
                srcs = [c for c in xs if c != i and sh.o[c]['kind'] in ARR]
                if not srcs: continue
                op = (rng.choice(['assign', 'concat']), i, rng.choice(srcs))
        else:
            if q < 0.35 and o['key']: op = ('trem', i, rng.choice(o['key']))
            elif q < 0.75: op = ('tset', i, rng.choice(o['key']) if (o['key'] and rng.random() < 0.5) else rng.choice([rng.randrange(-5, 40), rng.randrange(40) * 1265 + 3]), tok())
            elif q < 0.85: op = ('clear', i)
            else:
                srcs = [c for c in xs if c != i and sh.o[c]['kind'] in MAPS]
                if not srcs: continue
                op = ('assign', i, rng.choice(srcs))
        if sh.inner_ok(op): return op
    return None

def rand_k(rng, sh, op):
    """a call index at which the collection is modelled (mostly inside the operation, sometimes past its last call: no collection)"""
    nd, na = sh.inner_calls(op); n = nd + na
    ks = [k for k in range(n) if sh.inner_safe(op, k) == 1]
    if not ks or rng.random() < 0.06: return n + rng.randrange(2)
    return rng.choice([ks[0], ks[-1], rng.choice(ks), rng.choice(ks)])

def attach(sh, h, x):
    """store a pointer to x into the holder h (kinds R P: slot 0; A L H: push)"""
    if sh.o[h]['kind'] in 'RP': sh.store(h, 0, f'o{x}')
    else: sh.push(h, f'o{x}')

def after_raise(rng, sh, marked, probe):
    """mark bits are set (an exception left the mark phase; `marked` = objects whose bit is certainly set).  The program goes on: a few
    stores; often it attaches an object that the interrupted mark phase had not reached to a holder it had already marked — the next
    collection must keep that object (GC_Unmark; a collector that starts from the stale bits skips the holder)"""
    for _ in range(rng.randrange(0, 3)): mutate_existing(rng, sh, list(sh.o))
    if rng.random() < 0.75:
        hs = [i for i in marked if i in sh.o and sh.o[i]['kind'] in 'RPALH' and i != probe
              and not (sh.o[i]['kind'] in ARR and sh.o[i]['vt'] not in 'RX')]
        xs = [i for i in sh.o if i not in marked and i != probe and not sh.owned(i) and not sh.israw(i)]
        if hs and xs: attach(sh, rng.choice(hs), rng.choice(xs))
    for _ in range(rng.randrange(0, 3)): mutate_existing(rng, sh, list(sh.o))

def mk_x(rng, sh, slot=None):
    """a container of ProbeE elements / values"""
    l = rng.choice('ALTE'); return sh.new(l, arg='X' if l in ARR else rng.choice(['IX', 'IX', 'SX']), slot=slot)

def mk_d(rng, sh, slot=None, letters='AALTE'):
    """a container of ProbeDeep elements / values"""
    l = rng.choice(letters); return sh.new(l, arg='D' if l in ARR else 'ID', slot=slot)

def rand_deep(rng, sh, cands, tg):
    """an operation that assigns ProbeDeep elements (their Assign instance allocates), on a live container; None when there is none"""
    ds = [c for c in cands if sh.is_deep(sh.o[c]) and not sh.o[c].get('raw') and not sh.owned(c)]
    if not ds: return None
    def tok(): return rand_tok(rng, sh, tg, junk=False)
    for _ in range(6):
        i = rng.choice(ds); o = sh.o[i]; n = len(o['el']); q = rng.random()
        if o['kind'] in ARR:
            if q < 0.35: op = ('dpush', i, 0, tok())
            elif q < 0.55: op = ('dins', i, rng.choice([0, n // 2, max(0, n - 1), n if o['kind'] == 'A' else 0]), 0, tok())
            elif q < 0.75 and n: op = ('daset', i, rng.randrange(n), 0, tok())
            else:
                srcs = [c for c in ds if c != i and sh.o[c]['kind'] in ARR and len(sh.o[c]['el']) <= 6]
                if not srcs: continue
                op = (rng.choice(['dconcat', 'dassign']), i, rng.choice(srcs), 0)
        else:
            op = ('dtset', i, rng.choice(o['key']) if (o['key'] and rng.random() < 0.5) else rng.choice([rng.randrange(-5, 40), rng.randrange(40) * 1265 + 3]), 0, tok())
        if not sh.deep_ok(op): continue
        if sh.full and not sh.deep_all_safe(op): continue
        b = sh.fresh3(max(1, sh.deep_count(op)))
        if op[0] == 'dpush': return op[:2] + (b,) + op[3:]
        if op[0] in ('dconcat', 'dassign'): return op[:3] + (b,)
        return op[:3] + (b,) + op[4:]
    return None

def rand_point(rng, sh, op):
    """an allocation point at which the collection is modelled (sometimes past the last one: no collection)"""
    ks = sh.deep_points(op)
    if not ks or rng.random() < 0.06: return 4 * sh.deep_count(op) + rng.randrange(2)
    return rng.choice(ks)

def gen_exact(rng, nops, maxobj, ncollect, focus=False, mid=False):
    sh = Shadow(False); sh.focus = focus; sh.autowalk = True
    every = max(3, nops // max(1, ncollect))
    for step in range(nops):
        r = rng.random()
        alive = list(sh.o)
        if step % every == every - 1:
            tg = sh.targets(); words = []
            for _ in range(rng.choice([0, 1, 1, 2, 3, 5])):
                words.append(rand_tok(rng, sh, tg))
            ms = [i for i in sh.o if sh.o[i]['kind'] == 'M' and not sh.owned(i)]
            if ms and rng.random() < 0.3:
                # a collection whose mark phase an exception leaves (the Mark instance of a probe throws), then the next one
                m = rng.choice(ms)
                before = sh.reach(words=words)
                if m not in before:
                    # reached as a root word itself, after everything before it has been traced: the set of bits that stay is dumped and compared
                    if rng.random() < 0.85: words = words + [f'o{m}'] + [rand_tok(rng, sh, tg) for _ in range(rng.choice([0, 0, 1, 2]))]
                    marked = before
                else:
                    marked = sh.reach()      # reached somewhere inside the TLS / root / word phases (order-dependent: dumped as `*`)
                    marked = marked if m not in marked else set()
                sh.xraise(m, words)
                if sh.stale:
                    after_raise(rng, sh, marked, m)
                    tg = sh.targets()
                    sh.xcollect([rand_tok(rng, sh, tg) for _ in range(rng.choice([0, 0, 1, 2]))])
            else:
                sh.xcollect(words)
        elif r < 0.05:
            k = rng.randrange(8)
            if k in sh.tls and rng.random() < 0.5: sh.remtls(k)
            else: sh.settls(k, rand_tok(rng, sh, sh.targets(), junk=False))
        elif r < 0.08 and alive:
            c = [i for i in alive if not sh.has_incoming(i) and sh.o[i]['kind'] != 'Y']
            if c: sh.delete(rng.choice(c))
        elif r < (0.30 if mid else 0.12) and not sh.stale and rng.random() < 0.4:
            # a collection at an allocation point of an element's Assign instance (ProbeDeep elements)
            op = rand_deep(rng, sh, alive, sh.targets())
            if op is None:
                if len(alive) < maxobj: mk_d(rng, sh)
            else:
                tg = sh.targets()
                sh.dxin(rand_point(rng, sh, op), [rand_tok(rng, sh, tg) for _ in range(rng.choice([0, 0, 1, 2]))], op)
        elif r < (0.30 if mid else 0.12) and not sh.stale:
            op = rand_inner(rng, sh, alive, sh.targets())
            if op is None:
                if len(alive) < maxobj: mk_x(rng, sh)
            else:
                k = rand_k(rng, sh, op)
                tg = sh.targets()
                sh.xin(k, [rand_tok(rng, sh, tg) for _ in range(rng.choice([0, 0, 1, 2]))], op)
        elif len(alive) >= maxobj:
            mutate(rng, sh, lambda: list(sh.o), lambda: None) if rng.random() < 0.9 else sh.xcollect([])
        else:
            mutate(rng, sh, lambda: list(sh.o), lambda: None)
    sh.xcollect([])
    return sh

def gen_full(rng, nops, nslots, focus=False, mid=False):
    sh = Shadow(True); sh.focus = focus; sh.autowalk = True
    def live(): return sorted(sh.reach(slots=True) & set(sh.o))
    for step in range(nops):
        r = rng.random()
        lv = live()
        if r < 0.10: sh.root(rng.randrange(nslots), rand_tok(rng, sh, [i for i in lv if not sh.owned(i)], junk=False) if rng.random() < 0.5 else 'n')
        elif r < 0.14:
            k = rng.randrange(6)
            if k in sh.tls and rng.random() < 0.5: sh.remtls(k)
            else: sh.settls(k, rand_tok(rng, sh, [i for i in lv if not sh.owned(i)], junk=False))
        elif r < 0.20: sh.collect()
        elif r < 0.225:
            # the real GC_Mark left by an exception; then an object is attached to a holder that mark phase has (probably) marked
            ms = [i for i in lv if sh.o[i]['kind'] == 'M']
            if ms:
                m = rng.choice(ms); sh.craise(m)
                hs = [i for i in lv if sh.o[i]['kind'] in 'RP' and i != m and not sh.owned(i)]
                if hs and rng.random() < 0.8:
                    s_ = rng.randrange(nslots); x = sh.new('P', arg=str(rng.choice([1, 2, 8])), slot=s_)
                    if x in sh.o:
                        hs = [i for i in hs if i in sh.o and i in sh.reach(slots=True)]
                        if hs: sh.store(rng.choice(hs), 0, f'o{x}'); sh.root(s_, 'n')
                sh.collect()
        elif r < 0.24: sh.churn(rng.choice([1, 5, 20, 60, 150]))
        elif r < (0.40 if mid else 0.29):
            # a threshold collection INSIDE a container operation (the k-th ProbeE destructor / Assign call allocates past the threshold)
            free = [i for i in lv if not sh.owned(i)]
            if rng.random() < 0.4:
                op = rand_deep(rng, sh, lv, free)
                if op is None: mk_d(rng, sh, rng.randrange(nslots), letters='A')
                else: sh.dcin(rand_point(rng, sh, op), op)
                continue
            op = rand_inner(rng, sh, lv, free)
            if op is None: mk_x(rng, sh, rng.randrange(nslots))
            else: sh.cin(rand_k(rng, sh, op), op)
        elif r < 0.26:
            # explicit del of an object that has just become unreachable (before any allocation)
            c = [i for i in sh.o if i not in lv and i not in sh.ghost and not sh.has_incoming(i)]
            if c: sh.delete(rng.choice(c))
        else:
            mutate(rng, sh, live, lambda: rng.randrange(nslots))
    sh.collect()
    return sh

# ---------------------------------------------------------------- targeted shapes
def shape_cases(quick):
    cs = []
    def ex(name, fn):
        sh = Shadow(False); fn(sh); cs.append(Case(name, sh.lines, meta=dict(stats=sh.stats)))
    def cyc(sh):
        ids = [sh.new(k, arg='2' if k == 'P' else '-') for k in 'PRAHLTUEFM']
        n = len(ids)
        for a in range(n):
            i, j = ids[a], ids[(a + 1) % n]; k = sh.o[i]['kind']
            if k in 'PRM': sh.store(i, 0, f'o{j}')
            elif k in SEQ: sh.push(i, f'o{j}')
            elif sh.o[i]['kt'] != 'R': sh.tset(i, 1, f'o{j}')
            else: sh.tset(i, j, f'o{j}')
        sh.xcollect([f'o{ids[3]}'])      # whole cycle survives from any entry point
        sh.xcollect([f'm{ids[0]}', f'i{ids[0]}', 'lo', 'hi', 's4096'])   # no real root: whole cycle is swept
    ex('cycle_all_kinds', cyc)
    def selfref(sh):
        p = sh.new('P', arg='1'); sh.store(p, 0, f'o{p}')
        r = sh.new('R'); sh.store(r, 0, f'o{r}')
        h = sh.new('H'); sh.push(h, f'o{h}'); sh.push(h, f'o{h}')          # F26: heap Tuple containing itself
        a = sh.new('A'); sh.push(a, f'o{a}')
        u = sh.new('U'); sh.tset(u, u, f'o{u}')
        m = sh.new('M'); sh.store(m, 2, f'o{m}')
        sh.xcollect([f'o{h}', f'o{u}', f'o{m}'])
        sh.xcollect([f'o{h}'])
        sh.xcollect([])
    ex('self_reference', selfref)
    def tuple_cycle(sh):
        a = sh.new('H'); b = sh.new('H'); c = sh.new('H')
        sh.push(a, f'o{b}'); sh.push(b, f'o{c}'); sh.push(c, f'o{a}'); sh.push(c, f'o{b}')
        sh.xcollect([f'o{a}']); sh.xcollect([])
    ex('tuple_cycle_f26', tuple_cycle)
    def tls_only(sh):
        x = sh.new('P', arg='2'); y = sh.new('R'); sh.store(x, 1, f'o{y}')
        sh.settls(3, f'o{x}')
        sh.xcollect([])                   # F25: reachable only from thread-local storage
        sh.remtls(3); sh.xcollect([])
    ex('tls_only_f25', tls_only)
    def rt_types(sh):
        # objects of run-time types, in contract: the Type root-registered / held by a root word / reachable through a Ref; the instance dies first
        t0 = sh.new('Y', root=True); a = sh.new('Q', arg=str(t0)); b = sh.new('Q', arg=str(t0)); p = sh.new('P', arg='2')
        sh.store(a, 0, f'o{p}'); sh.store(p, 0, f'o{b}')
        sh.xcollect([f'o{a}']); sh.xcollect([f'm{a}', f'i{a}'])
        t1 = sh.new('Y'); c = sh.new('Q', arg=str(t1)); r = sh.new('R'); sh.store(r, 0, f'o{t1}'); sh.store(c, 0, f'o{r}')
        sh.xcollect([f'o{c}', f'o{t1}']); sh.xcollect([f'o{c}'])
        h = sh.new('H'); sh.push(h, f'o{c}'); arr = sh.new('A'); sh.push(arr, f'o{h}')
        sh.xcollect([f'o{arr}'])
        sh.xcollect([f'o{t1}'])           # the instance goes first ...
        sh.xcollect([])                   # ... then its Type
    ex('runtime_types_anchored', rt_types)
    def sharing(sh):
        for k in 'RAHLTUEFMB':
            leaf = sh.new('P', arg='1')
            if k == 'B': i = sh.new('B', boxtgt=leaf)
            else: i = sh.new(k)
            if k == 'R': sh.store(i, 0, f'o{leaf}')
            elif k == 'M': sh.store(i, 3, f'o{leaf}')
            elif k in SEQ: sh.push(i, f'o{leaf}'); sh.push(i, f'o{leaf}')
            elif k in 'TE': sh.tset(i, 5, f'o{leaf}')
            elif k in 'UF': sh.tset(i, leaf, 'n')     # reachable as a KEY only
            sh.xcollect([f'o{i}'])          # each representation alone keeps the leaf alive
            sh.xcollect([])
    ex('leaf_through_each_repr', sharing)
    def grow_shrink(sh):
        keep = [sh.new('P', arg='1') for _ in range(6)]
        a, l, t, u, e, h = [sh.new(k, root=True) for k in 'ALTUEH']
        n = 60 if quick else 400
        tg = []
        for j in range(n):
            x = sh.new('R'); tg.append(x)
            sh.push(a, f'o{x}'); sh.push(l, f'o{x}'); sh.tset(t, j * 1265, f'o{x}'); sh.tset(e, j, f'o{x}'); sh.push(h, f'o{x}')
            sh.tset(u, x, f'o{keep[j % 6]}')
            if j % 17 == 16: sh.xcollect([])
        holders = [a, l, t, u, e, h]
        sh.xcollect([])
        for j in range(n - 3):
            sh.pop(a, 0); sh.pop(l, len(sh.o[l]['el']) - 1); sh.trem(t, j * 1265); sh.trem(e, j); sh.pop(h, 0)
            if tg[j] in sh.o[u]['key']: sh.trem(u, tg[j])
            if j % 23 == 22: sh.xcollect([])
        sh.xcollect([])
        for i in holders[1:]: sh.delete(i)
        sh.xcollect([f'o{a}'])
    ex('container_grow_shrink_rehash', grow_shrink)
    def box_chain(sh):
        x = sh.new('P', arg='2'); y = sh.new('R'); sh.store(x, 0, f'o{y}')
        b = sh.new('B', boxtgt=x)
        r = sh.new('R', root=True); sh.store(r, 0, f'o{b}')
        sh.xcollect([])
        sh.store(r, 0, 'n'); sh.xcollect([])      # box and its owned object go together
        sh.delete(r)
    ex('box_owner', box_chain)
    def chains(sh):
        for k in 'RPAHULE':
            n = 300 if quick else CHAIN_CAP[k]
            b = sh.chain(n, k)
            sh.xcollect([f'o{b}'])
            sh.xcollect([f'o{b + n // 2}'])
            sh.xcollect([])
    ex('chains', chains)
    def wide(sh):
        n = 300 if quick else 20000
        a = sh.new('A', root=True); t = sh.new('T', root=True); h = sh.new('H', root=True)
        for j in range(n):
            x = sh.new('P', arg='1')
            [lambda: sh.push(a, f'o{x}'), lambda: sh.tset(t, j * 53, f'o{x}'), lambda: sh.push(h, f'o{x}')][j % 3]()
            if j % 4 == 3: sh.store(x, 0, f'o{x - 3}')
        sh.xcollect([])
        for j in range(n // 3 - 2): sh.pop(a, 0); sh.trem(t, (3 * j + 1) * 53)
        sh.xcollect([]); sh.delete(h); sh.xcollect([])
    ex('wide_containers', wide)
    # ---- re-typing: leaf-typed container assign()ed from a reference-bearing one, then the sole path to the objects; and back
    SEQ_LEAF = [('A', 'I'), ('A', 'S'), ('L', 'F'), ('L', 'I')]
    SEQ_REF = [('A', '-'), ('L', 'R'), ('H', '-')]
    MAP_LEAF = [('T', 'II'), ('T', 'SI'), ('E', 'IS'), ('E', 'II'), ('T', 'IF'), ('E', 'SF')]
    MAP_REF = [('T', 'IR'), ('U', '-'), ('E', 'SR'), ('F', 'RI'), ('T', 'RI'), ('F', '-')]
    def fill(sh, c, objs):
        """put the objects into container c (as values, and as keys where the keys are references)"""
        o = sh.o[c]
        for n, x in enumerate(objs):
            if o['kind'] in SEQ: sh.push(c, f'o{x}')
            elif o['kt'] == 'R': sh.tset(c, x, f'o{objs[(n + 1) % len(objs)]}')
            else: sh.tset(c, 100 + n, f'o{x}')
    def fresh_objs(sh, slot_fn=lambda: None):
        a = sh.new('P', arg='2', slot=slot_fn()); r = sh.new('R', slot=slot_fn()); b = sh.new('P', arg='1', slot=slot_fn())
        sh.store(r, 0, f'o{b}')
        return [a, r], [a, r, b]
    def retype_pairs(sh, dsts, srcs, via_copy):
        for (dl, dt) in dsts:
            for (sl, st) in srcs:
                d = sh.new(dl, arg=dt)
                fill(sh, d, [d])                          # leaf content (an Int that equals the container's own address, a String, ...)
                src = sh.new(sl, arg=st)
                direct, allo = fresh_objs(sh)
                fill(sh, src, direct)
                if via_copy:
                    c = sh.copy(src); sh.clear(src); sh.assign(d, c); sh.delete(c); sh.delete(src)
                else:
                    sh.assign(d, src); sh.delete(src)
                sh.xcollect([f'o{d}'])                    # the re-typed container is the sole path: everything survives
                sh.xcollect([f'o{d}'])
                back = sh.new(dl, arg=dt); fill(sh, back, [allo[0]])
                sh.assign(d, back)                        # back to leaf types: the objects are garbage, the container is not
                sh.xcollect([f'o{d}'])
                sh.xcollect([])
    ex('retype_seq_leaf_to_ref', lambda sh: retype_pairs(sh, SEQ_LEAF, SEQ_REF, False))
    ex('retype_map_leaf_to_ref', lambda sh: retype_pairs(sh, MAP_LEAF, MAP_REF, False))
    ex('retype_seq_via_copy_clear', lambda sh: retype_pairs(sh, SEQ_LEAF[:2], SEQ_REF[:2], True))
    ex('retype_map_via_copy_clear', lambda sh: retype_pairs(sh, MAP_LEAF[:3], MAP_REF[:3], True))
    def retype_tuple(sh):
        h1 = sh.new('H'); h2 = sh.new('H'); direct, allo = fresh_objs(sh)
        fill(sh, h2, direct); sh.assign(h1, h2); sh.delete(h2); sh.xcollect([f'o{h1}'])
        c = sh.copy(h1); sh.delete(h1); sh.xcollect([f'o{c}'])
        e = sh.new('H'); sh.assign(c, e); sh.xcollect([f'o{c}', f'o{e}'])
    ex('retype_tuple', retype_tuple)
    def retype_grow(sh):
        # re-typed containers keep working as containers: growth / rehash / shrink after the re-typing, TLS and root-flag holders
        n = 40 if quick else 600
        t = sh.new('T', arg='SI', root=True); a = sh.new('A', arg='F'); l = sh.new('L', arg='S'); e = sh.new('E', arg='II')
        sh.settls(2, f'o{a}'); hold = sh.new('R', root=True); sh.store(hold, 0, f'o{l}'); sh.settls(3, f'o{e}')
        st = sh.new('T', arg='IR'); sa = sh.new('L'); se = sh.new('F')
        x0 = sh.new('P', arg='1'); sh.tset(st, 0, f'o{x0}'); sh.push(sa, f'o{x0}'); sh.tset(se, x0, f'o{x0}')
        sh.assign(t, st); sh.assign(a, sa); sh.assign(l, sa); sh.assign(e, se)
        for c in (st, sa, se): sh.delete(c)
        xs = []
        for j in range(n):
            x = sh.new('P', arg='1'); xs.append(x)
            sh.tset(t, j * 1265 + 1, f'o{x}'); sh.push(a, f'o{x}'); sh.push(l, f'o{x}'); sh.tset(e, x, f'o{x}')
            if j % 13 == 12: sh.xcollect([])
        sh.trunc(t, 2 * n); sh.xcollect([])
        sh.trunc(a, n // 2); sh.trunc(l, n // 3); sh.xcollect([])
        for j in range(n - 2): sh.trem(t, j * 1265 + 1); sh.trem(e, xs[j])
        sh.xcollect([])
        for c in (a, l, t, e): sh.clear(c)
        sh.xcollect([])
    ex('retype_then_grow_shrink', retype_grow)
    def fullretype():
        sh = Shadow(True)
        slot = [20]
        def nx():
            slot[0] = 20 + (slot[0] - 19) % 30; return slot[0]
        k = 0
        for (dl, dt), (sl, st) in list(zip(SEQ_LEAF, SEQ_REF + SEQ_REF)) + list(zip(MAP_LEAF, MAP_REF)):
            ds = k % 6; k += 1
            d = sh.new(dl, arg=dt, slot=ds)
            if k % 3 == 1: sh.settls(k % 5, f'o{d}'); sh.root(ds, 'n')                     # held by thread-local storage only
            elif k % 3 == 2: hd = sh.new('R', slot=ds + 6, root=True); sh.store(hd, 0, f'o{d}'); sh.root(ds, 'n'); sh.root(ds + 6, 'n')   # by a root-registered holder
            sh.churn(20)
            ss = nx(); src = sh.new(sl, arg=st, slot=ss)
            used = []
            def sf():
                used.append(nx()); return used[-1]
            direct, allo = fresh_objs(sh, sf)
            fill(sh, src, direct)
            for u in used: sh.root(u, 'n')
            sh.assign(d, src); sh.root(ss, 'n')
            sh.collect(); sh.churn(rng_choice[k % len(rng_choice)]); sh.collect()
            if k % 2:
                c = sh.copy(d, slot=ss); sh.churn(30); sh.collect(); sh.root(ss, 'n')
            bs = nx(); back = sh.new(dl, arg=dt, slot=bs); sh.assign(d, back); sh.root(bs, 'n')
            sh.collect()
        cs.append(Case('full_retype_sole_path', sh.lines, meta=dict(stats=sh.stats)))
    rng_choice = [150, 40, 300, 90]
    fullretype()
    def fullshape(sh_unused=None):
        sh = Shadow(True)
        a = sh.new('A', slot=0); x = sh.new('P', arg='2', slot=1); sh.push(a, f'o{x}'); sh.root(1, 'n')
        hld = sh.new('R', slot=2, root=True); y = sh.new('H', slot=3); sh.store(hld, 0, f'o{y}'); sh.root(3, 'n'); sh.root(2, 'n')
        z = sh.new('T', slot=4); sh.settls(1, f'o{z}'); sh.root(4, 'n')
        w = sh.new('R', slot=5); sh.tset(z, 9, f'o{w}'); sh.root(5, 'n')
        sh.collect(); sh.churn(40); sh.collect()
        b = sh.chain(200, 'R', slot=8); sh.collect(); sh.root(8, 'n'); sh.root(9, 'n'); sh.churn(30); sh.collect()
        sh.remtls(1); sh.root(0, 'n'); sh.churn(10); sh.collect()
        cs.append(Case('full_three_root_kinds', sh.lines, meta=dict(stats=sh.stats)))
    fullshape()
    # ---- formerly excluded territory (fixes d8f0c4f, d3e4e44) and Thread objects other than current(Thread) (Thread_Mark, 0a0ad73)
    def raise_attach(sh):
        r = sh.new('R', root=True); a = sh.new('A', root=True); t = sh.new('P', arg='2'); sh.settls(1, f'o{t}')
        m = sh.new('M'); x = sh.new('P', arg='8'); y = sh.new('P', arg='1'); z = sh.new('R')
        sh.xraise(m, [f'o{m}', f'o{x}'])          # the bits of r, a, t, m stay; x is never visited
        sh.store(r, 0, f'o{x}'); sh.push(a, f'o{y}'); sh.store(t, 0, f'o{z}')
        sh.xcollect([])                           # x, y, z hang below holders whose bit was left set: kept
        sh.store(r, 0, 'n'); sh.xcollect([])
        m2 = sh.new('M'); sh.settls(2, f'o{m2}')
        sh.xraise(m2, []); sh.xraise(m2, [f'o{m2}'])     # left in the TLS phase, twice in a row
        sh.store(t, 1, f'o{y}'); sh.remtls(2); sh.xcollect([])
        sh.xcollect([])
    ex('raise_then_attach', raise_attach)
    def foreign_thread(sh):
        w = sh.new('W'); x = sh.new('P', arg='1'); y = sh.new('R'); sh.store(y, 0, f'o{x}')
        sh.wset(w, 1, f'o{y}'); sh.wset(w, 2, f'o{x}'); sh.wset(w, 3, 'n')
        sh.xcollect([f'o{w}', f'o{y}'])
        sh.xcollect([f'o{w}'])                    # the Thread object is the SOLE path (set(t, key, obj)): y and x survive
        z = sh.new('P', arg='2'); sh.wset(w, 1, f'o{z}'); sh.wrem(w, 2)
        hold = sh.new('A', root=True); sh.push(hold, f'o{w}'); sh.settls(5, f'o{w}')
        sh.xcollect([]); sh.xcollect([])          # w is kept by the Array / TLS, z through w's table; y, x are gone
        wr = sh.new('W', root=True); v = sh.new('R'); u = sh.new('P', arg='8'); sh.store(v, 0, f'o{u}'); sh.wset(wr, 0, f'o{v}'); sh.xcollect([])
        sh.wrem(wr, 0); sh.xcollect([])
        sh.delete(wr) if not sh.has_incoming(wr) else None
        sh.pop(hold, 0); sh.remtls(5); sh.xcollect([])
    ex('thread_table_sole_path', foreign_thread)
    def fullthread():
        # a Thread object that is not current(Thread), held by a stack slot / a root-registered holder / TLS, as the sole path to managed objects
        sh = Shadow(True)
        w = sh.new('W', slot=0); x = sh.new('P', arg='2', slot=1); y = sh.new('R', slot=2); sh.store(y, 0, f'o{x}')
        sh.wset(w, 1, f'o{y}'); sh.root(1, 'n'); sh.root(2, 'n')
        sh.collect(); sh.churn(150); sh.collect()
        z = sh.new('A', slot=3); q = sh.new('P', arg='8', slot=4); sh.push(z, f'o{q}'); sh.wset(w, 2, f'o{z}'); sh.root(3, 'n'); sh.root(4, 'n')
        sh.churn(60); sh.collect(); sh.churn(300); sh.collect()
        hd = sh.new('R', slot=5, root=True); sh.store(hd, 0, f'o{w}'); sh.root(0, 'n'); sh.root(5, 'n')
        sh.churn(100); sh.collect()
        sh.settls(2, f'o{w}'); sh.store(hd, 0, 'n'); sh.churn(40); sh.collect()
        wr = sh.new('W', slot=6, root=True); sh.root(6, 'n'); v = sh.new('H', slot=7); sh.wset(wr, 0, f'o{v}'); sh.root(7, 'n')
        sh.churn(200); sh.collect()
        sh.wrem(w, 1); sh.collect(); sh.churn(20); sh.collect()
        sh.remtls(2); sh.collect()
        cs.append(Case('full_thread_table_sole_path', sh.lines, meta=dict(stats=sh.stats)))
    fullthread()
    def del_null(sh):
        keep = sh.new('R', root=True)
        ps = [sh.new('P', arg='8') for _ in range(12)]
        for a, b in zip(ps, ps[1:]): sh.store(a, 7, f'o{b}')
        sh.store(keep, 0, f'o{ps[6]}')
        sh.xcollect([])                           # ps[0..5] are swept: each destructor calls del(NULL) while its own free-list slot is NULL
        sh.delete(ps[6]) if not sh.has_incoming(ps[6]) else sh.store(keep, 0, 'n')
        sh.xcollect([])
        arr = sh.new('A'); q = sh.new('P', arg='8'); sh.push(arr, f'o{q}'); t = sh.new('P', arg='8'); b = sh.new('B', boxtgt=t)
        sh.xcollect([])                           # a Box and its 8-slot target, an Array and an 8-slot probe: nested del during the release loop
    ex('del_null_in_destructor', del_null)
    def fullraise():
        sh = Shadow(True)
        h = sh.new('R', slot=0, root=True); sh.root(0, 'n')
        p = sh.new('P', arg='2', slot=1); m = sh.new('M', slot=2); sh.store(m, 0, f'o{p}')
        sh.craise(m)
        x = sh.new('P', arg='8', slot=3); sh.store(h, 0, f'o{x}'); sh.root(3, 'n')
        y = sh.new('R', slot=3); sh.store(p, 1, f'o{y}'); sh.root(3, 'n')
        sh.collect(); sh.churn(30); sh.collect()
        sh.craise(m); sh.craise(m)
        z = sh.new('P', arg='1', slot=4); sh.store(y, 0, f'o{z}'); sh.root(4, 'n'); sh.root(2, 'n'); sh.root(1, 'n')
        sh.collect(); sh.churn(10); sh.collect()
        cs.append(Case('full_raise_then_attach', sh.lines, meta=dict(stats=sh.stats)))
    fullraise()
    # ---- a collection INSIDE a container operation: the container is the sole path to the objects its elements point to
    def mid_matrix(sh):
        for letter, arg in (('A', 'X'), ('L', 'X'), ('T', 'IX'), ('E', 'IX'), ('T', 'SX')):
            seqk = letter in ARR
            def build(n):
                c = sh.new(letter, arg=arg); objs = []
                for j in range(n):
                    x = sh.new('P', arg=str([1, 2, 8][j % 3])); objs.append(x)
                    if seqk: sh.push(c, f'o{x}')
                    else: sh.tset(c, 10 * j + 3, f'o{x}')
                return c, objs
            # removal of the first / a middle / the last element, collection inside the removed element's destructor
            for pos in (0, 2, 4):
                c, objs = build(5)
                sh.xin(0, [], ('pop', c, pos) if seqk else ('trem', c, 10 * pos + 3))
                sh.xcollect([f'o{c}'])
            if seqk:
                c, objs = build(4); sh.aset(c, 2, f'o{objs[0]}')
                sh.xin(0, [], ('arem', c, 2)); sh.xcollect([f'o{c}'])      # rem(value): the first equal element goes
            # replacement and insertion: the old value's object may go, everything else stays
            c, objs = build(4); y = sh.new('P', arg='2')
            sh.xin(0, [], ('aset', c, 1, f'o{y}') if seqk else ('tset', c, 13, f'o{y}'))
            if not seqk:
                c2, o2 = build(3); z = sh.new('R')
                sh.xin(1, [f'o{c}'], ('tset', c2, 13, f'o{z}'))               # Table: the old value's destructor is the second call
                sh.xin(0, [f'o{c}'], ('tset', c2, 999, f'o{o2[0]}'))
                sh.xcollect([f'o{c2}', f'o{c}'])
            else:
                for j in range(7):                                           # crosses Array_Reserve_More (realloc moves the block)
                    z = sh.new('P', arg='1'); sh.xin(0, [], ('push', c, f'o{z}') if j % 2 else ('ins', c, [0, 2, len(sh.o[c]['el']) - 1][j % 3], f'o{z}'))
            sh.xcollect([f'o{c}'])
            # clear / shrink: every destructor call of an Array / Table; the first of a List / Tree (the later ones: known finding)
            c, objs = build(4)
            if seqk:
                sh.xin(1 if letter == 'A' else 0, [], ('trunc', c, 2)); sh.xcollect([f'o{c}'])
            for k in ((0, 2, 3) if letter in 'AT' else (0,)):
                c, objs = build(4); sh.xin(k, [f'o{objs[3]}'], ('clear', c)); sh.xcollect([f'o{c}'])
            # assign / concat from a container of the same family
            d, dobjs = build(3); s_, sobjs = build(3) if letter != 'T' else (None, None)
            if letter == 'T' or letter == 'E':
                s_ = sh.new('E', arg='IX'); sobjs = []
                for j in (5, 1, 9):
                    x = sh.new('R'); sobjs.append(x); sh.tset(s_, j, f'o{x}')
            nd, na = sh.inner_calls(('assign', d, s_))
            for k in range(nd + na):
                if sh.inner_safe(('assign', d, s_), k) == 1:
                    d, dobjs = build(3); sh.xin(k, [], ('assign', d, s_)); sh.xcollect([f'o{d}', f'o{s_}'])
            if seqk:
                d, dobjs = build(2)
                for k in range(len(sh.o[s_]['el'])):
                    if sh.inner_safe(('concat', d, s_), k) == 1: sh.xin(k, [], ('concat', d, s_))
                sh.xcollect([f'o{d}', f'o{s_}'])
            sh.xcollect([])
    ex('mid_op_matrix', mid_matrix)
    def fullmid():
        sh = Shadow(True)
        for n_, (letter, arg) in enumerate((('A', 'X'), ('L', 'X'), ('T', 'IX'), ('E', 'IX'))):
            seqk = letter in ARR
            c = sh.new(letter, arg=arg, slot=0)
            for j in range(4):
                x = sh.new('P', arg=str([1, 2, 8][j % 3]), slot=1 + j)
                if seqk: sh.push(c, f'o{x}')
                else: sh.tset(c, 10 * j + 3, f'o{x}')
                sh.root(1 + j, 'n')
            sh.churn(40); sh.collect()
            sh.cin(0, ('pop', c, 0) if seqk else ('trem', c, 3))               # the demo of seeded change c01_h
            sh.collect()
            sh.cin(0, ('pop', c, 1) if seqk else ('trem', c, 23))
            y = sh.new('R', slot=6); sh.cin(0, ('push', c, f'o{y}') if seqk else ('tset', c, 77, f'o{y}')); sh.root(6, 'n')
            sh.collect(); sh.churn(25)
            sh.cin(0, ('clear', c)); sh.collect()
        cs.append(Case('full_mid_op', sh.lines, meta=dict(stats=sh.stats)))
    fullmid()
    # ---- element types whose Assign instance ALLOCATES: a collection at every allocation point of push / push_at / set / concat / assign
    def deep_matrix(sh):
        keep = sh.new('P', arg='2')
        for letter, arg in (('A', 'D'), ('L', 'D'), ('T', 'ID'), ('E', 'ID')):
            seqk = letter in ARR
            def build(n):
                c = sh.new(letter, arg=arg)
                for j in range(n):
                    sh.dplain(('dpush', c, sh.fresh3(), f'o{keep}') if seqk else ('dtset', c, 10 * j + 3, sh.fresh3(), f'o{keep}'))
                return c
            def every_point(c, mkop, also=()):
                # the same operation once per modelled allocation point; the container stays the sole path to the copies
                op0 = mkop(0)
                for k in sh.deep_points(op0) + [4 * sh.deep_count(op0)]:
                    op = mkop(sh.fresh3(max(1, sh.deep_count(op0))))
                    sh.dxin(k, [f'o{x}' for x in also], op)
                    sh.xcollect([f'o{c}'] + [f'o{x}' for x in also])
            c = build(2)
            if seqk:
                every_point(c, lambda b: ('dpush', c, b, f'o{keep}'))
                for pos in (0, 1):
                    every_point(c, lambda b: ('dins', c, pos, b, 'n'))
                if letter == 'A': every_point(c, lambda b: ('dins', c, len(sh.o[c]['el']), b, f'o{keep}'))
                every_point(c, lambda b: ('daset', c, 1, b, f'o{keep}'))
                for j in range(7):              # crosses Array_Reserve_More (realloc moves the block under the element being assigned)
                    sh.dxin(1 + j % 3 if letter == 'A' else 0, [], ('dpush', c, sh.fresh3(), 'n'))
                sh.xcollect([f'o{c}'])
                s1 = build(1); s3 = build(3); d = build(2)
                every_point(c, lambda b: ('dconcat', c, s1, b), also=(s1, s3, d))
                every_point(c, lambda b: ('dconcat', c, s3, b), also=(s1, s3, d))
                every_point(d, lambda b: ('dassign', d, s3, b), also=(s1, s3, c))
                every_point(d, lambda b: ('dassign', d, s1, b), also=(s1, s3, c))
                sh.xcollect([f'o{c}', f'o{d}'])
            else:
                every_point(c, lambda b: ('dtset', c, 13, b, f'o{keep}'))       # the key exists
                every_point(c, lambda b: ('dtset', c, 777, b, 'n'))             # a new key (point 0 only: the entry is built outside the structure)
                every_point(c, lambda b: ('dtset', c, -4, b, f'o{keep}'))
            sh.xcollect([f'o{c}'])
        sh.xcollect([])
    ex('deep_assign_matrix', deep_matrix)
    def fulldeep():
        sh = Shadow(True)
        keep = sh.new('P', arg='2', slot=1)
        c = sh.new('A', arg='D', slot=0)
        for rnd in range(3):
            for k in range(5):
                sh.dcin(k, ('dpush', c, sh.fresh3(), f'o{keep}'))               # the demo of seeded change c01_l (threshold collection inside the push)
            sh.collect()
            n = len(sh.o[c]['el'])
            for k in range(4):
                sh.dcin(k, ('dins', c, [0, n // 2, len(sh.o[c]['el'])][k % 3], sh.fresh3(), 'n'))
                sh.dcin(3 - k, ('daset', c, k, sh.fresh3(), f'o{keep}'))
            sh.churn(30); sh.collect()
        s1 = sh.new('A', arg='D', slot=2); sh.dplain(('dpush', s1, sh.fresh3(), f'o{keep}'))
        for k in range(4):
            sh.dcin(k, ('dconcat', c, s1, sh.fresh3()))
        d = sh.new('A', arg='D', slot=3)
        for k in range(4):
            sh.dcin(k, ('dassign', d, s1, sh.fresh3()))
        sh.root(2, 'n'); sh.collect(); sh.churn(20); sh.collect()
        cs.append(Case('full_deep_assign', sh.lines, meta=dict(stats=sh.stats)))
    fulldeep()
    # ---- extension round: every container's Mark instance presents EVERY occupied position (first / last slot of a Table of every size, entries that
    #      wrapped round the end of the slot array, last element of Array / List / Tuple, leftmost / rightmost Tree node, the thread-local table)
    TPRIMES = (5, 11, 23, 53, 101, 197) if quick else (5, 11, 23, 53, 101, 197, 389, 683)
    def ideal(n):
        want = int((n + 1) / 0.9)
        return next(p for p in (0, 1, 5, 11, 23, 53, 101, 197, 389, 683, 1259) if p >= want)
    def walk_tables(sh):
        for P in TPRIMES:
            # as many Int keys as make the table P slots wide (hash(Int) = its value): P-1 sits in the LAST slot, 2P-1 and 3P-1 wrap round to the first ones
            n = next(k for k in range(1, 2000) if ideal(k) == P)
            t = sh.new('T', arg='IR'); objs = []
            keys = [P - 1, 2 * P - 1, 0, 3 * P - 1] + [j for j in range(1, 4 * P) if j % P not in (0, P - 1)]
            for key in keys[:n]:
                x = sh.new('P', arg='1'); objs.append(x); sh.tset(t, key, f'o{x}'); sh.walk(t)
            sh.xcollect([f'o{t}'])                 # the table is the sole path: the object under the last slot's key survives
            sh.trem(t, 0) if 0 in sh.o[t]['key'] else None
            sh.walk(t); sh.xcollect([f'o{t}'])
            for key in list(sh.o[t]['key'])[2:]: sh.trem(t, key)
            sh.walk(t); sh.xcollect([f'o{t}'])
            u = sh.new('U')                        # Ref keys: hash = the pointer
            for x in objs[:min(len(objs), 9)]:
                if x in sh.o: sh.tset(u, x, f'o{x}'); sh.walk(u)
            sh.xcollect([f'o{u}']); sh.xcollect([])
        for k in range(12):                        # the thread-local table (String keys), grown and shrunk
            x = sh.new('R'); sh.settls(k, f'o{x}'); sh.walk(None)
        sh.xcollect([])
        for k in range(12): sh.remtls(k); sh.walk(None)
        sh.xcollect([])
    ex('mark_walk_table_slots', walk_tables)
    def walk_seqs(sh):
        for letter, arg in (('A', '-'), ('L', '-'), ('H', '-'), ('A', 'I'), ('L', 'S'), ('A', 'X'), ('E', 'IR'), ('F', '-'), ('E', 'SR')):
            c = sh.new(letter, arg=arg); sh.walk(c)
            n = 9 if quick else 40
            objs = []
            for j in range(n):
                x = sh.new('P', arg='1'); objs.append(x)
                if letter in SEQ: sh.push(c, f'o{x}')
                elif letter == 'F': sh.tset(c, x, f'o{x}')
                else: sh.tset(c, (j * 7) % n if j % 2 else -j, f'o{x}')     # descending and scattered keys: leftmost / rightmost node change
                sh.walk(c)
                if j in (0, 1, n - 1): sh.xcollect([f'o{c}'])                # the LAST element / rightmost node is the sole path to its object
            if letter in SEQ:
                sh.pop(c, 0); sh.walk(c); sh.pop(c, len(sh.o[c]['el']) - 1); sh.walk(c)
                if letter != 'H': sh.ins(c, 0, f'o{objs[0]}') if objs[0] in sh.o else None
                sh.walk(c)
            else:
                ks = list(sh.o[c]['key']); sh.trem(c, min(ks) if letter == 'E' else ks[0]); sh.walk(c)
                ks = list(sh.o[c]['key']); sh.trem(c, max(ks) if letter == 'E' else ks[-1]); sh.walk(c)
            sh.xcollect([f'o{c}'])
            if letter != 'H': sh.clear(c); sh.walk(c)
            sh.xcollect([])
    ex('mark_walk_sequences_trees', walk_seqs)
    def fullwalk():
        sh = Shadow(True)
        t = sh.new('T', arg='IR', slot=0); a = sh.new('A', slot=1); l = sh.new('L', slot=2); e = sh.new('E', slot=3)
        for j, key in enumerate([22, 45, 0, 68] + list(range(1, 9))):
            x = sh.new('P', arg='1', slot=5); sh.tset(t, key, f'o{x}'); sh.push(a, f'o{x}'); sh.push(l, f'o{x}'); sh.tset(e, -key, f'o{x}'); sh.root(5, 'n')
            for c in (t, a, l, e): sh.walk(c)
            if j % 4 == 3: sh.churn(30); sh.collect()
        sh.walk(None); sh.collect()
        cs.append(Case('full_mark_walk', sh.lines, meta=dict(stats=sh.stats)))
    fullwalk()
    bad = ['mode exact', 'new 0 P 3 -', 'new 0 Q - -', 'new 0 P 2 -', 'new 0 R - -', 'store 0 2 n', 'store 0 0 o9', 'store 0 0 x1', 'push 0 o0', 'new 1 H - -',
           'push 1 n', 'pop 1 0', 'tset 1 0 o0', 'trem 1 0', 'tlsrem 5', 'tls 99 n', 'root 64 n', 'del 7', 'collect', 'churn 3', 'mode full', 'new 2 B 0 -', 'new 3 B 0 -',
           'store 1 0 o0', 'push 1 o0', 'del 0', 'xcollect o0 zz', 'xcollect o1', 'frobnicate', 'new 4 P 1 s70', 'chain 10 0 R -', 'chain 10 3 Q -', 'chain 10 3 R -', 'chain 11 2 R -',
           'deepchild 0 R', 'xcollect o10 o2', 'del 2', 'xcollect', 'new 20 W I -', 'new 20 W - -', 'wset 20 64 n', 'wset 20 1 m20', 'wset 1 1 n', 'wrem 20 1', 'wset 20 1 o20',
           'push 20 o20', 'store 20 0 n', 'tset 20 1 n', 'copy 21 20 -', 'assign 20 1', 'craise 1', 'xraise 20', 'new 21 M - -', 'xraise 21 o21', 'new 22 P 1 -', 'del 21',
           'wset 20 2 o21', 'xcollect', 'wrem 20 2', 'wrem 20 1', 'xcollect', 'walk 20', 'walk 22', 'walk 99', 'walk', 'walk tls', 'walk tls x', 'new 30 A - -', 'walk 30']
    cs.append(Case('bad_ops', bad))
    if not quick:
        cs.append(Case('deep_children', ['mode exact'] + [f'deepchild {n} {k}' for n in (100, 2000, 15000) for k in 'RPAH']))
    return cs

def mark_clears_first(repo):
    """does GC_Mark of the tree under test clear every mark bit before its first phase?  (same reading as translate/g_gcmark.py:
    `markClearsFirst`; the exact-mode replica of GC_Mark's phases in the harness follows it through -DC01_MARK_CLEARS_FIRST)"""
    try:
        src = open(f'{repo}/src/GC.c', encoding='utf-8', errors='replace').read()
        m = re.search(r'void\s+GC_Mark\s*\(struct GC\*\s*gc\)\s*\{(.*?)mark\(current\(Thread\)', src, flags=re.S)
        if not m: return False
        pro = re.sub(r'/\*.*?\*/', ' ', m.group(1), flags=re.S)
        pro = re.sub(r'\s+', ' ', pro.split('return; }', 1)[-1]).strip()
        if 'marked = false' in pro or 'marked = 0' in pro: return True
        mc = re.fullmatch(r'(\w+)\(gc\);', pro)
        if mc:
            mb = re.search(r'\b' + mc.group(1) + r'\s*\(struct GC\*\s*gc\)\s*\{(.*?)\n\}', src, flags=re.S)
            return bool(mb and re.search(r'marked = (false|0)', mb.group(1)))
        return False
    except OSError:
        return False

class C01(Spec):
    id = 'C01'; engine = 'gcmark'; harness = 'h_gcmark'; driver = 'drv_gcmark'
    generators = ('GcMark', 'GcMid', 'GcWalk')
    harness_timeout = 600
    @property
    def harness_defines(self):
        return ('C01_MARK_CLEARS_FIRST',) if mark_clears_first(core.REPO) else ()
    technique = ('Lean 4 proof: worklist model of GC_Mark_Item/GC_Recurse/GC_Mark_And_Recurse/GC_Mark/GC_Sweep is complete and sound for graph '
                 'reachability through every object representation; source-derived tables and fix-sensitive shapes regenerated each run; '
                 'white-box differential check of mark bits and swept sets against the real collector; shadow-graph oracle on the real GC_Mark')
    level_text = ('Theorems C01_mark_complete / C01_sweep_safe (mark phase and unlink phase on clear mark bits): for every registered heap (any finite graph: cycles, sharing, self references, chains of any '
                  'length), every object representation (plain words, Ref, Box, Array, List, Table keys+values, Tree keys+values, heap Tuple, thread-local table, the table of any other Thread object; '
                  'containers with their CURRENT element / key / value types, which assign() between containers redefines) '
                  'and every root set of the three kinds, the model of the mark phase marks every object reachable from the roots, and the model of the sweep '
                  'keeps every marked or root-flagged entry registered with unchanged contents and off the pending list; the marker is a total function that '
                  'traces each entry at most once. Histories include the re-typing operations (assign between containers of different element types, copy, '
                  'resize to 0): after assign the target presents to the marker exactly what the source presents (C01_assign_retypes), and a re-typed container '
                  'that is the sole path to an object keeps it alive (C01_retyped_sole_path_safe). The leaf-type list of GC_Recurse, the set of types declaring a Mark instance, the guarded shape of '
                  'GC_Mark_And_Recurse, the TLS callback, the scan bound, the texts of the container Mark functions, the condition of every `return` / every loop header / every '
                  'struct member read in them (no early return, loop over all slots / items, no cached flag), the members of the container structs and the functions '
                  'that redefine the element types are regenerated from /repo on every run and the theorems are re-checked against them. The model is tied to the real collector by running generated heap histories on both and comparing '
                  'mark bits and swept sets exactly (real GC_Mark_Item/GC_Recurse/Mark instances/GC_Sweep on chosen root words), and the real GC_Mark (stack scan, '
                  'threshold-triggered and forced collections) is checked against a shadow-graph oracle: reachable ⊆ survivors, contents intact. '
                  'The WHOLE collection is modelled: the mark bits are part of the state of a history (C01_mark_exact_from / C01_sweep_exact_from: a mark phase that '
                  'starts from bits that are already set marks exactly those and what is reachable through unmarked entries), and the release loop of GC_Sweep with '
                  'Box_Del -> del -> GC_Rem_Ptr (with its early-out for NULL, fix d3e4e44: C01_del_null_noop) is modelled (C01_release_within_pending, C01_release_bounded). '
                  'For the code as it is — GC_Mark begins with GC_Unmark, fix d8f0c4f, read from the source on every run as clearFirstNow — C01_collect_safe_current / '
                  'C01_collect_safe_any_bits / C01_current_source_history / C01_history_safe_exclusive prove "not put on the pending list, not finalised, contents unchanged" for EVERY '
                  'history, including those in which exceptions leave mark phases and whatever mark bits are set, under one explicit decidable hypothesis: no freed entry owns a '
                  'surviving one (Box ownership contract, an exclusion; C01_box_contract derives it from "no reachable object is owned by an unreachable Box"; refuted without: '
                  'C01_collect_safe_box_refuted). The collector before a repair is an explicit OLD variant of the model with its witness kept: clearFirst = false '
                  '(C01_stale_marks_refuted, C01_collect_safe_stale_refuted), remPtrPre (C01_del_null_old_refuted), tlsCallback = false, guarded = false; the withdrawn '
                  'guard of Thread_Mark (80c795e, reverted by 0a0ad73) is the variant Cfg.threadGuarded, refuted by C01_thread_guard_refuted (a Thread object other than '
                  'current(Thread) as the sole path to objects stored in its table). '
                  'A collection INSIDE a container operation (the destructor or Assign instance of an embedded element allocates past the threshold while '
                  'Array_Pop_At / Array_Rem / Array_Pop / Array_Push / Array_Set / Array_Clear / Array_Resize, List_Pop_At / List_Pop / List_Rem / List_Push / '
                  'List_Push_At / List_Set / List_Resize / List_Concat, Table_Set_Move / Table_Rem / Table_Clear / Table_Assign, Tree_Set / Tree_Rem is in '
                  'progress): Cello/HeapMid.lean runs the statement lists that the translator extracts from Array.c, List.c, Table.c, Tree.c on every run '
                  '(CelloGen/GcMid.lean: where destruct / assign stand relative to nitems--, List_Unlink, memset, memcpy, free, head = NULL) and records what the '
                  'Mark instance presents inside every element call; the C01_*_mark_safe theorems prove, for every container content, index and block size, that '
                  'each such intermediate state reads only constructed elements and presents every element the container keeps (operand excepted), and '
                  'C01_mid_op_collection_safe turns that into: a collection inside the call does not put on the pending list anything that is reachable when '
                  'the operation completes. The order `nitems--` before `destruct` in Array_Pop_At is refuted (C01_array_pop_at_dec_first_refuted). Refuted '
                  'on the unchanged tree (proposed known findings): List_Clear / Tree_Clear_Entry present freed cells to a collection inside the destructor '
                  'of any element but the first, Array_Assign / Array_Concat (and Array_New) count unconstructed slots while the elements are assigned. '
                  'Element types whose Assign instance ALLOCATES (a record of several managed fields, each obtained by new / copy inside Assign: a deep copy): '
                  'every allocation is a point at which a threshold collection can run while the fields stored so far are reachable through the element under '
                  'assignment only. Mid.DMach runs the same statement lists and records what the Mark instance presents at every allocation point (AView: the '
                  'target element in its partly assigned state); DeepSafe = only constructed cells, every kept element, and the element under assignment as soon '
                  'as it holds a new field. Proved for every content / index / block size / element type for the operations that publish the element before '
                  'they assign it — Array_Push, Array_Push_At (nitems++ and Array_Alloc first), Array_Set, List_Set, Tree_Set on an existing key '
                  '(C01_array_push_deep_safe, C01_array_push_at_deep_safe, C01_seq_set_deep_safe, C01_tree_set_deep_safe) — and turned into the property by '
                  'C01_deep_op_collection_safe (a collection at that point, with no extra root, keeps everything reachable through the kept elements and the '
                  'stored fields). The order `nitems++` behind `assign` is refuted (C01_array_push_count_after_assign_refuted, '
                  'C01_array_push_at_count_after_assign_refuted: the model run loses the first field). Refuted on the unchanged tree (proposed known finding '
                  'KF-C01-unlinked-entry-assign, C01_entry_assign_deep_safe_refuted): List_Push / List_Push_At / Table_Set_Move / Tree_Set on a new key assign the '
                  'entry while it lies outside the structure. '
                  'Extension round — the LOOPS of the Mark instances are terms, not texts: translate/g_gcmark.py (generator GcWalk) turns the header of Array_Mark / Table_Mark '
                  '(start, comparison, `- k` on the bound, step, the hash guard, which of item / key / value the body hands over), of List_Mark (from head or tail, the loop '
                  'condition, the link followed) and of Tuple_Mark (start, the NULL test, step) into CelloGen/GcWalk.lean; Cello/HeapWalk.lean runs them on a block of n positions / '
                  'a slot array, and C01_array_mark_presents_all, C01_table_mark_presents_all (+ C01_table_mark_last_slot), C01_list_mark_presents_all, C01_tuple_mark_presents_all prove for EVERY '
                  'content that each occupied position — first, last, every slot of a table of any size — is handed to the callback exactly once and nothing else is; '
                  'C01_cont_fields_are_loop_walks identifies that with what `fields` of the abstract model presents; seven planted headers are refuted (C01_mark_loop_variants_refuted). '
                  'GC_Set\'s two bound updates are extracted as comparison operators and proved to be the max / min step of Heap.register, in front of the threshold collection, '
                  'with no other writer (C01_gc_set_bounds); the two loops of GC_Mark_Stack are extracted and proved to hand over every word between &stk and gc->bottom, both '
                  'ends included, in either direction of stack growth (C01_stack_scan_covers; exclusive comparisons refuted).')
    level_note = ('Trusted: Lean kernel; axioms propext/Quot.sound/Classical.choice at most; translate/g_gcmark.py (regex over GC.c and the Mark instances); the '
                  'harness/driver comparison (testing); the registry lookup inside GC_Mark_Item is abstracted as a finite map (its correctness is C17). '
                  'Not covered: recursion depth of the C marker (known finding F27: chains of about 10^5 links overflow the C stack), dangling pointers in '
                  'Tuples after an explicit del (known finding KF-C01-dangling-tuple-item), other threads running concurrently (C13: Thread_Mark walks the table of a '
                  'Thread object that may be running, unsynchronised), '
                  'paths through objects that are not registered (new_raw / unregistered by hand: the chain must consist of registered objects), '
                  'Box targets referenced from elsewhere (Box ownership contract: explicit hypothesis boxExclusive of the _partial theorems).')
    rule = ('heap-graph histories over 11 object kinds (plain structs of 1-8 words, a probe with its own Mark instance, Ref, Box, Array/List of Ref, Table '
            'Int->Ref and Ref->Ref, Tree Int->Ref and Ref->Ref, heap Tuple) plus a Thread object other than current(Thread) with objects stored in its table (set(t, key, obj)), '
            'Array/List of Int/String/Float and Table/Tree with key type Ref/Int/String and value '
            'type Ref/Int/String/Float; re-typing ops: assign between Array/List (and from a heap Tuple), between Table/Tree, between Tuples (the target takes over the '
            'source\'s element types: leaf -> reference-bearing and back), copy, resize to 0 / shrink / rehash, after which the container is the sole path (root word, '
            'stack slot, root-registered holder, TLS) to objects across exact, forced and threshold collections; random pointer stores (incl. misaligned, interior, out-of-range and small-integer '
            'words), container push/pop/set/remove crossing grow/shrink/rehash, TLS entries, root-registered holders, stack-slot roots, explicit del, and '
            'collections; exact mode: real mark functions on a chosen root-word list + real GC_Sweep, mark bits and swept set compared with the model; full mode: '
            'real GC_Mark/GC_Sweep triggered by allocation thresholds and forced. Targeted shapes: cycles through all kinds, self references, tuple cycles, '
            'TLS-only reachability, sharing through each representation, growth/shrink/rehash, box ownership, containers allocated with new_raw in the middle of a path '
            '(not traced), a non-current Thread object (held by a root word, stack slot, root-registered holder or TLS) as the sole path across exact, forced and '
            'threshold collections; collections whose mark phase is left by an exception (exact: xraise, the Mark instance of a probe throws — the bits that stay are '
            'compared with the model when they do not depend on enumeration order; full: craise on the real GC_Mark), followed by stores that attach unmarked objects to '
            'holders whose bit stayed set and by further collections; 8-slot probes whose destructor calls del(NULL) swept alone, below a Box and explicitly deleted; '
            'containers whose elements / values are the probe type ProbeE (letter X: one plain pointer, conservatively scanned; its destructor and its Assign '
            'instance run a collection when armed): `xin k words | op` (exact mode: the k-th ProbeE destructor / Assign call of pop / arem / aset / push / tset / '
            'trem / clear / trunc / assign / concat runs mark phases on the words, the container and the operand, then the real GC_Sweep; mark bits and swept set are '
            'compared with the model run on the intermediate state) and `cin k | op` (full mode: that call allocates until the threshold triggers the real GC_Mark / '
            'GC_Sweep); the oracle\'s reference is the shadow graph AFTER the operation plus the operand; the matrix kind x operation x position x call index; '
            'containers whose elements / values are ProbeDeep (letter D: a record of three managed fields whose Assign instance allocates a fresh registered object per '
            'field): dpush / dins / daset / dtset / dconcat / dassign, plain or with a collection at a chosen ALLOCATION POINT (four per assigned element: in front of each '
            'allocation and behind the last store) — `xin k` exact (mark phases on the words, the container and the operand, real GC_Sweep; marked and swept sets compared with '
            'the model, which runs the statement lists on Mid.DMach and collects on the heap holding exactly the fresh objects that exist at that point), `cin k` full (the '
            'real threshold collection; Arrays only, since in full mode any allocation of the operation may collect); the matrix container kind x operation x position x '
            'allocation point, growth of the Array block under the element being assigned, the last element of concat / assign; '
            '`walk <id>` / `walk tls`: the Mark instance of a container (or of the thread-local table) is called with a recording callback and the direct oracle, which '
            'enumerates the occupied positions on its own (get(c, i), the hash words of the slot array, descent from the Tree root, items up to Terminal), demands that each '
            'is handed over exactly once and nothing else (X gc-mark-skips-position / gc-mark-extra-position); the model side runs the extracted loop terms; after every '
            'collection of a random history up to two live containers are walked; targeted: tables of 5 … 197 (thorough: 683) slots filled so that the LAST slot, the first '
            'slot and entries wrapped round the end are occupied (I line: table-last-slot / table-first-slot / table-wrapped), the object under the last slot\'s key being '
            'reachable through the table only, Ref- and String-keyed tables, the thread-local table grown and shrunk, Arrays / Lists / Tuples / Trees walked after every '
            'push / pop / insertion with the last element (rightmost / leftmost node) the sole path to its object; '
            'chains up to the cap, the matrix leaf-typed target x '
            'reference-bearing source for sequences and maps (direct and via copy+clear), growth after re-typing. '
            'non-trivial item = a collection (between operations or inside one) that marked at least 2 objects and swept at least 1 (exact mode) or a forced collection with at least 2 live '
            'objects (full mode); distinct = distinct op-file prefix up to that collection.')
    trusted_base = ('translate/g_gcmark.py (regex over src/GC.c, Mark instances of Array/List/Table/Tree/Tuple/Thread, container structs, writers of the type members; '
                    'GcMid: the order of the presentation-relevant statements of the container operations, found by scanning the function regions for a fixed set of '
                    'statement patterns — an unknown write to nitems / nslots / data / head / root, or an unknown destruct / assign / free / mem* call is an ExtractError; '
                    'statements that match no pattern are taken to be neutral)',
                    'Cello/HeapMid.lean gives each statement kind its effect on what the Mark instance presents (Mach.step) and supplies the loop structure; the machine is '
                    'compared with the implementation through xin (exact marked / swept sets inside the call; R mid=agree: the machine ends in the container the operation produces)',
                    'a collection inside an element call is placed AFTER the element\'s Assign instance has stored the new value (ProbeE_Assign copies, then allocates) and at the '
                    'start of the destructor; comparison / hash functions of keys that allocate (a collection inside eq / cmp during Table_Set_Move\'s displacement loop, when an '
                    'entry lives in the swap space only) are not covered',
                    'the content of a container after assign / copy (element values, types) is checked by the harness against its shadow, not proved (C04/C10 cover assign)',
                    'allocating Assign instances: ProbeDeep_Assign allocates field by field and stores each field before it allocates the next (Deep.parts / deepD: at point k the '
                    'first k fields are the new ones); an Assign instance that keeps a copy in a local until the end is covered a fortiori by the exact mode (which roots only the '
                    'container and the operand) but not distinguished; KEY types with an allocating Assign (Table_Set_Move assigns the key, then the value, both in the swap '
                    'space) and destructors of the overwritten element are not exercised; copy(container) = alloc + assign is exercised through dassign into an empty container only',
                    'GcWalk: a Mark function whose loop is outside the recognised family (a pointer walk, a second loop, a cached bound) extracts as `none` and fails its '
                    'theorem (a broken tie; the `walk` oracle then supplies the failing input); Tree_Mark stays a compared text: it walks with Tree_Iter_Init / Tree_Iter_Next, whose '
                    'completeness is C02 / C03 (the `walk` oracle checks it against a descent from the root); Thread_Mark is the one-line delegation to the table; the body helpers '
                    'Array_Item / Table_Key / Table_Val / Table_Key_Hash / List_Next (address arithmetic) are exercised by the `walk` oracle, not modelled; the `walk` count of a Table is '
                    'computed on a dense layout (a complete loop makes the same number of calls on every layout; positions are the oracle\'s side); GC_Mark_Stack is modelled in '
                    'words between two given ends — that gc->bottom (Cello_Main\'s local) and &stk bracket every live frame is the register-spill item below',
                    'harness/h_gcmark.c + lean/Driver/GcMark.lean + lean/Cello/HeapOps.lean (correspondence is testing)',
                    'the registry probe inside GC_Mark_Item / GC_Sweep is modelled as a finite map (C17 covers the registry)',
                    'exact mode replicates the 8-line root loop of GC_Mark in the harness (the real loop runs in full mode); whether the replica clears the mark bits '
                    'first follows the source through -DC01_MARK_CLEARS_FIRST (vlib/props/c01.py: mark_clears_first, same reading as the translator); the real GC_Unmark '
                    'runs in full mode (craise leaves the real GC_Mark by an exception, the following forced / threshold collections are checked by the shadow-graph oracle)',
                    'register spill: every callee-saved register that holds a live pointer at the time of a collection is written, unmangled, into the scanned stack range '
                    'by setjmp(env) in GC_Mark or by a frame between the mutator and GC_Mark_Stack (glibc x86-64 setjmp stores rbx, r12-r15 plain but rbp, rsp and the return '
                    'address pointer-mangled; with -fomit-frame-pointer rbp is an ordinary callee-saved register): the model takes `stack : List Word` as given; full mode tests '
                    'stack slots and a pointer held in a local of the allocating function (pair), not register-only pointers; observed on this compiler (audit 2, objdump of GC.o / Alloc.o '
                    'at -O1 / -O2 / -O3 / -Os): GC_Mark itself pushes rbx (and r14 at -O3) but NOT rbp, and setjmp stores rbp mangled — rbp is inside the scanned range only because its three '
                    'callers alloc_by, set and GC_Set each push it: the property rests on that register allocation, which no theorem covers',
                    'the marking order of the worklist model is the order of the C recursion (C01_rec_agrees gives equal results; the prefix property used for GOp.raise '
                    '(an exception leaves the mark phase after k marking events) is checked by the xraise corpus cases, not proved)')
    assumptions = ('single collector thread; registry counts below 2^63',
                   'the types of all registered objects are static, root-registered, or themselves reachable from the roots (Cello.Heap.typesAnchored, checked by harness '
                   'and model before every exact collection; full mode: run-time types are root-registered): a Type made with new(Type, ...) is NOT kept alive by its '
                   'instances — the header\'s type pointer is not traced — and outside this hypothesis a collection releases the Type under its instances and the next '
                   'one crashes in GC_Recurse (known finding KF-C01-type-outlived, witness corpus/kf_c01_type_outlived.ops, C01_type_outlived_refuted); element / key / '
                   'value types of containers are static types',
                   'chains of at most 20 000 links in generated cases: the C marker recurses once per link (known finding F27, witness corpus/kf_c01_deep_chain.ops)',
                   'Box ownership contract: an object owned by a Box is referenced only by that Box (Box_Del deletes its target: GC_Rem_Ptr finalises it even when it is '
                   'registered and reachable) — hypothesis `boxExclusive` of C01_collect_safe_partial / C01_history_safe_partial, witness corpus/gcmark_box_shared_target.ops '
                   '(harness reports `I excluded`), generated cases never share a Box target',
                   'the chain consists of REGISTERED objects: a pointer to an object allocated with new_raw (or unregistered by hand) that is found on the stack, in a Ref, in a '
                   'plain struct or in a container element is ignored by GC_Mark_Item, so a path through it is not followed (Points / Reachable read the registry); only the Mark '
                   'instance of a registered Tuple / user type would hand such a pointer to the callback, which is not generated (witness corpus/gcmark_raw_container.ops)',
                   'heap Tuples and user Mark instances hand only non-NULL pointers to registered objects in GENERATED cases; pointers to live unregistered objects (static, '
                   'live stack frame, new_raw) are correct C — GC_Mark_And_Recurse traces them with GC_Recurse — and are modelled by Cello.Heap.levelX / Ext '
                   '(C01_levelX_conservative, C01_tuple_live_items_complete; the general completion statement C01_rec_completes_live_statement is not proved), .ub being left for '
                   'pointers that are neither registered nor live; explicit del only of objects that nothing usable points to '
                   'and that no Tuple / user Mark instance which has become garbage (and may not have been swept yet) pointed to: otherwise the next collection '
                   'reads freed memory (known finding KF-C01-dangling-tuple-item, witness corpus/kf_c01_dangling_tuple.ops)',
                   'full mode: survivors may exceed the reachable set (conservative stack scan); only reachable objects are used by later ops',
                   'a collection inside a container operation is generated only where the unchanged tree presents constructed cells: not inside the destructor of any element '
                   'but the first during List_Clear / Tree_Clear_Entry (resize(x, 0), assign(x, y) on a List / Tree: proposed finding KF-C01-clear-freed-cells, witness '
                   'corpus/kf_c01_clear_freed_cells.ops), not inside the Assign call of any element but the last during Array_Assign / Array_Concat (proposed finding '
                   'KF-C01-array-uninit-slots, witness corpus/kf_c01_array_uninit_slots.ops); assign into a Table / Tree with a collection in the fill phase only from a Tree with '
                   'Int keys (the iteration order of a Table is C02\'s model); destructors that allocate run only inside an armed container operation, never from the release '
                   'loop of GC_Sweep (KF-C06-dtor-alloc)',
                   'element types with an allocating Assign instance (ProbeDeep): a collection at an allocation point is generated only where the unchanged tree has published '
                   'the element: Array push / push_at / set, List set, Tree set on an existing key, the last element of Array concat / assign, and allocation point 0 (nothing '
                   'stored yet) of the others; NOT at a later allocation point of List_Push / List_Push_At / List_Concat / List_Assign / Table_Set_Move / Tree_Set on a new key, '
                   'which assign the entry while it lies outside the structure (proposed finding KF-C01-unlinked-entry-assign, witness corpus/kf_c01_unlinked_entry.ops, forked '
                   'child), and in full mode (where any allocation of the operation may trigger the collection) only operations that are modelled at every point: Arrays',
                   're-typing: assign only sequence<-sequence (Array, List; also from a heap Tuple without Box items), map<-map (Table, Tree), Tuple<-Tuple, target != source; '
                   'element types Ref / Int / String / Float / ProbeE (no Box elements: two Boxes would own one target). A heap Tuple assigned from an Array / List stores pointers '
                   'INTO the source\'s element storage (dangling after the source changes: same family as KF-C01-dangling-tuple-item) and is not generated')
    def cases(self, rng, tier, boost=1):
        quick = tier == 'quick'
        cs = []
        if boost == 1: cs += shape_cases(quick)
        nex = (120 if quick else 3000) * boost
        for i in range(nex):
            big = (i % 9 == 8)
            if quick: nops, maxobj = (420, 400) if big else (rng.randrange(30, 130), rng.randrange(8, 60))
            else: nops, maxobj = (rng.choice([2500, 5000]), rng.choice([1200, 3000])) if (i % 40 == 39) else ((900, 600) if big else (rng.randrange(30, 250), rng.randrange(8, 120)))
            sh = gen_exact(rng, nops, maxobj, ncollect=max(2, nops // rng.choice([8, 15, 30])), focus=(i % 3 == 1), mid=(i % 4 == 2))
            cs.append(Case(f'exact{i}', sh.lines, meta=dict(stats=sh.stats)))
        nfu = (50 if quick else 1200) * boost
        for i in range(nfu):
            nops = rng.randrange(60, 220) if quick else rng.randrange(60, 900)
            sh = gen_full(rng, nops, rng.choice([3, 6, 12]), focus=(i % 3 == 1), mid=(i % 4 == 2))
            cs.append(Case(f'full{i}', sh.lines, meta=dict(stats=sh.stats)))
        return cs
    def _collections(self, case, c_out):
        """(index of op line, observation) for every collection observation"""
        ops = [l for l in case.lines if l.strip() and not l.startswith('#')]
        obs = core.lines_with('O ', c_out)
        out = []; j = 0
        for i, op in enumerate(ops):
            if j >= len(obs): break
            o = obs[j]; j += 1
            # `xin`: the collection inside the operation prints its own `O x` line before the operation's `O xin` line
            if op.startswith('xin ') and o.startswith('O x ') and j < len(obs): j += 1
            if o.startswith('O x ') or o.startswith('O c '): out.append((i, o))
        return out, ops
    def nontrivial_items(self, case, c_out, m_out):
        cols, ops = self._collections(case, c_out)
        items = set(); h = hashlib.sha1(); last = 0; prev_live = None
        for i, o in cols:
            h.update('\n'.join(ops[last:i + 1]).encode()); last = i + 1
            if o.startswith('O x '):
                m = re.match(r'O x marked=(\d+):\S* freed=(\d+):', o)
                if m and int(m.group(1)) >= 2 and int(m.group(2)) >= 1: items.add(h.hexdigest())
            else:
                m = re.match(r'O c live=(\d+):', o)
                if m and int(m.group(1)) >= 2: items.add(h.hexdigest())
        return items
    def stats(self, case, c_out, m_out, acc):
        for l in case.lines:
            k = l.split()[0] if l.split() else ''
            if k and k[0] != '#': acc['op_' + k] = acc.get('op_' + k, 0) + 1
            if k in ('xin', 'cin') and '|' in l:
                inner = l.split('|', 1)[1].split()
                if inner: acc[f'{k}_{inner[0]}'] = acc.get(f'{k}_{inner[0]}', 0) + 1
            if k == 'new' and len(l.split()) > 2: acc['kind_' + l.split()[2][0]] = acc.get('kind_' + l.split()[2][0], 0) + 1
            if k == 'chain': acc['max_chain'] = max(acc.get('max_chain', 0), int(l.split()[2]))
        for l in core.lines_with('O ', c_out):
            if l == 'O bad-op': acc['bad_ops'] = acc.get('bad_ops', 0) + 1
            m = re.match(r'O x marked=(\d+):\S* freed=(\d+):', l)
            if m:
                acc['exact_collections'] = acc.get('exact_collections', 0) + 1
                acc['marked'] = acc.get('marked', 0) + int(m.group(1)); acc['swept'] = acc.get('swept', 0) + int(m.group(2))
                acc['max_marked'] = max(acc.get('max_marked', 0), int(m.group(1)))
            m = re.match(r'O (xin|cin) calls=(\d+) fired=(\d)', l)
            if m:
                acc[f'mid_op_{m.group(1)}'] = acc.get(f'mid_op_{m.group(1)}', 0) + 1
                acc[f'mid_op_{m.group(1)}_fired'] = acc.get(f'mid_op_{m.group(1)}_fired', 0) + int(m.group(3))
                acc['mid_op_max_calls'] = max(acc.get('mid_op_max_calls', 0), int(m.group(2)))
        for l in core.lines_with('R ', m_out):
            acc['model_' + l[2:].replace('=', '_')] = acc.get('model_' + l[2:].replace('=', '_'), 0) + 1
        for l in core.lines_with('I ', c_out):
            m = re.search(r'objects=(\d+) xcollects=(\d+) forced=(\d+) auto=(\d+)', l)
            if m:
                acc['objects'] = acc.get('objects', 0) + int(m.group(1)); acc['forced_collections'] = acc.get('forced_collections', 0) + int(m.group(3))
                acc['threshold_collections'] = acc.get('threshold_collections', 0) + int(m.group(4))
                acc['max_objects_in_case'] = max(acc.get('max_objects_in_case', 0), int(m.group(1)))
            m = re.search(r'unreachable-freed=(\d+)', l)
            if m: acc['full_mode_freed'] = acc.get('full_mode_freed', 0) + int(m.group(1))
            if l.startswith('I walk '):
                for k, v in re.findall(r'([\w-]+)=(\d+)', l): acc['walk_' + k.replace('-', '_')] = acc.get('walk_' + k.replace('-', '_'), 0) + int(v)
    def model_selfcheck(self, case, m_out):
        """inside the model: the worklist marker (what the theorems are about) against the marker with the call structure of GC.c"""
        ls = m_out.split('\n')
        for i in range(len(ls) - 1):
            if ls[i].startswith('O x ') and ls[i + 1].startswith('R rec=') and ls[i + 1] not in ('R rec=agree', 'R rec=skipped'):
                return f'worklist marker `{ls[i]}` but recursive marker: `{ls[i + 1]}`'
            if ls[i + 1] == 'R rel=differ':
                return f'collection `{ls[i - 1]}`: no pending item owns anything, yet Cello.Heap.release does not finalise exactly the pending list'
            if ls[i + 1] == 'R mid=differ':
                return f'operation `{ls[i]}`: the state machine of Cello.Heap.Mid (statement lists of the current source) does not end in the container the operation produces, or makes another number of element calls'
            if ls[i + 1] == 'R retype=differ':
                return f're-typing op `{ls[i]}`: the interpreter\'s object differs from Obj.assignFrom / copyOf / cleared (the operation the theorems are about)'
        return None
    def compare(self, case, c_out, m_out):
        d = core.first_divergence(c_out, m_out)
        if d is None and 'R retype=differ' in m_out:
            obs = core.lines_with('O ', m_out)
            return (len(obs), '<model-internal>', 'R retype=differ: a re-typing op of the interpreter is not Obj.assignFrom / copyOf / cleared')
        if d is None and 'R mid=differ' in m_out:
            obs = core.lines_with('O ', m_out)
            return (len(obs), '<model-internal>', 'R mid=differ: the statement lists of the current source, run on Cello.Heap.Mid, do not produce the container the operation produces')
        return d

SPEC = C01()
