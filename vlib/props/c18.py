"""C18 — build configurations agree on every in-contract program (engine cfg).

Besides the generic steps (translator + theorems + default harness ⇄ Lean driver), `extra_checks` builds harness/h_cfg.c from
the current tree under the configuration × optimisation matrix and compares every transcript byte for byte."""
import os, re, time, shutil
from concurrent.futures import ThreadPoolExecutor
from ..runner import Spec, Case
from .. import core

CONFIGS = {
    'default': [],
    'ndebug': ['CELLO_NDEBUG'],
    'nocache': ['CELLO_CACHE=0'],            # predefining CELLO_CACHE (any value) selects the `#else` branch: cache off
    'ngc': ['CELLO_NGC'],
    'ndebug-nocache': ['CELLO_NDEBUG', 'CELLO_CACHE=0'],
    'ndebug-ngc': ['CELLO_NDEBUG', 'CELLO_NGC'],
    'nocache-ngc': ['CELLO_CACHE=0', 'CELLO_NGC'],
    'ndebug-nocache-ngc': ['CELLO_NDEBUG', 'CELLO_CACHE=0', 'CELLO_NGC'],
}
# job = (configuration, optimisation level, sanitizers, compiler)
QUICK = [(c, '-O0', True, 'clang') for c in ('default', 'ndebug', 'nocache', 'ngc')] + \
        [(c, '-O2', False, 'clang') for c in ('default', 'ndebug', 'nocache', 'ngc')] + [('ndebug-nocache-ngc', '-O2', True, 'clang')] + \
        [(c, '-O3', False, 'clang') for c in ('default', 'ndebug-nocache-ngc')]      # audit 2, item 1: -O3 is in the committed (quick) evidence too
THOROUGH = [(c, o, s, 'clang') for c in CONFIGS for (o, s) in (('-O0', True), ('-O2', True), ('-O2', False), ('-O3', False), ('-O1', False), ('-Os', False))] + \
           [(c, o, False, 'gcc') for c in CONFIGS for o in ('-O2', '-O3')]     # a second compiler, unsanitized (gcc has no __has_feature: ASan + stack scan do not mix)
GCC = os.environ.get('VERIF_GCC', 'gcc')

MAXSLOT = 48
MAXT = 16
PROBE_Q = ['len', 'cint', 'cflt', 'cstr', 'hash', 'cmp', 'asg', 'get', 'mem', 'set', 'rem', 'push', 'pop', 'pushat',
           'popat', 'cat', 'app', 'ref', 'iter', 'cur', 'cast', 'size', 'fmt', 'fmt2', 'copy']
LCM = 5 * 11 * 23 * 53          # keys k*LCM collide in every small Table size
WORDS = ['', 'a', 'b', 'ab', 'ba', 'abc', 'x', 'y', 'zz', 'K0', 'K1', 'key', 'Key', 'val', 'Q_1', 'hello', 'world', '0', '00', '9z', 'AaAa', 'BBBB']

def opt_name(opt, san, cc='clang'): return ('gcc' if cc == 'gcc' else '') + opt[1:] + ('s' if san else '')
def tag_of(cfg, opt, san, cc='clang'): return f'{cfg}-{opt_name(opt, san, cc)}'

def build(job):
    """core.build_harness reads the module global core.CC: gcc jobs are built in their own phase (see build_all)"""
    cfg, opt, san, cc = job
    ok, exe, lg = core.build_harness('h_cfg', defines=CONFIGS[cfg] + [f'VCFG="{cfg}"', f'VOPT="{opt_name(opt, san, cc)}"'],
                                     opt=opt, sanitize=san, tag='-' + tag_of(*job))
    return job, ok, exe, lg

def build_all(jobs):
    built = []
    nj = int(os.environ.get('VERIF_JOBS', '16'))
    with ThreadPoolExecutor(max_workers=nj) as ex:
        built += list(ex.map(build, [j for j in jobs if j[3] != 'gcc']))
    gj = [j for j in jobs if j[3] == 'gcc']
    if gj and shutil.which(GCC):
        saved = core.CC
        try:
            core.CC = GCC
            with ThreadPoolExecutor(max_workers=nj) as ex:
                built += list(ex.map(build, gj))
        finally:
            core.CC = saved
    return built

def transcript(out):
    return [l for l in out.split('\n') if l[:2] in ('O ', 'T ')]

def crash_summary(rc, out, err):
    """one line saying how a harness run died: the sanitizer's headline rather than the tail of its report"""
    txt = (err or '') + '\n' + (out or '')
    for pat in (r'ERROR: AddressSanitizer: [^\n]*', r'[^\n]*runtime error: [^\n]*', r'SUMMARY: [^\n]*', r'ERROR: [^\n]*'):
        m = re.search(pat, txt)
        if m:
            s = m.group(0).strip()
            m2 = re.search(r'SUMMARY: [^\n]*', txt)
            return f'exit status {rc}: {s[:300]}' + (f' | {m2.group(0)[:200]}' if m2 and m2.group(0) not in s else '')
    last = [l for l in txt.split('\n') if l.strip()][-3:]
    return f'exit status {rc}' + (' (timeout)' if rc == -9 else '') + ': ' + ' / '.join(last)[:400]

# ------------------------------------------------------------------------------------------------ workload generator
class Gen:
    """in-contract workload over a python shadow of the slots; a few deliberately out-of-contract operations (which both
    sides must recognise and skip) are mixed in at rate `ooc`."""
    def __init__(self, rng, profile, ooc=0.02):
        self.r = rng; self.p = profile; self.ooc = ooc
        self.s = {}          # slot -> dict(kind=val|array|list|table|tree, ty, vt, data)
        self.t = {}          # tuple slot -> dict(ty, data=[literals])  (heap Tuples: harness-only operations)
        self.lines = []
        self.keep = KeepGen(rng, self.emit)
        self.nest = NestGen(rng, self.emit)
        self.rt = RtGen(rng, self.emit)
    # values
    def ival(self):
        r = self.r; x = r.random()
        if x < 0.6: return r.randrange(-12, 13)
        if x < 0.8: return r.randrange(0, 40) * LCM
        if x < 0.9: return r.choice([2**31 - 1, -2**31, 2**32, 2**40 + 7, -2**40, 10**15, -10**15, 65, 97, 126, 33])
        return r.randrange(-10**6, 10**6)
    def sval(self):
        r = self.r
        if r.random() < 0.7: return r.choice(WORDS)
        return ''.join(r.choice('abXY01_') for _ in range(r.randrange(0, 9)))
    def val(self, ty): return f'i{self.ival()}' if ty == 'I' else f's{self.sval()}'
    def free_slot(self):
        fr = [i for i in range(MAXSLOT) if i not in self.s]
        return self.r.choice(fr) if fr else None
    def pick(self, pred):
        c = [k for k, v in self.s.items() if pred(v)]
        return self.r.choice(c) if c else None
    def emit(self, *toks): self.lines.append(' '.join(str(t) for t in toks))
    # one operation
    def step(self):
        r = self.r
        if r.random() < self.ooc: return self.bad_op()
        seq = lambda v: v['kind'] in ('array', 'list')
        mp = lambda v: v['kind'] in ('table', 'tree')
        w = self.p
        op = r.choices(list(w.keys()), list(w.values()))[0]
        if op == 'new':
            d = self.free_slot()
            if d is None: return self.kill()
            k = r.choice(['val', 'val', 'array', 'array', 'list', 'table', 'tree'])
            # `w …`: the object is made with new_root by a worker thread that ends at once; the main thread joins and keeps it
            pre = ['w'] if r.random() < 0.10 else []
            if k == 'val':
                ty = r.choice('IS'); v = self.val(ty); self.s[d] = dict(kind='val', ty=ty, data=v)
                self.emit(*pre, 'nvo' if pre else r.choice(['nv', 'nv', 'nv', 'nv', 'nvr', 'nvo']), d, v)       # new / new_raw / new_root
            elif k in ('array', 'list'):
                ty = r.choice('IS'); n = r.choice([0, 0, 1, 2, 3, 5, 8, 20]); vs = [self.val(ty) for _ in range(n)]
                self.s[d] = dict(kind=k, ty=ty, data=list(vs)); self.emit(*pre, 'na' if k == 'array' else 'nl', d, ty, *vs)
            else:
                kt, vt = r.choice('IS'), r.choice('IS'); self.s[d] = dict(kind=k, ty=kt, vt=vt, data={}); self.emit(*pre, 'nt' if k == 'table' else 'nr', d, kt, vt)
        elif op == 'kill': self.kill()
        elif op == 'push':
            c = self.pick(seq)
            if c is None: return
            o = self.s[c]; v = self.val(o['ty']); L = len(o['data'])
            x = r.random()
            if x < 0.55: o['data'].append(v); self.emit('push', c, v)
            else:
                if o['kind'] == 'array':
                    i = r.randrange(-(L + 1), L + 1); j = (L + 1) + i if i < 0 else i
                else:
                    if L == 0: i = 0; j = 0
                    else:
                        i = r.randrange(-L, L); j = L + i if i < 0 else i
                o['data'].insert(j, v); self.emit('pushat', c, i, v)
        elif op == 'pop':
            c = self.pick(lambda v: seq(v) and v['data'])
            if c is None: return
            o = self.s[c]; L = len(o['data']); x = r.random()
            if x < 0.4: o['data'].pop(); self.emit('pop', c)
            elif x < 0.8:
                i = r.randrange(-L, L); o['data'].pop(i); self.emit('popat', c, i)
            else:
                v = r.choice(o['data']); o['data'].remove(v); self.emit('rem', c, v)
        elif op == 'read':
            c = self.pick(seq)
            if c is None: return
            o = self.s[c]; L = len(o['data']); x = r.random()
            if x < 0.4 and L: self.emit('get', c, r.randrange(-L, L))
            elif x < 0.6: self.emit('mem', c, r.choice(o['data']) if L and r.random() < 0.6 else self.val(o['ty']))
            elif x < 0.75: self.emit('len', c)
            elif x < 0.9: self.emit('items', c)
            else: self.emit('ritems', c)
        elif op == 'set':
            c = self.pick(lambda v: seq(v) and v['data'])
            if c is None: return
            o = self.s[c]; L = len(o['data']); i = r.randrange(-L, L); v = self.val(o['ty']); o['data'][i] = v; self.emit('set', c, i, v)
        elif op == 'sort':
            c = self.pick(lambda v: v['kind'] == 'array')
            if c is None: return
            o = self.s[c]
            o['data'].sort(key=(lambda t: int(t[1:])) if o['ty'] == 'I' else (lambda t: t[1:]))
            self.emit('sort', c)
        elif op == 'mset':
            m = self.pick(mp)
            if m is None: return
            o = self.s[m]
            k = r.choice(list(o['data'])) if o['data'] and r.random() < 0.35 else self.val(o['ty'])
            if len(o['data']) > 90 and k not in o['data']: return
            v = self.val(o['vt']); o['data'][k] = v; self.emit('mset', m, k, v)
        elif op == 'mread':
            m = self.pick(mp)
            if m is None: return
            o = self.s[m]; x = r.random()
            if x < 0.45 and o['data']: self.emit('mget', m, r.choice(list(o['data'])))
            elif x < 0.7: self.emit('mmem', m, r.choice(list(o['data'])) if o['data'] and r.random() < 0.5 else self.val(o['ty']))
            elif x < 0.85: self.emit('len', m)
            else: self.emit('items', m)
        elif op == 'mrem':
            m = self.pick(lambda v: mp(v) and v['data'])
            if m is None: return
            o = self.s[m]; k = r.choice(list(o['data'])); del o['data'][k]; self.emit('mrem', m, k)
        elif op == 'copy':
            c = self.pick(lambda v: True); d = self.free_slot()
            if c is None or d is None: return
            o = self.s[c]
            self.s[d] = dict(o, data=(dict(o['data']) if mp(o) else list(o['data']) if seq(o) else o['data'])); self.emit('copy', d, c)
        elif op == 'concat':
            c = self.pick(seq)
            if c is None: return
            o = self.s[c]
            c2 = self.pick(lambda v: seq(v) and v['ty'] == o['ty'] and v is not o and len(v['data']) + len(o['data']) < 120)
            if c2 is not None and r.random() < 0.8:
                o['data'].extend(self.s[c2]['data']); self.emit('concat', c, c2); return
            a = self.pick(lambda v: v['kind'] == 'val' and v['ty'] == 'S')
            b = self.pick(lambda v: v['kind'] == 'val' and v['ty'] == 'S')
            if a is None or b is None or a == b: return
            if len(self.s[a]['data']) - 1 + len(self.s[b]['data']) - 1 > 30: return
            self.s[a]['data'] = self.s[a]['data'] + self.s[b]['data'][1:]; self.emit('concat', a, b)
        elif op == 'resize':
            c = self.pick(seq)
            if c is None: return
            o = self.s[c]; n = r.randrange(0, len(o['data']) + 1); del o['data'][n:]; self.emit('resize', c, n)
        elif op == 'cmp':
            a = self.pick(lambda v: not mp(v))
            if a is None: return
            o = self.s[a]
            b = self.pick(lambda v: (v['kind'] == 'val') == (o['kind'] == 'val') and not mp(v) and v['ty'] == o['ty'])
            if b is None: return
            self.emit(r.choice(['eq', 'cmp']), a, b)
        elif op == 'vset':
            x = self.pick(lambda v: v['kind'] == 'val')
            if x is None: return
            o = self.s[x]; v = self.val(o['ty']); o['data'] = v; self.emit('vset', x, v)
        elif op == 'tuple': self.tuple_op()
        elif op == 'edit': self.edit_op()
        elif op == 'nested': self.nest.step()
        elif op == 'keep': self.keep.step()
        elif op == 'rt': self.rt.step()
        elif op == 'probe': self.probe_op()
        elif op == 'ring': self.ring_op()
        elif op == 'exc':
            if r.random() < 0.5: self.emit('exc', r.randrange(0, 6))
            else: self.emit('nest', r.randrange(0, 6), r.randrange(0, 6))
        elif op == 'tonly':
            x = r.random()
            if x < 0.12:
                a = self.pick(lambda v: not mp(v))
                if a is not None: self.emit('hash', a)
            elif x < 0.22:
                a = self.pick(lambda v: v['kind'] == 'val')
                if a is not None: self.emit('show', a)
            elif x < 0.40:
                a = self.pick(lambda v: v['kind'] == 'val')
                if a is None: return
                o = self.s[a]; p = r.randrange(0, 64)
                if o['ty'] == 'I' and p % 8 == 7 and not (33 <= int(o['data'][1:]) <= 126): p -= 1
                self.emit('fmt', p, a)
            elif x < 0.48: self.emit('flt', r.randrange(-50, 50), r.choice([1, 2, 3, 7, -3, 10, 1000]))
            elif x < 0.58: self.emit('range', r.randrange(-20, 20), r.randrange(-20, 20), r.choice([1, 1, 2, 3, -1, -2, 5]))
            elif x < 0.66:
                c = self.pick(lambda v: seq(v) and v['data'])
                if c is not None: self.emit('slice', c, r.randrange(0, len(self.s[c]['data'])))
            elif x < 0.74:
                c = self.pick(lambda v: seq(v) and v['data'])
                if c is not None: self.emit(r.choice(['rev', 'enum']), c)
            elif x < 0.82:
                a, b = self.pick(seq), self.pick(seq)
                if a is not None and b is not None: self.emit('zip', a, b)
            elif x < 0.90:
                c = self.pick(seq)
                if c is not None: self.emit('filter', c, r.randrange(-5, 6))
            elif x < 0.96:
                c = self.pick(lambda v: seq(v) and v['ty'] == 'I')
                if c is not None: self.emit('map', c, r.randrange(-5, 6))
            else: self.emit('gc')
    # in-place edits of String / Int objects of every allocation class: the handle's own object (new / new_raw / new_root / copy),
    # elements embedded in Array / List (by get and by iteration), values and keys embedded in Table / Tree
    def edit_op(self, target=None):
        r = self.r
        seq = lambda v: v['kind'] in ('array', 'list') and v['data']
        mp = lambda v: v['kind'] in ('table', 'tree') and v['data']
        kind = target or r.choices(['self', 'at', 'it', 'val', 'key'], [3, 5, 2, 4, 2])[0]
        if kind == 'self':
            x = self.pick(lambda v: v['kind'] == 'val' and (v['ty'] == 'S' or r.random() < 0.2))
            if x is None: return
            o = self.s[x]; cur = o['data']; sel = ['self']
            put = lambda nv: o.__setitem__('data', nv)
        elif kind in ('at', 'it'):
            x = self.pick(lambda v: seq(v) and (v['ty'] == 'S' or r.random() < 0.15))
            if x is None: return
            o = self.s[x]; L = len(o['data'])
            i = r.randrange(-L, L) if kind == 'at' else r.randrange(0, L)
            cur = o['data'][i]; sel = [kind, i]
            put = lambda nv: o['data'].__setitem__(i, nv)
        else:
            x = self.pick(lambda v: mp(v) and ((v['vt'] if kind == 'val' else v['ty']) == 'S' or r.random() < 0.2))
            if x is None: return
            o = self.s[x]; k = r.choice(list(o['data']))
            cur = o['data'][k] if kind == 'val' else k; sel = [kind, k]
            put = (lambda nv: o['data'].__setitem__(k, nv)) if kind == 'val' else (lambda nv: None)
        if cur[0] == 'i':
            nv = cur if kind == 'key' else f'i{self.ival()}'
            self.emit('ed', x, *sel, 'asg', nv); put(nv); return
        txt = cur[1:]; L = len(txt)
        small = lambda: ''.join(r.choice('abXY01_') for _ in range(r.randrange(0, 5)))
        if kind == 'key':          # only edits that leave the value as it is
            e = r.choice([['cat', 's'], ['app', 's'], ['res', L], ['asg', cur], ['fmt', L, 's'], ['rem', 's'], ['look', cur], ['res', r.randrange(L, 31)]])
            self.emit('ed', x, *sel, *e); return
        w = r.random()
        if w < 0.22:
            t = small()
            if L + len(t) > 30: t = ''
            e = [r.choice(['cat', 'app']), 's' + t]; nv = 's' + txt + t
        elif w < 0.40:
            n = r.choice([0, L, r.randrange(0, 31), r.randrange(0, L + 1)])
            e = ['res', n]; nv = 's' + (txt[:n] if n <= L else txt)
        elif w < 0.55:
            t = self.sval(); e = ['asg', 's' + t]; nv = 's' + t
        elif w < 0.72:
            p_ = r.randrange(0, L + 1); t = small()
            if p_ + len(t) > 30: t = ''
            e = ['fmt', p_, 's' + t]; nv = 's' + txt[:p_] + t
        elif w < 0.86:
            if L and r.random() < 0.8:
                a = r.randrange(0, L); b = r.randrange(a, min(L, a + 4) + 1); t = txt[a:b]
            else: t = ''
            j = txt.find(t)
            e = ['rem', 's' + t]; nv = 's' + txt[:j] + txt[j + len(t):]
        else:
            t = self.sval(); e = ['look', 's' + t]; nv = 's' + t
        self.emit('ed', x, *sel, *e); put(nv)
    def root_value_scenario(self, i):
        """value objects made with new_root, their only pointer in static storage: created, allocation pressure (threshold collections,
        the registry rehashed), read, mutated in place, pressure again, read, deleted with del_root"""
        r = self.r
        made = []
        for ty in ('S', 'I') if i % 2 == 0 else ('I', 'S'):
            d = self.free_slot()
            if d is None: break
            v = self.val(ty); self.s[d] = dict(kind='val', ty=ty, data=v); self.emit('nvo', d, v); made.append(d)
        if not made: return
        for _ in range(r.choice([2, 3])): self.emit('hchurn', r.choice([200, 300, 400]))
        if i % 3 == 0: self.emit('gc')
        saved = self.s
        for d in made:
            self.emit('len' if saved[d]['ty'] == 'S' else 'show', d)
            self.s = {d: saved[d]}
            if saved[d]['ty'] == 'S': self.edit_op(target='self')
            else:
                v = self.val('I'); saved[d]['data'] = v; self.emit('vset', d, v)
        self.s = saved
        for _ in range(r.choice([1, 2])): self.emit('hchurn', r.choice([200, 400]))
        for d in made:
            self.emit('show', d); self.emit('hash', d)
            if r.random() < 0.7: del self.s[d]; self.emit('del', d)
    def worker_scenario(self, i):
        """objects that cross the END of a collector: a worker thread makes three objects with new_root (value / Array / Table / List / Tree
        in rotation), publishes them through C globals and ends — its collector is torn down (GC_Unmark + GC_Sweep, no mark phase) — the
        main thread joins, reads them, changes them, allocates until its own collector has run, reads them again.  Such an object can no
        longer be released by anybody (del_root asks the calling thread's collector): it stays until the process ends"""
        r = self.r; made = []
        kinds = ['val', 'array', 'table', 'list', 'tree']
        for j in range(3):
            d = self.free_slot()
            if d is None: break
            k = kinds[(i + j) % 5]
            if k == 'val':
                ty = 'SI'[(i // 5 + j) % 2]; v = self.val(ty); self.s[d] = dict(kind='val', ty=ty, data=v); self.emit('w', 'nvo', d, v)
            elif k in ('array', 'list'):
                ty = r.choice('IS'); vs = [self.val(ty) for _ in range(r.choice([0, 1, 3, 5, 8]))]
                self.s[d] = dict(kind=k, ty=ty, data=list(vs)); self.emit('w', 'na' if k == 'array' else 'nl', d, ty, *vs)
            else:
                kt, vt = r.choice('IS'), r.choice('IS'); self.s[d] = dict(kind=k, ty=kt, vt=vt, data={}); self.emit('w', 'nt' if k == 'table' else 'nr', d, kt, vt)
            made.append(d)
        if not made: return
        saved, savedp, savedo = self.s, self.p, self.ooc
        self.s = {d: saved[d] for d in made}
        self.p = dict(push=4, pop=1, read=4, set=1, mset=6, mread=4, mrem=1, vset=1, edit=3, cmp=1, sort=1); self.ooc = 0.0
        for _ in range(r.randrange(6, 14)): self.step()
        for _ in range(r.choice([2, 3])): self.emit('hchurn', r.choice([200, 300, 400]))
        if i % 2: self.emit('gc')
        for _ in range(r.randrange(4, 10)): self.step()
        self.s, self.p, self.ooc = saved, savedp, savedo
        for d in made: self.emit('show' if saved[d]['kind'] == 'val' else 'items', d)
    def edit_scenario(self, i):
        """a String object of each way of coming into being (new / new_raw / new_root / copy), a String Array or List, a Table or Tree with
        String keys and values: every selector used at least once, then everything read back"""
        r = self.r
        mk = ['nv', 'nvr', 'nvo'][i % 3]
        d = self.free_slot()
        if d is None: return
        v = self.val('S'); self.s[d] = dict(kind='val', ty='S', data=v); self.emit(mk, d, v)
        c = self.free_slot()
        if c is not None and r.random() < 0.5:
            self.s[c] = dict(kind='val', ty='S', data=v); self.emit('copy', c, d)
        q = self.free_slot()
        if q is None: return
        k = ['array', 'list'][i % 2]; vs = [self.val('S') for _ in range(r.randrange(2, 7))]
        self.s[q] = dict(kind=k, ty='S', data=list(vs)); self.emit('na' if k == 'array' else 'nl', q, 'S', *vs)
        m = self.free_slot()
        if m is None: return
        mk2 = ['table', 'tree'][(i // 2) % 2]
        self.s[m] = dict(kind=mk2, ty='S', vt='S', data={}); self.emit('nt' if mk2 == 'table' else 'nr', m, 'S', 'S')
        for _ in range(r.randrange(2, 6)):
            kk = self.val('S'); vv = self.val('S'); self.s[m]['data'][kk] = vv; self.emit('mset', m, kk, vv)
        only = {d: None, q: None, m: None}
        saved = self.s; self.s = {x: saved[x] for x in (d, q, m)}
        for t in ('self', 'at', 'it', 'val', 'key') * 2: self.edit_op(target=t)
        self.s = saved
        self.emit('items', q); self.emit('items', m); self.emit('len', d)
    def probe_op(self, cold=False):
        """method-cache probe: queries in a random order on one of three probe types (cold: every query kind, permuted)"""
        r = self.r; t = r.randrange(3)
        if cold: qs = r.sample(PROBE_Q, len(PROBE_Q))
        else: qs = [r.choice(PROBE_Q) for _ in range(r.randrange(1, 9))]
        if not cold and r.random() < 0.25: self.emit('preset', t)
        self.emit('probe', t, r.randrange(-50, 50), *qs)
    def ring_op(self):
        """Boxes owning each other, dropped, then allocation work so that the collector meets them"""
        r = self.r
        self.emit('ring', r.choice([1, 2, 2, 3, 5, 8]), r.randrange(-100, 100), r.choice([0, 20, 60, 150]))
    def tuple_op(self):
        r = self.r
        vals = lambda ty: [k for k, v in self.s.items() if v['kind'] == 'val' and v['ty'] == ty]
        live = list(self.t)
        x = r.random()
        if not live or x < 0.12:
            fr = [i for i in range(MAXT) if i not in self.t]
            ty = r.choice('IS'); vs = vals(ty)
            if not fr or not vs: return
            t = r.choice(fr); xs = [r.choice(vs) for _ in range(r.choice([0, 1, 2, 3, 5, 9]))]
            self.t[t] = dict(ty=ty, data=[self.s[k]['data'] for k in xs]); self.emit('tnew', t, ty, *xs); return
        t = r.choice(live); o = self.t[t]; L = len(o['data']); vs = vals(o['ty'])
        key = (lambda z: int(z[1:])) if o['ty'] == 'I' else (lambda z: z[1:])
        if x < 0.30 and vs and L < 60:
            k = r.choice(vs)
            if L and r.random() < 0.4:
                i = r.randrange(-L, L); o['data'].insert(L + i if i < 0 else i, self.s[k]['data']); self.emit('tpushat', t, i, k)
            else: o['data'].append(self.s[k]['data']); self.emit('tpush', t, k)
        elif x < 0.40 and L:
            if r.random() < 0.5: o['data'].pop(); self.emit('tpop', t)
            else:
                i = r.randrange(-L, L); o['data'].pop(i); self.emit('tpopat', t, i)
        elif x < 0.50 and L: self.emit('tget', t, r.randrange(-L, L))
        elif x < 0.56 and L and vs:
            i = r.randrange(-L, L); k = r.choice(vs); o['data'][i] = self.s[k]['data']; self.emit('tset', t, i, k)
        elif x < 0.66: self.emit(r.choice(['titems', 'tritems', 'tlen', 'thash']), t)
        elif x < 0.72: o['data'].sort(key=key); self.emit('tsort', t)
        elif x < 0.78 and vs:
            k = r.choice(vs); self.emit('tmem', t, k)
        elif x < 0.82 and vs:
            ks = [k for k in vs if self.s[k]['data'] in o['data']]
            if not ks: return
            k = r.choice(ks); o['data'].remove(self.s[k]['data']); self.emit('trem', t, k)
        elif x < 0.87 and vs and L < 60:
            xs = [r.choice(vs) for _ in range(r.randrange(0, 4))]
            o['data'].extend(self.s[k]['data'] for k in xs); self.emit('tcat', t, *xs)
        elif x < 0.90 and L:
            n = r.randrange(0, L); del o['data'][n:]; self.emit('tresize', t, n)
        elif x < 0.94:
            t2 = r.choice([k for k in live if self.t[k]['ty'] == o['ty']]); self.emit('tcmp', t, t2)
        else:
            del self.t[t]; self.emit('tdrop' if r.random() < self.p.get('_drop', 0.15) else 'tdel', t)
    def kill(self):
        x = self.pick(lambda v: True)
        if x is None: return
        del self.s[x]
        self.emit('drop' if self.r.random() < self.p.get('_drop', 0.15) else 'del', x)
    def bad_op(self):
        """an operation outside the contract (or ill-formed): every build and the model must print the same refusal"""
        r = self.r; k = r.randrange(12)
        dead = next((i for i in range(MAXSLOT) if i not in self.s), 0)
        any_ = self.pick(lambda v: True)
        sq = self.pick(lambda v: v['kind'] in ('array', 'list'))
        mp = self.pick(lambda v: v['kind'] in ('table', 'tree'))
        if k == 0 and r.random() < 0.5 and sq is not None:
            self.emit('ed', sq, r.choice(['at', 'it']), len(self.s[sq]['data']) + r.randrange(0, 2), r.choice(['cat', 'rem']), 'sq')
        elif k == 0: self.emit('get', dead, 0)
        elif k == 1 and sq is not None: self.emit('get', sq, len(self.s[sq]['data']) + r.randrange(0, 3))
        elif k == 2 and sq is not None: self.emit('popat', sq, -len(self.s[sq]['data']) - 1)
        elif k == 3 and sq is not None: self.emit('push', sq, self.val('S' if self.s[sq]['ty'] == 'I' else 'I'))
        elif k == 4 and mp is not None: self.emit('mget', mp, self.val(self.s[mp]['ty']) + 'ZZ' if self.s[mp]['ty'] == 'S' else 'i987654321')
        elif k == 5 and mp is not None: self.emit('push', mp, 'i1')
        elif k == 6 and any_ is not None: self.emit('nv', any_, 'i1')
        elif k == 7: self.emit('frobnicate', 1, 2)
        elif k == 8 and sq is not None: self.emit('rem', sq, 'i424242' if self.s[sq]['ty'] == 'I' else 'sNOPE_NOPE')
        elif k == 9 and sq is not None: self.emit('resize', sq, len(self.s[sq]['data']) + 1)
        elif k == 10 and sq is not None: self.emit('concat', sq, sq)
        elif k == 11 and mp is not None: self.emit('sort', mp)
        elif k == 8 and mp is not None and self.s[mp]['data']:
            kk = r.choice(list(self.s[mp]['data']))
            self.emit('ed', mp, 'key', kk, 'cat', 'sx') if kk[0] == 's' else self.emit('ed', mp, 'val', kk, 'res', 31)
        elif k == 9: self.emit('tget', r.randrange(MAXT), 300)
        elif k == 10: self.emit('tpush', r.randrange(MAXT), dead)
        else: self.emit('del', dead)

# ------------------------------------------------------------------------------------------------ nested holders
MAXN = 8
XMAXE = 12
XMAXI = 24
class NestGen:
    """containers whose elements are containers (Array / List of Int) or Tuples (of built-in Type objects, none twice), all embedded in
    the outer container's storage; every edit goes through get(outer, key).  Transcript-only (T lines, compared across builds)."""
    def __init__(self, rng, emit):
        self.r = rng; self.emit = emit
        self.h = {}        # slot -> dict(outer, inner, keys=[...], items={key: [...]})   (sequences: keys are 0..n-1 implicitly)
    def seq(self, o): return o['outer'] in 'al'
    def val(self, o, cur):
        if o['inner'] == 'U':
            c = [i for i in range(10) if i not in cur]
            return self.r.choice(c) if c else None
        return self.r.randrange(-50, 50)
    def step(self):
        r = self.r; live = list(self.h); x = r.random()
        if not live or x < 0.06:
            fr = [i for i in range(MAXN) if i not in self.h]
            if not fr: return self.kill(r.choice(live))
            n = r.choice(fr); o = dict(outer=r.choice('altr'), inner=r.choice('ALU'), keys=[], items=[])
            self.h[n] = o; self.emit('xnew', n, o['outer'], o['inner'])
            for _ in range(r.randrange(1, 4)): self.add(n)
            return
        n = r.choice(live); o = self.h[n]
        if x < 0.16 or not o['items']: return self.add(n)
        p = r.randrange(len(o['items'])); k = p if self.seq(o) else o['keys'][p]; cur = o['items'][p]; m = len(cur)
        if x < 0.42:
            v = self.val(o, cur)
            if v is None or m >= XMAXI: return
            cur.append(v); self.emit('xpush', n, k, v)
        elif x < 0.50 and m: cur.pop(); self.emit('xpop', n, k)
        elif x < 0.58 and m:
            j = r.randrange(-m, m); cur.pop(j); self.emit('xpopat', n, k, j)
        elif x < 0.66 and m:
            j = r.randrange(-m, m); v = self.val(o, cur)
            if v is None: return
            cur[j] = v; self.emit('xset', n, k, j, v)
        elif x < 0.74:
            vs = []
            for _ in range(r.randrange(0, 4)):
                v = self.val(o, cur + vs)
                if v is not None: vs.append(v)
            if m + len(vs) > XMAXI: return
            cur.extend(vs); self.emit('xcat', n, k, *vs)
        elif x < 0.79 and m:
            q = r.randrange(0, m); del cur[q:]; self.emit('xres', n, k, q)
        elif x < 0.86 and m: self.emit('xget', n, k, r.randrange(-m, m))
        elif x < 0.93: self.emit('xshow', n)
        elif x < 0.97:
            del o['items'][p]
            if not self.seq(o): del o['keys'][p]
            self.emit('xrem', n, k)
        else: self.kill(n)
    def add(self, n):
        o = self.h[n]; r = self.r
        if len(o['items']) >= XMAXE: return
        if self.seq(o):
            k = r.randrange(0, len(o['items']) + 1) if r.random() < 0.3 else len(o['items'])
            o['items'].insert(k, [])
        else:
            k = None
            while k is None or k in o['keys']:
                k = r.randrange(-20, 60) if r.random() < 0.7 else r.randrange(0, 40) * 55      # keys colliding in small tables
            o['keys'].append(k); o['items'].append([])
        self.emit('xadd', n, k)
    def kill(self, n):
        del self.h[n]; self.emit(self.r.choice(['xdel', 'xdel', 'xdrop']), n)
    def scenario(self, outer, inner):
        fr = [i for i in range(MAXN) if i not in self.h]
        if not fr: return
        n = fr[0]; o = dict(outer=outer, inner=inner, keys=[], items=[])
        self.h[n] = o; self.emit('xnew', n, outer, inner)
        for _ in range(self.r.randrange(2, 6)): self.add(n)
        saved = self.h; self.h = {n: o}
        for _ in range(self.r.randrange(15, 40)): self.step()
        if n in self.h: self.emit('xshow', n)
        saved.update(self.h)
        if n not in self.h: saved.pop(n, None)
        self.h = saved

# ------------------------------------------------------------------------------------------------ keep programs
MAXH = 8
KINDS = 'altkrqucsw'       # w: the table of a Thread object other than the running thread (set(t, key, obj) on `var t = new(Thread, f)`)
ROOT_KINDS = 'TACKLRUQ'    # the same containers made with new_root, their only pointer in static storage the collector does not scan
SEQ_KINDS = 'aluc'
class KeepGen:
    """containers (every kind that declares Mark, Ref/Box chains, thread-local storage, a Thread object's table) as the SOLE path to collector-managed
    objects; allocation pressure / forced collections; every element read back.  Emits into the same op file as Gen."""
    def __init__(self, rng, emit, serial0=0):
        self.r = rng; self.emit = emit
        self.h = {}                 # holder slot -> dict(kind, keys=[...] (maps) / n (sequences))
        self.serial = serial0
    def fresh_serial(self):
        self.serial += 1
        return self.serial - 1
    def new(self, kind=None):
        fr = [i for i in range(MAXH) if i not in self.h]
        if not fr or self.serial > 3900: return None
        h = self.r.choice(fr); kind = kind or (self.r.choice(ROOT_KINDS) if self.r.random() < 0.3 else self.r.choice(KINDS))
        self.h[h] = dict(kind=kind.lower(), rooted=kind.isupper(), keys=[], n=0); self.emit('hnew', h, kind)
        return h
    def size(self, h): o = self.h[h]; return o['n'] if o['kind'] in SEQ_KINDS else len(o['keys'])
    def put(self, h, key=None):
        o = self.h[h]
        if self.size(h) >= 110 or self.serial > 3900: return
        pay = self.r.randrange(0, 10**6)
        if o['kind'] in SEQ_KINDS:
            k = o['n'] if (key is None and self.r.random() < 0.7) else (self.r.randrange(0, o['n'] + 1) if key is None else key)
            o['n'] += 1
        else:
            k = key
            while k is None or k in o['keys']:
                x = self.r.random()
                # keys whose home slot lies beyond the item count (k mod nslots large), colliding keys, small keys
                k = self.r.randrange(0, 30) if x < 0.3 else self.r.randrange(30, 200) if x < 0.7 else self.r.randrange(0, 40) * LCM if x < 0.8 else self.r.randrange(0, 10**6)
            o['keys'].append(k)
        self.emit('hput', h, k, self.fresh_serial(), pay)
    def fill(self, h, n, lo=None):
        """n elements; for maps the keys lo..lo+n-1 (home slots beyond the item count when lo >= n)"""
        o = self.h[h]
        for i in range(n):
            if o['kind'] in SEQ_KINDS: self.put(h, key=o['n'])
            else:
                k = (lo if lo is not None else 40) + i
                if k not in o['keys']: self.put(h, key=k)
    def pick_elem(self, h):
        o = self.h[h]
        if self.size(h) == 0: return None
        return self.r.randrange(0, o['n']) if o['kind'] in SEQ_KINDS else self.r.choice(o['keys'])
    def remove(self, h, op=None):
        k = self.pick_elem(h)
        if k is None: return
        o = self.h[h]
        if o['kind'] in SEQ_KINDS: o['n'] -= 1
        else: o['keys'].remove(k)
        self.emit(op or self.r.choice(['hrem', 'hrel']), h, k)
    def shrink(self, h):
        o = self.h[h]
        if o['kind'] in SEQ_KINDS:
            n = self.r.randrange(0, o['n'] + 1); o['n'] = n
        else:
            n = 0; o['keys'] = []
        self.emit('hshrink', h, n)
    def pressure(self):
        for _ in range(self.r.choice([1, 1, 2, 3])): self.emit('hchurn', self.r.choice([40, 100, 200, 400]))
        if self.r.random() < 0.4: self.emit('gc')
    def step(self):
        r = self.r; x = r.random()
        live = list(self.h)
        if not live or x < 0.05:
            if self.new() is None and live: self.kill(r.choice(live))
            return
        h = r.choice(live); o = self.h[h]
        if x < 0.40: self.put(h)
        elif x < 0.50: self.remove(h)
        elif x < 0.55: self.emit('hget', h, self.pick_elem(h)) if self.size(h) else self.put(h)
        elif x < 0.70: self.emit('hread', h)
        elif x < 0.84: self.pressure()
        elif x < 0.88: self.shrink(h)
        elif x < 0.92 and o['kind'] in 'tk': self.emit('hreserve', h, r.randrange(max(1, self.size(h)), 300))
        elif x < 0.92 and o['kind'] == 'w': self.emit('hrun', h)
        elif x < 0.96: self.kill(h)
        else: self.bad()
    def kill(self, h):
        # a root is released with del_root (`hdel`); forgetting the only pointer to it leaks it in every build: out of contract
        rooted = self.h[h]['rooted']
        del self.h[h]; self.emit('hdel' if rooted else self.r.choice(['hdrop', 'hdel']), h)
    def bad(self):
        """outside the contract: every build and the model refuse it identically"""
        r = self.r; k = r.randrange(8)
        dead = next((i for i in range(MAXH) if i not in self.h), None)
        live = list(self.h)
        if k == 0 and dead is not None: self.emit('hread', dead)
        elif k == 1 and live: h = r.choice(live); self.emit('hget', h, 10**6 + 5 if self.h[h]['kind'] not in SEQ_KINDS else self.h[h]['n'])
        elif k == 2 and live: self.emit('hnew', r.choice(live), 'a')
        elif k == 3: self.emit('hchurn', 401)
        elif k == 4 and live: self.emit('hput', r.choice(live), 0, 0 if self.serial else 5000, 1)
        elif k == 5: self.emit('hnew', 9, 't')
        elif k == 6 and live: self.emit('hrun', r.choice(live))      # refused unless the holder is a Thread object (then it simply runs)
        elif k == 7 and any(o['rooted'] for o in self.h.values()): self.emit('hdrop', next(h for h, o in self.h.items() if o['rooted']))   # a root cannot be dropped
        elif k == 7 and dead is not None: self.emit('hnew', dead, r.choice('SW'))      # no roots of thread-local storage / Thread objects
        else: self.emit('hnew', 1, 'z')
    def root_scenario(self, kind):
        """a ROOT outside the collector's view (`static var reg; reg = new_root(<container>)`): filled, then enough allocation to force
        several threshold collections (and rehashes of the registry) while nothing but the root flag of its registry entry keeps it and
        what it holds; everything read back; changed (insertions, removals with and without del); pressure again; read back; released
        with del_root (or kept until the end of the run)"""
        r = self.r
        h = self.new(kind)
        if h is None: return
        n = r.choice([1, 3, 9, 17, 40])
        self.fill(h, n, lo=r.choice([n, 40, 0, 3 * n]))
        self.emit('hread', h)
        for _ in range(r.choice([2, 3, 4])): self.emit('hchurn', r.choice([200, 300, 400]))
        if r.random() < 0.5: self.emit('gc')
        self.emit('hread', h)
        for _ in range(r.randrange(0, 6)): self.put(h)
        for _ in range(r.randrange(0, min(n, 4) + 1)): self.remove(h)
        if kind.lower() in 'tk' and r.random() < 0.5: self.emit('hreserve', h, r.randrange(max(1, self.size(h)), 200))
        self.pressure(); self.pressure()
        self.emit('hread', h)
        if self.size(h): self.emit('hget', h, self.pick_elem(h))
        if r.random() < 0.7: self.kill(h)
    def exit_scenario(self, kind):
        """process exit (forked child) at moments when the program has itself deleted every Tracked object it made: removals only WITH del
        (`hrem`), holders only deleted (`hdel`), nothing left to the collector — outside the territory of KF-C18-exit-finalisation, so every
        build must end with the same ledger.  Only called before anything of the case was dropped."""
        r = self.r
        if r.random() < 0.5: self.emit('hexit')
        h = self.new(kind)
        if h is None: return
        self.fill(h, r.choice([1, 3, 6, 12]), lo=r.choice([0, 7, 40]))
        self.emit('hread', h)
        if r.random() < 0.5: self.pressure()
        for _ in range(r.randrange(0, 3)): self.remove(h, op='hrem')
        if r.random() < 0.3 and self.size(h): self.emit('hread', h)
        del self.h[h]; self.emit('hdel', h)
        self.emit('hexit')
    def scenario(self, kind):
        """the directed shape: fill one container so that it is the only path to its objects, allocate until the collector has run
        several times, read everything back; then removals / shrinking, again pressure, again everything read back"""
        r = self.r
        h = self.new(kind)
        if h is None: return
        n = r.choice([5, 17, 40, 60])
        self.fill(h, n, lo=r.choice([n, n, 40, 0, 3 * n]))
        self.emit('hread', h)
        self.pressure(); self.pressure()
        self.emit('hread', h)
        if kind == 'w' and r.random() < 0.7:
            # started later: the thread reads what main stored in its table; afterwards it is again a Thread object that is not running
            self.emit('hrun', h); self.pressure(); self.emit('hread', h)
        for _ in range(r.randrange(0, n // 2 + 1)): self.remove(h)
        if r.random() < 0.5 and kind in 'tk': self.emit('hreserve', h, r.randrange(max(1, self.size(h)), 200))
        if r.random() < 0.4: self.shrink(h)
        for _ in range(r.randrange(0, 8)): self.put(h)
        self.pressure()
        self.emit('hread', h)
        if kind == 'w': self.emit('hrun', h)
        if self.size(h): self.emit('hget', h, self.pick_elem(h))
        if r.random() < 0.6: self.kill(h)


# ------------------------------------------------------------------------------------------------ run-time types
RT_TABLE = [('New', 'New', [1, 1]), ('Cmp', 'Cmp', [1]), ('Hash', 'Hash', [1]), ('Len', 'Len', [1]), ('C_Int', 'C_Int', [1]), ('Show', 'Show', [1, 0]),
            ('Assign', 'Assign', [1]), ('Copy', 'Copy', [1]), ('Size', 'Size', [1]), ('C_Str', 'C_Str', [1]), ('C_Float', 'C_Float', [1]),
            ('Get', 'Get', [1, 0, 1, 0, 0, 0]), ('Push', 'Push', [1, 1, 0, 0]), ('Concat', 'Concat', [1, 0]), ('Mark', 'Mark', [1]), ('Resize', 'Resize', [1]),
            ('Hash2', 'Hash', [1]), ('Len2', 'Len', [1]), ('C_Int2', 'C_Int', [1]), ('New0', 'New', [1, 0])]       # same table as harness/h_cfg.c, Cello/ConfigType.lean
RT_PROBE = ['New', 'Cmp', 'Hash', 'Len', 'C_Int', 'Show', 'Assign', 'Copy', 'Size', 'C_Str', 'C_Float', 'Get', 'Push', 'Concat', 'Mark', 'Resize', 'Iter', 'Doc']
RT_ROUTES = ['new', 'raw', 'root', 'con', 'conraw', 'conroot']
RT_NAMES = ['Cell', 'Foo', 'Point', 'A', 'Zq9', 'Vec3', 'Node', 'LongTypeName0123456', 'T', 'Pair']
MAXTY = 8
MAXOB = 24
class RtGen:
    """run-time types: new(Type, name, size, instances…) with 0…24 harness-provided instances (sometimes a class twice) by every public
    route, queried (type_implements / type_instance / type_implements_method, name, size), used through objects (construct, the declared
    member or the library default of every class, copy, cast, del), re-constructed in place with longer and shorter lists.  O lines: modelled."""
    def __init__(self, rng, emit):
        self.r = rng; self.emit = emit
        self.ty = {}        # slot -> dict(decl=[table index], name, size)
        self.ob = {}        # slot -> dict(ty, v)
    def decl(self, t, cls):
        return next((k for k in self.ty[t]['decl'] if RT_TABLE[k][1] == cls), None)
    def needs(self, t, cls, m):
        k = self.decl(t, cls)
        return k is not None and RT_TABLE[k][2][m] == 1
    def insts(self, n):
        r = self.r; x = r.random()
        if x < 0.5: ks = r.sample(range(16), min(n, 16)) + [r.randrange(20) for _ in range(max(0, n - 16))]        # distinct classes first
        elif x < 0.8: ks = [r.randrange(20) for _ in range(n)]                                                        # duplicates: the first one counts
        else: ks = [(r.randrange(20) + j) % 20 for j in range(n)] if n else []
        r.shuffle(ks)
        return ks[:n]
    def new_type(self, n=None, route=None):
        r = self.r
        fr = [i for i in range(MAXTY) if i not in self.ty]
        if not fr: return None
        t = r.choice(fr)
        n = r.choice([0, 1, 2, 3, 4, 5, 6, 7, 8, 9, 10, 11, 12, 12, 16, 24]) if n is None else n
        ks = self.insts(n); name = r.choice(RT_NAMES); size = r.choice([8, 16, 16, 24, 40, 64])
        self.ty[t] = dict(decl=ks, name=name, size=size)
        self.emit('ty', t, route or r.choice(RT_ROUTES), name, size, *[RT_TABLE[k][0] for k in ks])
        return t
    def big_type(self, n):
        fr = [i for i in range(MAXTY) if i not in self.ty]
        if not fr: return None
        t = self.r.choice(fr); k = self.r.randrange(20); name = self.r.choice(RT_NAMES); size = self.r.choice([8, 16, 40])
        if 0 <= n <= 256: self.ty[t] = dict(decl=[(k + j) % 20 for j in range(n)], name=name, size=size)
        self.emit('tybig', t, self.r.choice(RT_ROUTES), name, size, n, k)
        return t if 0 <= n <= 256 else None
    def re_type(self, t, n=None):
        r = self.r
        if any(o['ty'] == t for o in self.ob.values()): return
        n = r.choice([0, 1, 2, 3, 4, 5, 6, 8, 12, 20]) if n is None else n
        ks = self.insts(n); name = r.choice(RT_NAMES); size = r.choice([8, 16, 24, 40])
        self.ty[t] = dict(decl=ks, name=name, size=size)
        self.emit('tyre', t, name, size, *[RT_TABLE[k][0] for k in ks])
    def query_type(self, t):
        r = self.r; x = r.random()
        if x < 0.7:
            d = [RT_TABLE[k][1] for k in self.ty[t]['decl']]
            self.emit('tyq', t, r.choice(d) if d and r.random() < 0.6 else r.choice(RT_PROBE))
        else: self.emit('tyshow', t)
    def new_obj(self, t):
        fr = [i for i in range(MAXOB) if i not in self.ob]
        if not fr: return None
        o = self.r.choice(fr); v = self.r.randrange(0, 200)
        self.ob[o] = dict(ty=t, v=v if self.decl(t, 'New') is not None else 0)
        self.emit('ob', o, t, self.r.choice(['new', 'raw', 'root']), v)
        return o
    def del_obj(self, o):
        del self.ob[o]; self.emit('od', o)
    def query_obj(self, o, q=None):
        r = self.r; ob = self.ob[o]; t = ob['ty']; v = ob['v']
        q = q or r.choice(['cint', 'len', 'cstr', 'cflt', 'hash', 'cmp', 'eq', 'asg', 'show', 'size', 'impl', 'cast', 'mem', 'get', 'push', 'pop', 'cat', 'resize', 'copy'])
        same = [x for x, b in self.ob.items() if b['ty'] == t]
        ok = lambda w: 0 <= w <= 255
        if q in ('cint', 'len', 'cstr', 'cflt', 'mem', 'get'):
            cls, m = dict(cint=('C_Int', 0), len=('Len', 0), cstr=('C_Str', 0), cflt=('C_Float', 0), mem=('Get', 2), get=('Get', 0))[q]
            if not self.needs(t, cls, m) and r.random() < 0.9: return          # (sometimes sent anyway: refused by both sides)
            self.emit('oq', o, q)
        elif q in ('hash', 'show', 'size', 'cast'): self.emit('oq', o, q)
        elif q == 'impl': self.emit('oq', o, 'impl', r.choice(RT_PROBE))
        elif q in ('cmp', 'eq'): self.emit('oq', o, q, r.choice(same))
        elif q == 'asg':
            c = [x for x in same if x != o and ok(self.ob[x]['v'] + 1)]
            if not c: return
            x = r.choice(c); ob['v'] = self.ob[x]['v'] + 1 if self.needs(t, 'Assign', 0) else self.ob[x]['v']
            self.emit('oq', o, 'asg', x)
        elif q == 'push':
            k = r.randrange(-5, 20)
            if not self.needs(t, 'Push', 0) or not ok(v + k): return
            ob['v'] = v + k; self.emit('oq', o, 'push', k)
        elif q == 'pop':
            if not self.needs(t, 'Push', 1) or not ok(v - 1): return
            ob['v'] = v - 1; self.emit('oq', o, 'pop')
        elif q == 'cat':
            k = r.choice([0, 1, 1, 2, -1])
            if not self.needs(t, 'Concat', 0) or not ok(v + 100 * k): return
            ob['v'] = v + 100 * k; self.emit('oq', o, 'cat', k)
        elif q == 'resize':
            n = r.randrange(0, 256)
            if not self.needs(t, 'Resize', 0): return
            ob['v'] = n; self.emit('oq', o, 'resize', n)
        elif q == 'copy':
            fr = [i for i in range(MAXOB) if i not in self.ob]
            if not fr or not ok(v + 5): return
            d = r.choice(fr)
            nv = v + 5 if self.needs(t, 'Copy', 0) else v + 1 if self.needs(t, 'Assign', 0) else v
            self.ob[d] = dict(ty=t, v=nv); self.emit('oq', o, 'copy', d)
    def del_type(self, t):
        for o in [x for x, b in self.ob.items() if b['ty'] == t]: self.del_obj(o)
        del self.ty[t]; self.emit('tydel', t)
    def step(self):
        r = self.r; x = r.random()
        if not self.ty or x < 0.08:
            if self.new_type() is None and self.ty: self.del_type(r.choice(list(self.ty)))
            return
        t = r.choice(list(self.ty))
        obs = [o for o, b in self.ob.items() if b['ty'] == t]
        if x < 0.20: self.query_type(t)
        elif x < 0.32 or not obs: self.new_obj(t)
        elif x < 0.80: self.query_obj(r.choice(obs))
        elif x < 0.88: self.del_obj(r.choice(obs))
        elif x < 0.93:
            for o in obs: self.del_obj(o)
            self.re_type(t)
        elif x < 0.97: self.del_type(t)
        else: self.bad()
    def bad(self):
        """outside the contract (or ill-formed): every build and the model refuse it identically"""
        r = self.r; k = r.randrange(9)
        live = list(self.ty); dead = next((i for i in range(MAXTY) if i not in self.ty), None)
        if k == 0 and live: self.emit('ty', r.choice(live), 'new', 'Dup', 16, 'Cmp')
        elif k == 1 and dead is not None: self.emit('ty', dead, 'new', 'Odd', r.choice([0, 7, 12, 72, -8]), 'Cmp')
        elif k == 2 and dead is not None: self.emit('ty', dead, 'new', 'bad_name', 16)
        elif k == 3 and dead is not None: self.emit('ob', r.randrange(MAXOB), dead, 'new', 1)
        elif k == 4 and live: self.emit('ob', 30, r.choice(live), 'new', 1)
        elif k == 5 and live and any(b['ty'] == live[0] for b in self.ob.values()): self.emit(r.choice(['tydel', 'tyre']), live[0], *(['X', 8] if False else []))
        elif k == 6: self.emit('ty', 9, 'new', 'Far', 16)
        elif k == 7 and dead is not None: self.emit('tybig', dead, 'raw', 'Big', 16, r.choice([257, 300, -1]), 0)
        else: self.emit('ty', 0, 'sideways', 'X', 8)
    def cycle(self, rounds):
        """delete / re-create cycles: a type is asked for every probe class and used through an object (the last lookups before it
        dies), deleted, and at once another type with another instance list is made — Type_Alloc always asks for the same size, so the
        allocator hands the same block back — and asked for the same classes: whatever a build remembers about a type by its ADDRESS
        (beyond the cache words inside the type object, which die with it) now belongs to another type"""
        r = self.r
        for j in range(rounds + 1):
            if len(self.ty) >= MAXTY: return
            t = self.new_type(r.choice([2, 3, 5, 8, 11]), r.choice(['new', 'root', 'raw', 'con']))
            if t is None: return
            o = self.new_obj(t)
            if o is not None:
                for q in ('show', 'copy', 'hash', 'size', 'cmp', 'resize', 'cat', 'push'): self.query_obj(o, q)
            for c in r.sample(RT_PROBE, 8): self.emit('tyq', t, c)
            for c in ('Show', 'Copy', 'Concat', 'Resize', 'Mark', 'Push'): self.emit('tyq', t, c)      # classes without a reserved cache slot, last
            self.del_type(t)
    def scenario(self, n, route):
        """the directed shape: a type with n instances by the given route; every probe class asked; two objects used through every
        class the type declares and through the defaults of those it does not; re-constructed in place (shorter, then longer); deleted"""
        r = self.r
        for t in list(self.ty):
            if len(self.ty) >= MAXTY - 1: self.del_type(t)
        t = self.new_type(n, route)
        if t is None: return
        for c in r.sample(RT_PROBE, 6): self.emit('tyq', t, c)
        self.emit('tyshow', t)
        a = self.new_obj(t); b = self.new_obj(t)
        if a is not None and b is not None:
            for q in ['size', 'cast', 'hash', 'show', 'cmp', 'eq', 'cint', 'len', 'cstr', 'cflt', 'mem', 'get', 'push', 'pop', 'resize', 'cat', 'asg', 'copy', 'impl']:
                self.query_obj(a, q)
            self.query_obj(b, 'show'); self.query_obj(b, 'hash')
        for o in [x for x, ob in self.ob.items() if ob['ty'] == t]: self.del_obj(o)
        self.re_type(t, r.choice([0, 1, 2, 3]) if n > 3 else n + r.choice([3, 4, 5, 6, 9]))
        for c in r.sample(RT_PROBE, 4): self.emit('tyq', t, c)
        o = self.new_obj(t)
        if o is not None:
            for q in ['show', 'hash', 'size', 'cint', 'len']: self.query_obj(o, q)
            self.del_obj(o)
        self.re_type(t, r.choice([4, 5, 6, 7, 12]))
        self.emit('tyshow', t)
        if r.random() < 0.7: self.del_type(t)

PROFILES = {
    'mixed':  dict(rt=8, probe=3, ring=1, new=10, kill=6, push=14, pop=8, read=12, set=5, sort=3, mset=12, mread=9, mrem=5, copy=4, concat=2, resize=1, cmp=4, vset=2, exc=2, tonly=8, tuple=8, edit=10, nested=4),
    'seq':    dict(probe=1, ring=1, new=6, kill=3, push=30, pop=16, read=14, set=8, sort=6, copy=3, concat=4, resize=2, cmp=4, tonly=6, exc=1, edit=8),
    'map':    dict(probe=1, ring=1, new=5, kill=2, mset=40, mread=20, mrem=18, copy=3, tonly=2, exc=1, edit=10),
    'churn':  dict(rt=6, probe=3, ring=4, new=30, kill=26, copy=12, push=6, mset=6, read=4, mread=4, vset=4, tonly=6, exc=2, tuple=14, edit=6, nested=4, _drop=0.6),   # allocation pressure: collector at work
    'views':  dict(rt=4, probe=8, ring=1, new=8, kill=3, push=14, pop=4, tonly=50, read=6, vset=4, exc=6, cmp=4, edit=4),
    'tuples': dict(probe=2, ring=2, new=10, kill=4, vset=6, tuple=60, tonly=4, exc=2, copy=3, nested=8, _drop=0.3),   # heap Tuples whose items only the Tuple references
    'keep':   dict(probe=1, ring=1, new=8, kill=4, push=4, mset=4, read=2, mread=2, copy=2, tonly=2, keep=70, edit=2, _drop=0.5),   # containers as the sole path to managed objects
    'types':  dict(rt=70, probe=4, ring=1, new=6, kill=3, push=3, mset=3, read=2, copy=2, tonly=4, exc=1, _drop=0.4),   # run-time types: created, queried, used, re-constructed
    'edits':  dict(probe=1, ring=1, new=12, kill=4, push=8, pop=3, read=4, set=2, sort=1, mset=12, mread=4, mrem=2, copy=4, concat=1, tonly=3, exc=1, edit=60, nested=14, _drop=0.3),   # in-place edits on every allocation class
}

class C18(Spec):
    id = 'C18'; engine = 'cfg'; harness = 'h_cfg'; driver = 'drv_cfg'
    generators = ('Cfg',)
    harness_timeout = 120
    technique = ('Lean 4 proof over a configuration-indexed model of an API step (checks / method cache / collector) and of heap-graph programs whose '
                 'containers are the sole path to managed objects (collector = the C01 marker on what each Mark instance presents), source-derived '
                 'tables of every conditional-compilation block re-extracted and re-checked each run, and a differential build matrix '
                 '(configuration switches x optimisation levels) of one interpreted public-API workload; run-time type objects: every index expression of '
                 'src/Type.c regenerated as a term and evaluated under both values of the cache switch on top of the C08 record model; the root flag of a '
                 'registry entry: members of struct GCEntry, every initialiser of it, the tests of GC_Mark / GC_Sweep and the callers of GC_Set_Ptr regenerated, '
                 '"which initialiser item feeds which member" resolved in Lean and used by the keep model`s registry')
    level_text = ('Theorem C18_config_independent: in the model of an API step (type_of checks, cached Type_Instance, method check, guarded '
                  'method body, header_init, registration with the collector, mark and sweep, del) a program whose every step is in-contract '
                  'under the default configuration produces the same outcomes and leaves the same observable object contents under every '
                  'combination of the three switches. C18_checks_only_guard_raises / C18_collector_blocks_only_register / '
                  'C18_static_header_matches_struct are decided over tables regenerated from /repo on every run (every #if CELLO_*_CHECK, '
                  '#ifndef CELLO_NGC and #if CELLO_CACHE block, struct Header, the CelloObject literal), so a source change that puts a needed '
                  'side effect under a switch breaks the build of the theorem. Optimisation levels are not modelled: they are compared. '
                  'Keep programs (containers of every kind that declares Mark, Ref/Box chains, thread-local storage, the table of a Thread object held in a variable — not started, or started and joined later — as the SOLE path to '
                  'collector-managed objects): C18_keep_config_independent — any two configurations compute the same outcomes on every such '
                  'program, whenever and however often either collector ran (C18_keep_collection_schedule_irrelevant); '
                  'C18_collect_preserves_reachable — GC_Mark;GC_Sweep (the marker of Cello/Heap.lean, proved complete in C01, run on what each '
                  'Mark instance presents) keeps every block reachable through what the containers HOLD; C18_mark_covers_container — every Mark '
                  'instance covers everything its container holds, stated over the loop bound of Table_Mark and the Mark texts regenerated from '
                  '/repo (C18_mark_functions_as_modelled; C18_thread_table_as_modelled for Thread_New/Del/Get/Set/Mem/Rem; C18_thread_table_mark_needed), so a Mark function that skips slots or items, or a Thread_Mark that presents only the marking thread`s table, breaks the build of the theorems. '
                  'Guards over the allocation class: every `if (cond) throw` inside #if CELLO_*_CHECK is regenerated as a term (CelloGen.Cfg.guards: '
                  'function, macro, condition as GExpr over header(self)->alloc, exception) together with the class every header_init site stamps '
                  '(stamps) and the enum values; the model evaluates exactly these terms on the header class of the object each guarded function '
                  'runs on (the handle`s own object, or an element embedded in an Array/List/Table/Tree reached through get or iteration). '
                  'Run-time types (new(Type, name, size, instances...)): the layout of a type object differs between builds (CELLO_CACHE_NUM = 18 / 0 cache words, '
                  'instance triples from cell CELLO_NBUILTINS = 8 / 2); translate/g_cfg.py regenerates every index expression of src/Type.c that touches it (the enum, '
                  'the cell count of Type_Alloc, every loop bound and store index of Type_New with single-assignment locals substituted, the cells Type_Builtin_Name / '
                  'Type_Builtin_Size read, the start of both walks of Type_Scan) as a term over CELLO_CACHE_NUM, CELLO_NBUILTINS, CELLO_MAX_INSTANCES, len(args) and the '
                  'loop variable; Cello/ConfigType.lean evaluates these terms under the constants of each configuration (typeNewSrc, ofRawSrc, runLifeSrc). '
                  'C18_type_layout_current_source: for all 8 configurations, every len(args) and every value of the loop variable each expression evaluates to the cell '
                  'the layout of THAT configuration needs (so `t[nargs]` for the terminator, right only with the cache compiled out, breaks the build of the theorem); '
                  'C18_type_new_source_as_layout: the source-driven constructor/readers are the word-level Type_New/record view of C08 for that layout; '
                  'C18_type_new_any_storage_any_config: in any configuration, from any previous contents of the storage, the type reads back with the name, size and exactly '
                  'the instance triples passed; C18_type_record_config_independent: any two configurations answer every in-contract history of lookups '
                  '(type_instance/implements/method/implements_method, cold or warm, declared or not) interleaved with re-constructions in place identically, namely '
                  'with what the instance list in force declares; C18_ty_line_config_independent: the observation the executable workload model (the function the driver runs under all eight '
                  'configurations) prints for a construction line is the same through the word-level object of any two configurations and is the one the instance list dictates; C18_terminator_at_nargs_refuted: the hoisted-local variant is right for every list without the cache and loses '
                  'the name (4 instances), the size (5) or every instance (6+) with it. '
                  'C18_alloc_guards_false_in_contract: every CELLO_ALLOC_CHECK guard of the source is false on every class on which its function is '
                  'defined (alloc_by objects AND embedded elements for String_*/Tuple_*; alloc_by objects for dealloc) - that is what makes the '
                  'check removable; C18_memory_checks_follow_allocation: every CELLO_MEMORY_CHECK guard compares with NULL exactly the pointers the statements DIRECTLY before the #if assigned from malloc/calloc/realloc (String_Resize before fix 63509f2 fails it); '
                  'process exit: Keep.kexit models the main wrapper of Cello.h (atexit(Cello_Exit) -> GC_Del sweeps everything still registered; only #ifndef CELLO_NGC; texts regenerated, C18_exit_hook_as_modelled); C18_process_end_refuted — on a program without any error path the builds with and without collector have run different destructors when the process has ended (KF-C18-exit-finalisation); C18_process_end_partial — for every program that itself deletes the objects with observable destructors (Keep.ReleasesAll, decidable) all eight configurations end with the same ledger: every object made, each once; '
                  'ROOTS (new_root / del_root): translate/g_cfg.py regenerates the members of struct GCEntry in declaration order, every brace initialiser of such an object (positional or designated) with its function, every member-wise assignment, '
                  'the members the sweep test and the root loop of GC_Mark read, the parameters and every call of GC_Set_Ptr, and the flag each case of alloc_by registers with; Keep.entryInitExpr resolves which initialiser item feeds which member the way C does, '
                  'Keep.storedRoot r = what the collector`s tests find in the entry made with root argument r, and the registry of the keep model (Keep.toHeap) gives the entry of a new_root container exactly that flag, while the variable holding it is NOT among the stack words (Slot.rooted: static storage). '
                  'C18_root_flag_reaches_collector_tests (decide over the regenerated tables): the root argument arrives in the member GC_Sweep and GC_Mark test, a new entry starts unmarked, GC_Set_Ptr holds the only initialiser, nothing else writes the flag, GC_Rehash re-inserts with it, '
                  'alloc_root registers with $I(1) - `bool marked; bool root;` against the positional `{ ptr, ihash, root, 0 }` breaks it; it is the hypothesis (Keep.RootWired) under which every keep theorem above is proved for programs that ALSO keep containers as roots outside the collector`s view; '
                  'C18_root_flag_needed: with the flag not stored the smallest such program loses its root at the first collection (lemma kcollectW_unwired_loses_root through C01`s gcMark_iff_reach). '
                  'OBJECTS THAT CROSS THE END OF A COLLECTOR (extension round): every thread has its own collector, torn down by GC_Del = GC_Unmark; GC_Sweep (no mark phase) when the thread function has returned (Thread_Init_Run) or the process ends (Cello_Exit), so whether a block outlives the collector it was registered with is decided by the scanning loop of GC_Sweep alone. '
                  'translate/g_cfg.py regenerates that loop as a decision list over the members of struct GCEntry (gcSweepLoop: skip / free / next, each with its conjunction of member tests), the members GC_Unmark clears, the phase sequences of GC_Del and GC_Set, the prologue of GC_Mark, and Thread_Init_Run statement by statement with its #ifndef CELLO_NGC guards (threadRunEvents); Cello/ConfigThread.lean evaluates them on the entry GC_Set_Ptr`s initialiser builds (Thr.sweepFrees, Thr.teardown, Thr.workerRun, Thr.runThread). '
                  'C18_teardown_spares_roots (decide over the regenerated tables): the loop releases an occupied slot exactly when it carries neither the root argument nor the mark bit, GC_Del = GC_Unmark; GC_Sweep, a collection = GC_Mark; GC_Sweep with GC_Unmark first - dropping the root test ("roots are marked by GC_Mark anyway") breaks it; '
                  'C18_roots_outlive_their_collector: for EVERY worker history (allocations by new / new_raw / new_root in any order, threshold collections at any moments with any reach set) and every configuration no block made with new_root or new_raw has been released when the thread has ended (invariant proof, Lemmas/CfgThread.lean); C18_worker_results_config_independent: the same blocks are roots in any two builds and each is alive after join in both; '
                  'C18_worker_plain_result_refuted: without the restriction to roots the statement is false (KF-C13-join-result-finalised); C18_unguarded_sweep_loop_refuted: the loop without the root test keeps roots through collections and loses them at the teardown; C18_thread_collector_brackets_thread_function: run in the order of Thread_Init_Run a started thread IS Thr.workerRun in every configuration (collector made before the thread function, torn down after it, only these statements guarded); '
                  'C18_joined_step_is_raw_step: for the joiner the object is a block no collector manages (the workload model`s `w` step is the new_raw step). '
                  'C18_alloc_guards_classify: over all four classes the guards of a function fire exactly where it is undefined '
                  'without them; C18_edit_never_refused_for_its_class: no in-place edit is refused for where its target lives, in any build.')
    level_note = ('PARTIAL by nature: the compiler is not modelled; optimisation levels and the real effect of the switches on the C code are '
                  'covered by the differential build matrix (testing). Trusted: Lean kernel; translate/g_cfg.py (text-level extraction); '
                  'the harness/driver/transcript comparison; clang, libc.')
    rule = ('workloads: op files of 250-600 public-API operations over <=48 objects (Int, String, Array, List, Table, Tree, heap Tuple; push/pop/insert/'
            'remove/get/set/mem/len/sort/copy/concat/resize/compare, map set/get/rem/mem, iteration both ways, caught and nested '
            'exceptions; value objects made by new / new_raw / new_root; `ed x SEL EDIT`: in-place edits (concat, append, resize up and down, assign, '
            'print_to at a position, rem, look_from = String_Clear + String_Concat per character) applied to the object itself, to an element of an Array / '
            'List reached by get or by iteration, to a value of a Table / Tree reached by get, to a key reached by iteration (value-preserving edits only) - '
            'i.e. on every allocation class the functions are defined on (AllocHeap and AllocData; modelled, O lines); '
            'run-time types `ty/tybig/tyre/tyq/tyshow/tydel/ob/oq/od` (modelled, O lines): new(Type, name, size, instances...) with 0...24 (tybig: up to 256 = '
            'CELLO_MAX_INSTANCES) instance objects the harness provides for 16 classes (New with and without destructor, Cmp, Hash x2, Len x2, C_Int x2, Show, Assign, '
            'Copy, Size, C_Str, C_Float, Get, Push, Concat, Mark, Resize; a class may occur twice: the first counts), by new / new_raw / new_root / '
            'construct_with(alloc|alloc_raw|alloc_root(Type)); every construction prints and checks name (c_str), __Size cell, size(T), type_implements for 18 classes and '
            'type_instance for each; tyq: type_implements / type_instance / type_implements_method per member; tyshow: print_to "%s|%$"; objects by '
            'new_with/new_raw_with/new_root_with, used through every class (the declared member, or the library default for hash/cmp/eq/assign/copy/show/size/cast), del by '
            'route with a destructor count; re-construction in place (destruct; construct_with) with longer and shorter lists; every case starts with one directed '
            'run-time type whose instance count rotates through 0...12 and whose route rotates through the six; '
            'transcript-only: nested holders `x…` (Array / List / Table / Tree whose elements are Arrays of Int, Lists of Int or Tuples of built-in Type '
            'objects, embedded in the outer storage and edited in place through get(): push, pop, pop_at, set, concat, resize, rem of the inner object), '
            'hash, show, print_to formats, Float, range/slice/reverse/enumerate/zip/filter/map views, forced '
            'collections, heap Tuples whose items only the Tuple references, probe types implementing 17 of the 18 cached classes queried in '
            'random orders cold and warm, dropped rings of Boxes owning each other followed by allocation churn; keep programs `h…`: holders of ten kinds — Array/List '
            'of Ref, Table and Tree with the pointer in the value (Int->Ref) or in the key (KCell->Int), heap Tuple, Ref/Box chain through the last word of a '
            'plain struct, thread-local storage, the table of a Thread object that is not the running thread (`var t = new(Thread, f); set(t, key, obj)`; `hrun`: call(t); join(t) — the started thread reads every entry through get(current(Thread), key)) — each the only path to its Tracked objects, filled (maps with keys whose home slots lie beyond the item '
            'count, colliding keys, rehash by resize), put under allocation pressure and forced collections, every element read back (serial, payload, type) '
            'after removals with and without del, shrinking and clearing; ROOTS: `hnew h <UPPER-CASE kind>` makes the same container (Array, List, both Tables, both Trees, heap Tuple, Ref chain head) with new_root and keeps its ONLY pointer in static storage, XOR-masked - '
            'a root referenced from the data segment, which the collector does not scan - released with del_root (`hdel`); `nvo`: new_root String / Int objects kept the same way; the harness scrubs the dead stack below main before every operation (48 kB) and runs every '
            'use of a root in its own frame, so nothing but the root flag of the registry entry keeps a root (and the Tracked objects it holds) alive through the threshold collections that `hchurn` (up to 400 allocations each, 2-4 in a row: several collections and rehashes of the registry) forces; '
            'after every operation every holder and every new_root object the program still holds must be registered with the collector (public API mem(current(GC), obj), which does not touch the object): a reclaimed root is an oracle failure before freed memory is read; '
            'one directed root scenario (the eight kinds in rotation: fill, pressure, read back, insert/remove, rehash, pressure, read back, del_root or keep) and two new_root value objects (pressure, read, edit in place, pressure, read, del_root) per case; '
            'WORKER-MADE ROOTS `w nvo|na|nl|nt|nr …` (modelled, O lines): a Cello Thread is started whose function allocates ordinary garbage, makes the object with new_root / new_root_with (String, Int, Array, List, Table, Tree of Int / String), stores the pointer in a C global (masked) and returns - '
            'Thread_Init_Run tears the worker`s collector down - the main thread joins and from then on reads and changes the object with every operation of the workload (get, iteration, set, push, sort, map set / rem, in-place edits, copy, compare, hash, formats) across its own threshold collections; oracle: before the object is touched after join and before / after every later operation its block must not have been freed (ASan: header not poisoned) and its header must name its type '
            '(X worker-root-destroyed-at-thread-end / -after-thread-end), then the usual contents check against the shadow; one directed worker scenario per case (three objects, kinds in rotation, 10-24 operations on them with allocation pressure in between) and ~10% of all constructions of the random part; '
            'a destructor ledger audited after every operation: no stored object finalised, none '
            'twice, del finalises at once; `hexit`: process exit in a forked child, the ledger read by a destructor-attribute function after Cello_Exit — one directed exit scenario per case, at a moment when everything made was deleted by the program), nine profiles (mixed, sequences, maps with colliding keys, '
            'allocation churn with dropped objects, views, tuples, keep, edits; every case starts with one directed keep scenario (the ten kinds in rotation), '
            'one directed edit scenario (a String made by new / new_raw / new_root in rotation, a String Array or List, a String Table or Tree, every selector '
            'twice) and one nested holder (outer x inner kinds in rotation)), ~2% '
            'deliberately out-of-contract operations that every build and the model must refuse identically. Each file runs on the default '
            'build + Lean driver (O lines compared) and on every build of the matrix (O and T lines compared byte for byte with the default '
            'build). non-trivial item = an operation that was in contract and executed (not refused); distinct = distinct (operation text, '
            'printed observation) pairs.')
    trusted_base = ('translate/g_cfg.py (regex/brace-level extraction from Cello.h and src/*.c)',
                    'harness/h_cfg.c with its C shadow oracle, lean/Driver/Cfg.lean, the transcript comparison (testing)',
                    'clang-14 at -O0/-O2/-O3 with and without ASan/UBSan; libc',
                    'the model abstracts objects to values (no addresses): layouts (header size, cache words) are covered by the table theorems and the build matrix',
                    'run-time types: Cello/Dispatch.lean (record level, Type_Scan / Type_Instance, C08) is imported as it is; the C-integer semantics of index expressions is evaluated in Z (a negative intermediate is not wrapped)',
                    'roots: that the static cells, the XOR mask and the stack scrubbing of harness/h_cfg.c really hide the pointer from the conservative scan is not proved (on the unchanged tree it cannot matter: the root flag keeps the object; on a changed tree a surviving stray copy can only hide a failure, and the registry audit does not depend on it)',
                    'worker-made roots: GC_Probe / the back-shift of GC_Sweep, GC_Resize_Less and the release loop are not part of the decision list (their model is C17`s Cello/Registry.lean); that a freed block is recognised (ASan poisoning, else the wiped / reused header) is the harness oracle`s assumption; container objects made by a worker are registered with the MAIN collector in the joiner`s model state (Op.nseq / Op.nmap have no allocation mode), value objects are not (new_raw step) - neither is observable',
                    'keep programs: Cello/Heap.lean (marker, C01) and Cello/Table.lean (slot placement, C02) are imported as they are; the model collects when ITS registry count passes the threshold, the real collector at other moments (the registry also holds the rest of the workload): C18_keep_collection_schedule_irrelevant is what bridges the two; Tree shape is not modelled (Tree_Mark = in-order walk over all nodes)')
    assumptions = ('in-contract programs only: every operation is validated against the harness shadow first; bad index, absent key, wrong element type, dead handle are refused before the call',
                   'known-finding territory avoided: Table/Tree equality and hashing (F06), Slice with stop/step (F11), Zip backward (F12), repeated pointers in Tuples (F13), del while the collector is stopped (F23), Box elements (F28), print_to error paths (F29)',
                   'worker-made roots (`w …`): the worker publishes only what it made with new_root (a result made with plain new is finalised by the worker`s teardown: KF-C13-join-result-finalised) and only containers of Int / String, whose storage is plain malloc memory; nobody can release such an object once its thread has ended - del_root from another thread asks that thread`s collector, which ignores a block it does not know (KF-C19-del-silent) while a CELLO_NGC build destructs and frees it: a memory-only difference the workload stays out of - `del` / `drop` of such a handle only forgets it, the object stays until the process ends (String / Int / containers of them: destructors only release memory, so the exit-time sweep of KF-C18-exit-finalisation, which does not reach them anyway, is not observable)',
                   'single thread, except `w` (the worker allocates and ends before the main thread continues) and `hrun`: one started thread at a time that only reads, while the main thread waits in join (no collection of the main thread`s collector while another thread runs: the unsynchronised walk of a running thread`s table is known finding KF-C13-mark-foreign-tls); no allocation failure; String values <= 30 bytes, containers <= 120 elements',
                   'in-place edits: text [0-9A-Za-z_]*, results <= 30 bytes, print_to position within the text; keys of a Table/Tree are only rewritten with their own value (anything else breaks the map and is out of contract); stack and static Strings are never edited (not defined: their buffer is not a malloc block; that the guards fire there is theorem C18_alloc_guards_classify, the behaviour itself belongs to C12/C19)',
                   'nested holders: <= 8 holders x 12 inner objects x 24 items; embedded Tuples hold built-in Type objects only (static, never freed: known finding KF-C01-dangling-tuple-item avoided) and no object twice (F13); inner containers only shrink by resize',
                   'roots: a container made with new_root is released with del_root; forgetting the only pointer to it (`hdrop` of a rooted holder) leaks it in every build and is refused as out of contract; no roots of thread-local storage / Thread objects; run-time types and their objects made by the `root` routes are still held in variables of main (their root flag is not what keeps them)',
                   'keep programs: non-negative Int keys <= 10^6, no overwriting of an existing key, at most 8 holders x 120 elements, each Tracked object stored in exactly one place (no sharing, no cycles), Box only as a chain link (F28); released objects are never required to be collected (conservative stack scan)',
                   'run-time types: names [0-9A-Za-z]{1,20}, sizes 8..64, at most CELLO_MAX_INSTANCES instances (more is undefined with the checks compiled out), object values 0..255 (so the default memcmp order is the numeric one), a type is deleted or re-constructed only when no object of it is alive, instances live in static storage (a run-time type keeps the pointers it is given); the default hash (hash_data over the object) is checked in C and printed as `*`',
                   'process exit (audit 2, item 2): known-finding territory KF-C18-exit-finalisation avoided — `hexit` (exit in a forked child, destructor ledger read after the atexit handlers) is generated only at moments when the program has itself deleted every Tracked object it made (hypothesis Keep.ReleasesAll of C18_process_end_partial); an object with an observable destructor that is left to the collector or to the exit-time sweep (main wrapper + Cello_Exit exist only #ifndef CELLO_NGC) is finalised in builds with the collector and never in CELLO_NGC builds: C18_process_end_refuted, witness corpus/kf_c18_exit_finalise.ops. More generally WHEN the destructor of a dropped object runs (threshold collections) is configuration-dependent and not observed by the workload: destructors of everything the workload leaves to the collector (Int, String, containers, Boxes, Tuples) only release memory',
                   'CELLO_MEMORY_CHECK: no allocation failure; that its guards test nothing but the result of the allocation directly before them is theorem C18_memory_checks_follow_allocation (zero-size requests: Array_Resize / Table_New / Table_Assign return before allocating, Array_Reserve_Less has no guard — read, audit 2 item 5)',
                   'API surface NOT varied by the generator (audit 2, item 3; the auditor`s own six-configuration runs found no disagreement there): scan_from / scan, File and stream I/O, Mutex / lock / with, sort_by, swap, help; sizes: Strings <= 30 bytes, containers <= 120 elements, <= 48 value objects — Table sizes beyond the sixth prime and realloc moves of large buffers are not exercised per configuration',
                   'headers and alignment (audit 2, item 4): run-time type sizes are multiples of 8 (8..64), so element strides keep every header word aligned in both layouts; sizes that are not a multiple of 8 (misaligned header words, differently per layout: KF-C19-tree-misaligned-header is the recorded instance) are not generated',
                   'optimisation levels are compared on the generated workloads, not proved (quick: -O0 sanitized, -O2, -O3; thorough: -O0, -O1, -O2, -Os, -O3 with clang, -O2/-O3 with gcc; LTO / -Ofast not covered)')
    def __init__(self):
        self._cases = {}; self._ref = {}
    # ---------------------------------------------------------------- cases
    def cases(self, rng, tier, boost=1):
        quick = tier == 'quick'
        n = (30 if quick else 400) * boost
        cs = []
        names = list(PROFILES)
        for i in range(n):
            prof = names[i % len(names)]
            g = Gen(rng, PROFILES[prof], ooc=0.02 if i % 3 else 0.0)
            length = rng.randrange(250, 600)
            # prologue: each probe type queried cold in its own random order; one or two owning rings dropped early
            for _ in range(3): g.probe_op(cold=True)
            for _ in range(rng.randrange(1, 3)): g.ring_op()
            # one directed keep scenario per case, the container kinds in rotation (so every kind is the sole path to managed
            # objects under allocation pressure in every run); the `keep` profile goes on mixing them at random
            g.keep.exit_scenario(KINDS[(i // 3) % len(KINDS)])      # before anything is dropped: see KF-C18-exit-finalisation
            g.keep.scenario(KINDS[i % len(KINDS)])
            if prof == 'keep': g.keep.scenario(rng.choice('tk'))
            # one directed ROOT per case (container kinds in rotation) and a pair of new_root value objects: objects whose only
            # reference lives where the collector does not look, under enough allocation to force several collections
            g.keep.root_scenario(ROOT_KINDS[i % len(ROOT_KINDS)])
            g.root_value_scenario(i)
            # three objects made with new_root by a worker thread that has ended, read and changed by the main thread after join
            g.worker_scenario(i)
            # one directed edit scenario per case: a String container of each family, every selector applied at once; and one nested holder
            g.edit_scenario(i)
            g.nest.scenario('altr'[i % 4], 'ALU'[(i // 4) % 3])
            # one directed run-time type per case: 0…12 instances and the six routes in rotation (so every count is constructed in every run)
            g.rt.scenario(i % 13, RT_ROUTES[i % 6])
            g.rt.cycle(2)
            if prof == 'types':
                g.rt.scenario(rng.choice([4, 5, 6, 7, 8, 12, 16, 24]), rng.choice(RT_ROUTES))
                g.rt.big_type(rng.choice([13, 60, 250, 255, 256, 256]))
            for _ in range(length): g.step()
            c = Case(f'{prof}{i}b{boost}', g.lines)
            cs.append(c); self._cases[c.name] = c
        return cs
    def nontrivial_items(self, case, c_out, m_out):
        ops = [l for l in case.lines if l.strip() and not l.lstrip().startswith('#')]
        tr = transcript(c_out)
        items = set(); j = 0
        # every operation prints exactly one O or T line (a map `items` prints `T raw` first)
        for n, l in enumerate(ops):
            if j >= len(tr): break
            if tr[j].startswith('T raw'): j += 1
            if j >= len(tr): break
            o = tr[j]; j += 1
            if o.startswith('O out-of-contract') or o.startswith('O bad-op') or o.startswith('O err'): continue
            items.add(hash((l, o)))
        return items
    def stats(self, case, c_out, m_out, acc):
        self._ref[case.name] = c_out
        self._cases.setdefault(case.name, case)
        for l in case.lines:
            if not l.strip() or l.startswith('#'): continue
            k = 'op_' + l.split(' ')[0]
            acc[k] = acc.get(k, 0) + 1
        for l in c_out.split('\n'):
            if l.startswith('O out-of-contract'): acc['refused'] = acc.get('refused', 0) + 1
            elif l.startswith('T '): acc['transcript_only_lines'] = acc.get('transcript_only_lines', 0) + 1
        m = re.search(r'S ops=(\d+) out-of-contract=(\d+) bad=(\d+) config-divergences=(\d+) collections=(\d+) cache-fills=(\d+)', m_out)
        if m:
            acc['model_config_divergences'] = acc.get('model_config_divergences', 0) + int(m.group(4))
            acc['model_collections'] = acc.get('model_collections', 0) + int(m.group(5))
            acc['model_cache_fills'] = acc.get('model_cache_fills', 0) + int(m.group(6))
        m = re.search(r'keep-ops=(\d+) keep-collections=(\d+) keep-high-slot-entries=(\d+) keep-heap-default=(\d+) keep-heap-ngc=(\d+)', m_out)
        if m:
            for k, g in (('model_keep_ops', 1), ('model_keep_collections', 2), ('model_keep_high_slot_entries_read', 3), ('model_keep_blocks_default', 4), ('model_keep_blocks_ngc', 5)):
                acc[k] = acc.get(k, 0) + int(m.group(g))
        m = re.search(r'keep-ops=(\d+) keep-reads=(\d+) high-slot-entries-read=(\d+) tracked=(\d+)', c_out)
        if m:
            for k, g in (('impl_keep_ops', 1), ('impl_keep_reads', 2), ('impl_keep_high_slot_entries_read', 3), ('impl_tracked_objects', 4)):
                acc[k] = acc.get(k, 0) + int(m.group(g))
        nr = sum(1 for l in case.lines if l.startswith('hnew ') and len(l.split(' ')) == 3 and l.split(' ')[2].isupper())
        if nr: acc['root_holders_made'] = acc.get('root_holders_made', 0) + nr
        nr = sum(1 for l in case.lines if l.startswith('nvo '))
        if nr: acc['root_value_objects_made'] = acc.get('root_value_objects_made', 0) + nr
        m = re.search(r'I worker-threads=(\d+) worker-values=(\d+) worker-seqs=(\d+) worker-maps=(\d+)', c_out)
        if m:
            for k, g in (('impl_worker_threads_joined', 1), ('impl_worker_made_value_roots', 2), ('impl_worker_made_sequence_roots', 3), ('impl_worker_made_map_roots', 4)):
                acc[k] = acc.get(k, 0) + int(m.group(g))
        m = re.search(r' thread-runs=(\d+)', c_out)
        if m: acc['impl_thread_holder_runs'] = acc.get('impl_thread_holder_runs', 0) + int(m.group(1))
        m = re.search(r' edits=(\d+) elem-edits=(\d+) nested-ops=(\d+)', c_out)
        if m:
            for k, g in (('impl_inplace_edits', 1), ('impl_inplace_edits_on_embedded_elements', 2), ('impl_nested_holder_ops', 3)):
                acc[k] = acc.get(k, 0) + int(m.group(g))
        ne = len(re.findall(r'^O hexit made=', c_out, flags=re.M))
        if ne: acc['impl_process_exits_observed'] = acc.get('impl_process_exits_observed', 0) + ne
        ne = len(re.findall(r'^I exit-ledger-differs', m_out, flags=re.M))
        if ne: acc['model_exit_ledger_differs_between_configs'] = acc.get('model_exit_ledger_differs_between_configs', 0) + ne
        m = re.search(r' rt-ops=(\d+)', c_out)
        if m: acc['impl_runtime_type_ops'] = acc.get('impl_runtime_type_ops', 0) + int(m.group(1))
        m = re.search(r' rt-ops=(\d+)', m_out)
        if m: acc['model_runtime_type_ops'] = acc.get('model_runtime_type_ops', 0) + int(m.group(1))
        for l in case.lines:
            t = l.split(' ')
            if t[0] in ('ty', 'tyre') and len(t) >= 4:
                k = f'rt_instances_{min(len(t) - (5 if t[0] == "ty" else 4), 13)}'; acc[k] = acc.get(k, 0) + 1       # how many types were built with 0,1,...,12,13+ instances
        m = re.search(r' edits=(\d+) elem-edits=(\d+)', m_out)
        if m:
            for k, g in (('model_inplace_edits', 1), ('model_inplace_edits_on_embedded_elements', 2)):
                acc[k] = acc.get(k, 0) + int(m.group(g))
        # which selector / edit pairs were executed (the class of c18_f: an edit on an object that is not a plain heap object)
        for l in case.lines:
            t = l.split(' ')
            if t[0] == 'ed' and len(t) > 4:
                sel = t[2]; ed = t[3] if sel == 'self' else t[4]
                k = f'ed_{sel}_{ed}'; acc[k] = acc.get(k, 0) + 1
    # ---------------------------------------------------------------- the build matrix
    def model_selfcheck(self, case, m_out):
        if 'O model-config-divergence' in m_out:
            return 'the model itself computes different outcomes or observable contents under two configurations on this input'
        return None
    def matrix(self, tier):
        return QUICK if tier == 'quick' else THOROUGH
    def _run(self, exe, lines, name):
        path = os.path.join(core.CACHE, f'c18_{os.getpid()}_{name}.ops')
        with open(path, 'w') as f: f.write('\n'.join(lines) + '\n')
        rc, out, err = core.run_harness(exe, path, timeout=self.harness_timeout)
        try: os.unlink(path)
        except OSError: pass
        return rc, out, err
    # ---- known finding KF-C18-exit-finalisation (sig cfg-exit-finalise): once it is registered, its X lines and the `O hexit` lines on which
    # a build with the collector and one without legitimately differ are not violations of the matrix
    def _kf_sigs(self):
        return {k['fields'].get('sig') for k in core.known_findings(self.id) if k['kind'] == 'finding'}
    def _unknown_x(self, out, sigs):
        res = []
        for x in core.lines_with('X ', out):
            m = re.search(r'sig=(\S+)', x)
            if not (m and m.group(1) in sigs): res.append(x)
        return res
    def _first_diff(self, a, b, sigs, counter=None):
        for i in range(max(len(a), len(b))):
            x = a[i] if i < len(a) else '<missing>'; y = b[i] if i < len(b) else '<missing>'
            if x != y:
                if 'cfg-exit-finalise' in sigs and x.startswith('O hexit made=') and y.startswith('O hexit made='):
                    if counter is not None: counter[0] += 1
                    continue
                return f'transcript line #{i}: default build `{x}` this build `{y}`'
        return None
    def _differs(self, ref_exe, exe, lines, name):
        """None or description of the first difference between the two builds on this op file"""
        sigs = self._kf_sigs()
        rc0, out0, err0 = self._run(ref_exe, lines, name + 'r')
        rc1, out1, err1 = self._run(exe, lines, name + 'x')
        if rc1 != 0: return crash_summary(rc1, out1, err1)
        xs = self._unknown_x(out1, sigs)
        if xs: return xs[0]
        return self._first_diff(transcript(out0), transcript(out1), sigs)
    def extra_checks(self, ctx):
        tier = ctx['tier']; stats = ctx['stats']; hexe = ctx['hexe']
        if not hexe: return []
        t0 = time.time()
        jobs = self.matrix(tier)
        built = build_all(jobs)
        stats['matrix_builds'] = len(built); stats['matrix_build_s'] = round(time.time() - t0, 1)
        failures = []
        exes = []
        for job, ok, exe, lg in built:
            if not ok:
                # the library (or the public-API workload) does not even build under this configuration: a violation by itself
                errs = [l for l in lg.split('\n') if 'error' in l][:3]
                failures.append(dict(kind='build', case=Case('build-' + tag_of(*job), ['# no input needed: the build fails']), sig=f'c18-{job[0]}-{opt_name(*job[1:])}',
                                     detail=f'the tree does not compile in configuration {tag_of(*job)} ({job[3]}, defines {CONFIGS[job[0]]}, {job[1]}): ' + ' | '.join(errs)[:900]))
            else: exes.append((job, exe))
        cases = list(self._cases.values())
        work = [(job, exe, c) for (job, exe) in exes for c in cases]
        def one(w):
            job, exe, c = w
            rc, out, err = self._run(exe, c.lines, f'{tag_of(*job)}_{c.name}')
            return job, exe, c, rc, out, err
        t1 = time.time()
        with ThreadPoolExecutor(max_workers=int(os.environ.get('VERIF_JOBS', '16'))) as ex:
            results = list(ex.map(one, work))
        stats['matrix_runs'] = len(results); stats['matrix_run_s'] = round(time.time() - t1, 1)
        nlines = 0
        seen = set()
        sigs = self._kf_sigs(); known_exit = [0]
        # shrinking is bounded as a whole: on a changed tree every configuration may fail, and a trial on which a build hangs
        # costs the harness timeout; past the deadline the remaining configurations are reported with the unshrunk case
        shrink_deadline = time.time() + (300 if tier == 'quick' else 900)
        for job, exe, c, rc, out, err in results:
            tg = tag_of(*job)
            ref = self._ref.get(c.name)
            why = None
            if rc != 0: why = crash_summary(rc, out, err)
            else:
                xs = self._unknown_x(out, sigs)
                if xs: why = xs[0]
                elif ref is not None:
                    a, b = transcript(ref), transcript(out)
                    nlines += len(b)
                    why = self._first_diff(a, b, sigs, known_exit)
            if why and tg not in seen:
                seen.add(tg)
                lines = list(c.lines)
                try:
                    left = shrink_deadline - time.time()
                    if left > 5:
                        lines = core.ddmin(lines, lambda ls: self._differs(hexe, exe, ls, 'shr' + tg) is not None,
                                           budget=60 if tier == 'quick' else 150, max_s=min(left, 240))
                    why2 = self._differs(hexe, exe, lines, 'shr' + tg)
                    if why2: why = why2
                except Exception as e:
                    why += f' (shrink failed: {e})'
                failures.append(dict(kind='transcript', case=Case(c.name + '-' + tg, lines), sig=f'c18-{job[0]}-{opt_name(*job[1:])}',
                                     detail=f'build {tg} ({job[3]}, defines {CONFIGS[job[0]]}, {job[1]}, sanitizers {"on" if job[2] else "off"}) disagrees with the default build: {why}'))
        stats['matrix_transcript_lines_compared'] = nlines
        if known_exit[0]: stats['matrix_known_exit_ledger_differences'] = known_exit[0]
        stats['matrix'] = [tag_of(*j) for j in jobs]
        return failures
    # replay: also run the matrix on the replayed file (the runner calls compare() in replay mode)
    def compare(self, case, c_out, m_out):
        d = core.first_divergence(c_out, m_out)
        if d or case.name != 'replay': return d
        tier = os.environ.get('VERIF_TIER', 'quick')
        ok, hexe, _ = core.build_harness(self.harness)
        if not ok: return d
        for job, ok, exe, lg in build_all(self.matrix('thorough' if tier == 'thorough' else 'quick')):
            if not ok: return (-1, '<build>', f'{tag_of(*job)} does not compile')
            why = self._differs(hexe, exe, case.lines, 'replay' + tag_of(*job))
            if why: return (-1, f'build {tag_of(*job)}', why)
        return None

SPEC = C18()
