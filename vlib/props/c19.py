"""C19 — objects keep their true type and class; non-heap objects are never freed (engine hdr)."""
import re
from ..runner import Spec, Case
from .. import core

ROUTES = ['new', 'new_raw', 'new_root', 'alloc', 'alloc_raw', 'alloc_root', 'stack', 'static']
HEAP_ROUTES = ROUTES[:6]
FREE_OPS = ['dealloc', 'dealloc_raw', 'dealloc_root', 'del', 'del_raw', 'del_root', 'destruct']
STATICS = ['Type', 'Int', 'Float', 'String', 'Tuple', 'Array', 'List', 'Table', 'Tree', 'Ref', 'Box', 'Range', 'Slice', 'Zip',
           'Filter', 'Map', 'Terminal', '_', 'Function', 'File', 'Mutex', 'Thread', 'Exception', 'GC',
           'TypeError', 'ValueError', 'ResourceError', 'KeyError', 'IndexOutOfBoundsError']
DTOR_ETYPES = ('String', 'Tuple', 'Array')     # element types whose destructor frees a block the element owns
WORDS = ['a', 'b', 'ab', 'abc', 'hello', 'x9', 'Zz', 'k0', 'k1', 'key', 'val', 'w', 'lo', 'world', '-']

class H:
    """what the generator remembers about a handle (an approximation: validity is decided by harness and model)"""
    def __init__(self, kind, route, **kw):
        self.kind = kind; self.route = route; self.live = True
        self.heap = route in HEAP_ROUTES
        self.reg = route in ('new', 'alloc', 'new_root', 'alloc_root')
        self.root = route in ('new_root', 'alloc_root')
        self.ety = kw.get('ety'); self.kty = kw.get('kty'); self.vty = kw.get('vty'); self.n = kw.get('n', 0); self.rtk = kw.get('rtk')
        self.owns = kw.get('owns'); self.target = kw.get('target')

class Gen:
    def __init__(self, rng, max_stack=40):
        self.rng = rng; self.lines = []; self.h = {}; self.next = 0; self.stack_left = max_stack; self.rt = {}
    def emit(self, s): self.lines.append(s)
    def fresh(self):
        i = self.next; self.next += 1; return i
    def live(self, pred=lambda h: True):
        return [i for i, h in self.h.items() if h.live and pred(h)]
    def word(self): return self.rng.choice(WORDS)
    def fixed_items(self):
        """what an embedded Tuple may point to: live Ints / Strings that are not on the heap and that no Box owns"""
        return [i for i, h in self.h.items() if h.live and not h.heap and h.kind in ('int', 'str') and not self.owned(i)]
    def scalar(self, ety):
        if ety == 'String': return self.word()
        if ety == 'Tuple':
            c = self.fixed_items()
            return 't:' + ','.join(str(x) for x in (self.rng.sample(c, min(len(c), self.rng.randrange(0, 4))) if c else []))
        if ety == 'Array': return 'a:' + ','.join(str(self.rng.randrange(-9, 99)) for _ in range(self.rng.randrange(0, 4)))
        return str(self.rng.randrange(-50, 200))
    def etype(self, allow_rt=True, allow_nested=True):
        c = ['Int', 'String'] + ([f'RT{k}' for k, i in self.rt.items() if self.h[i].live] if allow_rt else [])
        if allow_nested and self.rng.random() < 0.3: return self.rng.choice(['Tuple', 'Array'])
        return self.rng.choice(c)
    def route(self, pool=None):
        r = self.rng.choice(pool or ROUTES)
        if r == 'stack':
            if self.stack_left <= 0: r = 'new'
            else: self.stack_left -= 1
        return r
    # ---- births
    def mk_int(self, route=None):
        i = self.fresh(); r = route or self.route(); self.emit(f'int {i} {r} {self.rng.randrange(-99, 999)}'); self.h[i] = H('int', r); return i
    def mk_str(self, route=None):
        i = self.fresh(); r = route or self.route(['new', 'new_raw', 'new_root', 'stack', 'static', 'stack']); self.emit(f'str {i} {r} {self.word()}'); self.h[i] = H('str', r); return i
    def mk_tup(self, route=None, items=None):
        i = self.fresh(); r = route or self.route(['new', 'new_raw', 'new_root', 'stack', 'static', 'stack'])
        if items is None:
            cand = [c for c in self.live(lambda h: h.kind in ('int', 'str', 'rto', 'ref')) if not self.owned(c)]
            items = self.rng.sample(cand, min(len(cand), self.rng.randrange(0, 5))) if cand else []
        self.emit(f'tup {i} {r} ' + ' '.join(map(str, items))); self.h[i] = H('tup', r, n=len(items)); self.h[i].items = list(items); return i
    def mk_ref(self, route=None):
        cand = self.live()
        if not cand: return self.mk_int()
        i = self.fresh(); r = route or self.route(['new', 'new_raw', 'stack', 'alloc']); t = self.rng.choice(cand); self.emit(f'ref {i} {r} {t}')
        th = self.h[t]
        self.h[i] = H('ref', r, target=(th.target if th.kind == 'ref' and r in ('new', 'new_raw', 'new_root') else t)); return i
    # ---- Boxes: the destructor of a Box deletes what it points to
    def owned(self, i):
        return any(h.live and h.kind == 'box' and h.owns == i for h in self.h.values())
    def ownable(self, i):
        h = self.h.get(i)
        return h is not None and h.live and h.kind not in ('rtt', 'sty') and not self.referenced(i)
    def plain(self, i):
        h = self.h.get(i); return h is not None and h.kind not in ('box', 'ref')
    def mk_box(self, route=None, target=None):
        i = self.fresh(); r = route or self.rng.choice(['new', 'new', 'new_raw', 'new_root', 'alloc', 'alloc', 'alloc_raw', 'alloc_root', 'stack'])
        if r == 'stack':
            # $(Box, x): holds the pointer as it is; x is not a pointer object
            if self.stack_left <= 0: r = 'alloc'
            else:
                self.stack_left -= 1
                cand = [c for c in self.live() if self.ownable(c) and self.plain(c)]
                t = target if target is not None else (self.rng.choice(cand) if cand and self.rng.random() < 0.85 else None)
                self.emit(f'box {i} stack {"-" if t is None else t}')
                if t is not None and not (self.ownable(t) and self.plain(t)): self.next -= 1; return i
                self.h[i] = H('box', 'stack', owns=t); return i
        if r.startswith('alloc'):
            self.emit(f'box {i} {r} -'); self.h[i] = H('box', r); return i
        cand = [c for c in self.live() if self.ownable(c)]
        t = target if target is not None else (self.rng.choice(cand) if cand else None)
        if t is None: self.emit(f'box {i} alloc -'); self.h[i] = H('box', 'alloc'); return i
        self.emit(f'box {i} {r} {t}')
        th = self.h[t]; fin = th.target if th.kind == 'ref' else th.owns if th.kind == 'box' else t
        if fin is not None and not self.ownable(fin): self.next -= 1; return i       # skipped by both sides
        self.h[i] = H('box', r, owns=fin); return i
    def own_op(self, b=None, t='auto'):
        boxes = self.live(lambda h: h.kind == 'box')
        if not boxes: return self.mk_box()
        b = self.rng.choice(boxes) if b is None else b
        if t == 'auto':
            cand = [c for c in self.live() if self.ownable(c)]
            pref = [c for c in cand if self.h[c].kind == 'box']
            t = None if (not cand or self.rng.random() < 0.1) else self.rng.choice(pref if pref and self.rng.random() < 0.6 else cand)
        self.emit(f'own {b} {"-" if t is None else t}')
        if t is None or (self.ownable(t) and (self.h[b].heap or self.plain(t))): self.h[b].owns = t
    def release_closure(self, seeds):
        """the seeds are finalised: a Box deletes its pointee, which is released too if the collector lists it"""
        R = set(seeds); ch = True
        while ch:
            ch = False
            for b in list(R):
                h = self.h[b]
                if h.kind == 'box' and h.owns in self.h:
                    hv = self.h[h.owns]
                    if hv.live and hv.heap and hv.reg and h.owns not in R: R.add(h.owns); ch = True
        for i in R: self.note_release(i)
        return R
    def mk_seq(self, kind=None, route=None, ety=None, n=None):
        i = self.fresh(); kind = kind or self.rng.choice(['arr', 'lst']); r = route or self.rng.choice(['new', 'new_raw', 'new_root', 'new'])
        ety = ety or self.etype(); n = self.rng.randrange(0, 7) if n is None else n
        self.emit(f'{kind} {i} {r} {ety} ' + ' '.join(self.scalar(ety) for _ in range(n))); self.h[i] = H(kind, r, ety=ety, n=n); return i
    def mk_map(self, kind=None, route=None, kty=None, vty=None, n=None):
        i = self.fresh(); kind = kind or self.rng.choice(['tab', 'tre']); r = route or self.rng.choice(['new', 'new_raw', 'new_root', 'new'])
        kty = kty or self.rng.choice(['Int', 'String']); vty = vty or self.etype(); n = self.rng.randrange(0, 7) if n is None else n
        keys = []
        while len(keys) < n:
            k = (str(self.rng.randrange(0, 12) * self.rng.choice([1, 5, 11, 55])) if kty == 'Int' else self.rng.choice(WORDS[:-1]) + str(self.rng.randrange(4)))
            keys.append(k)
        self.emit(f'{kind} {i} {r} {kty} {vty} ' + ' '.join(f'{k} {self.scalar(vty)}' for k in keys)); self.h[i] = H(kind, r, kty=kty, vty=vty, n=len(set(keys))); return i
    def mk_rtt(self, route=None):
        free = [k for k in range(16) if k not in self.rt]
        if not free: return self.mk_int()
        k = self.rng.choice(free); i = self.fresh(); r = route or self.rng.choice(['new', 'new_raw', 'new_root'])
        self.emit(f'rtt {i} {r} {k} {self.rng.choice([8, 12, 16, 20, 24, 40, 100])}'); self.h[i] = H('rtt', r, rtk=k); self.rt[k] = i; return i
    def mk_rto(self, route=None):
        ks = [k for k, i in self.rt.items() if self.h[i].live]
        if not ks: self.mk_rtt(); ks = [k for k, i in self.rt.items() if self.h[i].live]
        if not ks: return self.mk_int()
        k = self.rng.choice(ks); i = self.fresh(); r = route or self.rng.choice(HEAP_ROUTES)
        self.emit(f'rto {i} {r} {k} {self.rng.randrange(0, 500)}'); self.h[i] = H('rto', r, rtk=k); return i
    def mk_sty(self):
        i = self.fresh(); self.emit(f'sty {i} {self.rng.choice(STATICS)}'); self.h[i] = H('sty', 'static'); return i
    def mk_cpy(self):
        cand = self.live(lambda h: h.kind != 'sty' or self.rng.random() < 0.2)
        if not cand: return self.mk_int()
        src = self.rng.choice(cand); s = self.h[src]; i = self.fresh(); self.emit(f'cpy {i} {src}')
        if s.kind not in ('sty', 'rtt'):
            self.h[i] = H(s.kind, 'new', ety=s.ety, kty=s.kty, vty=s.vty, n=s.n, rtk=s.rtk, owns=s.owns, target=s.target)
            if s.kind == 'tup': self.h[i].items = list(getattr(s, 'items', []))
        else: self.next -= 1
        return i
    def any_birth(self):
        f = self.rng.choice([self.mk_int, self.mk_int, self.mk_str, self.mk_str, self.mk_tup, self.mk_tup, self.mk_ref, self.mk_seq, self.mk_seq,
                             self.mk_map, self.mk_map, self.mk_rtt, self.mk_rto, self.mk_sty, self.mk_cpy, self.mk_box, self.mk_box])
        return f()
    # ---- targets
    def elem_targets(self, i):
        h = self.h[i]; n = max(h.n, 1); j = self.rng.randrange(0, n + 1)
        if h.kind in ('arr', 'lst'): return [(f'{i}.{j}', h.ety)]
        if h.kind in ('tab', 'tre'): return [(f'{i}.k{j}', h.kty), (f'{i}.v{j}', h.vty)]
        return []
    def referenced(self, i):
        return any(h.live and h.kind == 'tup' and i in getattr(h, 'items', []) for h in self.h.values())
    def note_release(self, i):
        self.h[i].live = False; self.h[i].reg = False
    # ---- operations
    def free_op(self, i=None, f=None):
        cand = self.live()
        if not cand: return
        i = self.rng.choice(cand) if i is None else i
        h = self.h[i]; f = f or self.rng.choice(FREE_OPS)
        # element targets (not del_raw / destruct of an embedded String, Tuple or Array: known finding KF-C19-delraw-embedded)
        if h.kind in ('arr', 'lst', 'tab', 'tre') and self.rng.random() < 0.5:
            t, ety = self.rng.choice(self.elem_targets(i))
            if ety in DTOR_ETYPES and f in ('del_raw', 'destruct'): f = 'dealloc'
            self.emit(f'{f} {t}'); return
        # not del_raw of a stack Box that points to something (the same finding): Box_Del runs before dealloc refuses
        if h.kind == 'box' and not h.heap and h.owns is not None and f == 'del_raw': f = self.rng.choice(['dealloc', 'destruct', 'del'])
        self.emit(f'{f} {i}')
        if not h.heap:
            # destruct of a stack Box is the release of what it holds
            if h.kind == 'box' and f == 'destruct':
                o = h.owns; h.owns = None
                if o in self.h and self.h[o].live and self.h[o].heap and self.h[o].reg: self.release_closure([o])
            return
        via = f in ('del', 'del_root')
        if not via and h.reg: return                     # misuse: skipped by both sides
        if f == 'destruct': return
        if h.kind == 'rtt' and any(x.live and (x.rtk == h.rtk and x is not h or x.ety == f'RT{h.rtk}' or x.vty == f'RT{h.rtk}') for x in self.h.values()): return
        if self.referenced(i): return
        if via and not h.reg: return
        if f in ('del', 'del_root', 'del_raw'): self.release_closure([i])
        else: self.note_release(i)
    def inplace_op(self, i=None):
        cand = self.live(lambda h: h.kind in ('str', 'tup', 'arr', 'lst', 'tab', 'tre', 'sty', 'rtt'))
        if not cand: return
        i = self.rng.choice(cand) if i is None else i
        h = self.h[i]; r = self.rng
        src = lambda kinds: (r.choice(self.live(lambda x: x.kind in kinds)) if self.live(lambda x: x.kind in kinds) else 0)
        if h.kind == 'str':
            op = r.choice(['resize', 'concat', 'assign', 'rem', 'resize', 'concat'])
            if op == 'assign' and r.random() < 0.3: self.emit(f'assign {i} {i}'); return      # assign(s, s): returns before the guard (fix 744a45f)
            self.emit(f'resize {i} {r.randrange(0, 9)}' if op == 'resize' else f'{op} {i} {src(("str",))}')
        elif h.kind == 'tup':
            op = r.choice(['push', 'pop', 'push_at', 'pop_at', 'concat', 'assign', 'resize', 'rem'])
            items = getattr(h, 'items', [])
            if op == 'push': x = src(('int', 'str', 'rto')); self.emit(f'push {i} {x}'); (h.heap and not self.owned(x) and items.append(x))
            elif op == 'pop': self.emit(f'pop {i}'); (h.heap and items and items.pop())
            elif op == 'push_at': self.emit(f'push_at {i} {src(("int", "str"))} {r.randrange(-3, 5)}'); h.items = items + [-1]
            elif op == 'pop_at': self.emit(f'pop_at {i} {r.randrange(-3, 5)}')
            elif op in ('concat', 'assign'):
                o = src(("tup",)); oi = getattr(self.h.get(o), 'items', [])
                if len(items) + len(oi) <= 40: self.emit(f'{op} {i} {o}'); h.items = (items if op == 'concat' or not h.heap else []) + [-1] * max(1, len(oi))     # (a stack / static Tuple refuses: its items stay)
            elif op == 'resize': self.emit(f'resize {i} {r.randrange(0, 5)}')
            else: self.emit(f'rem {i} {src(("int",))}')
        elif h.kind in ('arr', 'lst'):
            op = r.choice(['push', 'push', 'pop', 'push_at', 'pop_at', 'resize', 'concat'])
            same = lambda: (r.choice(self.live(lambda x: x.kind in ('arr', 'lst') and x.ety == h.ety and x is not h)) if self.live(lambda x: x.kind in ('arr', 'lst') and x.ety == h.ety and x is not h) else i)
            sk = ('int',) if h.ety == 'Int' else ('str',) if h.ety == 'String' else ('tup',) if h.ety == 'Tuple' else ('arr',) if h.ety == 'Array' else ('rto',)
            if op == 'push': self.emit(f'push {i} {src(sk)}'); h.n += 1
            elif op == 'pop': self.emit(f'pop {i}'); h.n = max(0, h.n - 1)
            elif op == 'push_at': self.emit(f'push_at {i} {src(sk)} {r.randrange(-h.n - 2, h.n + 3)}'); h.n += 1
            elif op == 'pop_at': self.emit(f'pop_at {i} {r.randrange(-h.n - 2, h.n + 3)}'); h.n = max(0, h.n - 1)
            elif op == 'resize': m = r.randrange(0, h.n + 4); self.emit(f'resize {i} {m}'); h.n = min(h.n, m) if h.kind == 'arr' else m
            else:
                o = same()
                if h.n + self.h[o].n <= 60: self.emit(f'concat {i} {o}'); h.n += self.h[o].n if o != i else 0
            # in-place operations on an embedded String
            if h.ety == 'String' and h.n and r.random() < 0.4:
                self.emit(r.choice([f'concat {i}.{r.randrange(h.n)} {src(("str",))}', f'resize {i}.{r.randrange(h.n)} {r.randrange(0, 6)}', f'assign {i}.{r.randrange(h.n)} {src(("str",))}']))
        elif h.kind in ('tab', 'tre'):
            op = r.choice(['set', 'set', 'set', 'rem', 'resize'])
            sk = ('int',) if h.kty == 'Int' else ('str',)
            sv = ('int',) if h.vty == 'Int' else ('str',) if h.vty == 'String' else ('tup',) if h.vty == 'Tuple' else ('arr',) if h.vty == 'Array' else ('rto',)
            if op == 'set': self.emit(f'set {i} {src(sk)} {src(sv)}'); h.n += 1
            elif op == 'rem': self.emit(f'rem {i} {src(sk)}')
            else: m = r.choice([0, h.n, h.n + 5, 1, 30]); self.emit(f'resize {i} {m}'); h.n = 0 if m == 0 else h.n
        else:
            self.emit(r.choice([f'assign {i} {src(("int", "str"))}', f'resize {i} {r.randrange(4)}']))
    def look(self):
        r = self.rng; cand = self.live()
        if not cand: return
        i = r.choice(cand); h = self.h[i]
        c = r.random()
        if h.kind in ('arr', 'lst', 'tab', 'tre', 'tup') and c < 0.7:
            k = r.choice(['iter', 'iter', 'values', 'slice', 'reverse', 'zip', 'enumerate', 'filter', 'map', 'elem'])
            its = self.live(lambda x: x.kind in ('arr', 'lst', 'tab', 'tre', 'tup'))
            if k == 'iter': self.emit(f'iter {i} {r.choice(["fwd", "back"])}')
            elif k == 'values': self.emit(f'values {i}')
            elif k == 'slice': self.emit(f'view slice {i} {r.randrange(0, 4)}')
            elif k == 'zip': self.emit(f'view zip {i} {r.choice(its)}')
            elif k == 'elem':
                for t, _ in self.elem_targets(i): self.emit(f'obs {t}')
            else: self.emit(f'view {k} {i}')
        elif c < 0.85: self.emit(f'obs {i}')
        else: self.emit(f'view {r.choice(["range", "hrange"])} {r.randrange(-3, 4)} {r.randrange(-3, 8)} {r.choice([1, 1, 2, -1, -2, 0, 3])}')
    def rt_users(self, k):
        """live handles whose header (objects) or element slots (containers) point to the Type object of run-time type k"""
        t = f'RT{k}'
        return [i for i, x in self.h.items() if x.live and ((x.kind == 'rto' and x.rtk == k) or x.ety == t or x.kty == t or x.vty == t)]
    def rt_ever_users(self, k):
        """the same, whether the generator believes them alive or not (its ledger is an approximation)"""
        t = f'RT{k}'
        return [i for i, x in self.h.items() if (x.kind == 'rto' and x.rtk == k) or x.ety == t or x.kty == t or x.vty == t]
    def releasable(self, i):
        h = self.h[i]; return h.live and h.heap and h.reg and not h.root and not self.referenced(i)
    def sweep(self, v=None, how=None):
        cand = self.live()
        if not cand: return
        if v is None:
            v = self.rng.sample(cand, min(len(cand), self.rng.randrange(1, 6)))
            # a Box among the victims: often its pointee too, so that both wait in the same sweep
            for i in list(v):
                o = self.h[i].owns
                if self.h[i].kind == 'box' and o in self.h and self.h[o].live and o not in v and self.rng.random() < 0.7: v.append(o)
        v = list(v)
        # a run-time Type in use among the victims: either all its users are victims too and come before it on the pending
        # list (in contract: each is finalised while its Type is alive), or the Type is not made a victim — a Type released
        # before or under its instances is KF-C19-type-outlived (witness corpus/kf_c19_type_outlived.ops)
        first = []
        for i in list(v):
            h = self.h[i]
            if h.kind == 'rtt' and h.live:
                users = self.rt_ever_users(h.rtk)
                if not users: continue
                if self.releasable(i) and len(users) <= 8 and len(first) < 40 and all(self.releasable(u) for u in users) and self.rng.random() < 0.6:
                    for u in users:
                        if u not in v: v.append(u)
                        if u not in first: first.append(u)
                    first.append(i)
                else: v.remove(i)
        if not v: return
        # users of a Type that is in `first` must not come after it: the Types go last among `first`
        ts = [i for i in first if self.h[i].kind == 'rtt']
        first = [i for i in first if i not in ts] + ts
        rest = [i for i in v if i not in first]
        order = first + self.rng.sample(rest, self.rng.randrange(0, len(rest) + 1))
        order = order[:60]
        how = how or self.rng.choice(['sweep', 'sweep', 'thr'])
        self.emit(f'{how} ' + ' '.join(map(str, v)) + (' ; ' + ' '.join(map(str, order)) if order or self.rng.random() < 0.3 else ''))
        seeds = [i for i in v if self.releasable(i)]
        self.release_closure(seeds)
    def exit_op(self):
        cand = self.live(lambda h: h.reg and not h.root)
        # every user of a registered run-time Type comes before that Type in the layout (see `sweep`)
        ts = [i for i in cand if self.h[i].kind == 'rtt' and self.rt_ever_users(self.h[i].rtk)]
        first = []
        for t in ts: first += [u for u in self.rt_ever_users(self.h[t].rtk) if u not in first]
        first += ts
        if len(first) > 60: return
        # a user that the teardown does not release itself (root, raw) but that a Box owns is deleted by that Box's destructor,
        # possibly after its Type: KF-C19-type-outlived territory
        if any(self.owned(u) and not (self.h[u].reg and not self.h[u].root) for u in first if self.h[u].kind != 'rtt'): return
        rest = [c for c in cand if c not in first]
        order = first + (self.rng.sample(rest, self.rng.randrange(0, min(len(rest), 6) + 1)) if rest else [])
        order = order[:62]
        self.emit('exit' + (' ; ' + ' '.join(map(str, order)) if order else ''))

def systematic(kind):
    """every route of one kind of object x every freeing operation and every in-place operation, each on a fresh object"""
    import random
    g = Gen(random.Random(kind), max_stack=10 ** 6)
    base_i = g.mk_int('new'); base_s = g.mk_str('new'); base_t = g.mk_tup('new', [base_i, base_s]); g.mk_rtt('new')
    fix_i = g.mk_int('stack'); fix_s = g.mk_str('static'); fix_j = g.mk_int('static'); g.mk_tup('new', [fix_i, fix_s]); g.mk_seq('arr', 'new', 'Int', 3)
    routes = {'int': ROUTES, 'str': ['new', 'new_raw', 'new_root', 'stack', 'static', 'alloc'], 'tup': ['new', 'new_raw', 'new_root', 'stack', 'static'],
              'ref': ['new', 'new_raw', 'new_root', 'alloc', 'stack'], 'arr': ['new', 'new_raw', 'new_root'], 'lst': ['new', 'new_raw', 'new_root'],
              'tab': ['new', 'new_raw', 'new_root'], 'tre': ['new', 'new_raw', 'new_root'], 'rtt': ['new', 'new_raw', 'new_root'], 'rto': HEAP_ROUTES, 'sty': ['static'],
              'box': HEAP_ROUTES + ['stack', 'stack']}[kind]
    def make(r):
        if kind == 'int': return g.mk_int(r)
        if kind == 'str': return g.mk_str(r)
        if kind == 'tup': return g.mk_tup(r, [base_i, base_s][:g.rng.randrange(0, 3)])
        if kind == 'ref': return g.mk_ref(r)
        if kind in ('arr', 'lst'): return g.mk_seq(kind, r, g.rng.choice(['Int', 'String', 'Tuple', 'Array', 'RT' + str(list(g.rt)[0])]), 3)
        if kind in ('tab', 'tre'): return g.mk_map(kind, r, g.rng.choice(['Int', 'String']), g.rng.choice(['Int', 'String', 'Tuple', 'Array', 'RT' + str(list(g.rt)[0])]), 3)
        if kind == 'rtt': return g.mk_rtt(r)
        if kind == 'rto': return g.mk_rto(r)
        if kind == 'box':
            if r == 'stack':
                return g.mk_box(r, target=g.rng.choice([g.mk_int(g.rng.choice(['new', 'new_raw', 'new_root', 'stack', 'static'])), g.mk_str('new'), g.mk_seq('arr', 'new', 'Int', 2)]))
            b = g.mk_box(r, target=(g.mk_int(g.rng.choice(['new', 'new_raw', 'new_root', 'stack', 'static'])) if not r.startswith('alloc') else None))
            if r.startswith('alloc') and g.rng.random() < 0.7: g.own_op(b)
            return b
        return g.mk_sty()
    for r in routes:
        for f in FREE_OPS:
            i = make(r); g.emit(f'obs {i}')
            if i in g.h and g.h[i].kind in ('arr', 'lst', 'tab', 'tre'):
                for t, ety in g.elem_targets(i):
                    g.emit(f'obs {t}')
                    g.emit(f'{f if not (ety in DTOR_ETYPES and f in ("del_raw", "destruct")) else "dealloc"} {t}')
                g.emit(f'iter {i} fwd'); g.emit(f'iter {i} back')
            if i in g.h and g.h[i].kind == 'box' and not g.h[i].heap: g.free_op(i, f); g.free_op(i, f)     # (keeps out of the finding's territory)
            else: g.emit(f'{f} {i}'); g.emit(f'{f} {i}')
            g.emit(f'obs {i}')
        for k in range(10):
            i = make(r)
            if i in g.h: g.inplace_op(i); g.inplace_op(i); g.emit(f'obs {i}')
    g.sweep([i for i in list(g.h)[:40] if g.h[i].live], 'sweep')
    g.emit('end')
    return g.lines

def random_history(rng, nops, max_stack):
    g = Gen(rng, max_stack=max_stack)
    for _ in range(rng.randrange(4, 12)): g.any_birth()
    for _ in range(nops):
        c = rng.random()
        if g.next > 560: break
        if c < 0.22: g.any_birth()
        elif c < 0.48: g.free_op()
        elif c < 0.72: g.inplace_op()
        elif c < 0.80: g.own_op()
        elif c < 0.94: g.look()
        elif c < 0.99: g.sweep()
        else: g.exit_op()
    if rng.random() < 0.5: g.exit_op()
    g.emit('end')
    return g.lines

LEAF_ROUTES = ['new', 'new', 'new_raw', 'new_root', 'stack', 'static']

def release_history(rng, rounds):
    """nested release: Boxes that own each other (chains owner -> owned, rings, a Box that owns itself, two Boxes that own
    the same object, a Box that owns a root / raw / stack / static object or a container), released by every route — del,
    del_root, del_raw, a forced collection, a threshold collection, the teardown at exit — with the owner before and after
    the owned on the pending list"""
    g = Gen(rng, max_stack=8)
    for _ in range(rounds):
        if g.next > 520: break
        boxes = []; leaves = []
        shape = rng.choice(['ring', 'ring', 'chain', 'chain', 'self', 'fan', 'random', 'random'])
        n = 1 if shape == 'self' else rng.randrange(2, 6)
        for _ in range(n):
            boxes.append(g.mk_box(rng.choice(['alloc', 'alloc', 'alloc', 'alloc_root', 'alloc_raw'])))
        for _ in range(rng.randrange(0, 3)):
            k = rng.random()
            leaves.append(g.mk_int(g.route(LEAF_ROUTES)) if k < 0.5 else g.mk_str(g.route(['new', 'new_raw', 'new_root', 'stack'])) if k < 0.8 else g.mk_seq(route=rng.choice(['new', 'new_raw'])))
        if shape == 'ring':
            for a, b in zip(boxes, boxes[1:] + boxes[:1]): g.own_op(a, b)
        elif shape == 'chain':
            for a, b in zip(boxes, boxes[1:]): g.own_op(a, b)
            if leaves: g.own_op(boxes[-1], leaves[0])
        elif shape == 'self':
            g.own_op(boxes[0], boxes[0])
        elif shape == 'fan':
            tgt = leaves[0] if leaves and rng.random() < 0.5 else boxes[-1]
            for a in boxes[:-1]: g.own_op(a, tgt)
        else:
            for a in boxes: g.own_op(a, rng.choice(boxes + leaves + [None]))
        if rng.random() < 0.3 and g.next < 540: boxes.append(g.mk_box('new', target=rng.choice(boxes + leaves)))
        if rng.random() < 0.2 and g.next < 540:
            c = g.mk_cpy()
        if rng.random() < 0.5: g.emit(f'obs {rng.choice(boxes)}')
        # what the teardown would do from here, under two layouts of the registry
        g.exit_op()
        if rng.random() < 0.5: g.exit_op()
        # then release them by one of the routes
        how = rng.choice(['sweep', 'sweep', 'thr', 'del', 'del', 'mixed'])
        members = [b for b in boxes + leaves if g.h[b].live]
        if how in ('sweep', 'thr'):
            v = [m for m in members if rng.random() < 0.85] or members
            rng.shuffle(v)
            g.sweep(v, how)
        else:
            rng.shuffle(members)
            for m in members[: rng.randrange(1, len(members) + 1)]:
                h = g.h[m]
                if not h.live and rng.random() < 0.5: continue
                f = ('del_root' if h.root else 'del') if h.reg else rng.choice(['del_raw', 'del_raw', 'del', 'dealloc_raw']) if h.heap else rng.choice(['del', 'del_raw', 'dealloc'])
                if how == 'mixed' and rng.random() < 0.3: g.sweep([x for x in members if rng.random() < 0.5] or members)
                g.free_op(m, f)
        for b in boxes[:3]: g.emit(f'obs {b}')
    if rng.random() < 0.7: g.exit_op()
    g.emit('end')
    return g.lines

def container_history(rng, nops):
    """many element births, moves and removals, then every element is looked at"""
    g = Gen(rng, max_stack=6)
    for _ in range(3): g.mk_int('new'); g.mk_str('new'); g.mk_int('stack'); g.mk_str('stack')
    g.mk_rtt('new'); g.mk_rto('new'); g.mk_rto('new_raw')
    g.mk_int('static'); g.mk_str('static'); g.mk_tup('new', g.fixed_items()[:3]); g.mk_tup('stack', g.fixed_items()[1:3]); g.mk_seq('arr', 'new', 'Int', 3); g.mk_seq('arr', 'new_raw', 'Int', 0)
    conts = [g.mk_seq('arr'), g.mk_seq('lst'), g.mk_map('tab', kty='Int'), g.mk_map('tre', kty='String'), g.mk_map('tab', kty='String'), g.mk_seq('arr', ety='String'),
             g.mk_seq('arr', ety='Tuple'), g.mk_seq('lst', ety='Array'), g.mk_map('tre', kty='Int', vty='Tuple'), g.mk_map('tab', kty='String', vty='Array'), g.mk_seq('lst', ety='Tuple')]
    for _ in range(nops):
        i = rng.choice(conts)
        if rng.random() < 0.15 and g.next < 500: g.mk_int(rng.choice(['new', 'new_raw'])); g.mk_str(rng.choice(['new', 'new_raw']))
        g.inplace_op(i)
        if rng.random() < 0.3:
            for t, ety in g.elem_targets(i):
                g.emit(f'obs {t}')
                if rng.random() < 0.5: g.emit(f'{rng.choice(["dealloc", "del", "dealloc_raw", "del_root"])} {t}')
        if rng.random() < 0.15: g.emit(f'iter {i} {rng.choice(["fwd", "back"])}'); g.emit(f'values {i}')
        if rng.random() < 0.05:
            c = g.mk_cpy()
            if c in g.h and g.h[c].kind in ('arr', 'lst', 'tab', 'tre'): conts.append(c)
    conts = [c for c in conts if c in g.h and g.h[c].kind in ('arr', 'lst', 'tab', 'tre')]
    for i in conts: g.emit(f'iter {i} fwd'); g.emit(f'view reverse {i}'); g.emit(f'obs {i}')
    g.emit('end')
    return g.lines

def slot_history(rng, nops):
    """the slot level of Arrays: insertions at every index (0, interior, index == len, -1, out of range), into storage that was
    just grown (never-used slots), that keeps the headers of popped elements, or that is exactly full; pops that shrink the
    storage and pops that do not; resize to 0 / smaller / the same size / larger followed by insertions into the new slots;
    concat of 0..n items; copies (storage exactly as large as the contents).  After every insertion the new element is looked at."""
    g = Gen(rng, max_stack=4)
    for _ in range(2): g.mk_int('new'); g.mk_str('new'); g.mk_int('stack'); g.mk_str('static')
    g.mk_rtt('new'); g.mk_rto('new'); g.mk_rto('new_raw')
    g.mk_tup('new', g.fixed_items()[:2]); g.mk_seq('arr', 'new', 'Int', 2)
    arrs = [g.mk_seq('arr', rng.choice(['new', 'new_raw', 'new_root']), ety, rng.choice([0, 0, 1, 2, 3, 4, 6]))
            for ety in ('Int', 'String', 'Int', rng.choice(['Tuple', 'Array', 'Int']), 'RT' + str(list(g.rt)[0]))]
    lsts = [g.mk_seq('lst', 'new', 'Int', rng.choice([0, 2, 5])), g.mk_seq('lst', 'new', 'String', 3)]
    def src_for(h):
        sk = ('int',) if h.ety == 'Int' else ('str',) if h.ety == 'String' else ('tup',) if h.ety == 'Tuple' else ('arr',) if h.ety == 'Array' else ('rto',)
        c = g.live(lambda x: x.kind in sk and (x.kind != 'arr' or x.ety == 'Int'))
        return rng.choice(c) if c else 0
    for _ in range(nops):
        if g.next > 540: break
        i = rng.choice(arrs); h = g.h[i]
        if not h.live: continue
        c = rng.random()
        if c < 0.34:
            k = rng.choice([h.n, h.n, -1, 0, h.n // 2, h.n + 1, -h.n - 1, -h.n - 2, rng.randrange(-h.n - 1, h.n + 1)])
            g.emit(f'push_at {i} {src_for(h)} {k}')
            ok = (-h.n - 1 <= k <= h.n)
            if ok:
                j = k if k >= 0 else h.n + 1 + k
                h.n += 1; g.emit(f'obs {i}.{j}')
                if rng.random() < 0.3: g.emit(f'{rng.choice(["dealloc", "del", "dealloc_raw"])} {i}.{j}')
        elif c < 0.46: g.emit(f'push {i} {src_for(h)}'); h.n += 1; g.emit(f'obs {i}.{h.n - 1}')
        elif c < 0.58:
            if rng.random() < 0.5: g.emit(f'pop {i}'); h.n = max(0, h.n - 1)
            else:
                k = rng.choice([0, -1, h.n - 1, h.n, -h.n, -h.n - 1, rng.randrange(-h.n - 1, h.n + 1)])
                g.emit(f'pop_at {i} {k}')
                if -h.n <= k < h.n: h.n -= 1
        elif c < 0.76:
            m = rng.choice([0, max(0, h.n - 1), h.n, h.n, h.n + 1, h.n + 3, h.n // 2, h.n + 8])
            g.emit(f'resize {i} {m}'); h.n = min(h.n, m)
            if m and rng.random() < 0.7: g.emit(f'push_at {i} {src_for(h)} {h.n}'); h.n += 1; g.emit(f'obs {i}.{h.n - 1}')
        elif c < 0.88:
            o = [x for x in arrs + lsts if x != i and g.h[x].live and g.h[x].ety == h.ety]
            if o and h.n < 50:
                o = rng.choice(o); g.emit(f'concat {i} {o}'); h.n += g.h[o].n
                if h.n: g.emit(f'obs {i}.{h.n - 1}')
        elif c < 0.94:
            g.emit(f'cpy {g.next} {i}'); j = g.fresh(); g.h[j] = H('arr', 'new', ety=h.ety, n=h.n); arrs.append(j)
        else: g.emit(f'iter {i} {rng.choice(["fwd", "back"])}')
    for i in arrs:
        if g.h[i].live: g.emit(f'iter {i} fwd'); g.emit(f'obs {i}')
    g.emit('end')
    return g.lines

class C19(Spec):
    id = 'C19'; engine = 'hdr'; harness = 'h_hdr'; driver = 'drv_hdr'
    generators = ('Hdr',)
    harness_timeout = 300
    technique = ('Lean 4 proof: invariants of an executable model of headers, births, dealloc/del, the String/Tuple guards, the collector registry and the '
                 'collector\'s release paths (GC_Rem_Ptr, GC_Sweep\'s pending list and release loop, the teardown, destructors that delete other objects), '
                 'for every history of operations; the parameters a source change can flip (enum values, every header_init site, the order of checks in dealloc, '
                 'the guard of every reallocating String/Tuple function, where objects are registered, the order of "un-list" and "finalise" on every release path) '
                 'are re-extracted from /repo on every run and the theorems are '
                 're-checked against them; the size-changing functions of Array.c are read statement by statement into programs of a slot machine (Cello/HdrSlots.lean: '
                 'storage of nslots slots that hold what was last written to them) and "every element slot carries the header Array_Alloc writes" is proved for every history '
                 'of those programs; the block arithmetic of alloc_stack / $ / header_init / header() / alloc_by / the poison fill of dealloc is read as size terms; '
                 'white-box differential check of the model against the real library, release sequence included, element count / slot count / bad slots of every Array after every operation')
    level_text = ('Theorems (CelloProofs/Props/C19.lean), for every configuration that is Sound and for Config.current (decided over tables regenerated from the source): '
                  'every reachable state of the model is well formed — each object handed out by new/new_raw/new_root/alloc*/$/copy/run-time Type carries the constructing '
                  'type, the class of its route and the magic number; each element, key and value of Array/List/Table/Tree carries the declared type and class data and has '
                  'size(type) bytes; iteration and the views hand out exactly such objects; dealloc releases iff the class is heap and otherwise raises ResourceError with the '
                  'state unchanged; every reallocating String/Tuple operation applied to a stack or static object raises (ValueError, or IndexOutOfBoundsError when the index '
                  'check comes first) before anything is changed; only heap objects are ever registered, so del and a collector run release only heap objects, and no object is '
                  'released twice over any history; a refused release (dealloc*, del, del_root, and del_raw / destruct outside the territory of KF-C19-delraw-embedded) returns the very '
                  'same state; the skipped calls of a history are an explicit predicate (St.freeSkip, Skipped) and are no-ops — histories in which destructors delete other objects (Boxes: chains, rings, a Box that owns itself, stack Boxes), also objects that '
                  'wait on the pending list of the sweep under way, in every pending order, at forced and threshold collections and at the teardown: every victim of a '
                  'collection is released exactly once and no released block is touched — for every collection and teardown that releases no run-time Type object before or under a live object of that type (explicit hypothesis typeLost / typeFirst = false; the full statements are refuted: C19_type_outlived_refuted). The order "un-list, then finalise" of GC_Sweep\'s release loop and of both branches of '
                  'GC_Rem_Ptr is read from the source; with the other order the model exhibits the double finalisation (C19_late_clear_refuted). '
                  'Slot level (section H): for every history of push / push_at (every index, index == len and negative ones included) / pop / pop_at / concat / resize (to 0, smaller, same, larger) / '
                  'assign-from-n-items run as the statement lists read from src/Array.c, every slot below nitems holds exactly header_init(.., a->type, AllocData), nitems <= nslots, no call meets a slot '
                  'without a header or leaves the storage, a refused call changes nothing (C19_array_slots_carry_headers, C19_array_ops_end_well; C19_array_programs_current pins what was read); '
                  '$(T, ..) writes exactly the bytes behind the header of the literal alloc_stack(T) makes (C19_stack_birth_block); dealloc poisons every header word of a released block and never '
                  'writes beyond it (C19_dealloc_fill_stays_in_block). '
                  'The model is tied to the implementation by executing thousands of generated histories on both, comparing type, class, '
                  'registration, value and the exact sequence of released blocks after every operation.')
    level_note = ('Trusted: Lean kernel (axioms propext / Quot.sound / Classical.choice at most); translate/g_hdr.py (text extraction); harness/driver comparison (testing); '
                  'AddressSanitizer for invalid or double frees; libc malloc/realloc/free are modelled. Known on this tree (not repaired, reported to the coordinator): '
                  'del_raw of an embedded or stack object whose destructor is not guarded for its class (String, Tuple, Array, … elements; a stack Box) runs that destructor before dealloc '
                  'refuses the object (use after free while formatting the error; the Box is cleared and its pointee deleted); Tree_Alloc does not '
                  'round size(ktype), so the value header is misaligned for key types whose size is not a multiple of 8; del of an object that is not registered is silent; '
                  'a run-time Type object is not kept alive by its instances (the collector does not trace the type pointer of a header; a sweep or the teardown may release it before or under them: KF-C19-type-outlived); '
                  'copy of a Range / Slice / Zip object raises ValueError (KF-C19-copy-view).')
    rule = ('op files: (a) for each kind of object (Int, String, Tuple, Ref, Array, List, Table, Tree — with Int, String, Tuple, Array and run-time struct elements —, Box on the heap and on the stack, '
            'run-time Type, object of a run-time type, static built-in Type) every '
            'route that can produce it x each of the 7 freeing operations and 10 random in-place operations, each on a fresh object, also on its elements; (b) random '
            'histories of births (all routes; stack objects made with the real $ / tuple macros in live frames), freeing, reallocating and container operations, '
            'iteration, views and collector runs with chosen victims; (c) container histories that create, move and drop many elements and then look at every one; '
            '(d) release histories: Boxes wired into chains, rings, self-loops, shared and dangling owners over registered / root / raw / stack / static objects and containers, '
            'released by del, del_root, del_raw, forced collections, threshold collections (registrations until GC_Set collects) and the teardown at exit (forked child, '
            'ledger reported after Cello_Exit), each with a chosen pending order (owner before owned and owned before owner); '
            '(e) slot histories of Arrays: insertions at index 0 / interior / == len / -1 / out of range into storage that has just grown, is exactly full, was enlarged by resize or keeps the '
            'headers of popped elements, pops that do and do not shrink the storage, resize to 0 / smaller / same / larger, concat of 0..n items, copies; the new element is looked at after '
            'every insertion (branch counters: I slots ..). '
            'non-trivial item = an (operation, observation) pair whose observation shows a refusal (an exception), a release, a non-heap or embedded object, '
            'or a non-empty iteration; distinct = distinct pair text (ids replaced by #, so a release sequence counts by its length and shape).')
    trusted_base = ('translate/g_hdr.py (regex extraction from Cello.h, Alloc.c, Type.c, String.c, Tuple.c, Array.c, List.c, Table.c, Tree.c, GC.c; the statement reader of Array.c '
                    'accepts a fixed fragment and raises ExtractError on anything else)',
                    'the slot machine of Cello/HdrSlots.lean and the list model of Cello/Hdr.lean are two models of an Array: the driver runs both and prints `slots=!` when they disagree on the '
                    'number of elements (tested, not proved); List / Table / Tree entry births stay at the level of header sites + list model',
                    'harness/h_hdr.c + lean/Driver/Hdr.lean (correspondence is testing); free/realloc hooks are macros in the unity build; the marks and the pending order of a '
                    'collection are set white-box at the first statement of GC_Sweep (ptr words of the victims\' registry entries exchanged among themselves: what another '
                    'assignment of addresses would give), the mark phase itself is C01\'s business',
                    'AddressSanitizer / UBSan for invalid frees and out-of-bounds writes; libc allocation functions are modelled, not verified',
                    'sizeof of the built-in structs on x86-64 is written into the model (checked against size(type) by the harness)')
    assumptions = ('default build (CELLO_NDEBUG removes header class and magic checks: read from the source, listed in CelloGen.Hdr.ndebugRemoves)',
                   'single thread; the collector is running; raw deletion (dealloc*, del_raw) is not applied to an object the collector manages, a run-time Type is not deleted while in use, '
                   'an object that is an item of a live Tuple is not deleted (documented misuse: both sides skip such operations); a Tuple never holds a Box or an object a live Box owns, '
                   'a Box never owns a Type object or a Tuple item (Box_Show follows the pointer, the mark phase dereferences Tuple items); destructors delete but do not allocate; '
                   'Boxes live on the heap or on the stack ($(Box, x) with x not itself a Box or Ref: the message of a refused dealloc shows the Box and what it points to; '
                   'dealloc of a stack Box whose pointee the program has already released is skipped as `dangling`); the items of a Tuple stored inside a container are Ints / Strings '
                   'that are not on the heap',
                   'the types of all live objects are static, root-registered, raw, or are not released by the collection at hand before (or under) their instances: a collection or teardown '
                   'that releases a run-time Type object before or under a live object of that type is KF-C19-type-outlived (St.typeLost / St.typeFirst; explicit hypothesis of '
                   'C19_sweep_releases_each_victim_once_partial and C19_teardown_releases_once_partial, refuted without it: C19_type_outlived_refuted); generated collections make a Type in use a '
                   'victim only together with all its users, the users first on the pending list; the harness tries such collections in a forked child first',
                   'not generated (known findings, witnesses in corpus/kf_c19_*.ops): del_raw / destruct of a String, Tuple or Array embedded in a container and del_raw of a stack Box '
                   'that points to something (KF-C19-delraw-embedded; an EMPTY embedded Array is outside the finding and is run: corpus/hdr_embedded_tuple_array.ops); copy of a Range, Slice or Zip object (KF-C19-copy-view, `kf copy-view-<T>`; Filter and Map are run: corpus/hdr_copy_views.ops); a Tree whose key type has a size that is not a multiple of 8; `del` of an unregistered object is only required to leave it intact',
                   'tuples with a repeated item are not iterated (F13, C11); slices are taken as slice(x, start, _) (F11, C11)',
                   'an operation with its target among its own arguments is skipped as `self`, except assign(s, s) of a String (fix 744a45f: returns before the guard), which is run on every class',
                   'element and value types: Int, String, Tuple, Array of Int, run-time types of 8..256 bytes; key types: Int, String; strings are alphanumeric')
    def cases(self, rng, tier, boost=1):
        cs = []
        quick = tier == 'quick'
        import random
        for kind in ('int', 'str', 'tup', 'ref', 'arr', 'lst', 'tab', 'tre', 'rtt', 'rto', 'sty', 'box'):
            cs.append(Case(f'sys_{kind}', systematic(kind)))
        n_rand = (40 if quick else 2500) * boost
        for i in range(n_rand):
            r = random.Random(rng.random())
            cs.append(Case(f'rand{i}', random_history(r, r.randrange(60, 220 if quick else 500), r.choice([0, 10, 40]))))
        n_rel = (30 if quick else 1500) * boost
        for i in range(n_rel):
            r = random.Random(rng.random())
            cs.append(Case(f'rel{i}', release_history(r, r.randrange(2, 8 if quick else 14))))
        n_slot = (12 if quick else 500) * boost
        for i in range(n_slot):
            r = random.Random(rng.random())
            cs.append(Case(f'slot{i}', slot_history(r, r.randrange(40, 120 if quick else 400))))
        n_cont = (10 if quick else 400) * boost
        for i in range(n_cont):
            r = random.Random(rng.random())
            cs.append(Case(f'cont{i}', container_history(r, r.randrange(50, 150 if quick else 600))))
        return cs
    def nontrivial_items(self, case, c_out, m_out):
        ops = [l for l in case.lines if l.strip() and not l.startswith('#')]
        obs = core.lines_with('O ', c_out)
        out = set()
        for op, o in zip(ops, obs):
            if o.startswith('O skip') or o.startswith('O bad-op'): continue
            m = re.search(r'exc=(\w+)', o)
            if (m and m.group(1) != 'none') or 'live=0' in o or re.search(r'cls=(data|stack|static)', o) or re.search(r'items n=[1-9]', o) or re.search(r'(freed|rel)=\d', o):
                out.add(hash((re.sub(r'\d+', '#', op), re.sub(r'^O mk \d+', 'O mk', o))))
        return out
    def stats(self, case, c_out, m_out, acc):
        for o in core.lines_with('O ', c_out):
            w = o.split()
            k = w[1] if len(w) > 1 else '?'
            acc['op_' + k] = acc.get('op_' + k, 0) + 1
            m = re.search(r'exc=(\w+)', o)
            if m: acc['exc_' + m.group(1)] = acc.get('exc_' + m.group(1), 0) + 1
            m = re.search(r'cls=(\w+)', o)
            if m: acc['cls_' + m.group(1)] = acc.get('cls_' + m.group(1), 0) + 1
            if 'live=0' in o: acc['released'] = acc.get('released', 0) + 1
            m = re.search(r'(?:freed|rel)=([\d,]+)', o)
            if m:
                n = len(m.group(1).split(','))
                if n >= 2: acc['nested_' + k] = acc.get('nested_' + k, 0) + 1; acc['max_cascade'] = max(acc.get('max_cascade', 0), n)
        for l in core.lines_with('I ', c_out):
            m = re.search(r'refused=(\d+)', l)
            if m and not l.startswith('I slots'): acc['refused'] = acc.get('refused', 0) + int(m.group(1))
            if l.startswith('I slots'):
                for k, v in re.findall(r'([\w-]+)=(\d+)', l): acc['slot_' + k] = acc.get('slot_' + k, 0) + int(v)
    def model_selfcheck(self, case, m_out):
        m = re.search(r'^S .*sound=(\w+)', m_out, flags=re.M)
        if m and m.group(1) != 'true':
            return 'the configuration extracted from the current source is not Sound (Config.current.Sound = false): see CelloGen/Hdr.lean'
        return None

SPEC = C19()
