"""C06 — every managed object is finalised exactly once, all memory returned by teardown (engine life).

The generator keeps a Python mirror of the collector (registry layout included) only to *write op files*: it needs to know
which objects are live / registered to generate meaningful ops, and — for histories whose objects all live in the
harness's fixed-address arena — the slot order of the registry, so that every collection op can carry the pending order it
claims (`; order`).  The claim is checked on both sides: the harness prints the pending list it saw in the real
`freelist`, the Lean model prints the one it used.  What the ops *do* is predicted by the Lean model alone."""
import re, os
from ..runner import Spec, Case
from .. import core

ARENA = 0x200000000000
STRIDE = 64
NARENA = 16384
TREGION = ARENA + NARENA * STRIDE       # blocks of the run-time Type objects (harness: calloc wrapped)
TSTRIDE = 8192
NTYPES = 16
HEADER = 24                             # sizeof(struct Header) with the default checks

class DtorRaise(Exception):
    """a destructor raised: unwinds the mirror exactly as the C exception unwinds the collector"""
PRIMES = [0, 1, 5, 11, 23, 53, 101, 197, 389, 683, 1259, 2417, 4733, 9371, 18617, 37097, 74093, 148073, 296099, 592019,
          1100009, 2200013, 4400021, 8800019]

def gc_primes():
    """GC_Primes of the tree under test (the layout mirror follows the source; the table itself is C17's business)"""
    try:
        src = open(os.path.join(core.REPO, 'src', 'GC.c')).read()
        m = re.search(r'GC_Primes\[GC_PRIMES_COUNT\]\s*=\s*\{([^}]*)\}', src)
        xs = [int(x) for x in re.findall(r'\d+', m.group(1))]
        return xs if len(xs) >= 8 else PRIMES
    except Exception:
        return PRIMES

def thr(n): return n + n // 2 + 1

class Layout:
    """robin-hood registry of src/GC.c: GC_Set_Ptr, GC_Rem_Ptr (registry part), GC_Sweep phase 1, GC_Rehash"""
    def __init__(self, primes):
        self.primes = primes; self.e = []; self.nslots = 0; self.nitems = 0
    def ideal(self, size):
        size = int((size + 1) / 0.9)
        for p in self.primes:
            if p >= size: return p
        last = self.primes[-1]; i = 0
        while True:
            if last * i >= size: return last * i
            i += 1
    def probe(self, i, h):
        v = i - (h - 1)
        return v + self.nslots if v < 0 else v
    def set_ptr(self, oid, hv, root):
        i = hv % self.nslots; j = 0
        entry = [oid, i + 1, root, hv]
        while True:
            cur = self.e[i]
            if cur is None: self.e[i] = entry; return
            if cur[0] == entry[0]: return
            p = self.probe(i, cur[1])
            if j >= p:
                self.e[i] = entry; entry = cur; j = p
            i = (i + 1) % self.nslots; j += 1
    def rehash(self, new):
        old = self.e; self.nslots = new; self.e = [None] * new
        for x in old:
            if x is not None: self.set_ptr(x[0], x[3], x[2])
    def resize_more(self):
        n = self.ideal(self.nitems)
        if n > self.nslots: self.rehash(n)
    def resize_less(self):
        n = self.ideal(self.nitems)
        if n < self.nslots: self.rehash(n)
    def add(self, oid, hv, root):
        self.nitems += 1; self.resize_more(); self.set_ptr(oid, hv, root)
    def shift(self, i):
        j = i
        while True:
            nj = (j + 1) % self.nslots; x = self.e[nj]
            if x is not None and self.probe(nj, x[1]) > 0:
                self.e[j] = x; self.e[nj] = None; j = nj
            else: break
    def erase(self, oid, hv):
        if self.nslots == 0: return False
        i = hv % self.nslots; j = 0
        while True:
            x = self.e[i]
            if x is None or j > self.probe(i, x[1]): return False
            if x[0] == oid:
                self.e[i] = None; self.shift(i); self.nitems -= 1; return True
            i = (i + 1) % self.nslots; j += 1
    def sweep(self, marked):
        out = []; i = 0
        while i < self.nslots:
            x = self.e[i]
            if x is None or x[0] in marked: i += 1; continue
            if not x[2]:
                out.append(x[0]); self.e[i] = None; self.shift(i); self.nitems -= 1; continue
            i += 1
        self.resize_less()
        return out

class Sim:
    """mirror of the collector's life-cycle logic, used only to generate valid, interesting op files"""
    def __init__(self, ordered, primes):
        self.ordered = ordered
        self.lay = Layout(primes) if ordered else None
        self.reg = {}            # id -> root flag (registered objects)
        self.pending = []
        self.running = True
        self.mitems = 0
        self.owns = {}           # id -> owned id
        self.owner = {}          # id -> owner id
        self.kind = {}; self.how = {}; self.slot = {}
        self.live = set()        # allocated and not yet finalised
        self.held = []
        self.deleted = set()     # deleted by the program
        self.cov = dict(owner_first=0, owned_first=0, reg_path=0, sweeps=0, swept=0, thr=0, cascade=0, maxdepth=0,
                        dtor_allocs=0, nested=0, alloc_route=0, dealloc_route=0, rt_instances=0,
                        mark_aborts=0, stale_swept=0, null_dels=0, null_dels_in_sweep=0)
        self.depth = 0
        self.qchildren = {}      # id of a kind-q object -> [(child id, arena slot)]: what its destructor allocates
        self.nulldel = set()     # objects whose destructor also does del(NULL)
        self.stale = set()       # mark bits an abandoned mark phase left set (read by nothing since fix d8f0c4f: coverage only)
        self.in_teardown = False
        # known-finding territory met while simulating (KF-C06-dtor-alloc, F23): the generator discards such histories
        self.kf = dict(clobber=0, late_child=0, stopped_child=0, type_first=0, raised=0)
        self.type_of = {}        # instance id -> id of its run-time Type object
        self.raises = set()      # objects whose destructor raises
        self.last_order = []
    def hv(self, oid):
        if self.kind[oid] == 'T': return (TREGION + self.slot[oid] * TSTRIDE + HEADER) >> 3
        return (ARENA + self.slot[oid] * STRIDE) >> 3
    def instances(self, t): return [b for b, tt in self.type_of.items() if tt == t and b in self.live]
    # ---- finalisation
    def finalise(self, a):
        self._finalise(a)
        if a in self.raises:
            self.kf['raised'] += 1; self.live.add(a)      # dealloc is skipped: never released
            raise DtorRaise()
        # the memory is released: a run-time Type object before one of its instances is KF-C06-type-released-first
        if self.kind.get(a) == 'T' and self.instances(a): self.kf['type_first'] += 1
    def _finalise(self, a):
        self.live.discard(a)
        self.depth += 1; self.cov['maxdepth'] = max(self.cov['maxdepth'], self.depth)
        for cid, cslot in self.qchildren.get(a, []): self.child_new(cid, cslot)
        x = self.owns.get(a)
        if x is not None: self.gc_rem(x, True)
        if a in self.nulldel: self.gc_rem_null(True)
        self.depth -= 1
    def gc_rem_null(self, nested=False):
        """GC_Rem(gc, NULL): GC_Rem_Ptr returns at once (fix d3e4e44); GC_Resize_Less and the new mitems still happen"""
        if not self.running: return
        self.cov['null_dels'] += 1
        if nested and any(x is None for x in self.pending): self.cov['null_dels_in_sweep'] += 1   # a cleared slot was there to match
        if self.lay: self.lay.resize_less()
        self.mitems = thr(len(self.reg))
    def child_new(self, cid, cslot):
        """new(Probe) issued by a destructor: GC_Set on the same collector, possibly a nested collection"""
        self.kind[cid] = 'p'; self.how[cid] = 's'; self.slot[cid] = cslot
        self.live.add(cid); self.cov['dtor_allocs'] += 1
        if self.in_teardown: self.kf['late_child'] += 1
        if not self.running: self.kf['stopped_child'] += 1; return
        self.reg[cid] = False
        if self.lay: self.lay.add(cid, self.hv(cid), False)
        if len(self.reg) > self.mitems:
            self.cov['nested'] += 1
            if any(x is not None for x in self.pending): self.kf['clobber'] += 1
            self.sweep(self.mark_set([cid]))      # overwrites the pending list of the sweep in progress, leaves it empty
    def gc_rem(self, x, nested=False):
        if not self.running: return
        if x in self.pending:
            self.pending[self.pending.index(x)] = None
            if nested: self.cov['owner_first'] += 1
            self.finalise(x)
        elif x in self.reg:
            del self.reg[x]
            if self.lay: self.lay.erase(x, self.hv(x))
            if nested: self.cov['reg_path'] += 1
            self.finalise(x)
        elif nested and self.pending:
            self.cov['owned_first'] += 1
        if self.lay: self.lay.resize_less()
        self.mitems = thr(len(self.reg))
    def sweep(self, marked):
        """returns the pending order"""
        marked = set(marked)
        # (bits left by an abandoned mark phase are cleared before any sweep reads them: GC_Unmark, fix d8f0c4f)
        self.cov['stale_swept'] += sum(1 for x in self.stale if x in self.reg and not self.reg[x] and x not in marked)
        self.stale = set()
        if self.lay: order = self.lay.sweep(marked)
        else: order = sorted(x for x, r in self.reg.items() if not r and x not in marked)
        for x in order: del self.reg[x]
        self.mitems = thr(len(self.reg))
        self.pending = list(order)
        self.last_order = list(order)
        self.cov['sweeps'] += 1; self.cov['swept'] += len(order)
        i = 0
        while i < len(self.pending):      # `i < gc->freenum`, re-read at every turn
            x = self.pending[i]
            if x is not None:
                self.pending[i] = None; self.finalise(x)
            i += 1
        self.pending = []
        return order
    # ---- mark phase over ownership edges (GC_Mark with roots + held + the object being registered)
    def tree(self, top):
        out = []; x = top
        while x is not None and x not in out:
            out.append(x); x = self.owns.get(x)
        return out
    def mark_set(self, extra=()):
        m = set()
        def item(x):     # GC_Mark_Item
            while x is not None and x in self.reg and x not in m:
                m.add(x); x = self.owns.get(x)
        for h in list(self.held) + list(extra):
            if h in self.reg: item(h)
            else: item(self.owns.get(h))
        for x, r in self.reg.items():
            if r: item(x)
        return m
    def cycle_of(self, x):
        """the ownership ring through x (list starting at x), or None"""
        out = [x]; y = self.owns.get(x)
        while y is not None and y not in out:
            out.append(y); y = self.owns.get(y)
        return out if y == x else None
    def is_top(self, x):
        """unowned, or the representative (smallest identity) of an ownership ring"""
        if x not in self.owner: return True
        c = self.cycle_of(x)
        return c is not None and x == min(c) and all(self.owner.get(self.owns[m]) == m for m in c)
    def own(self, a, t):
        old = self.owns.get(a)
        if old is not None and self.owner.get(old) == a: del self.owner[old]
        if t is None: self.owns.pop(a, None)
        else: self.owns[a] = t; self.owner[t] = a
        return f"o {a} {'-' if t is None else t}"
    def protected_marks(self):
        """whole ownership trees of the tops the program can reach (held, root or the anchor): a marked set that is
        closed under ownership in both directions (a root inside a garbage tree is not in it)"""
        m = set()
        for t in self.live:
            if not self.is_top(t): continue
            if t in self.held or self.reg.get(t):
                m.update(y for y in self.tree(t) if y in self.reg)
        return m
    # ---- ops; each returns the op line
    def declare(self, oid, children):
        self.qchildren[oid] = list(children)
        return f"q {oid}" + ''.join(f' {c} {sl}' for c, sl in children)
    def new(self, oid, kind, how, slot, owned, op='n'):
        self.kind[oid] = kind; self.how[oid] = how; self.slot[oid] = slot
        if op == 'a': self.cov['alloc_route'] += 1
        order = []
        self.live.add(oid)
        tid = None
        if kind == 'i': tid = owned; owned = None; self.type_of[oid] = tid
        raised = False
        if how != 'w' and self.running:
            self.reg[oid] = (how == 'r')
            if self.lay: self.lay.add(oid, self.hv(oid), how == 'r')
            if len(self.reg) > self.mitems:
                self.cov['thr'] += 1
                try: order = self.sweep(self.mark_set([oid]))
                except DtorRaise: order = self.last_order; raised = True
        if owned is not None and not raised:
            self.owns[oid] = owned; self.owner[owned] = oid
        o = '-' if owned is None else str(owned)
        if kind == 'i': o = str(tid)
        return f"{op} {oid} {kind} {how} {slot} {o} ;" + ''.join(f' {x}' for x in order)
    def delete(self, oid, how, op='d'):
        self.deleted.add(oid)
        if op == 'D': self.cov['dealloc_route'] += 1
        try:
            if how == 'w': self.finalise(oid)
            else:
                before = len(self.live)
                self.gc_rem(oid)
                if before - len(self.live) > 1: self.cov['cascade'] += 1
        except DtorRaise: pass
        return f"{op} {oid} {how}"
    def declare_raises(self, oid):
        self.raises.add(oid)
        return f'r {oid}'
    def collect(self, marks):
        try: order = self.sweep(marks)
        except DtorRaise: order = self.last_order
        return 'c' + ''.join(f' {x}' for x in sorted(marks)) + ' ;' + ''.join(f' {x}' for x in order)
    def gc(self):
        try: order = self.sweep(self.mark_set())
        except DtorRaise: order = self.last_order
        return 'g ;' + ''.join(f' {x}' for x in order)
    def mark_abort(self, ids):
        """a mark phase left by an exception after the anchor reported `ids`"""
        self.cov['mark_aborts'] += 1
        self.stale = {y for x in list(ids) + [r for r, f in self.reg.items() if f] for y in self.tree(x) if y in self.reg}
        return 'm' + ''.join(f' {x}' for x in ids)
    def declare_nulldel(self, oid):
        self.nulldel.add(oid)
        return f'z {oid}'
    def del_null(self):
        self.gc_rem_null()
        return 'N'
    def hold(self, ids):
        self.held = list(ids)
        return 'k' + ''.join(f' {x}' for x in ids)
    def teardown(self):
        self.in_teardown = True
        try: order = self.sweep(set())
        except DtorRaise: order = self.last_order
        return 'e ;' + ''.join(f' {x}' for x in order)

def gen_history(rng, primes, nops, mode=None, ordered=None, stops=False, nslots_used=None, chain_bias=0.35, maxlive=120, keep=0.7, qprob=0.0, zprob=0.15, tprob=0.3):
    """one history (list of op lines) + coverage.  qprob = share of leaf allocations whose destructor allocates"""
    mode = mode or ('thread' if rng.random() < 0.3 else 'main')
    ordered = (rng.random() < 0.65) if ordered is None else ordered
    sim = Sim(ordered, primes)
    lines = [f"H {mode} {'ord' if ordered else 'uno'}"]
    next_id = [0]
    # arena slots: a small window makes addresses collide modulo the small primes; sometimes multiples of 55 = 5*11
    window = nslots_used or rng.choice([40, 120, 400, 4000] if maxlive <= 150 else [400, 1200, 4000, 16000])
    stride_choice = rng.choice([1, 1, 1, 5, 11, 55])
    free_slots = [(i * stride_choice) % NARENA for i in range(window)]
    free_slots = list(dict.fromkeys(free_slots))
    rng.shuffle(free_slots)
    used_slot = {}
    def fresh():
        i = next_id[0]; next_id[0] += 1; return i
    def take_slot():
        if not free_slots: return None
        return free_slots.pop(rng.randrange(len(free_slots)) if rng.random() < 0.5 else -1)
    def tops(): return [x for x in sim.live if sim.is_top(x) and x != 0 and sim.kind[x] != 'T']
    def tree_has(top, pred): return any(pred(x) for x in sim.tree(top))
    def set_held(ids):
        ids = [x for x in dict.fromkeys(ids) if x in sim.live and sim.is_top(x)]
        # raw tops stay held until the program deletes them (the program's own pointers)
        for x in tops():
            if sim.how[x] == 'w' and x not in ids: ids.append(x)
        if ids != sim.held: lines.append(sim.hold(ids))
    def drop(x):
        if x in sim.held: lines.append(sim.hold([h for h in sim.held if h != x]))
    # the anchor: a root object whose Mark instance reports the held objects
    s0 = take_slot()
    lines.append(sim.new(fresh(), 'a', 'r', s0, None))
    # run-time Type objects (new_root(Type, …) / new_raw(Type, …)): kept by the program until every instance has been
    # released (a Type the collector may sweep is the territory of known finding KF-C06-type-released-first)
    rtypes = []
    if rng.random() < tprob:
        for _ in range(rng.choice([1, 1, 2])):
            tid = fresh(); lines.append(sim.new(tid, 'T', rng.choice('rrw'), len(rtypes), None, op='a' if rng.random() < 0.2 else 'n')); rtypes.append(tid)
    for _ in range(nops):
        r = rng.random()
        live_tops = tops()
        if r < 0.42 and len(sim.live) < maxlive:
            # allocation; possibly an owner of a currently held top (Box -> ... -> probe chains grow this way)
            cand = [x for x in sim.held if x in sim.live and sim.how[x] != 'w' and x not in sim.owner and x != 0 and sim.kind[x] != 'q']
            make_box = cand and rng.random() < chain_bias
            empty_box = (not make_box) and rng.random() < 0.12      # a Box with no pointee yet: can close a ring later
            if ordered: kind = 'b' if (make_box or empty_box) else 'p'
            else: kind = rng.choice(['b', 'B']) if (make_box or empty_box) else 'p'
            if kind == 'p' and qprob and rng.random() < qprob: kind = 'q'
            elif kind == 'p' and rtypes and rng.random() < 0.4: kind = 'i'      # an instance of a run-time type
            if not sim.running: how = 'w'          # new/new_root while stopped is the territory of known finding F23
            else: how = rng.choice(['s', 's', 's', 's', 'r', 'w'])
            if stops and how == 'r' and make_box: how = 's'
            slot = 0
            if kind != 'B':
                slot = take_slot()
                if slot is None: continue
            owned = rng.choice(cand) if make_box else None
            if owned is not None and stops and sim.how[owned] == 'r': owned = None; kind = 'p' if kind != 'B' else 'B'
            if kind == 'i': owned = rng.choice(rtypes); sim.cov['rt_instances'] = sim.cov.get('rt_instances', 0) + 1
            oid = fresh()
            if ordered and how != 'w' and sim.running and len(sim.reg) + 1 > sim.mitems:
                # this registration will run a threshold collection.  Which garbage the real conservative stack scan lets
                # it reclaim is not determined (the harness completes it with a second collection), so the registry
                # layout afterwards is not either: in histories that compare pending orders, reclaim the garbage first
                ms = sim.mark_set()
                if any((not r) and x not in ms for x, r in sim.reg.items()):
                    lines.append(sim.gc())
            lines.append(sim.new(oid, kind, how, slot, owned, op='a' if rng.random() < 0.2 else 'n'))
            if kind == 'q':
                # what its destructor will allocate: one or two leaves at fresh identities and arena slots
                ch = []
                for _ in range(rng.choice([1, 1, 2])):
                    sl = take_slot()
                    if sl is not None: ch.append((fresh(), sl))
                if ch: lines.append(sim.declare(oid, ch))
            if kind in 'pqb' and rng.random() < zprob:
                lines.append(sim.declare_nulldel(oid))          # its destructor will also do del(NULL)
            # the program keeps the new object (mostly); an owned object is from now on reached through its owner
            kept = [h for h in sim.held if h != owned or kind == 'i']
            if how == 'w' or rng.random() < keep: kept.append(oid)
            set_held(kept)
        elif r < 0.47:
            # close an ownership ring: the empty Box at the bottom of a held chain is pointed at the top of the chain
            # (a single empty Box becomes a box owning itself).  No raw members (a raw object is outside the collector).
            cand = []
            for t in sim.held:
                if t not in sim.live or t in sim.owner or t == 0: continue
                tr = sim.tree(t); last = tr[-1]
                if sim.kind[last] in 'bB' and sim.owns.get(last) is None and all(sim.how[y] != 'w' and y in sim.live for y in tr) \
                   and not (stops and any(sim.how[y] == 'r' for y in tr)):
                    cand.append((t, last))
            if not cand: continue
            t, last = rng.choice(cand)
            lines.append(sim.own(last, t))
            rep = min(sim.tree(t))
            kept = [h for h in sim.held if h != t] + ([rep] if rng.random() < 0.6 else [])
            set_held(kept)
        elif r < 0.60 and live_tops:
            # explicit deletion of a top or of the representative of a ring (never another owned object, never twice)
            x = rng.choice(live_tops)
            if x in sim.deleted: continue
            how = sim.how[x]
            if not sim.running:
                # stopped: del/del_root are ignored by the collector; for a root (or an owner of a root) that is a leak (F23)
                if how == 'r' or tree_has(x, lambda y: sim.how[y] == 'r'): continue
            if how == 'r' and rng.random() < 0.5: how = 's'      # del and del_root are the same function
            elif how == 's' and rng.random() < 0.1: how = 'r'
            drop(x)
            lines.append(sim.delete(x, how, op='D' if how == 'w' and sim.kind[x] != 'B' and rng.random() < 0.3 else 'd'))
        elif r < 0.72:
            # white-box collection with a chosen marked set: whole ownership trees of protected tops + some garbage tops
            marks = sim.protected_marks()
            for t in live_tops:
                if t in sim.reg and t not in marks and rng.random() < 0.4 and t not in sim.deleted:
                    marks.update(y for y in sim.tree(t) if y in sim.reg)
            if not sim.running:
                # a swept owner's del of a root it owns would be ignored (F23 territory): keep such trees
                for t in live_tops:
                    if t in sim.reg and t not in marks and tree_has(t, lambda y: sim.how[y] == 'r'):
                        marks.update(y for y in sim.tree(t) if y in sim.reg)
            lines.append(sim.collect(marks))
        elif r < 0.80:
            if not sim.running and any(t in sim.reg and not sim.reg[t] and t not in sim.held and tree_has(t, lambda y: sim.how[y] == 'r') for t in live_tops):
                continue
            lines.append(sim.gc())
        elif r < 0.90:
            # the program drops / keeps pointers
            kept = [h for h in sim.held if rng.random() < max(0.6, keep)]
            for t in live_tops:
                if t not in kept and t not in sim.deleted and rng.random() < 0.15: kept.append(t)
            set_held(kept)
        elif stops and r < 0.96:
            if sim.running: sim.running = False; lines.append('s')
            else: sim.running = True; lines.append('t')
        elif r < 0.975:
            # a mark phase that an exception leaves: the anchor reports some of the held objects, then throws; the bits stay
            # set.  Often the program then drops what was marked: garbage with a stale mark bit (fix d8f0c4f)
            if 0 not in sim.reg: continue
            cand = [x for x in sim.held if x in sim.live]
            ids = [x for x in cand if rng.random() < 0.6]
            lines.append(sim.mark_abort(ids))
            if ids and rng.random() < 0.7:
                gone = [x for x in ids if sim.how[x] != 'w' and rng.random() < 0.7]
                if not sim.running: gone = [x for x in gone if not tree_has(x, lambda y: sim.how[y] == 'r')]
                set_held([h for h in sim.held if h not in gone])
        else:
            lines.append(sim.del_null())
    # the program's obligations before teardown: collector running, roots and raws deleted
    if not sim.running: sim.running = True; lines.append('t')
    for x in sorted(tops()):
        # (an object whose destructor allocates must not be left to the teardown sweep: known finding KF-C06-dtor-alloc)
        if x in sim.live and sim.is_top(x) and x not in sim.deleted and (sim.how[x] in ('r', 'w') or sim.kind[x] == 'q'):
            drop(x)
            lines.append(sim.delete(x, sim.how[x]))
    # a root that is owned is deleted by its owner; owners that are garbage go at teardown. The anchor goes last.
    set_held([])
    if qprob: lines.append(sim.gc())      # what the destructors allocated is reclaimed before teardown
    if rtypes:
        # the program deletes a run-time Type object once none of its instances is left (garbage ones are reclaimed first)
        lines.append(sim.gc())
        for t in rtypes:
            if not sim.instances(t): lines.append(sim.delete(t, sim.how[t]))
    lines.append(sim.delete(0, 'r'))
    lines.append(sim.teardown())
    # released arena slots are reused only across histories: a history never reuses an address it has used
    return lines, sim.cov, sim

def chain_history(rng, primes, depth, slots, how_top='s', via='c', mode='main', zprob=0.0, abort=False):
    """Box -> Box -> ... -> probe of the given depth at the given arena slots, dropped and reclaimed through `via`"""
    sim = Sim(True, primes)
    lines = [f'H {mode} ord']
    lines.append(sim.new(0, 'a', 'r', slots[0], None))
    prev = None
    for d in range(depth):
        oid = d + 1
        how = how_top if d == depth - 1 else 's'
        lines.append(sim.new(oid, 'p' if d == 0 else 'b', how, slots[d + 1], prev))
        if rng.random() < zprob: lines.append(sim.declare_nulldel(oid))
        lines.append(sim.hold([oid] ))
        prev = oid
    top = depth
    if abort: lines.append(sim.mark_abort([top]))      # the whole chain is marked when the mark phase is abandoned
    if zprob and rng.random() < 0.5: lines.append(sim.del_null())
    if via == 'c':
        lines.append(sim.hold([])); lines.append(sim.collect(sim.protected_marks()))
    elif via == 'g':
        lines.append(sim.hold([])); lines.append(sim.gc())
    elif via == 'd':
        lines.append(sim.hold([])); lines.append(sim.delete(top, how_top))
    elif via == 'e':
        lines.append(sim.hold([]))
    if top in sim.live and how_top in ('r', 'w'):
        lines.append(sim.delete(top, how_top))
    lines.append(sim.delete(0, 'r'))
    lines.append(sim.teardown())
    return lines, sim.cov, sim

def ring_history(rng, primes, n, slots, hows, via='c', mode='main', ordered=True, kinds=None, zprob=0.0, abort=False):
    """a ring of n boxes (n = 1: a box owning itself) at the given arena slots, reclaimed through `via`:
    c = forced collection, g = real mark phase, e = teardown, d = the program deletes one member"""
    sim = Sim(ordered, primes)
    lines = [f"H {mode} {'ord' if ordered else 'uno'}"]
    lines.append(sim.new(0, 'a', 'r', slots[0], None))
    prev = None
    for i in range(n):
        oid = i + 1
        k = (kinds[i] if kinds else 'b')
        lines.append(sim.new(oid, k, hows[i], slots[i + 1] if k != 'B' else 0, prev))
        if k != 'B' and rng.random() < zprob: lines.append(sim.declare_nulldel(oid))
        lines.append(sim.hold([oid]))
        prev = oid
    lines.append(sim.own(1, n))                  # close the ring: 1 -> n -> n-1 -> ... -> 1
    lines.append(sim.hold([1]))
    if abort: lines.append(sim.mark_abort([1]))
    if via == 'c':
        lines.append(sim.hold([])); lines.append(sim.collect(sim.protected_marks()))
    elif via == 'g':
        lines.append(sim.hold([])); lines.append(sim.gc())
    elif via == 'd':
        m = rng.randrange(1, n + 1)
        lines.append(sim.hold([])); lines.append(sim.delete(m, hows[m - 1]))
    else:
        lines.append(sim.hold([]))
    # a ring with a root member is not collected: the program deletes that member (the cascade takes the ring)
    for i in range(n):
        if (i + 1) in sim.live and hows[i] == 'r' and (i + 1) not in sim.deleted:
            lines.append(sim.delete(i + 1, 'r'))
    lines.append(sim.delete(0, 'r'))
    lines.append(sim.teardown())
    return lines, sim.cov, sim

def nested_history(rng, primes, nheld, nchild, mode='main', how='s', via='d'):
    """an object whose destructor allocates `nchild` leaves, deleted by the program (outside any sweep) while `nheld` other
    objects are held: with few objects registered one of the registrations exceeds the threshold and runs a collection
    from inside the destructor — harmless here (the pending list is empty).  Events are compared as sets."""
    sim = Sim(False, primes)
    lines = [f'H {mode} uno']
    slots = rng.sample(range(1, 400), nheld + nchild + 2)
    lines.append(sim.new(0, 'a', 'r', slots.pop(), None))
    ids = []
    for i in range(nheld):
        lines.append(sim.new(i + 1, 'p', 's', slots.pop(), None, op=rng.choice('na')))
        ids.append(i + 1); lines.append(sim.hold(list(ids)))
    q = nheld + 1
    lines.append(sim.new(q, 'q', how, slots.pop(), None, op=rng.choice('na')))
    lines.append(sim.declare(q, [(q + 1 + j, slots.pop()) for j in range(nchild)]))
    lines.append(sim.hold(ids + [q]))
    lines.append(sim.hold(ids))
    lines.append(sim.delete(q, how, op='D' if how == 'w' and via == 'D' else 'd'))
    lines.append(sim.gc())
    lines.append(sim.hold([]))
    lines.append(sim.gc())
    lines.append(sim.delete(0, 'r'))
    lines.append(sim.teardown())
    return lines, sim.cov, sim

def stale_history(rng, primes, ntops, slots, via='e', mode='main', ordered=True):
    """`ntops` unowned leaves / small chains are held while a mark phase marks them and is left by an exception; the program
    drops some of them; they are reclaimed through `via`: e = teardown (GC_Del), g = the next real collection, n = the
    threshold collection of a later registration, c = forced sweep, d = explicit del.  Before fix d8f0c4f the stale bits
    kept them (g, n) or left them behind for good (e)."""
    sim = Sim(ordered, primes)
    lines = [f"H {mode} {'ord' if ordered else 'uno'}"]
    sl = list(slots)
    lines.append(sim.new(0, 'a', 'r', sl.pop(), None))
    oid = 0; tops = []
    for _ in range(ntops):
        oid += 1; lines.append(sim.new(oid, 'p', 's', sl.pop(), None)); lines.append(sim.hold(tops + [oid]))
        top = oid
        if rng.random() < 0.4:
            oid += 1; lines.append(sim.new(oid, 'b', 's', sl.pop(), top)); top = oid
        tops.append(top); lines.append(sim.hold(list(tops)))
    lines.append(sim.mark_abort([t for t in tops if rng.random() < 0.8] or tops[:1]))
    kept = [t for t in tops if rng.random() < 0.3]
    lines.append(sim.hold(kept))
    if via == 'g': lines.append(sim.gc())
    elif via == 'c': lines.append(sim.collect(sim.protected_marks()))
    elif via == 'd':
        for t in tops:
            if t not in kept: lines.append(sim.delete(t, 's'))
    elif via == 'n':
        for _ in range(rng.choice([1, 2, 4])):
            if ordered and sim.running and len(sim.reg) + 1 > sim.mitems:
                ms = sim.mark_set()
                if any((not r) and x not in ms for x, r in sim.reg.items()): lines.append(sim.gc())
            oid += 1; lines.append(sim.new(oid, 'p', 's', sl.pop(), None))
    if rng.random() < 0.5: lines.append(sim.hold([]))
    if rng.random() < 0.5: lines.append(sim.delete(0, 'r'))     # (the anchor may also stay: a root the program keeps)
    lines.append(sim.teardown())
    return lines, sim.cov, sim

def _nontrivial(cov):
    return cov['owner_first'] + cov['owned_first'] + cov['reg_path'] + cov['dtor_allocs'] + cov['stale_swept'] + cov['null_dels_in_sweep'] > 0

class C06(Spec):
    id = 'C06'; engine = 'life'; harness = 'h_life'; driver = 'drv_life'
    generators = ('Life',)
    harness_flags = ('-Wl,--wrap=free', '-Wl,--wrap=calloc', '-Wl,--wrap=realloc')
    harness_timeout = 300
    technique = ('Lean 4 proof by induction over histories with a nested induction over destructor cascades — an exact-effect invariant for exactly-once, '
                 'a potential-object invariant (what is in no table never comes back; what enters has a fresh identity) for safety under nested collections — '
                 '(source-derived switches regenerated each run): model of '
                 'GC_Set/GC_Rem/GC_Rem_Ptr/GC_Sweep/GC_Del/GC_Unmark/alloc_by/dealloc/del_by/Box_Del, of destructors that allocate (nested collections on the '
                 'collector\'s one pending list), of mark phases left by an exception (stale mark bits) and of del(NULL) from the program and from destructors, with ledger; differential check of the model against '
                 'the real collector (destructor ledger, pending list, registry, live table blocks of the collector) on generated histories; '
                 'finite pointer-state model of the collector\'s own tables run on statement lists extracted from GC_Rehash/GC_Sweep/GC_Del (invariant by exhaustive case distinction)')
    level_text = ('Theorem C06_no_double (+ C06_ledger_only_grows, C06_registered_inert): for EVERY well-formed history of new/new_root/new_raw, '
                  'alloc/alloc_root/alloc_raw, del/del_root/del_raw, dealloc_raw(destruct), ownership links, collections with any marked set and any '
                  'slot order, stop/start, teardown, destructors that allocate (nested collections on the pending list of the sweep in progress '
                  'included), mark phases abandoned by an exception with any bits left set, and del(NULL) by the program or by destructors, the model of the collector never finalises or releases an object twice and never releases one that was not finalised. '
                  'Theorems C06_exactly_once(_alloc/_windows) / C06_collect_respects_marks: in the histories in which no destructor allocates, it '
                  'finalises and releases every object exactly once (collector running; roots and raws deleted by the program), '
                  'and never an object of the marked set of the collection (under the sole-ownership obligation). '
                  'Theorems C06_teardown_ignores_abandoned_mark / C06_collection_ignores_abandoned_mark / C06_exactly_once_after_abandoned_mark (every history: stale mark bits '
                  'change nothing) and C06_no_null_deref (every history, no hypothesis: the collector never runs dealloc(destruct(NULL))) cover the territories repaired by fixes '
                  'd8f0c4f and d3e4e44; the code before each fix is an explicit OLD variant of the model, refuted on the former witnesses (C06_stale_marks_old_refuted, C06_del_null_old_refuted). '
                  'For histories with allocating destructors, and for dealloc of registered objects, the exactly-once statements are refuted on witnesses (known findings). '
                  'Theorems C06_collector_tables_released / _while_working (every sequence of registrations, removals and sweeps, rehashing or not, nested in any way, then GC_Del: every entry table and pending list '
                  'the collector allocated is freed exactly once, no free/realloc of a dangling pointer, the TLS slot is cleared; statement lists extracted from GC_Rehash/GC_Sweep/GC_Del) and '
                  'C06_thread_setup_teardown_order / C06_main_setup_teardown_order (extracted step lists of Thread_Init_Run, Cello_Exit, the main macro: collector and exception record exist around the thread function and around GC_Del). '
                  'The model is tied to the real GC.c/Alloc.c/Pointer.c by running thousands of histories on both (event sequences, pending '
                  'lists, registry contents, mitems), in main and worker threads, with an independent ledger oracle and ASan.')
    level_note = ('Trusted: Lean kernel; the harness/driver comparison (testing); registry layout is abstract (C17), the mark phase is a '
                  'parameter (C01). Known findings F23 (new / del_root while the collector is stopped), KF-C06-dtor-alloc (a destructor that '
                  'allocates: nested collection on the pending list of the sweep in progress) and KF-C06-dealloc-registered (dealloc does not '
                  'unregister) are excluded from the proved statements by explicit hypotheses and refuted on witnesses.')
    rule = ('histories: (a) random interleavings of new/new_root/new_raw (probe leaves, PBox owners built from the library\'s Box functions at '
            'chosen arena addresses, the library\'s own Box), del/del_root/del_raw of unowned objects, white-box collections with chosen marked sets '
            '(whole ownership trees), GC_Mark+GC_Sweep collections, threshold collections inside new, held-set changes, stop/start windows '
            '(without new/new_root and without deleting roots while stopped: known finding F23), the alloc+construct route for a fifth of the '
            'allocations and dealloc_raw(destruct) for a third of the raw deletions, in a third of the arena-only histories leaf objects whose '
            'destructors allocate one or two objects (histories in which the mirror meets the territory of KF-C06-dtor-alloc — a nested collection, '
            'an allocation during the teardown sweep — are generated again; such objects are deleted before teardown), program deletes its roots and raws, teardown; '
            'in the main thread (Cello_Exit) and in worker threads (Thread_Init_Run); arena slot windows chosen so that addresses collide modulo the '
            'registry sizes; (b) Box->...->probe chains of depth 2..6 for every way of reclaiming them (forced collection, real mark, explicit del, '
            'teardown) under random address permutations (both pending orders); (c) ownership rings of 1 (a box owning itself), 2, 3, 5 boxes '
            'built with ref(), also closed at random inside (a), reclaimed by forced collection, real mark, teardown, or explicit del of one member; '
            '(d) an object whose destructor allocates 1..4 leaves deleted explicitly while 0..5 others are held (the registration inside the destructor '
            'runs a collection when few objects are registered; harmless outside a sweep); (e) everywhere: 15% of the arena objects (half or all of them in a '
            'third of the chains and rings) have destructors that also do del(NULL) and throw and catch an exception of their own (also when GC_Del runs them at thread exit), del(NULL) by the program, and mark phases that an exception leaves (the anchor\'s Mark '
            'instance reports some held objects and throws) after which the program often drops what was marked; (f) 1..5 held leaves/boxes marked by an abandoned '
            'mark phase, dropped, and reclaimed by teardown, the next real collection, the threshold collection of later registrations, a forced sweep or explicit del. '
            'non-trivial history = at least one destructor-issued del met '
            'the pending list, the registry, or an already finalised object during a sweep, or a destructor allocated, or a sweep reclaimed an object whose '
            'mark bit an abandoned mark phase had left set, or a destructor did del(NULL) while a cleared slot was on the pending list; distinct = distinct history text.')
    trusted_base = ('translate/g_life.py (regex over GC_Rem_Ptr, GC_Sweep, GC_Set, GC_Rem, GC_Del, GC_Mark (prologue), GC_Unmark, Cello_Exit, alloc_by, alloc*, dealloc*, del_by, Box_Del, Thread_Init_Run; '
                    'top-level statement reader + one regex per statement for GC_Rehash, GC_Sweep, GC_Del, GC_Resize_More/Less, Thread_Init_Run, Cello_Exit, the main macro of Cello.h: a statement with no word in the model is an ExtractError)',
                    'harness/h_life.c + lean/Driver/Life.lean (correspondence is testing): ledger hooks in probe destructors / arena dealloc / --wrap=free',
                    'the registry layout (robin-hood table) is abstracted to a duplicate-free list; slot order is a quantified parameter (C17 covers the layout)',
                    'the mark phase is a quantified parameter: any marked set (C01 covers marking); the bits an abandoned mark phase leaves set are a quantified parameter too (Op.markAbort marks); '
                    'in the OLD variant Cfg.staleMarks they persist until the next sweep (a rehash of the real table, which also clears them, is not modelled: the registry layout is abstract)',
                    'object identities are never reused within a history in the model (a C address is reused only after free)',
                    'the collector\'s own tables (entries, freelist) are a second, finite model (Cello/LifecycleMem.lean: pointer states null/live/dangling) run on the statement lists g_life.py reads from GC_Rehash, GC_Sweep, GC_Del; '
                    'which rehashes happen (GC_Ideal_Size, C17) and how events nest are quantified parameters there; the harness counts the real blocks through --wrap=calloc/realloc/free (a pending list is a block whose address was seen in gc->freelist while a destructor ran). '
                    'Thread_Init_Run / Cello_Exit / the main macro are step lists with a liveness check (collector, exception record, argument tuple); the Thread wrapper object, the TLS table and the Exception object\'s own blocks are covered by ASan only',
                    'one collector per theorem; a del issued by another thread is C13_foreign_del (Props/C13.lean)')
    assumptions = ('the program deletes an object at most once and never an object that a live Box owns; each object has at most one owner (ownership may be cyclic: rings of boxes, self-owning boxes; no raw ring members); owners do not own raw objects (known finding F28 of C05)',
                   'sole ownership (a program obligation, hypothesis hsole of C06_collect_respects_marks): what an unmarked object owns is itself unmarked, i.e. an object the program still reaches is not also owned by garbage — generated marked sets are whole ownership trees; objects reachable by the program are marked',
                   'new/new_root while the collector is stopped and del_root of a root while it is stopped are not generated: known finding F23 (KF-C06-stopped)',
                   'roots and raw objects are deleted by the program before teardown (documented obligation)',
                   'known finding KF-C06-dtor-alloc: an object whose destructor allocates is generated only where its destructor runs outside that territory (no nested collection over a non-empty pending list, none in histories that compare pending orders, no allocation during the teardown sweep); the theorems carry NoDtor ops',
                   'known finding KF-C06-dealloc-registered: dealloc(destruct(x)) is generated for raw objects only (WellFormed: dealloc only of a raw object not yet released)',
                   'known finding KF-C06-type-released-first: run-time Type objects (new(Type, …)) are generated as root or raw objects only, which the program deletes after the last instance has been released (hypothesis TypesKept of C06_exactly_once_typed / C06_types_kept_never_released_first); a Type object the collector may sweep is generated in the witness only',
                   'known finding KF-C06-dtor-raises: destructors that raise are not generated (hypothesis NoRaise; the second layer of the model is the core model for such histories by definition); the raise-aware functions (…R) are compared with the real collector on corpus/kf_c06_dtor_raises.ops only',
                   'single collector per thread; objects are not shared between threads')
    def cases(self, rng, tier, boost=1):
        primes = gc_primes()
        quick = tier == 'quick'
        cs = []
        nh = (300 if quick else 10000) * boost
        per = 15 if quick else 50
        hs = []
        for i in range(nh):
            nops = rng.choice([20, 40, 80, 120] if quick else [40, 120, 300, 600])
            stops = rng.random() < 0.25
            big = (not quick) and i % 25 == 0      # large registries: most objects stay reachable
            if big: lines, cov, _ = gen_history(rng, primes, 1500, stops=stops, maxlive=500, keep=0.97, chain_bias=0.3)
            elif not stops and i % 3 == 0:
                # objects whose destructors allocate — outside the territory of KF-C06-dtor-alloc: a history in which the
                # mirror meets a nested collection that replaces a non-empty pending list, an allocation during the
                # teardown sweep, or (pending orders compared) any nested collection is generated again
                # (all objects in the arena: the order in which a sweep releases them decides whether a destructor's
                # allocation comes before or after a `del` that resets mitems, so the real slot order is needed)
                for attempt in range(8):
                    lines, cov, sim = gen_history(rng, primes, nops, stops=False, ordered=True, maxlive=120 if quick else 300,
                                                  keep=rng.choice([0.7, 0.9]), qprob=0.3 if attempt < 7 else 0.0)
                    if not any(sim.kf.values()) and not sim.cov['nested']: break
            else:
                lines, cov, sim = gen_history(rng, primes, nops, stops=stops, maxlive=120 if quick else 300, keep=rng.choice([0.5, 0.7, 0.9]))
                if sim.kf['type_first'] or sim.kf['raised']:      # (cannot happen by construction; never emit such a history)
                    lines, cov, sim = gen_history(rng, primes, nops, stops=stops, maxlive=120 if quick else 300, tprob=0.0)
            hs.append((lines, cov))
        for i in range(0, len(hs), per):
            chunk = hs[i:i+per]
            cs.append(Case(f'rand{i//per}', [l for h, _ in chunk for l in h], meta={'hist': [(hash('\n'.join(h)), c) for h, c in chunk]}))
        # chains under address permutations
        ch = []
        nperm = (10 if quick else 120) * boost
        for depth in range(2, 7):
            for via in 'cgde':
                for how_top in 'srw':
                    if how_top == 'w' and via in 'cg': continue
                    for _ in range(nperm if depth > 2 else 2):
                        window = rng.choice([depth + 2, 16, 64, 1000])
                        slots = rng.sample(range(window), depth + 1)
                        mode = 'thread' if rng.random() < 0.3 else 'main'
                        lines, cov, _ = chain_history(rng, primes, depth, slots, how_top, via, mode,
                                                      zprob=rng.choice([0, 0, 0.5, 1.0]), abort=rng.random() < 0.25)
                        ch.append((lines, cov))
        for i in range(0, len(ch), 20):
            chunk = ch[i:i+20]
            cs.append(Case(f'chain{i//20}', [l for h, _ in chunk for l in h], meta={'hist': [(hash('\n'.join(h)), c) for h, c in chunk]}))
        # ownership rings (1 = a box owning itself) under address permutations, every way of reclaiming them
        rg = []
        for n in (1, 2, 3, 5):
            for via in 'cged':
                for _ in range((3 if quick else 40) * boost):
                    window = rng.choice([n + 2, 16, 64, 1000])
                    slots = rng.sample(range(window), n + 1)
                    hows = ['s'] * n
                    if rng.random() < 0.25: hows[rng.randrange(n)] = 'r'
                    mode = 'thread' if rng.random() < 0.35 else 'main'
                    ordered = rng.random() < 0.8
                    kinds = None if ordered else [rng.choice('bB') for _ in range(n)]
                    lines, cov, _ = ring_history(rng, primes, n, slots, hows, via, mode, ordered, kinds,
                                                 zprob=rng.choice([0, 0, 0.5, 1.0]), abort=rng.random() < 0.25)
                    rg.append((lines, cov))
        for i in range(0, len(rg), 20):
            chunk = rg[i:i+20]
            cs.append(Case(f'ring{i//20}', [l for h, _ in chunk for l in h], meta={'hist': [(hash('\n'.join(h)), c) for h, c in chunk]}))
        # mark phases left by an exception, the marked objects dropped afterwards, every way of reclaiming them (fix d8f0c4f)
        sm = []
        for via in 'egncd':
            for ntops in (1, 2, 3, 5):
                for _ in range((2 if quick else 30) * boost):
                    window = rng.choice([2 * ntops + 8, 64, 1000])
                    slots = rng.sample(range(window), 2 * ntops + 6)
                    mode = 'thread' if rng.random() < 0.3 else 'main'
                    lines, cov, _ = stale_history(rng, primes, ntops, slots, via, mode, ordered=rng.random() < 0.7)
                    sm.append((lines, cov))
        for i in range(0, len(sm), 20):
            chunk = sm[i:i+20]
            cs.append(Case(f'stale{i//20}', [l for h, _ in chunk for l in h], meta={'hist': [(hash('\n'.join(h)), c) for h, c in chunk]}))
        # allocating destructors run by an explicit deletion, with a collection started from inside the destructor
        nh = []
        for nheld in range(0, 6):
            for nchild in range(1, 5):
                for how in 'srw':
                    for _ in range((1 if quick else 6) * boost):
                        mode = 'thread' if rng.random() < 0.3 else 'main'
                        lines, cov, sim = nested_history(rng, primes, nheld, nchild, mode, how, rng.choice('dD'))
                        if not any(sim.kf.values()): nh.append((lines, cov))
        for i in range(0, len(nh), 24):
            chunk = nh[i:i+24]
            cs.append(Case(f'dtoralloc{i//24}', [l for h, _ in chunk for l in h], meta={'hist': [(hash('\n'.join(h)), c) for h, c in chunk]}))
        return cs
    def nontrivial_items(self, case, c_out, m_out):
        if 'hist' in case.meta:
            return {h for h, cov in case.meta['hist'] if _nontrivial(cov)}
        # corpus files: non-trivial if some op produced a nested finalisation (f a, f b, ...)
        return {hash('\n'.join(case.lines))} if re.search(r'ev=[^ ]*f\d+,f\d+', c_out) else set()
    def stats(self, case, c_out, m_out, acc):
        for _, cov in case.meta.get('hist', []):
            acc['histories'] = acc.get('histories', 0) + 1
            for k, v in cov.items():
                if k == 'maxdepth': acc[k] = max(acc.get(k, 0), v)
                else: acc[k] = acc.get(k, 0) + v
        for l in core.lines_with('O ', c_out):
            t = l.split()[1] if len(l.split()) > 1 else '?'
            if t == 'H':
                acc['hist_' + l.split()[2]] = acc.get('hist_' + l.split()[2], 0) + 1
                acc['hist_' + l.split()[3]] = acc.get('hist_' + l.split()[3], 0) + 1
            else: acc['op_' + t] = acc.get('op_' + t, 0) + 1
            m = re.search(r'ev=(\S*)', l)
            if m and m.group(1): acc['finalise_events'] = acc.get('finalise_events', 0) + m.group(1).count('f')
        # the collector's own tables: entry tables allocated / released (every GC_Rehash: one of each), pending lists seen / released
        for l in core.lines_with('I ', c_out):
            m = re.search(r'tables entry=(\d+)/(\d+) pending=(\d+)/(\d+) dtor_catches=(\d+)', l)
            if m:
                for k, v in zip(('entry_tables_allocated', 'entry_tables_released', 'pending_lists_seen', 'pending_lists_released', 'dtor_throw_catch'), m.groups()):
                    acc[k] = acc.get(k, 0) + int(v)

SPEC = C06()
